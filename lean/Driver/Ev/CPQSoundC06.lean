/-
The `cpq` replayer (ConcurrentPriorityQueue over the C05 heap), completed: an accepted log IS a run of ONE model.

`Driver/Ev/LockWrappedSound.lean` (`cpq_replay_prun_partial`) shows that an accepted log is a PIECEWISE run: the growth
oracle `g` of `rawParams cmp capacity g` is read from each event's snapshot, so it differs from event to event.  The pieces
are glued here, in two ways.

**Exactly** (`cpq_replay_sound`): there is ONE oracle `g` such that the log's steps are a run of
`sys (rawParams cmp capacity g)` from its initial state to exactly the replayer's final model state, with exactly the observed
invocations / responses as its history.  The protected data carry the number `n` of writer bodies executed and the oracle is
a function of `n`: along a piecewise run the mutex invariants hold (`inv_step`, which does not look at the oracle), so a
writer's snapshot is the current data (`Inv.snap`), every writer body increments `n`, no two writer bodies see the same
`n`, and read-only bodies do not depend on the oracle (`rawF_snd`).  `step_local` / `run_local`: a step / run taken with one
oracle is the same with every oracle that agrees with it on the counts passed; `prun_glue`: induction along the pieces,
prescribing the glued oracle below the current count.

**Up to the arrays' capacities, for EVERY oracle** (as for `clist`):
* `heap_step_view`: what a call of the heap does to (capacity, contents of the 1-based array) and what it answers depends
  neither on the array's capacity nor on the growth choice (the shrink never fails: `Heap.shrinkIfNecessary_ok`);
* so every `rawParams cmp capacity g` is abstracted (`LW.Abstracts`) by `hAbs = (capacity, array contents)` to the ONE
  oracle-free system `sys (absParams cmp capacity)`; `cpq_replay_abs_sound`: an accepted log is, seen through `hAbs`, a
  run of `sys (absParams cmp capacity)` from its initial state with the observed history;
* the abstraction is a lock-step copy in both directions (`LW.run_unmap`), hence `cpq_replay_any_oracle`: for every `g` the
  SAME label sequence is a run of `sys (rawParams cmp capacity g)` from its initial state, with the observed history, to a
  state that agrees with the replayer's final model state in everything but the arrays' capacities and the writer count.

Corollaries: `c06_cpq_evtrace_linearizable` (through `c06_cpq_heap_bag_linearizable`; the scenario's comparator is lawful
because `init` takes it from `Cmp.ofName`), `c06_cpq_evtrace_invariants`, `c06_cpq_evtrace_heap_wf`.
(Audited with C06: `Audit/C06.lean`.)
-/
import Driver.Ev.LockWrappedSound
import Ekit.Props.C06Heap
import Ekit.Lemmas.Comparator

namespace Driver.Ev.LW
open Ekit Ekit.Conc Ekit.Linz Ekit.Linz.LockWrapped

/-- a run of the abstracted system from an abstracted state is the image of a run of the concrete system, label by label -/
theorem run_unmap {S S' Op Ret : Type} [DecidableEq Ret] {h : S → S'} {P : Params S Op Ret} {P' : Params S' Op Ret}
    (hA : Abstracts h P P') (m : St S Op Ret) (ls : List (Lbl Op Ret)) (m'' : St S' Op Ret)
    (hr : (sys P').run (mapSt h m) ls = some m'') : ∃ m1, (sys P).run m ls = some m1 ∧ mapSt h m1 = m'' := by
  rw [run_map hA] at hr
  cases hs : (sys P).run m ls with
  | none => rw [hs] at hr; cases hr
  | some m1 => rw [hs] at hr; exact ⟨m1, rfl, Option.some.inj hr⟩

end Driver.Ev.LW

namespace Driver.Ev.CPQ
open Driver Driver.Ev.LW Ekit Ekit.Conc Ekit.Linz Ekit.Linz.LockWrapped Ekit.Lists Ekit.Cmp
open Ekit.Heap (PQ)

theorem append_vals (s : GoSlice) (ts : List Int) (g : Nat) : (s.append ts g).vals = s.vals ++ ts := by
  unfold GoSlice.append; split <;> rfl

/-- a heap and an answer, without the array's capacity -/
def view (r : PQ × Heap.Out) : Int × List Int × Heap.Out := (r.1.capacity, r.1.data.vals, r.2)

/-- what a call of the heap does to (capacity, contents of the array) and what it answers does not depend on the array's
    capacity, nor on the runtime's growth choice -/
theorem heap_step_view (cmp : Cmp) (c : Int) (v : List Int) (k k' g g' : Nat) (op : Heap.Op) :
    view (Heap.step cmp ⟨c, ⟨v, k⟩⟩ g op) = view (Heap.step cmp ⟨c, ⟨v, k'⟩⟩ g' op) := by
  cases op with
  | enqueue t =>
    simp only [Heap.step]
    have e : (⟨c, ⟨v, k'⟩⟩ : PQ).isFull = (⟨c, ⟨v, k⟩⟩ : PQ).isFull := rfl
    rw [e]
    cases (⟨c, ⟨v, k⟩⟩ : PQ).isFull with
    | true => rfl
    | false =>
      simp only [Bool.false_eq_true, if_false]
      have h1 := append_vals ⟨v, k⟩ [t] g
      have h2 := append_vals ⟨v, k'⟩ [t] g'
      simp only at h1 h2
      rw [h1, h2]
      cases Heap.siftUp cmp (v ++ [t]).length (v ++ [t]) ((v ++ [t]).length - 1) with
      | none => simp only [view, h1, h2]
      | some d => rfl
  | dequeue =>
    simp only [Heap.step]
    have e : (⟨c, ⟨v, k'⟩⟩ : PQ).isEmpty = (⟨c, ⟨v, k⟩⟩ : PQ).isEmpty := rfl
    rw [e]
    cases (⟨c, ⟨v, k⟩⟩ : PQ).isEmpty with
    | true => rfl
    | false =>
      simp only [Bool.false_eq_true, if_false]
      cases h1 : v[1]? with
      | none => rfl
      | some pop =>
        cases h2 : v[v.length - 1]? with
        | none => rfl
        | some last =>
          simp only
          obtain ⟨s, hs, hsv, _⟩ := Heap.shrinkIfNecessary_ok ⟨c, ⟨(v.set 1 last).take (v.length - 1), k⟩⟩ g
          obtain ⟨s', hs', hsv', _⟩ := Heap.shrinkIfNecessary_ok ⟨c, ⟨(v.set 1 last).take (v.length - 1), k'⟩⟩ g'
          rw [hs, hs']
          simp only at hsv hsv'
          simp only [hsv, hsv']
          cases Heap.heapify cmp ((v.set 1 last).take (v.length - 1)).length ((v.set 1 last).take (v.length - 1))
              (((v.set 1 last).take (v.length - 1)).length - 1) 1 with
          | none => simp only [view, hsv, hsv']
          | some d => rfl
  | peek =>
    simp only [Heap.step]
    have e : (⟨c, ⟨v, k'⟩⟩ : PQ).isEmpty = (⟨c, ⟨v, k⟩⟩ : PQ).isEmpty := rfl
    rw [e]
    cases (⟨c, ⟨v, k⟩⟩ : PQ).isEmpty with
    | true => rfl
    | false =>
      simp only [Bool.false_eq_true, if_false]
      cases v[1]? <;> rfl
  | len => rfl
  | cap => rfl
  | boundless => rfl


/-- the protected data without what the growth oracle decides: (capacity, contents of the array) -/
def hAbs (x : HS) : Int × List Int := (x.1.capacity, x.1.data.vals)

def unview (w : Int × List Int × Heap.Out) : (Int × List Int) × Heap.Out := ((w.1, w.2.1), w.2.2)

/-- the oracle-free system: the bodies are the heap's calls on an array of capacity 0 with growth choice 0 (by
    `heap_step_view` any other choice gives the same) -/
def absParams (cmp : Cmp) (capacity : Int) : Params (Int × List Int) Heap.Op Heap.Out where
  init := hAbs (PQ.new capacity, 0)
  f y op := unview (view (Heap.step cmp ⟨y.1, ⟨y.2, 0⟩⟩ 0 op))
  style := rawStyle

theorem abstracts (cmp : Cmp) (capacity : Int) (g : Nat → PQ → Heap.Op → Nat) :
    Abstracts hAbs (rawParams cmp capacity g) (absParams cmp capacity) where
  style _ := rfl
  f x op := by
    obtain ⟨⟨c, ⟨v, k⟩⟩, n⟩ := x
    show unview (view (Heap.step cmp ⟨c, ⟨v, 0⟩⟩ 0 op)) = _
    rw [heap_step_view cmp c v 0 k 0 (g n ⟨c, ⟨v, k⟩⟩ op) op]
    rfl

/-- **an accepted `cpq` log is, seen through `hAbs`, a run of ONE model** (`sys (absParams cmp capacity)`) from its initial
    state with exactly the observed invocations and responses as its history -/
theorem cpq_replay_abs_sound (args : List String) (s0 : State) (hinit : init args = .ok s0)
    (es : List Entry) (s' : State) (h : replay s0 es = .ok s') :
    ∃ ls, (sys (absParams s0.cmp s0.capacity)).run (sys (absParams s0.cmp s0.capacity)).init ls =
            some (mapSt hAbs s'.lw.m) ∧
          (sys (absParams s0.cmp s0.capacity)).history ls = es.filterMap Entry.ev := by
  obtain ⟨h0, hp⟩ := cpq_replay_prun_partial args s0 hinit es s' h
  have := hp.map (h := hAbs) (P' := absParams s0.cmp s0.capacity)
    (fun P hF => by obtain ⟨g, rfl⟩ := hF; exact abstracts _ _ g)
  rw [h0] at this
  exact this

/-- **an accepted `cpq` log is a run of the verified model, whatever the growth oracle**: for every `g` there is a run of
    `sys (rawParams cmp capacity g)` from its initial state, with exactly the observed invocations and responses as its
    history, to a state `m1` that agrees with the replayer's final model state up to `hAbs` (lock state, program counters,
    heap capacity and array contents — everything but the arrays' capacities and the writer count) -/
theorem cpq_replay_any_oracle (args : List String) (s0 : State) (hinit : init args = .ok s0)
    (es : List Entry) (s' : State) (h : replay s0 es = .ok s') (g : Nat → PQ → Heap.Op → Nat) :
    ∃ ls m1, (sys (rawParams s0.cmp s0.capacity g)).run (sys (rawParams s0.cmp s0.capacity g)).init ls = some m1 ∧
          mapSt hAbs m1 = mapSt hAbs s'.lw.m ∧
          (sys (rawParams s0.cmp s0.capacity g)).history ls = es.filterMap Entry.ev := by
  obtain ⟨ls, hr, ho⟩ := cpq_replay_abs_sound args s0 hinit es s' h
  obtain ⟨m1, h1, h2⟩ := run_unmap (abstracts s0.cmp s0.capacity g) (sys (rawParams s0.cmp s0.capacity g)).init ls _ hr
  exact ⟨ls, m1, h1, h2, ho⟩

/-! ### the exact gluing -/

abbrev Oracle := Nat → PQ → Heap.Op → Nat
abbrev MSt := St HS Heap.Op Heap.Out

section
variable (cmp : Cmp) (capacity : Int)

theorem inv_transfer {g g' : Oracle} {s : MSt} (h : Inv (rawParams cmp capacity g) s) :
    Inv (rawParams cmp capacity g') s :=
  ⟨h.wr, h.exW, h.exU, h.rd, h.snap, h.dirt, h.nocrash⟩

def isOut : Pc HS Heap.Op Heap.Out → Bool
  | .out _ _ => true
  | _ => false

/-- what holds along a piecewise run: the mutex invariants, and nobody is at `out` (no method of this container is a
    snapshot reader) -/
def J (s : MSt) : Prop := Inv (rawParams cmp capacity fun _ _ _ => 0) s ∧ ∀ t, isOut (s.pc t) = false

theorem rawStyle_not_late (op : Heap.Op) : (rawStyle op).late = false := by cases op <;> rfl

/-- the answer of a body does not depend on the oracle -/
theorem rawF_snd (g g' : Oracle) (x : HS) (op : Heap.Op) : (rawF cmp g x op).2 = (rawF cmp g' x op).2 := by
  obtain ⟨⟨c, ⟨v, k⟩⟩, n⟩ := x
  have := heap_step_view cmp c v k k (g n ⟨c, ⟨v, k⟩⟩ op) (g' n ⟨c, ⟨v, k⟩⟩ op) op
  exact congrArg (fun w => w.2.2) this

theorem noOut_upd {pc : Nat → Pc HS Heap.Op Heap.Out} (h : ∀ t, isOut (pc t) = false) (t0 : Nat)
    {p : Pc HS Heap.Op Heap.Out} (hp : isOut p = false) : ∀ t, isOut (upd pc t0 p t) = false := by
  intro t
  by_cases ht : t = t0
  · simp [upd, ht, hp]
  · simp [upd, ht, h t]

/-- one step taken with oracle `g1` is the same step with any oracle `g` that agrees with `g1` at the current writer count —
    and the agreement is needed only if the step is a writer body (which increments the count) -/
theorem step_local {g g1 : Oracle} {s s2 : MSt} {l : Lbl Heap.Op Heap.Out} (hJ : J cmp capacity s)
    (hs : step (rawParams cmp capacity g1) s l = some s2)
    (hg : s2.data.2 ≠ s.data.2 → g s.data.2 = g1 s.data.2) :
    step (rawParams cmp capacity g) s l = some s2 ∧ J cmp capacity s2 ∧ s.data.2 ≤ s2.data.2 := by
  have hinv : Inv (rawParams cmp capacity fun _ _ _ => 0) s2 :=
    inv_transfer cmp capacity (inv_step (rawParams cmp capacity g1) s l s2 (inv_transfer cmp capacity hJ.1) hs)
  cases l with
  | call t op =>
    simp only [step] at hs ⊢
    cases hpc : s.pc t <;> simp only [hpc] at hs ⊢ <;> try contradiction
    simp only [Option.some.injEq] at hs; subst hs
    exact ⟨rfl, ⟨hinv, noOut_upd hJ.2 t rfl⟩, Nat.le_refl _⟩
  | ret t r =>
    simp only [step] at hs ⊢
    cases hpc : s.pc t <;> simp only [hpc] at hs ⊢ <;> try contradiction
    rename_i r'
    by_cases hr : r = r'
    · simp only [hr, if_true, Option.some.injEq] at hs ⊢; subst hs
      exact ⟨rfl, ⟨hinv, noOut_upd hJ.2 t rfl⟩, Nat.le_refl _⟩
    · simp [hr] at hs
  | tau t =>
    have hst : ∀ g' op, (rawParams cmp capacity g').style op = rawStyle op := fun _ _ => rfl
    simp only [step] at hs ⊢
    cases hpc : s.pc t with
    | idle => simp [hpc] at hs
    | ret r => simp [hpc] at hs
    | crash => simp [hpc] at hs
    | out op sn => have := hJ.2 t; simp [hpc, isOut] at this
    | want op =>
      simp only [hpc, hst] at hs ⊢
      refine ⟨hs, ?_⟩
      split at hs <;> split at hs <;> first
        | (simp only [Option.some.injEq] at hs; subst hs
           exact ⟨⟨hinv, noOut_upd hJ.2 t rfl⟩, Nat.le_refl _⟩)
        | cases hs
    | held op =>
      simp only [hpc, hst] at hs ⊢
      refine ⟨hs, ?_⟩
      split at hs <;>
        (simp only [Option.some.injEq] at hs; subst hs
         exact ⟨⟨hinv, noOut_upd hJ.2 t rfl⟩, Nat.le_refl _⟩)
    | fin op r =>
      simp only [hpc, hst] at hs ⊢
      refine ⟨hs, ?_⟩
      split at hs <;>
        (simp only [Option.some.injEq] at hs; subst hs
         exact ⟨⟨hinv, noOut_upd hJ.2 t rfl⟩, Nat.le_refl _⟩)
    | mid op sn =>
      have hsn : sn = s.data := hJ.1.snap t op sn hpc
      simp only [hpc, hst, rawStyle_not_late, Bool.false_eq_true, if_false] at hs ⊢
      by_cases hro : (rawStyle op).readOnly = true
      · simp only [hro, if_true] at hs ⊢
        have hf : ((rawParams cmp capacity g).f sn op).2 = ((rawParams cmp capacity g1).f sn op).2 :=
          rawF_snd cmp g g1 sn op
        rw [hf]
        refine ⟨hs, ?_⟩
        simp only [Option.some.injEq] at hs; subst hs
        exact ⟨⟨hinv, noOut_upd hJ.2 t rfl⟩, Nat.le_refl _⟩
      · simp only [hro, Bool.false_eq_true, if_false] at hs ⊢
        have hd : s2.data.2 = s.data.2 + 1 := by
          simp only [Option.some.injEq] at hs; subst hs
          subst hsn
          show (rawF cmp g1 s.data op).1.2 = _
          simp only [rawF, hro, Bool.false_eq_true, if_false]
        have hgg := hg (by omega)
        have hf : (rawParams cmp capacity g).f sn op = (rawParams cmp capacity g1).f sn op := by
          subst hsn
          show rawF cmp g s.data op = rawF cmp g1 s.data op
          simp only [rawF, hgg]
        rw [hf]
        refine ⟨hs, ?_, by omega⟩
        simp only [Option.some.injEq] at hs; subst hs
        exact ⟨hinv, noOut_upd hJ.2 t rfl⟩

/-- a run taken with oracle `g1` is the same run with any oracle that agrees with `g1` on the writer counts the run passes -/
theorem run_local {g g1 : Oracle} : ∀ (ls : List (Lbl Heap.Op Heap.Out)) (s s' : MSt), J cmp capacity s →
    (sys (rawParams cmp capacity g1)).run s ls = some s' →
    (∀ n, s.data.2 ≤ n → n < s'.data.2 → g n = g1 n) →
    (sys (rawParams cmp capacity g)).run s ls = some s' ∧ J cmp capacity s' ∧ s.data.2 ≤ s'.data.2
  | [], s, s', hJ, hr, _ => by
    cases hr; exact ⟨rfl, hJ, Nat.le_refl _⟩
  | l :: ls, s, s', hJ, hr, hg => by
    rw [LW.run_cons] at hr ⊢
    cases hs : step (rawParams cmp capacity g1) s l with
    | none =>
      have : (sys (rawParams cmp capacity g1)).step s l = none := hs
      rw [this] at hr; cases hr
    | some s2 =>
      have e1 : (sys (rawParams cmp capacity g1)).step s l = some s2 := hs
      rw [e1] at hr
      have hr2 : (sys (rawParams cmp capacity g1)).run s2 ls = some s' := hr
      -- first with `g1` itself: the invariant and the monotonicity of the count
      obtain ⟨_, hJ2, hle⟩ := step_local cmp capacity (g := g1) hJ hs (fun _ => rfl)
      obtain ⟨_, _, hle2⟩ := run_local (g := g1) ls s2 s' hJ2 hr2 (fun _ _ _ => rfl)
      obtain ⟨hs', _, _⟩ := step_local cmp capacity (g := g) hJ hs
        (fun hne => hg _ (Nat.le_refl _) (by omega))
      obtain ⟨hr', hJ', _⟩ := run_local (g := g) ls s2 s' hJ2 hr2 (fun n h1 h2 => hg n (by omega) h2)
      have e2 : (sys (rawParams cmp capacity g)).step s l = some s2 := hs'
      rw [e2]
      exact ⟨hr', hJ', by omega⟩

/-- **the pieces glued exactly**: a piecewise run over the family `{rawParams cmp capacity g | g}` from a state satisfying
    the invariants is a run of ONE member — whose oracle may moreover be prescribed below the current writer count -/
theorem prun_glue {m m' : MSt} {evs : List (Ev Heap.Op Heap.Out)} (hp : PRun (Fam cmp capacity) m evs m') :
    J cmp capacity m → ∀ g0 : Oracle, ∃ g : Oracle, (∀ n, n < m.data.2 → g n = g0 n) ∧
      ∃ ls, (sys (rawParams cmp capacity g)).run m ls = some m' ∧ (sys (rawParams cmp capacity g)).history ls = evs := by
  induction hp with
  | nil m => intro _ g0; exact ⟨g0, fun _ _ => rfl, [], rfl, rfl⟩
  | @seg Q m m1 m' ls evs hF hr _ ih =>
    intro hJ g0
    obtain ⟨g1, rfl⟩ := hF
    obtain ⟨_, hJ1, hle⟩ := run_local cmp capacity (g := g1) ls m m1 hJ hr (fun _ _ _ => rfl)
    obtain ⟨g, hag, l2, r2, o2⟩ := ih hJ1 (fun n => if n < m.data.2 then g0 n else g1 n)
    refine ⟨g, ?_, ls ++ l2, ?_, ?_⟩
    · intro n hn
      rw [hag n (by omega), if_pos hn]
    · obtain ⟨hr', _, _⟩ := run_local cmp capacity (g := g) ls m m1 hJ hr
        (fun n h1 h2 => by rw [hag n h2, if_neg (by omega)])
      rw [System.run_append, hr']; exact r2
    · simp only [ObjSystem.history, List.filterMap_append] at *
      rw [o2]; rfl

/-- **an accepted `cpq` log is a run of the verified model**: there is ONE growth oracle `g` for which the log's steps are
    a run of `sys (rawParams cmp capacity g)` (`cmp`, `capacity`: the scenario's) from its initial state to exactly the
    replayer's final model state, with exactly the observed invocations and responses as its history -/
theorem cpq_replay_sound (args : List String) (s0 : State) (hinit : init args = .ok s0)
    (es : List Entry) (s' : State) (h : replay s0 es = .ok s') :
    ∃ (g : Oracle) (ls : List (Lbl Heap.Op Heap.Out)),
      (sys (rawParams s0.cmp s0.capacity g)).run (sys (rawParams s0.cmp s0.capacity g)).init ls = some s'.lw.m ∧
      (sys (rawParams s0.cmp s0.capacity g)).history ls = es.filterMap Entry.ev := by
  obtain ⟨h0, hp⟩ := cpq_replay_prun_partial args s0 hinit es s' h
  have hJ : J s0.cmp s0.capacity s0.lw.m := by
    rw [h0]
    exact ⟨LockWrapped.Inv.init _, fun _ => rfl⟩
  obtain ⟨g, _, ls, hr, ho⟩ := prun_glue s0.cmp s0.capacity hp hJ (fun _ _ _ => 0)
  rw [h0] at hr
  exact ⟨g, ls, hr, ho⟩

theorem cpq_replay_reachable (args : List String) (s0 : State) (hinit : init args = .ok s0)
    (es : List Entry) (s' : State) (h : replay s0 es = .ok s') :
    ∃ g : Oracle, (sys (rawParams s0.cmp s0.capacity g)).Reachable s'.lw.m := by
  obtain ⟨g, ls, hr, _⟩ := cpq_replay_sound args s0 hinit es s' h
  exact ⟨g, System.reachable_of_run _ ls System.Reachable.init hr⟩

end

/-! ### corollaries through the C06 / C05 theorems -/

/-- the scenario's comparator is one of the named, lawful ones -/
theorem init_lawful {args : List String} {s0 : State} (hinit : init args = .ok s0) : Lawful s0.cmp := by
  unfold init at hinit
  split at hinit
  · rename_i c cmp _ hc
    cases hinit
    cases hn : argStr args "cmp" with
    | none => rw [hn] at hc; cases hc
    | some n => rw [hn] at hc; exact ofName_lawful hc
  · cases hinit

open Ekit.Props.C06 in
/-- **the call history of an accepted real execution of ConcurrentPriorityQueue is linearizable** w.r.t. C05's
    bag-with-capacity specification under the scenario's comparator: Enqueue fails exactly at capacity, Dequeue / Peek answer
    a minimum or "empty" exactly on the empty bag, Len / Cap report the bag — and no call panics -/
theorem c06_cpq_evtrace_linearizable (args : List String) (s0 : State) (hinit : init args = .ok s0)
    (es : List Entry) (s' : State) (h : replay s0 es = .ok s') :
    Linearizable (bagSpec s0.cmp s0.capacity) (es.filterMap Entry.ev) := by
  obtain ⟨g, ls, hr, ho⟩ := cpq_replay_sound args s0 hinit es s' h
  rw [← ho]
  exact c06_cpq_heap_bag_linearizable (init_lawful hinit) s0.capacity g ls s'.lw.m hr

/-- **the model state the replay ends in satisfies the mutex invariants** (writer excludes everybody, reader count, a body
    between read and write has seen the current data, no torn read): it is a reachable state of the model.  (The invariants
    do not mention the oracle; they are stated for the constant one.) -/
theorem c06_cpq_evtrace_invariants (args : List String) (s0 : State) (hinit : init args = .ok s0)
    (es : List Entry) (s' : State) (h : replay s0 es = .ok s') :
    Inv (rawParams s0.cmp s0.capacity fun _ _ _ => 0) s'.lw.m := by
  obtain ⟨g, hr⟩ := cpq_replay_reachable args s0 hinit es s' h
  exact inv_transfer _ _ (Ekit.Props.C06.c06_lockWrapped_invariants _ _ hr)

/-- **the heap the replay ends with is well formed** (slot 0, heap order under the comparator, capacity bookkeeping incl.
    the array capacity of a bounded queue), and so is every snapshot a body is working from -/
theorem c06_cpq_evtrace_heap_wf (args : List String) (s0 : State) (hinit : init args = .ok s0)
    (es : List Entry) (s' : State) (h : replay s0 es = .ok s') :
    Heap.WF s0.cmp s'.lw.m.data.1 ∧
    ∀ t op sn, (s'.lw.m.pc t = .mid op sn ∨ s'.lw.m.pc t = .out op sn) → Heap.WF s0.cmp sn.1 := by
  obtain ⟨g, hr⟩ := cpq_replay_reachable args s0 hinit es s' h
  exact LockWrapped.reachable_inv (rawParams s0.cmp s0.capacity g) (fun x => Heap.WF s0.cmp x.1)
    (Heap.c05_pq_new_wf s0.cmp s0.capacity) (fun x op hx => Heap.c05_pq_step_wf (init_lawful hinit) hx _ op) s'.lw.m hr

/-- non-vacuity: lines of a real trace (capacity 1, natural order: Enqueue 2, Len, Dequeue), EVALUATED with the compiled
    replayer (`#guard`; the replayer's string parsers do not reduce in the kernel) -/
def demoLog : List Entry :=
  [⟨2, "inv", ["enq", "2"], "-"⟩,
   ⟨2, "ConcurrentPriorityQueue_Enqueue:Lock(m)", [], "-"⟩,
   ⟨2, "ConcurrentPriorityQueue_Enqueue:Unlock(m)", [], "data=0/2,cap=1,scap=2"⟩,
   ⟨2, "res", ["ok"], "-"⟩,
   ⟨2, "inv", ["len"], "-"⟩,
   ⟨2, "ConcurrentPriorityQueue_Len:RLock(m)", [], "-"⟩,
   ⟨2, "ConcurrentPriorityQueue_Len:RUnlock(m)", [], "data=0/2,cap=1,scap=2"⟩,
   ⟨2, "res", ["n", "1"], "-"⟩,
   ⟨2, "inv", ["deq"], "-"⟩,
   ⟨2, "ConcurrentPriorityQueue_Dequeue:Lock(m)", [], "-"⟩,
   ⟨2, "ConcurrentPriorityQueue_Dequeue:Unlock(m)", [], "data=0,cap=1,scap=2"⟩,
   ⟨2, "res", ["val", "2"], "-"⟩]

#guard (match (init ["cap=1", "cmp=nat"]).bind (fun s0 => replay s0 demoLog) with
    | .ok s => s.lw.m.data.1.data.vals == [0] && s.lw.m.data.2 == 2 && (atEnd s).isNone
    | .error _ => false)
#guard demoLog.filterMap Entry.ev ==
  [.inv 2 (.enqueue 2), .res 2 (.ok .unit), .inv 2 .len, .res 2 (.ok (.int 1)), .inv 2 .dequeue, .res 2 (.ok (.val 2))]

end Driver.Ev.CPQ
