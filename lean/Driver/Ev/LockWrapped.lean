/-
Event replayers of the lock-wrapped containers (targets `clist`, `cow`, `cpq`) on the generic model
`Ekit.Linz.LockWrapped` with the instances of `Ekit/Model/LockWrappedInst.lean`.

Per call the model does  want —Lock/RLock→ held —read→ mid —write→ fin —Unlock/RUnlock→ ret   (writers, shared readers)
                    or   want —Lock→ held —read→ mid —Unlock→ out —compute→ ret                 (snapshot readers, `cowR`).
LOGGED synchronisation actions: the step at `want` (the acquisition, logged right after it returned: it may appear late,
never before the release that enabled it), the step at `fin`, and the step at `mid` of a snapshot reader (the releases,
atomic with their log entry, carrying a white-box snapshot of the protected data taken inside the critical section).
SILENT: `held` (read), `mid` of every other style (write / compute the answer) — both inside the thread's critical
section — and `out` (the snapshot reader computes its answer from its private snapshot).

Checked: the kind of lock action (Lock vs RLock, Unlock vs RUnlock) is the one the model's style table says for this
call; the model's step is ENABLED (no Lock while the model has a writer or readers, no RLock while it has a writer);
no torn read (`crash`); the snapshot equals the model's data at every release; the call returns the model's answer;
one and the same mutex is used throughout.

`ArrayList` growth (`append` beyond the capacity) is the Go runtime's choice — the model's oracle `grow`: it is read from
the snapshot at the release (the new capacity) and thereby checked (`cap` of the model = `cap` of the snapshot).
-/
import Driver.Ev.Core
import Ekit.Model.LockWrappedInst
import Ekit.Model.Heap

namespace Driver.Ev.LW
open Driver Ekit Ekit.Conc Ekit.Linz Ekit.Linz.LockWrapped Ekit.Lists

structure State (S Op Ret : Type) where
  m : St S Op Ret
  live : List Nat
  lock : Option String        -- the name of the mutex (the first one seen)

variable {S Op Ret : Type} [DecidableEq Ret]

def pcStr : Pc S Op Ret → String
  | .idle => "idle"
  | .want _ => "want (about to Lock/RLock)"
  | .held _ => "held (about to read)"
  | .mid _ _ => "mid (has read)"
  | .fin _ _ => "fin (about to Unlock/RUnlock)"
  | .out _ _ => "out (unlocked, computing from the snapshot)"
  | .ret _ => "ret"
  | .crash => "crash (torn read)"

/-- program counters whose next step is not a logged synchronisation action -/
def silent (P : Params S Op Ret) : Pc S Op Ret → Bool
  | .held _ => true
  | .mid op _ => !(P.style op).late
  | .out _ _ => true
  | _ => false

def tauM (P : Params S Op Ret) (m : St S Op Ret) (t : Nat) (what : String) : Except String (St S Op Ret) :=
  match step P m (.tau t) with
  | some m' =>
    match m'.pc t with
    | .crash => .error s!"model: {what} of thread {t} is a torn read (the data are being modified)"
    | _ => .ok m'
  | none => .error s!"model: {what} by thread {t} is not enabled in the model's state (pc {pcStr (m.pc t)}, writer {m.w}, readers {m.rc})"

/-- advance `t` over silent steps -/
def advance (P : Params S Op Ret) (m : St S Op Ret) (t : Nat) : Nat → Except String (St S Op Ret)
  | 0 => .error "model: too many silent steps"
  | fuel + 1 =>
    if silent P (m.pc t) then do
      let m' ← tauM P m t "the body"
      advance P m' t fuel
    else .ok m

/-- "RLock(lock)" → ("RLock", "lock") -/
def splitAct (act : String) : String × String :=
  match act.splitOn "(" with
  | [k, tg] => (k, (tg.dropEnd 1).toString)
  | _ => (act, "")

def sameLock (s : State S Op Ret) (tg : String) : Except String (State S Op Ret) :=
  match s.lock with
  | none => .ok { s with lock := some tg }
  | some l => if l = tg then .ok s else .error s!"a second mutex {tg} is used (so far: {l})"

/-- one logged lock action; `P` may depend on the event (growth oracle), `check` compares a snapshot with the data -/
def sync (P : Params S Op Ret) (check : S → String → Except String Unit)
    (s : State S Op Ret) (t : Nat) (fn act res : String) : Except String (State S Op Ret) := do
  let m ← advance P s.m t 100
  let (k, tg) := splitAct act
  let s ← sameLock s tg
  let bad : Except String (State S Op Ret) :=
    .error s!"thread {t} logged {fn}:{act} where the model is at {pcStr (m.pc t)}"
  match m.pc t with
  | .want op =>
    let sh := (P.style op).shared
    if k = "RLock" ∧ sh ∨ k = "Lock" ∧ !sh then do
      let m' ← tauM P m t act
      pure { s with m := m' }
    else if k = "RLock" ∨ k = "Lock" then
      .error s!"thread {t}: {fn} takes {k}; the model's call takes {if sh then "RLock" else "Lock"}"
    else bad
  | .fin op _ =>
    let sh := (P.style op).shared
    if k = "RUnlock" ∧ sh ∨ k = "Unlock" ∧ !sh then do
      check m.data res
      let m' ← tauM P m t act
      pure { s with m := m' }
    else bad
  | .mid op _ =>
    -- not silent: a snapshot reader releasing the mutex
    if k = "Unlock" ∧ (P.style op).late then do
      check m.data res
      let m' ← tauM P m t act
      pure { s with m := m' }
    else bad
  | _ => bad

def inv (P : Params S Op Ret) (s : State S Op Ret) (t : Nat) (op : Op) : Except String (State S Op Ret) :=
  match step P s.m (.call t op) with
  | some m' => .ok { s with m := m', live := t :: s.live }
  | none => .error s!"model: thread {t} starts a call while the model has it at {pcStr (s.m.pc t)}"

def res [Repr Ret] (P : Params S Op Ret) (s : State S Op Ret) (t : Nat) (r : Ret) : Except String (State S Op Ret) := do
  let m ← advance P s.m t 100
  match step P m (.ret t r) with
  | some m' => pure { s with m := m', live := s.live.erase t }
  | none =>
    match m.pc t with
    | .ret r' => .error s!"thread {t} returned {repr r}, the model's call returns {repr r'}"
    | p => .error s!"thread {t} returned {repr r} where the model is at {pcStr p}"

def atEnd (s : State S Op Ret) : Option String :=
  if !s.live.isEmpty then some "calls still in flight in the model at the end of the scenario"
  else if s.m.w ∨ s.m.rc ≠ 0 then some "the model's mutex is still held at the end of the scenario"
  else none

def start (P : Params S Op Ret) : State S Op Ret := ⟨(sys P).init, [], none⟩

/-! ### list operations and answers (the tokens of the linz harness) -/

def sOp : List String → Option SOp
  | ["get", i] => i.toInt?.map .get
  | ["append", ts] => (parseInts ts).map .append
  | ["add", i, t] => do pure (.add (← i.toInt?) (← t.toInt?))
  | ["set", i, t] => do pure (.set (← i.toInt?) (← t.toInt?))
  | ["delete", i] => i.toInt?.map .delete
  | ["len"] => some .len
  | ["asslice"] => some .asSlice
  | ["range"] => some .range
  | _ => none

def sRet : List String → Option SRet
  | [r] =>
    match r.splitOn ":" with
    | ["ok"] => some (.ok .unit)
    | ["v", x] => x.toInt?.map fun v => .ok (.val v)
    | ["n", k] => k.toInt?.map fun v => .ok (.int v)
    | ["s", vs] => (parseInts vs).map fun l => .ok (.slice l)
    | ["err", "idx", l, i] => do pure (.err (.idx (← l.toInt?) (← i.toInt?)))
    | _ => none
  | _ => none

/-- `vals=1/2/3,cap=4` against contents and capacity -/
def checkSlice (what : String) (vals : List Int) (cap : Nat) (snap : String) : Except String Unit :=
  if snap = "na" ∨ snap = "-" ∨ snap = "" then .ok () else
  match (snapField snap "vals").bind parseSlash, (snapField snap "cap").bind (·.toNat?) with
  | some v, some c =>
    if v = vals ∧ c = cap then .ok ()
    else .error s!"snapshot inside the critical section ({snap}) differs from the model's {what}: vals={renderInts vals} cap={cap}"
  | _, _ => .error s!"unreadable snapshot {snap}"

end Driver.Ev.LW

/-! ### ConcurrentList over ArrayList / LinkedList -/
namespace Driver.Ev.CList
open Driver Driver.Ev.LW Ekit Ekit.Linz Ekit.Linz.LockWrapped Ekit.Lists

abbrev State := LW.State AnyList SOp SRet

/-- the growth oracle of this event: the capacity the snapshot shows (no snapshot: the needed length, nothing is compared) -/
def params (snap : String) : Params AnyList SOp SRet :=
  listParams (.linked []) fun x op =>
    match (snapField snap "cap").bind (·.toNat?) with
    | some c => c
    | none => x.vals.length + (match op with | .append ts => ts.length | _ => 1)

def check (x : AnyList) (snap : String) : Except String Unit := checkSlice "list" x.vals x.cap snap

def init (args : List String) : Except String State :=
  match argStr args "base", argInt args "cap" with
  | some "linked", _ => .ok (start (listParams (.linked []) fun _ _ => 0))
  | some "array", some c =>
    if c < 0 then .error "cap < 0" else .ok (start (listParams (.array (ArrayList.ofSlice [] c.toNat)) fun _ _ => 0))
  | _, _ => .error "base=array|linked cap= missing"

def invL (s : State) (t : Nat) (args : List String) : Except String State :=
  match sOp args with
  | some o => inv (params "") s t o
  | none => .error "unreadable call"
def resL (s : State) (t : Nat) (args : List String) : Except String State :=
  match sRet args with
  | some r => res (params "") s t r
  | none => .error s!"thread {t} returned {" ".intercalate args}: not an answer of the model"
def sync (s : State) (t : Nat) (fn act res : String) : Except String State :=
  LW.sync (params res) check s t fn act res
def atEnd (s : State) : Option String := LW.atEnd s

end Driver.Ev.CList

/-! ### CopyOnWriteArrayList -/
namespace Driver.Ev.Cow
open Driver Driver.Ev.LW Ekit Ekit.Linz Ekit.Linz.LockWrapped Ekit.Lists

abbrev State := LW.State CowList SOp SRet

def params : Params CowList SOp SRet := cowParams CowList.new

def check (a : CowList) (snap : String) : Except String Unit := checkSlice "published array" a.s.vals a.s.cap snap

def init (_ : List String) : Except String State := .ok (start params)
def invL (s : State) (t : Nat) (args : List String) : Except String State :=
  match sOp args with
  | some o => inv params s t o
  | none => .error "unreadable call"
def resL (s : State) (t : Nat) (args : List String) : Except String State :=
  match sRet args with
  | some r => res params s t r
  | none => .error s!"thread {t} returned {" ".intercalate args}: not an answer of the model"
def sync (s : State) (t : Nat) (fn act res : String) : Except String State :=
  LW.sync params check s t fn act res
def atEnd (s : State) : Option String := LW.atEnd s

end Driver.Ev.Cow

/-! ### ConcurrentPriorityQueue over the heap model of C05 (elements `Int`)

The instance the theorems `c06_cpq_heap_*` are about is `rawParams` of `Ekit/Props/C06Heap.lean`: the generic
`LockWrapped.step` with the raw `Heap.step` of C05 as the body.  The driver must not import a `Props` file (they contain
the regenerated skeleton equalities, which stop compiling on an edited tree — the driver has to survive that), so
`HS`, `rawStyle`, `rawF`, `rawParams` are repeated here VERBATIM (three definitions of glue; the models proper,
`LockWrapped.step` and `Heap.step`, are imported); `Audit/C06.lean` checks `Driver.Ev.CPQ.rawParams = Ekit.Props.C06.rawParams`
by `rfl`. -/
namespace Driver.Ev.CPQ
open Driver Driver.Ev.LW Ekit Ekit.Linz Ekit.Linz.LockWrapped Ekit.Lists Ekit.Cmp
open Ekit.Heap (PQ)

abbrev HS := PQ × Nat

def rawStyle : Heap.Op → Style
  | .enqueue _ => .inplaceW
  | .dequeue => .inplaceW
  | _ => .sharedR

def rawF (cmp : Cmp) (grow : Nat → PQ → Heap.Op → Nat) (x : HS) (op : Heap.Op) : HS × Heap.Out :=
  let r := Heap.step cmp x.1 (grow x.2 x.1 op) op
  ((r.1, if (rawStyle op).readOnly then x.2 else x.2 + 1), r.2)

def rawParams (cmp : Cmp) (capacity : Int) (grow : Nat → PQ → Heap.Op → Nat) : Params HS Heap.Op Heap.Out where
  init := (PQ.new capacity, 0)
  f := rawF cmp grow
  style := rawStyle

structure State where
  cmp : Ekit.Cmp.Cmp
  capacity : Int
  lw : LW.State HS Heap.Op Heap.Out

/-- the growth oracle of this event: the capacity of the array the snapshot shows (no snapshot: room for one more) -/
def params (s : State) (snap : String) : Params HS Heap.Op Heap.Out :=
  rawParams s.cmp s.capacity fun _ q _ =>
    match (snapField snap "scap").bind (·.toNat?) with
    | some c => c
    | none => q.data.vals.length + 1

def check (x : HS) (snap : String) : Except String Unit :=
  if snap = "na" ∨ snap = "-" ∨ snap = "" then .ok () else
  match (snapField snap "data").bind parseSlash, (snapField snap "cap").bind (·.toInt?), (snapField snap "scap").bind (·.toInt?) with
  | some d, some c, some sc =>
    if sc < 0 ∨ d = [] then .ok ()      -- black-box stubs: not observable
    else if d = x.1.data.vals ∧ c = x.1.capacity ∧ sc = x.1.data.cap then .ok ()
    else .error s!"snapshot inside the critical section ({snap}) differs from the model's heap: data={renderInts x.1.data.vals} capacity={x.1.capacity} array capacity={x.1.data.cap}"
  | _, _, _ => .error s!"unreadable snapshot {snap}"

def hOp : List String → Option Heap.Op
  | ["enq", v] => v.toInt?.map .enqueue
  | ["deq"] => some .dequeue
  | ["peek"] => some .peek
  | ["len"] => some .len
  | ["cap"] => some .cap
  | _ => none

def hRet : List String → Option Heap.Out
  | ["ok"] => some (.ok .unit)
  | ["val", v] => v.toInt?.map fun x => .ok (.val x)
  | ["n", k] => k.toInt?.map fun x => .ok (.int x)
  | ["empty"] => some (.err Heap.errEmpty)
  | ["full"] => some (.err Heap.errCap)
  | _ => none

def init (args : List String) : Except String State :=
  match argInt args "cap", (argStr args "cmp").bind Ekit.Cmp.ofName with
  | some c, some cmp => .ok ⟨cmp, c, start (rawParams cmp c fun _ _ _ => 0)⟩
  | _, _ => .error "cap= cmp= missing"

def invL (s : State) (t : Nat) (args : List String) : Except String State :=
  match hOp args with
  | some o => do pure { s with lw := ← inv (params s "") s.lw t o }
  | none => .error "unreadable call"
def resL (s : State) (t : Nat) (args : List String) : Except String State :=
  match hRet args with
  | some r => do pure { s with lw := ← res (params s "") s.lw t r }
  | none => .error s!"thread {t} returned {" ".intercalate args}: not an answer of the model"
def sync (s : State) (t : Nat) (fn act res : String) : Except String State := do
  pure { s with lw := ← LW.sync (params s res) check s.lw t fn act res }
def atEnd (s : State) : Option String := LW.atEnd s.lw

end Driver.Ev.CPQ
