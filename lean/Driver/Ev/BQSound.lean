/-
Soundness of the event replayer of the array blocking queue (target `abq`) with respect to the transition
system the C07/C09 theorems are about.

`Driver.Ev.ABQ.inv / sync / res` (Driver/Ev/BQ.lean) are what the driver runs on every logged event of a real
execution.  Here it is proved that whatever they accept IS a run of `Ekit.ArrayBQ`:

* `abq_sync_sound`: an accepted synchronisation event is a sequence of model steps none of which is
  observable (`tau`, `ctxEnd`, `ctxArm` labels only);
* `abq_inv_sound`, `abq_res_sound`: an accepted invocation / response note is the model's `inv t op` step /
  silent steps followed by the model's `res t r` step;
* `abq_replay_sound`: if a whole log is accepted from the constructor's state, the final state is the result of
  a run of `Ekit.ArrayBQ.sys cap` from its initial state whose history (its observable events) is exactly
  the list of invocation / response notes of the log; in particular the final state is `Reachable`, so every
  invariant proved in `Ekit/Props/C07.lean` holds of it, and the observed call history is a history of the
  system, hence linearizable (`c07_abq_linearizable`, restated in `Audit/C07.lean` as
  `c07_abq_evtrace_linearizable`).

So the replay is not merely a plausibility filter: acceptance of a real execution's log is a proof that the
execution's call history is one the verified model produces.
-/
import Driver.Ev.BQ

namespace Driver.Ev.ABQ
open Ekit Ekit.Conc Ekit.BQ Ekit.ArrayBQ

theorem run_cons {σ ι : Type} (S : System σ ι) (s : σ) (l : ι) (ls : List ι) :
    S.run s (l :: ls) = (S.step s l).bind (fun s' => S.run s' ls) := by
  simp only [System.run]; cases S.step s l <;> rfl

theorem run_one (cap : Nat) (s s' : State) (l : Label) (h : step s l = some s') :
    (sys cap).toSystem.run s [l] = some s' := by
  rw [run_cons]
  show (step s l).bind (fun s1 => (sys cap).toSystem.run s1 []) = some s'
  rw [h]; rfl

/-- `Sil s s'`: `s'` is reached from `s` by model steps without observable event -/
def Sil (s s' : State) : Prop :=
  ∃ ls : List Label, (sys 0).toSystem.run s ls = some s' ∧ (sys 0).history ls = []

theorem Sil.refl (s : State) : Sil s s := ⟨[], rfl, rfl⟩

theorem Sil.trans {a b c : State} (h1 : Sil a b) (h2 : Sil b c) : Sil a c := by
  obtain ⟨l1, r1, o1⟩ := h1
  obtain ⟨l2, r2, o2⟩ := h2
  refine ⟨l1 ++ l2, ?_, ?_⟩
  · rw [System.run_append, r1]; exact r2
  · simp only [ObjSystem.history, List.filterMap_append] at *
    rw [o1, o2]; rfl

theorem Sil.single {s s' : State} (l : Label) (h : step s l = some s') (ho : obs l = none) : Sil s s' := by
  refine ⟨[l], run_one 0 s s' l h, ?_⟩
  simp [ObjSystem.history, sys, ho]

theorem advance_sound (t : Nat) : ∀ (fuel : Nat) (s s' : State), advance s t fuel = .ok s' → Sil s s'
  | 0, s, s', h => by simp [advance] at h
  | fuel + 1, s, s', h => by
    unfold advance at h
    split at h
    · split at h
      · rename_i s1 hs
        exact Sil.trans (Sil.single (.tau t) hs rfl) (advance_sound t fuel s1 s' h)
      · cases h
    · cases h; exact Sil.refl s

theorem tau_sound {s s' : State} {t : Nat} {w : String} (h : tau s t w = .ok s') : Sil s s' := by
  unfold tau at h
  split at h
  · rename_i s1 hs
    split at h
    · cases h
    · cases h; exact Sil.single (.tau t) hs rfl
  · cases h

theorem ended_sound {s s' : State} {t : Nat} (h : ended s t = .ok s') : Sil s s' := by
  unfold ended at h
  split at h
  · cases h; exact Sil.refl s
  · split at h
    · rename_i s1 hs
      cases h; exact Sil.single (.ctxEnd t) hs rfl
    · cases h

theorem arm_sound {s s' : State} {t : Nat} {m : String}
    (h : (match step s (.ctxArm t) with | some s1 => (pure s1 : Except String State) | none => .error m) = .ok s') :
    Sil s s' := by
  split at h
  · rename_i s1 hs
    cases h; exact Sil.single (.ctxArm t) hs rfl
  · cases h

/-- a `do`-block `x ← a; f x` that succeeds: both parts succeeded -/
theorem bind_ok {α β : Type} {a : Except String α} {f : α → Except String β} {b : β}
    (h : (a >>= f) = .ok b) : ∃ x, a = .ok x ∧ f x = .ok b := by
  cases a with
  | error e => cases h
  | ok x => exact ⟨x, rfl, h⟩

/-- **an accepted synchronisation event is a silent run of the model** -/
theorem abq_sync_sound {s s' : State} {t : Nat} {fn act res : String}
    (h : sync s t fn act res = .ok s') : Sil s s' := by
  unfold sync at h
  obtain ⟨s1, ha, h⟩ := bind_ok h
  refine Sil.trans (advance_sound t _ _ _ ha) ?_
  clear ha
  split at h
  all_goals first
    | exact tau_sound h
    | (cases h; exact Sil.refl _)
    | cases h
    | (split at h
       · first
         | exact tau_sound h
         | cases h
         | (split at h
            · cases h
            · exact tau_sound h)
       · first
         | (cases h; exact Sil.refl _)
         | (obtain ⟨s2, he, h⟩ := bind_ok h
            first
              | exact Sil.trans (ended_sound he) (arm_sound h)
              | exact Sil.trans (ended_sound he) (tau_sound h))
         | cases h)
    | (obtain ⟨u, _, h⟩ := bind_ok h; exact tau_sound h)

theorem abq_inv_sound {s s' : State} {t : Nat} {op : Op} (h : inv s t op = .ok s') :
    step s (.inv t op) = some s' := by
  unfold inv at h
  split at h
  · rename_i s1 hs; cases h; exact hs
  · cases h

theorem abq_res_sound {s s' : State} {t : Nat} {r : Ret} (h : ABQ.res s t r = .ok s') :
    ∃ s1, Sil s s1 ∧ step s1 (.res t r) = some s' := by
  unfold ABQ.res at h
  obtain ⟨s1, ha, h⟩ := bind_ok h
  refine ⟨s1, advance_sound t _ _ _ ha, ?_⟩
  split at h
  · rename_i s2 hs; cases h; exact hs
  · cases h

/-! ### whole logs -/

/-- a parsed log entry -/
inductive Entry where
  | inv (t : Nat) (op : Op)
  | res (t : Nat) (r : Ret)
  | sync (t : Nat) (fn act res : String)

def Entry.obs : Entry → Option (Ev Op Ret)
  | .inv t op => some (.inv t op)
  | .res t r => some (.res t r)
  | .sync .. => none

/-- the driver's treatment of one entry (`Driver.EvTrace.event` on an `abq` state) -/
def replay1 (s : State) : Entry → Except String State
  | .inv t op => ABQ.inv s t op
  | .res t r => ABQ.res s t r
  | .sync t fn act res => ABQ.sync s t fn act res

def replay (s : State) : List Entry → Except String State
  | [] => .ok s
  | e :: es => replay1 s e >>= fun s' => replay s' es

/-- `Path s ls s'`: a run of the model with its history -/
theorem replay1_sound {s s' : State} {e : Entry} (h : replay1 s e = .ok s') :
    ∃ ls, (sys 0).toSystem.run s ls = some s' ∧ (sys 0).history ls = e.obs.toList := by
  cases e with
  | inv t op =>
    refine ⟨[.inv t op], run_one 0 s s' _ (abq_inv_sound h), ?_⟩
    simp [ObjSystem.history, sys, ArrayBQ.obs, Entry.obs]
  | res t r =>
    obtain ⟨s1, ⟨ls, hr, ho⟩, hs⟩ := abq_res_sound h
    refine ⟨ls ++ [.res t r], ?_, ?_⟩
    · rw [System.run_append, hr]
      exact run_one 0 s1 s' _ hs
    · simp only [ObjSystem.history, List.filterMap_append] at *
      rw [ho]; simp [sys, ArrayBQ.obs, Entry.obs]
  | sync t fn act res =>
    obtain ⟨ls, hr, ho⟩ := abq_sync_sound h
    exact ⟨ls, hr, by simpa [Entry.obs] using ho⟩

theorem replay_sound : ∀ (es : List Entry) (s s' : State), replay s es = .ok s' →
    ∃ ls, (sys 0).toSystem.run s ls = some s' ∧ (sys 0).history ls = es.filterMap Entry.obs
  | [], s, s', h => by cases h; exact ⟨[], rfl, rfl⟩
  | e :: es, s, s', h => by
    obtain ⟨s1, h1, h2⟩ := bind_ok h
    obtain ⟨l1, r1, o1⟩ := replay1_sound h1
    obtain ⟨l2, r2, o2⟩ := replay_sound es s1 s' h2
    refine ⟨l1 ++ l2, ?_, ?_⟩
    · rw [System.run_append, r1]; exact r2
    · simp only [ObjSystem.history, List.filterMap_append, List.filterMap_cons] at *
      rw [o1, o2]
      cases e.obs <;> rfl

/-- the step function of `sys cap` does not depend on `cap` (only the initial state does) -/
theorem run_cap (cap : Nat) (s : State) (ls : List Label) :
    (sys cap).toSystem.run s ls = (sys 0).toSystem.run s ls := by
  induction ls generalizing s with
  | nil => rfl
  | cons l ls ih =>
    rw [run_cons, run_cons]
    show (step s l).bind (fun s1 => (sys cap).toSystem.run s1 ls) = (step s l).bind (fun s1 => (sys 0).toSystem.run s1 ls)
    cases step s l with
    | none => rfl
    | some s1 => exact ih s1

/-- **an accepted log is a run of the verified model**: from the state the constructor leaves, with exactly the
    observed invocations and responses as its history -/
theorem abq_replay_sound (cap : Nat) (es : List Entry) (s' : State) (h : replay (ArrayBQ.init cap) es = .ok s') :
    ∃ ls, (sys cap).toSystem.run (sys cap).init ls = some s' ∧
          (sys cap).history ls = es.filterMap Entry.obs := by
  obtain ⟨ls, hr, ho⟩ := replay_sound es _ _ h
  exact ⟨ls, by rw [run_cap]; exact hr, ho⟩

/-- hence the final state is reachable: every invariant of `Ekit/Props/C07.lean` holds of it -/
theorem abq_replay_reachable (cap : Nat) (es : List Entry) (s' : State) (h : replay (ArrayBQ.init cap) es = .ok s') :
    (sys cap).toSystem.Reachable s' := by
  obtain ⟨ls, hr, _⟩ := abq_replay_sound cap es s' h
  exact System.reachable_of_run _ ls System.Reachable.init hr

end Driver.Ev.ABQ
