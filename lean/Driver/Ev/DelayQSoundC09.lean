/-
What acceptance of a real execution's event log by the `dq` replayer proves about that execution (DelayQueue share
of C09): the corollary of `Driver/Ev/DelayQSound.lean` through the property theorems of `Ekit/Props/C09b.lean`.
(Audited with C09: `Audit/C09.lean`.)  Notation as in `Driver/Ev/DelayQSoundC08.lean`.
-/
import Driver.Ev.DelayQSound
import Ekit.Props.C09b

namespace Driver.Ev.DQ
open Ekit Ekit.Conc Ekit.DelayQ

/-- C09 (DelayQueue share) of the state the replay ends in: no call in flight is stuck other than at a blocking point
    whose condition does not hold (`blocked`), the holder of the mutex can move, and a consumer parked on the enqueue
    signal has not missed an insertion (its channel is closed, or a broadcaster is on its way to close it) -/
theorem c09_dq_evtrace_no_lost_wakeup (args : List String) (s0 : State) (h0 : init args = .ok s0) (es : List Entry)
    (s' : State) (h : replay s0 es = .ok s') :
    (∀ t, s'.m.pc t ≠ .idle → blocked s'.m t ∨ ∃ l, l.actor = some t ∧ (step s0.P s'.m l).isSome = true) ∧
    (∀ u, s'.m.mutex = some u → ¬ blocked s'.m u ∧ ∃ l, l.actor = some u ∧ (step s0.P s'.m l).isSome = true) ∧
    (∀ t g, (s'.m.pc t).waitsE = some g → s'.m.enqd.length ≠ s'.m.seenE t →
      g ∈ s'.m.closed .enqSig ∨ (∃ u r, s'.m.pc u = .bSwap .enqSig r) ∨
        (∃ u, (s'.m.pc u).closing = some (.enqSig, g))) ∧
    (∀ t g, (s'.m.pc t).waitsD = some g → s'.m.deqd.length ≠ s'.m.seenD t →
      g ∈ s'.m.closed .deqSig ∨ (∃ u r, s'.m.pc u = .bSwap .deqSig r) ∨
        (∃ u, (s'.m.pc u).closing = some (.deqSig, g))) := by
  have hr := dq_replay_reachable args s0 h0 es s' h
  exact ⟨fun t ht => c09_enabled_or_blocked s0.P s'.m t hr ht,
    fun u hu => c09_lock_holder_runs s0.P s'.m u hr hu,
    fun t g hw hn => c09_no_lost_wakeup_delay s0.P s'.m t g hr hw hn,
    fun t g hw hn => c09_no_lost_wakeup_full s0.P s'.m t g hr hw hn⟩

end Driver.Ev.DQ
