/-
Event replayer of `syncx.Cond` (target `cond`) on the transition system `Ekit.Cond` (Ekit/Model/Cond.lean, the model
the theorems of Ekit/Props/C13*.lean are about).

Logged synchronisation actions (harness/evinst on syncx/cond.go) and the model's program counters:

    ccLoad / ccLoad2     atomic.LoadPointer(checker)            ccCas   atomic.CompareAndSwapPointer(checker) => bool
    firstUse             OnceDo(once)
    wAddLock wCtxLock sLock bLock        Lock(mu)
    wAddUnlock wCtxUnlock sUnlock bUnlock   Unlock(mu) => snapshot of the real list, inside the critical section
    wUnlockL             Unlock(L)                              wRelock  Lock(L)   (the deferred c.L.Lock())
    wSelect              Select:Recv(ch) | Select:Recv(ctx.Done())       (blocking select: logged after it returned)
    wInner               Select:Recv(ch) | Select:default                (non-blocking select: inside the log mutex)
    wFwdSend sSend bSend Send(ch)        (evinst performs the send inside the log mutex: the entry precedes the
                                          entry of the receive it enables)
    wCtxErr              ctx.Err => err
    client code          inv lock / res locked (= lockL, noted after L.Lock() returned), inv unlock (= unlockL,
                         noted before L.Unlock()) / res unlocked

Silent program counters (no logged action; advanced when the thread's next event arrives):
    inside a critical section of mu:  wAlloc wPush wFwdLen wFwdPop wRemove sLen sPop bLen bPop
    outside:                          wFree   (sync.Pool.Put; its only reader is another thread's wAlloc, see `alloc`)

Environment, observed not controlled:
  * context expiry: the `<-ctx.Done()` arm replays the model's `expire t` first if the model has not seen it;
    `ctx.Err()` must then be non-nil.
  * sync.Pool: which node `Get` returned is read off the snapshot at the end of `add`'s critical section (the
    last node of the real list).  A real node the replayer has not seen is the model's `alloc t none` (a new node);
    a known one is `alloc t (some n)`, which requires `n` in the model's pool — if its previous owner has logged
    everything up to its (silent) `free` but no later event yet, that `free` is replayed first: it is that
    thread's next action and the real `Put` evidently happened.  The pool dropping nodes (`poolDrop`) never needs
    replaying: the model's pool is only ever asked for nodes the real pool did return.

Real node names (small integers handed out by the snapshot hook) are mapped to the model's NodeIds in `nodes`.
-/
import Driver.Ev.Core
import Ekit.Model.Cond
import Ekit.Model.CondExec

namespace Driver.Ev.Cond
open Driver Driver.Ev Ekit Ekit.Cond

structure State where
  m : Ekit.Cond.State
  tids : List Nat
  /-- real node name ↦ model node -/
  nodes : List (Nat × Nat)

/-- the label of a silent program counter (`wAlloc` is silent too but needs the pool's choice: `alloc`) -/
def silentLabel (t : Nat) : Pc → Option Label
  | .wPush _ => some (.push t)
  | .wFwdLen _ => some (.fwdLen t)
  | .wFwdPop _ => some (.fwdPop t)
  | .wRemove _ => some (.remove t)
  | .wFree _ _ => some (.free t)
  | .sLen => some (.sLen t)
  | .sPop => some (.sPop t)
  | .bLen => some (.bLen t)
  | .bPop => some (.bPop t)
  | _ => none

def describe (s : Ekit.Cond.State) (t : Nat) : String :=
  s!"pc {repr (s.pc t)}, mu {repr s.mu}, L {repr s.L}, list {s.list}, full {s.full}, pool {s.pool}, ctx done {s.ctx t}"

/-- one model step of thread `t`: must be enabled and must not fault -/
def fire (s : Ekit.Cond.State) (t : Nat) (l : Label) (what : String) : Except String Ekit.Cond.State :=
  match step s l with
  | some s' =>
    if (s'.pc t).isFault then .error s!"model: {what} by thread {t} makes the model fault: {repr (s'.pc t)} ({describe s t})"
    else .ok s'
  | none => .error s!"model: {what} by thread {t} is not enabled in the model's state ({describe s t})"

/-- advance `t` over silent steps -/
def advance (s : Ekit.Cond.State) (t : Nat) : Nat → Except String Ekit.Cond.State
  | 0 => .error "model: too many silent steps"
  | fuel + 1 =>
    match silentLabel t (s.pc t) with
    | some l => do
      let s' ← fire s t l s!"the statement at {repr (s.pc t)}"
      advance s' t fuel
    | none => .ok s

def natList (s : String) : Option (List Nat) :=
  (parseSlash s).bind fun l => l.mapM fun i => if i < 0 then none else some i.toNat

def isNa (snap : String) : Bool := snap = "na" ∨ snap = "-" ∨ snap = ""

/-- the real list of a snapshot -/
def snapList (snap : String) : Except String (List Nat) :=
  match (snapField snap "list").bind natList with
  | some l => .ok l
  | none => .error s!"unreadable snapshot {snap}"

def toModel (nodes : List (Nat × Nat)) (rs : List Nat) : Option (List Nat) := rs.mapM fun r => List.lookup r nodes

/-- snapshot taken inside the critical section, right before Unlock(mu): the real list is the model's list, its
    size field is its length, no listed node holds a token, and every token in a real channel is in the model's
    `full` (the converse need not hold at this instant: an outer-select receive is logged after it happened) -/
def checkSnap (st : State) (snap : String) : Except String Unit :=
  if isNa snap then .ok () else do
  let real ← snapList snap
  let bad (why : String) : Except String Unit :=
    .error s!"snapshot inside the critical section ({snap}) differs from the model ({why}): list {st.m.list}, full {st.m.full}, node names {st.nodes}"
  match toModel st.nodes real with
  | none => bad "a listed node was never enqueued in the model"
  | some l =>
    if l ≠ st.m.list then bad "list" else
    match (snapField snap "size").bind (·.toInt?), (snapField snap "dirty").bind (·.toInt?),
          ((snapField snap "full").bind natList).map (toModel st.nodes) with
    | some sz, some d, some (some f) =>
      if sz ≠ (st.m.list.length : Int) then bad "size field"
      else if d ≠ 0 then bad "a listed node holds a token"
      else if f.all (· ∈ st.m.full) then .ok () else bad "a real channel holds a token the model does not have"
    | _, _, some none => bad "a token sits in a node the model never enqueued"
    | _, _, _ => .error s!"unreadable snapshot {snap}"

/-- `wAlloc` of thread `t`, resolved by the snapshot of `add`'s Unlock(mu) -/
def alloc (st : State) (t : Nat) (snap : String) : Except String State :=
  let s := st.m
  if isNa snap then do
    let s' ← fire s t (.alloc t none) "pool.Get"
    pure { st with m := s' }
  else do
    let real ← snapList snap
    match real.getLast? with
    | none => .error s!"thread {t}: the list is empty at the end of add's critical section ({snap})"
    | some r =>
      match List.lookup r st.nodes with
      | none => do
        let s' ← fire s t (.alloc t none) "pool.Get (new node)"
        pure { st with m := s', nodes := (r, s.nextNode) :: st.nodes }
      | some n =>
        if n ∈ s.pool then do
          let s' ← fire s t (.alloc t (some n)) "pool.Get (pooled node)"
          pure { st with m := s' }
        else
          -- the previous owner's silent `free` (pool.Put) has happened but that thread has logged nothing since
          match st.tids.find? fun u => match s.pc u with | .wFree k _ => k = n | _ => false with
          | some u => do
            let s1 ← fire s u (.free u) "pool.Put"
            let s' ← fire s1 t (.alloc t (some n)) "pool.Get (pooled node)"
            pure { st with m := s' }
          | none => .error s!"thread {t}: pool.Get returned real node {r} (model node {n}), which the model has neither pooled nor about to be freed ({describe s t})"

def ctxSeen (s : Ekit.Cond.State) (t : Nat) : Except String Ekit.Cond.State :=
  if s.ctx t then .ok s else fire s t (.expire t) "context expiry"

/-- one logged synchronisation action `fn:act` with result `res` of thread `t` -/
def sync (st : State) (t : Nat) (fn act res : String) : Except String State := do
  let st ← (if st.m.pc t = .wAlloc then
              if act = "Unlock(mu)" then alloc st t res
              else .error s!"thread {t} logged {fn}:{act} ({res}) where the model is inside add's critical section"
            else pure st)
  let s ← advance st.m t 1000
  let st := { st with m := s }
  let bad : Except String State :=
    .error s!"thread {t} logged {fn}:{act} ({res}) where the model is at {repr (s.pc t)}"
  let go (l : Label) : Except String State := do
    let s' ← fire s t l act
    pure { st with m := s' }
  match s.pc t, act with
  -- prologue
  | .ccLoad _, "atomic.LoadPointer(checker)" => go (.ccLoad t)
  | .ccCas _, "atomic.CompareAndSwapPointer(checker)" =>
    if res = (if s.checker then "false" else "true") then go (.ccCas t)
    else .error s!"thread {t}: CompareAndSwapPointer(&c.checker, nil, c) = {res} where the model's checker set = {s.checker}"
  | .ccLoad2 _, "atomic.LoadPointer(checker)" => go (.ccLoad2 t)
  | .firstUse _, "OnceDo(once)" => go (.firstUse t)
  -- Wait
  | .wAddLock, "Lock(mu)" => go (.addLock t)
  | .wAddUnlock _, "Unlock(mu)" => do checkSnap st res; go (.addUnlock t)
  | .wUnlockL _, "Unlock(L)" => go (.waitUnlockL t)
  | .wSelect _, "Select:Recv($)" => go (.selRecv t)
  | .wSelect _, "Select:Recv(ctx.Done())" => do
    let s1 ← ctxSeen s t
    let s' ← fire s1 t (.selCtx t) act
    pure { st with m := s' }
  | .wCtxLock _, "Lock(mu)" => go (.ctxLock t)
  | .wInner _, "Select:Recv($)" => go (.innerRecv t)
  | .wInner _, "Select:default" => go (.innerDefault t)
  | .wFwdSend _ _, "Send($)" => go (.fwdSend t)
  | .wCtxErr _, "ctx.Err" =>
    if res = "nil" then .error s!"thread {t}: ctx.Err() = nil after the ctx.Done() arm was taken"
    else go (.ctxErr t)
  | .wCtxUnlock _ _, "Unlock(mu)" => do checkSnap st res; go (.ctxUnlock t)
  | .wRelock _, "Lock(L)" => go (.relockL t)
  -- Signal
  | .sLock, "Lock(mu)" => go (.sLock t)
  | .sSend _, "Send($)" => go (.sSend t)
  | .sUnlock, "Unlock(mu)" => do checkSnap st res; go (.sUnlock t)
  -- Broadcast
  | .bLock, "Lock(mu)" => go (.bLock t)
  | .bSend _, "Send($)" => go (.bSend t)
  | .bUnlock, "Unlock(mu)" => do checkSnap st res; go (.bUnlock t)
  | _, _ => bad

def init (args : List String) : Except String State :=
  match argInt args "g" with
  | some g => .ok { m := Ekit.Cond.init, tids := List.range g.toNat, nodes := [] }
  | none => .error "g= missing"

def invL (st : State) (t : Nat) (args : List String) : Except String State :=
  let s := st.m
  let go (l : Label) (what : String) : Except String State := do
    let s' ← fire s t l what
    pure { st with m := s' }
  match args with
  | ["lock"] =>
    if s.pc t = .idle then .ok st else .error s!"model: thread {t} starts L.Lock() while the model has it at {repr (s.pc t)}"
  | ["unlock"] => go (.unlockL t) "the client's L.Unlock()"
  | ["wait", kind] => go (.invWait t (kind == "pre")) "the call of Wait"
  | ["signal"] => go (.invSignal t) "the call of Signal"
  | ["broadcast"] => go (.invBroadcast t) "the call of Broadcast"
  | _ => .error "unreadable call"

/-- the same state with its per-thread functions re-tabulated over `tids` (purely an evaluation-cost measure: `upd`
    chains grow with the run).  Unlike `Ekit.Cond.State.compact` a thread outside `tids` keeps its value instead of being
    reset, so this is the identity function (`retab_eq`, Driver/Ev/CondSound.lean) and the replayer's state stays a state
    of a run of the model unconditionally. -/
def retab (s : Ekit.Cond.State) (tids : List Nat) : Ekit.Cond.State :=
  let pcs := tids.map fun t => (t, s.pc t)
  let cxs := tids.map fun t => (t, s.ctx t)
  let sns := tids.map fun t => (t, s.snap t)
  let sts := tids.map fun t => (t, s.sent t)
  { s with
    pc := fun t => match pcs.lookup t with | some p => p | none => s.pc t
    ctx := fun t => match cxs.lookup t with | some p => p | none => s.ctx t
    snap := fun t => match sns.lookup t with | some p => p | none => s.snap t
    sent := fun t => match sts.lookup t with | some p => p | none => s.sent t }

def resL (st : State) (t : Nat) (args : List String) : Except String State := do
  let s ← advance st.m t 1000
  let fin (l : Label) : Except String State :=
    match step s l with
    | some s' => pure { st with m := retab s' st.tids }
    | none => .error s!"thread {t} returned {args} where the model is at {repr (s.pc t)}"
  match args with
  | ["locked"] =>
    match step s (.lockL t) with
    | some s' => pure { st with m := s' }
    | none => .error s!"model: the client's L.Lock() by thread {t} returned while the model has L held ({describe s t})"
  | ["unlocked"] => pure { st with m := s }
  | ["nil"] => fin (.resWait t .nil)
  | ["ctxErr"] => fin (.resWait t .ctxErr)
  | ["unit"] => if s.pc t = .sRet then fin (.resSignal t) else fin (.resBroadcast t)
  | _ => .error s!"unreadable result {args}"

def atEnd (st : State) : Option String :=
  let s := st.m
  if !(st.tids.all fun t => s.pc t = .idle) then some "calls still in flight in the model at the end of the scenario"
  else if s.L.isSome ∨ s.mu.isSome then some "a lock is still held in the model at the end of the scenario"
  else none

end Driver.Ev.Cond
