/-
Soundness of the event replayer of the lock-free linked queue (target `clq`) with respect to the transition
system the C06 theorems are about (`Ekit.Linz.CLQ.sys Int`).

`Driver.Ev.CLQ.invL / sync / resL` (Driver/Ev/CLQ.lean) are what the driver runs on every logged event of a real
execution.  The replayer's state is the model's state `m` plus bookkeeping (pointer table, word table, the threads
inside a call); here it is proved that whatever it accepts IS a run of the model on the `m` component:

* `clq_sync_sound`: an accepted atomic action (`LoadPointer` / `CompareAndSwapPointer`) of thread `t` is exactly the
  model's `tau t` step (this model has no silent program counters: one logged action = one step), and the thread has
  not crashed (`clq_sync_nocrash`);
* `clq_inv_sound`, `clq_res_sound`: an accepted invocation / response note is the model's `call t op` / `ret t r` step
  for the parsed operation / result;
* `clq_replay_sound`: if a whole log (entries exactly as `Driver.EvTrace.event` receives them, folded with the very
  dispatch the driver performs — `event_clq`) is accepted from the state `init` builds, the model component of the
  final state is the result of a run of `CLQ.sys Int` from its initial state whose history is exactly the list of the
  log's invocation / response notes; hence it is `Reachable` (`clq_replay_reachable`);
* `clq_replay_quiescent`: if moreover the end-of-scenario check `atEnd` passes, every thread of the model is idle.

The corollaries through the C06 property theorems are in `Driver/Ev/CLQSoundC06.lean`.
-/
import Driver.Ev.CLQ
import Driver.EvTrace

namespace Driver.Ev.CLQ
open Driver Ekit Ekit.Conc Ekit.Linz Ekit.Linz.CLQ

/-- a `do`-block `x ← a; f x` that succeeds: both parts succeeded -/
theorem bind_ok {α β : Type} {a : Except String α} {f : α → Except String β} {b : β}
    (h : (a >>= f) = .ok b) : ∃ x, a = .ok x ∧ f x = .ok b := by
  cases a with
  | error e => cases h
  | ok x => exact ⟨x, rfl, h⟩

/-- `Same s s'`: only the replayer's bookkeeping tables differ -/
def Same (s s' : State) : Prop := s'.m = s.m ∧ s'.live = s.live

theorem Same.trans {a b c : State} (h1 : Same a b) (h2 : Same b c) : Same a c :=
  ⟨h2.1.trans h1.1, h2.2.trans h1.2⟩

/-- `Tau t s s'`: the model component makes thread `t`'s step, which is not a crash; the set of live calls is unchanged -/
def Tau (t : Nat) (s s' : State) : Prop :=
  step s.m (.tau t) = some s'.m ∧ s'.m.pc t ≠ .crash ∧ s'.live = s.live

theorem Tau.of_same {t : Nat} {a b c : State} (h2 : Tau t b c) (h1 : Same a b) : Tau t a c := by
  obtain ⟨hm, hl⟩ := h1
  obtain ⟨hs, hc, hl'⟩ := h2
  exact ⟨by rw [← hm]; exact hs, hc, hl'.trans hl⟩

theorem atLoc_same {s s' : State} {w : Nat} {l : Loc} (h : atLoc s w l = .ok s') : Same s s' := by
  unfold atLoc at h
  split at h
  · cases h; exact ⟨rfl, rfl⟩
  · cases h

theorem isNode_same {s s' : State} {what : String} {p i : Option Nat} (h : isNode s what p i = .ok s') :
    Same s s' := by
  unfold isNode at h
  split at h
  · cases h; exact ⟨rfl, rfl⟩
  · split at h
    · cases h; exact ⟨rfl, rfl⟩
    · cases h
  · cases h
  · cases h

theorem tau_sound {s s' : State} {t : Nat} {w : String} (h : tau s t w = .ok s') : Tau t s s' := by
  unfold tau at h
  split at h
  · rename_i m' hs
    split at h
    · cases h
    · rename_i hne
      cases h; exact ⟨hs, fun hc => hne hc, rfl⟩
  · cases h

/-- an accepted atomic action: the model makes thread `t`'s step (see `clq_sync_sound`) -/
theorem sync_tau {s s' : State} {t : Nat} {fn act res : String}
    (h : sync s t fn act res = .ok s') : Tau t s s' := by
  unfold sync at h
  split at h
  all_goals dsimp only at h
  -- the loads at e1, d2, e2
  · obtain ⟨w, _, h⟩ := bind_ok h
    obtain ⟨s1, h1, h⟩ := bind_ok h
    obtain ⟨p, _, h⟩ := bind_ok h
    obtain ⟨s2, h2, h⟩ := bind_ok h
    exact (tau_sound h).of_same ((atLoc_same h1).trans (isNode_same h2))
  · obtain ⟨w, _, h⟩ := bind_ok h
    obtain ⟨s1, h1, h⟩ := bind_ok h
    obtain ⟨p, _, h⟩ := bind_ok h
    obtain ⟨s2, h2, h⟩ := bind_ok h
    exact (tau_sound h).of_same ((atLoc_same h1).trans (isNode_same h2))
  · obtain ⟨w, _, h⟩ := bind_ok h
    obtain ⟨s1, h1, h⟩ := bind_ok h
    obtain ⟨p, _, h⟩ := bind_ok h
    obtain ⟨s2, h2, h⟩ := bind_ok h
    exact (tau_sound h).of_same ((atLoc_same h1).trans (isNode_same h2))
  -- the link CAS at e3 (on success the new node enters the pointer table)
  · obtain ⟨w, _, h⟩ := bind_ok h
    obtain ⟨s1, h1, h⟩ := bind_ok h
    obtain ⟨ok, _, h⟩ := bind_ok h
    obtain ⟨po, _, h⟩ := bind_ok h
    split at h
    · obtain ⟨_, ht, _⟩ := bind_ok h; cases ht
    · obtain ⟨x, _, h⟩ := bind_ok h
      split at h
      · split at h
        · obtain ⟨_, ht, _⟩ := bind_ok h; cases ht
        · obtain ⟨_, _, h⟩ := bind_ok h
          obtain ⟨s2, h2, h⟩ := bind_ok h
          have := (tau_sound h2).of_same (atLoc_same h1)
          split at h
          · split at h
            · cases h; exact this
            · cases h
          · cases h; exact this
      · cases h
  -- the tail swing at e4
  · obtain ⟨w, _, h⟩ := bind_ok h
    obtain ⟨s1, h1, h⟩ := bind_ok h
    obtain ⟨ok, _, h⟩ := bind_ok h
    obtain ⟨po, _, h⟩ := bind_ok h
    obtain ⟨s2, h2, h⟩ := bind_ok h
    obtain ⟨pn, _, h⟩ := bind_ok h
    obtain ⟨s3, h3, h⟩ := bind_ok h
    obtain ⟨_, _, h⟩ := bind_ok h
    exact (tau_sound h).of_same ((atLoc_same h1).trans ((isNode_same h2).trans (isNode_same h3)))
  -- the loads at d1, d3
  · obtain ⟨w, _, h⟩ := bind_ok h
    obtain ⟨s1, h1, h⟩ := bind_ok h
    obtain ⟨p, _, h⟩ := bind_ok h
    obtain ⟨s2, h2, h⟩ := bind_ok h
    exact (tau_sound h).of_same ((atLoc_same h1).trans (isNode_same h2))
  · obtain ⟨w, _, h⟩ := bind_ok h
    obtain ⟨s1, h1, h⟩ := bind_ok h
    obtain ⟨p, _, h⟩ := bind_ok h
    obtain ⟨s2, h2, h⟩ := bind_ok h
    exact (tau_sound h).of_same ((atLoc_same h1).trans (isNode_same h2))
  -- the head CAS at d4
  · obtain ⟨w, _, h⟩ := bind_ok h
    obtain ⟨s1, h1, h⟩ := bind_ok h
    obtain ⟨ok, _, h⟩ := bind_ok h
    obtain ⟨po, _, h⟩ := bind_ok h
    obtain ⟨s2, h2, h⟩ := bind_ok h
    obtain ⟨pn, _, h⟩ := bind_ok h
    obtain ⟨s3, h3, h⟩ := bind_ok h
    obtain ⟨_, _, h⟩ := bind_ok h
    exact (tau_sound h).of_same ((atLoc_same h1).trans ((isNode_same h2).trans (isNode_same h3)))
  · cases h

/-- **an accepted synchronisation event is exactly one step of the logging thread in the model** (every atomic action
    is one `tau`; the pointer / word tables and the CAS-outcome checks can only reject more) -/
theorem clq_sync_sound {s s' : State} {t : Nat} {fn act res : String}
    (h : sync s t fn act res = .ok s') : step s.m (.tau t) = some s'.m :=
  (sync_tau h).1

/-- … and it is not the nil dereference -/
theorem clq_sync_nocrash {s s' : State} {t : Nat} {fn act res : String}
    (h : sync s t fn act res = .ok s') : s'.m.pc t ≠ .crash :=
  (sync_tau h).2.1

theorem clq_inv_sound {s s' : State} {t : Nat} {args : List String} (h : invL s t args = .ok s') :
    ∃ op, parseOp args = some op ∧ step s.m (.call t op) = some s'.m := by
  unfold invL at h
  split at h
  · cases h
  · rename_i op hp
    split at h
    · rename_i m' hs; cases h; exact ⟨op, hp, hs⟩
    · cases h

theorem clq_res_sound {s s' : State} {t : Nat} {args : List String} (h : resL s t args = .ok s') :
    ∃ r, parseRet args = some r ∧ step s.m (.ret t r) = some s'.m := by
  unfold resL at h
  split at h
  · cases h
  · rename_i r hp
    split at h
    · rename_i m' hs; cases h; exact ⟨r, hp, hs⟩
    · cases h

/-! ### whole logs -/

/-- a log line `e <tid> <what> <args…> => <obs>` as `Driver.EvTrace.checker` hands it to `event` -/
structure Entry where
  t : Nat
  what : String
  args : List String
  obs : String

/-- the invocation / response a log line notes, if it is one -/
def Entry.ev (e : Entry) : Option (Ev (QOp Int) (QRet Int)) :=
  if e.what = "inv" then (parseOp e.args).map (.inv e.t)
  else if e.what = "res" then (parseRet e.args).map (.res e.t)
  else none

/-- the driver's treatment of one entry -/
def replay1 (s : State) (e : Entry) : Except String State :=
  if e.what = "inv" then invL s e.t e.args else if e.what = "res" then resL s e.t e.args
  else sync s e.t (splitSite e.what).1 (splitSite e.what).2 e.obs

/-- … it IS `Driver.EvTrace.event` on a `clq` state -/
theorem event_clq (s : State) (e : Entry) :
    Driver.EvTrace.event (.clq s) e.t e.what e.args e.obs = Driver.EvTrace.liftE .clq (replay1 s e) := by
  unfold Driver.EvTrace.event replay1
  rcases splitSite e.what with ⟨fn, act⟩
  dsimp only
  by_cases h1 : e.what = "inv"
  · rw [if_pos h1, if_pos h1]
  · rw [if_neg h1, if_neg h1]
    by_cases h2 : e.what = "res"
    · rw [if_pos h2, if_pos h2]
    · rw [if_neg h2, if_neg h2]

def replay (s : State) : List Entry → Except String State
  | [] => .ok s
  | e :: es => replay1 s e >>= fun s' => replay s' es

theorem run_cons {σ ι : Type} (S : System σ ι) (s : σ) (l : ι) (ls : List ι) :
    S.run s (l :: ls) = (S.step s l).bind (fun s' => S.run s' ls) := by
  simp only [System.run]; cases S.step s l <;> rfl

theorem run_one (m m' : St Int) (l : Lbl (QOp Int) (QRet Int)) (h : step m l = some m') :
    (sys Int).run m [l] = some m' := by
  rw [run_cons]
  show (step m l).bind (fun s1 => (sys Int).run s1 []) = some m'
  rw [h]; rfl

/-- one accepted entry is one step of the model, observable exactly as the entry notes -/
theorem replay1_sound {s s' : State} {e : Entry} (h : replay1 s e = .ok s') :
    ∃ l, step s.m l = some s'.m ∧ Lbl.obs l = e.ev := by
  unfold replay1 at h
  unfold Entry.ev
  split at h
  · rename_i h1
    obtain ⟨op, hp, hs⟩ := clq_inv_sound h
    exact ⟨.call e.t op, hs, by rw [if_pos h1, hp]; rfl⟩
  · rename_i h1
    split at h
    · rename_i h2
      obtain ⟨r, hp, hs⟩ := clq_res_sound h
      exact ⟨.ret e.t r, hs, by rw [if_neg h1, if_pos h2, hp]; rfl⟩
    · rename_i h2
      exact ⟨.tau e.t, clq_sync_sound h, by rw [if_neg h1, if_neg h2]; rfl⟩

theorem replay_sound : ∀ (es : List Entry) (s s' : State), replay s es = .ok s' →
    ∃ ls, (sys Int).run s.m ls = some s'.m ∧ (sys Int).history ls = es.filterMap Entry.ev
  | [], s, s', h => by cases h; exact ⟨[], rfl, rfl⟩
  | e :: es, s, s', h => by
    obtain ⟨s1, h1, h2⟩ := bind_ok h
    obtain ⟨l, hs, ho⟩ := replay1_sound h1
    obtain ⟨ls, hr, hh⟩ := replay_sound es s1 s' h2
    refine ⟨l :: ls, ?_, ?_⟩
    · rw [run_cons]
      show (step s.m l).bind (fun s1 => (sys Int).run s1 ls) = some s'.m
      rw [hs]; exact hr
    · simp only [ObjSystem.history, List.filterMap_cons] at *
      have ho' : (sys Int).obs l = e.ev := ho
      rw [ho', hh]

/-- the state `init` builds is the model's initial state (the arguments of `new evt clq …` do not matter) -/
theorem init_m {args : List String} {s0 : State} (h : init args = .ok s0) : s0.m = (sys Int).init := by
  cases h; rfl

/-- **an accepted log is a run of the verified model**: from the model's initial state, with exactly the observed
    invocations and responses as its history -/
theorem clq_replay_sound (args : List String) (s0 : State) (hinit : init args = .ok s0)
    (es : List Entry) (s' : State) (h : replay s0 es = .ok s') :
    ∃ ls, (sys Int).run (sys Int).init ls = some s'.m ∧
          (sys Int).history ls = es.filterMap Entry.ev := by
  obtain ⟨ls, hr, ho⟩ := replay_sound es _ _ h
  rw [init_m hinit] at hr
  exact ⟨ls, hr, ho⟩

/-- hence the final state is reachable: every invariant of `Ekit/Props/C06.lean` holds of it -/
theorem clq_replay_reachable (args : List String) (s0 : State) (hinit : init args = .ok s0)
    (es : List Entry) (s' : State) (h : replay s0 es = .ok s') :
    (sys Int).Reachable s'.m := by
  obtain ⟨ls, hr, _⟩ := clq_replay_sound args s0 hinit es s' h
  exact System.reachable_of_run _ ls System.Reachable.init hr

/-! ### the end-of-scenario check -/

/-- the bookkeeping of the calls in flight: a thread outside `live` is idle in the model -/
def LiveOk (s : State) : Prop := ∀ u, u ∉ s.live → s.m.pc u = .idle

theorem step_other {m m' : St Int} {l : Lbl (QOp Int) (QRet Int)} {t : Nat} (h : step m l = some m')
    (hl : l = .tau t ∨ (∃ op, l = .call t op) ∨ (∃ r, l = .ret t r)) (u : Nat) (hne : u ≠ t) : m'.pc u = m.pc u := by
  rcases hl with rfl | ⟨op, rfl⟩ | ⟨r, rfl⟩
  all_goals
    unfold step at h
    dsimp only at h
    repeat' split at h
    all_goals (cases h <;> simp [St.set, upd, hne])

theorem step_tau_not_idle {m m' : St Int} {t : Nat} (h : step m (.tau t) = some m') : m.pc t ≠ .idle := by
  intro hi
  simp [step, hi] at h

theorem step_ret_idle {m m' : St Int} {t : Nat} {r : QRet Int} (h : step m (.ret t r) = some m') : m'.pc t = .idle := by
  unfold step at h
  dsimp only at h
  repeat' split at h
  all_goals (cases h <;> simp [St.set, upd])


theorem inv_live {s s' : State} {t : Nat} {args : List String} (h : invL s t args = .ok s') (hl : LiveOk s) :
    LiveOk s' := by
  unfold invL at h
  split at h
  · cases h
  · split at h
    · rename_i op _ _ m' hs
      cases h
      intro u hu
      have hu' : u ≠ t ∧ u ∉ s.live := by simpa using hu
      show m'.pc u = .idle
      rw [step_other hs (.inr (.inl ⟨op, rfl⟩)) u hu'.1]
      exact hl u hu'.2
    · cases h

theorem res_live {s s' : State} {t : Nat} {args : List String} (h : resL s t args = .ok s') (hl : LiveOk s) :
    LiveOk s' := by
  unfold resL at h
  split at h
  · cases h
  · split at h
    · rename_i r _ _ m' hs
      cases h
      intro u hu
      show m'.pc u = .idle
      by_cases hut : u = t
      · rw [hut]; exact step_ret_idle hs
      · rw [step_other hs (.inr (.inr ⟨r, rfl⟩)) u hut]
        exact hl u (fun hm => hu ((List.mem_erase_of_ne hut).2 hm))
    · cases h

theorem sync_live {s s' : State} {t : Nat} {fn act res : String} (h : sync s t fn act res = .ok s') (hl : LiveOk s) :
    LiveOk s' := by
  obtain ⟨hs, _, hlv⟩ := sync_tau h
  intro u hu
  rw [hlv] at hu
  have hi := hl u hu
  have hut : u ≠ t := fun e => step_tau_not_idle hs (e ▸ hi)
  rw [step_other hs (.inl rfl) u hut]
  exact hi

theorem replay1_live {s s' : State} {e : Entry} (h : replay1 s e = .ok s') (hl : LiveOk s) : LiveOk s' := by
  unfold replay1 at h
  split at h
  · exact inv_live h hl
  · split at h
    · exact res_live h hl
    · exact sync_live h hl

theorem replay_live : ∀ (es : List Entry) (s s' : State), replay s es = .ok s' → LiveOk s → LiveOk s'
  | [], s, s', h, hl => by cases h; exact hl
  | e :: es, s, s', h, hl => by
    obtain ⟨s1, h1, h2⟩ := bind_ok h
    exact replay_live es s1 s' h2 (replay1_live h1 hl)

/-- **a scenario accepted to its end is quiescent in the model**: when `end` is accepted too (`atEnd` has no complaint),
    every thread of the model is idle — every call of the history has returned -/
theorem clq_replay_quiescent (args : List String) (s0 : State) (hinit : init args = .ok s0)
    (es : List Entry) (s' : State) (h : replay s0 es = .ok s') (hend : atEnd s' = none) (t : Nat) :
    s'.m.pc t = .idle := by
  have h0 : LiveOk s0 := by cases hinit; intro u _; rfl
  have hl := replay_live es s0 s' h h0
  apply hl
  unfold atEnd at hend
  split at hend
  · rename_i he
    have : s'.live = [] := by simpa using he
    rw [this]; exact List.not_mem_nil
  · cases hend

end Driver.Ev.CLQ
