/-
Soundness of the event replayer of `queue.DelayQueue` (target `dq`) with respect to the timed transition system
`Ekit.DelayQ.sys P` the C08 / C09b theorems are about.

`Driver.Ev.DQ.invL / sync / resL` (Driver/Ev/DelayQ.lean) are what the driver runs on every logged event of a real
execution.  The replayer's state carries the model's parameters `P` (timer discipline, capacity), the model state `m`
and bookkeeping of its own (channel identities, comparator readings, `taint`, `skip`, …).  Here it is proved that the
`m` component of whatever is accepted IS a run of `sys P`:

* `Snd P m r` ("sound from `m`"): if the replayer computation `r` succeeds, the result has parameters `P` and its model
  state is reached from `m` by model steps none of which is observable (`tick`, `cancel`, `fire` — the environment
  labels the log proves —, `peek`/`repeek` with the observed heap root, and the thread's own synchronisation and
  critical-section labels);
* `dq_sync_sound`: an accepted synchronisation / clock event is such a silent run;
* `dq_inv_sound`, `dq_res_sound`: an accepted invocation note IS the model's `invEnq`/`invDeq` step of the parsed call;
  an accepted response note is silent steps followed by the model's `ret t r` step for an `r` the logged result is
  the rendering of (`Ret.view`: the log shows the id of a dequeued element, the model also knows its deadline);
* `dq_replay_sound`: if a whole log is accepted from the state `init` builds, the final model state is the result of a
  run of `sys P` from its initial state whose history, rendered, is the list of the logged invocation / response
  notes — of ALL of them if the final state is not `skip`ped, of a prefix otherwise (after a comparator stall that may
  have inverted two deadlines the replayer stops judging the scenario: `skip`; such lines are accepted without a
  model step, so they prove nothing and the theorem claims nothing about them);
* `dq_replay_reachable`: hence the final model state is `Reachable`.

The corollaries through the property theorems are in `Driver/Ev/DelayQSoundC08.lean`.
-/
import Driver.Ev.DelayQ

namespace Driver.Ev.DQ
open Ekit Ekit.Conc Ekit.DelayQ

theorem run_cons {σ ι : Type} (S : System σ ι) (s : σ) (l : ι) (ls : List ι) :
    S.run s (l :: ls) = (S.step s l).bind (fun s' => S.run s' ls) := by
  simp only [System.run]; cases S.step s l <;> rfl

theorem run_one (P : Params) (m m' : DelayQ.State) (l : Label) (h : step P m l = some m') :
    (sys P).toSystem.run m [l] = some m' := by
  rw [run_cons]
  show (step P m l).bind (fun s1 => (sys P).toSystem.run s1 []) = some m'
  rw [h]; rfl

/-- `SilM P m m'`: `m'` is reached from `m` by steps of `sys P` without observable event -/
def SilM (P : Params) (m m' : DelayQ.State) : Prop :=
  ∃ ls : List Label, (sys P).toSystem.run m ls = some m' ∧ (sys P).history ls = []

theorem SilM.refl (P : Params) (m : DelayQ.State) : SilM P m m := ⟨[], rfl, rfl⟩

theorem SilM.trans {P : Params} {a b c : DelayQ.State} (h1 : SilM P a b) (h2 : SilM P b c) : SilM P a c := by
  obtain ⟨l1, r1, o1⟩ := h1
  obtain ⟨l2, r2, o2⟩ := h2
  refine ⟨l1 ++ l2, ?_, ?_⟩
  · rw [System.run_append, r1]; exact r2
  · simp only [ObjSystem.history, List.filterMap_append] at *
    rw [o1, o2]; rfl

theorem SilM.single {P : Params} {m m' : DelayQ.State} (l : Label) (h : step P m l = some m') (ho : obs l = none) :
    SilM P m m' := by
  refine ⟨[l], run_one P m m' l h, ?_⟩
  simp [ObjSystem.history, sys, ho]

/-- a `do`-block `x ← a; f x` that succeeds: both parts succeeded -/
theorem bind_ok {α β : Type} {a : Except String α} {f : α → Except String β} {b : β}
    (h : (a >>= f) = .ok b) : ∃ x, a = .ok x ∧ f x = .ok b := by
  cases a with
  | error e => cases h
  | ok x => exact ⟨x, rfl, h⟩

/-- `Snd P m r`: whatever the replayer computation `r` returns has the parameters `P`, and its model state is reached
    from `m` by unobservable steps of `sys P` -/
def Snd (P : Params) (m : DelayQ.State) (r : Except String State) : Prop :=
  ∀ s', r = .ok s' → s'.P = P ∧ SilM P m s'.m

theorem Snd.error {P : Params} {m : DelayQ.State} {e : String} : Snd P m (.error e) := by
  intro s' h; cases h

theorem Snd.throw {P : Params} {m : DelayQ.State} {e : String} : Snd P m (throw e) := by
  intro s' h; cases h

/-- a result that differs from the current state in bookkeeping only -/
theorem Snd.ok {P : Params} {m : DelayQ.State} {s1 : State} (hP : s1.P = P) (hm : s1.m = m) : Snd P m (.ok s1) := by
  intro s' h; cases h; exact ⟨hP, hm ▸ SilM.refl P _⟩

theorem Snd.pure {P : Params} {m : DelayQ.State} {s1 : State} (hP : s1.P = P) (hm : s1.m = m) :
    Snd P m (pure s1) := Snd.ok hP hm

theorem Snd.bind {P : Params} {m : DelayQ.State} {a : Except String State} {f : State → Except String State}
    (h1 : Snd P m a) (h2 : ∀ s1, Snd s1.P s1.m (f s1)) : Snd P m (a >>= f) := by
  intro s' h
  obtain ⟨s1, ha, hf⟩ := bind_ok h
  obtain ⟨hP, hS⟩ := h1 s1 ha
  obtain ⟨hP2, hS2⟩ := h2 s1 s' hf
  exact ⟨hP2.trans hP, SilM.trans hS (hP ▸ hS2)⟩

/-- a check that returns no state -/
theorem Snd.bind_any {α : Type} {P : Params} {m : DelayQ.State} {a : Except String α} {f : α → Except String State}
    (h2 : ∀ x, Snd P m (f x)) : Snd P m (a >>= f) := by
  intro s' h
  obtain ⟨x, _, hf⟩ := bind_ok h
  exact h2 x s' hf

/-- one model step with an unobservable label -/
theorem stepM_snd {s : State} {l : Label} {w : String} (ho : obs l = none) : Snd s.P s.m (stepM s l w) := by
  intro s' h
  unfold stepM at h
  split at h
  · rename_i m' hs
    cases h; exact ⟨rfl, SilM.single l hs ho⟩
  · cases h

/-- the model step of an observable label, as `stepM` performs it -/
theorem stepM_step {s s' : State} {l : Label} {w : String} (h : stepM s l w = .ok s') :
    s'.P = s.P ∧ step s.P s.m l = some s'.m ∧ s'.skip = s.skip := by
  unfold stepM at h
  split at h
  · rename_i m' hs
    cases h; exact ⟨rfl, hs, rfl⟩
  · cases h

theorem tickTo_snd {s : State} {r : Nat} : Snd s.P s.m (tickTo s r) := by
  unfold tickTo
  split
  · exact Snd.ok rfl rfl
  · exact stepM_snd rfl

theorem ended_snd {s : State} {t : Nat} : Snd s.P s.m (ended s t) := by
  unfold ended
  split
  · exact Snd.ok rfl rfl
  · exact stepM_snd rfl

theorem checkChan_snd {s : State} {c : CondId} {g : Nat} {key snap : String} :
    Snd s.P s.m (checkChan s c g key snap) := by
  unfold checkChan
  repeat' split
  all_goals first
    | exact Snd.ok rfl rfl
    | exact Snd.error

theorem advance_snd (t : Nat) : ∀ (fuel : Nat) (s : State), Snd s.P s.m (advance s t fuel)
  | 0, s => by unfold advance; exact Snd.error
  | fuel + 1, s => by
    unfold advance
    split
    · exact Snd.bind (stepM_snd rfl) (fun s1 => advance_snd t fuel s1)
    · split
      · rename_i m' hs
        intro s' h
        obtain ⟨hP, hS⟩ := advance_snd t fuel { s with m := m' } s' h
        exact ⟨hP, SilM.trans (SilM.single _ hs rfl) hS⟩
      · exact Snd.error
    · split
      · rename_i m' hs
        intro s' h
        obtain ⟨hP, hS⟩ := advance_snd t fuel { s with m := m' } s' h
        exact ⟨hP, SilM.trans (SilM.single _ hs rfl) hS⟩
      · exact Snd.error
    · exact Snd.bind (stepM_snd rfl) (fun s1 => advance_snd t fuel s1)
    · exact Snd.bind (stepM_snd rfl) (fun s1 => advance_snd t fuel s1)
    · exact Snd.bind (stepM_snd rfl) (fun s1 => advance_snd t fuel s1)
    · exact Snd.ok rfl rfl

theorem Snd.throw_bind {α : Type} {P : Params} {m : DelayQ.State} {e : String} {f : α → Except String State} :
    Snd P m ((MonadExcept.throw e : Except String α) >>= f) := by
  intro s' h; cases h

/-- a `clk:Delay` event: `tick` to the reading, then — at `dPeek` / `dRepeek` — the model's `peek` / `repeek` with the
    observed root (or nothing but `skip := true` after a comparator stall) -/
theorem clk_snd {s : State} {t : Nat} {res : String} : Snd s.P s.m (clk s t res) := by
  unfold clk
  split
  · split
    · dsimp only
      split
      · exact Snd.throw_bind
      · refine Snd.bind tickTo_snd (fun s1 => ?_)
        repeat' split
        all_goals first
          | exact Snd.ok rfl rfl
          | exact Snd.error
          | exact Snd.throw
          | (intro s' h; cases h; exact ⟨rfl, SilM.single _ ‹_› rfl⟩)
    · exact Snd.error
  · exact Snd.error

/-- what `sync` does after the silent advance: the synchronisation action the model performs at the thread's pc -/
theorem sync_snd {s : State} {t : Nat} {fn act res : String} : Snd s.P s.m (sync s t fn act res) := by
  unfold sync
  split
  · exact Snd.pure rfl rfl
  split
  · exact clk_snd
  refine Snd.bind (advance_snd t _ _) (fun s1 => ?_)
  dsimp only
  split
  all_goals first
    | exact stepM_snd rfl
    | exact Snd.error
    | exact Snd.bind ended_snd (fun _ => stepM_snd rfl)
    | exact Snd.bind checkChan_snd (fun _ => stepM_snd rfl)
    | exact Snd.bind_any (fun _ => stepM_snd rfl)
    | (split
       all_goals first
         | exact stepM_snd rfl
         | exact Snd.error
         | exact Snd.pure rfl rfl
         | exact Snd.bind tickTo_snd (fun _ => Snd.bind (stepM_snd rfl) (fun _ => stepM_snd rfl))
         | (split
            all_goals first
              | exact stepM_snd rfl
              | exact Snd.error
              | exact Snd.pure rfl rfl
              | exact Snd.bind tickTo_snd (fun _ => Snd.bind (stepM_snd rfl) (fun _ => stepM_snd rfl))))


/-- **an accepted synchronisation / clock event is a silent run of the model** (and leaves the parameters alone) -/
theorem dq_sync_sound {s s' : State} {t : Nat} {fn act res : String} (h : sync s t fn act res = .ok s') :
    s'.P = s.P ∧ SilM s.P s.m s'.m := sync_snd s' h

/-! ### invocation and response notes -/

/-- the call an `inv` note announces (`e <t> inv enq <id> <dl> <ctx kind>` / `e <t> inv deq <ctx kind>`) -/
def parseCall : List String → Option Op
  | ["enq", id, dl, _] =>
    match id.toNat?, dl.toNat? with
    | some id, some dl => some (.enq ⟨id, dl⟩)
    | _, _ => none
  | ["deq", _] => some .deq
  | _ => none

/-- the model's label of an invocation -/
def invLabel (t : Nat) : Op → Label
  | .enq x => .invEnq t x
  | .deq => .invDeq t

/-- what a `res` note shows of a result: the id of a dequeued element, not its deadline; one word for both
    context-error exits -/
inductive RetV | ok | ctxErr | val (id : Nat) | err
  deriving DecidableEq, Repr

def viewRet : Ret → RetV
  | .enqOk => .ok
  | .enqCtx => .ctxErr
  | .deqOk x => .val x.id
  | .deqCtx => .ctxErr
  | .deqErr => .err

/-- `e <t> res ok | res val <id> | res ctxErr | res err` -/
def parseRes : List String → Option RetV
  | ["ok"] => some .ok
  | ["ctxErr"] => some .ctxErr
  | ["val", v] => v.toNat?.map .val
  | ["err"] => some .err
  | _ => none

/-- **an accepted invocation note is the model's invocation step** of the call it announces -/
theorem dq_inv_sound {s s' : State} {t : Nat} {args : List String} (hk : s.skip = false)
    (h : invL s t args = .ok s') :
    ∃ op, parseCall args = some op ∧ s'.P = s.P ∧ step s.P s.m (invLabel t op) = some s'.m := by
  unfold invL at h
  rw [if_neg (by simp [hk])] at h
  dsimp only at h
  split at h
  · split at h
    · rename_i id dl hid hdl
      obtain ⟨hP, hs, _⟩ := stepM_step h
      exact ⟨.enq ⟨id, dl⟩, by simp [parseCall, hid, hdl], hP, hs⟩
    · cases h
  · obtain ⟨hP, hs, _⟩ := stepM_step h
    exact ⟨.deq, rfl, hP, hs⟩
  · cases h

/-- **an accepted response note is silent steps of the model followed by its `ret` step**, with a result the note is
    the rendering of -/
theorem dq_res_sound {s s' : State} {t : Nat} {args : List String} (hk : s.skip = false)
    (h : resL s t args = .ok s') :
    ∃ m1 r, SilM s.P s.m m1 ∧ step s.P m1 (.ret t r) = some s'.m ∧ s'.P = s.P ∧ parseRes args = some (viewRet r) := by
  unfold resL at h
  rw [if_neg (by simp [hk])] at h
  obtain ⟨s1, ha, h⟩ := bind_ok h
  obtain ⟨hP1, hS1⟩ : s1.P = s.P ∧ SilM s.P s.m s1.m :=
    advance_snd t _ { s with last := upd s.last t none } s1 ha
  split at h
  · rename_i r hpc
    dsimp only at h
    -- the six rows of the comparison of the model's result with the logged one
    split at h
    all_goals
      split at h
      · cases h
      · rename_i hsame
        split at h
        · cases h
        · obtain ⟨s2, hst, h⟩ := bind_ok h
          cases h
          obtain ⟨hP2, hs2, _⟩ := stepM_step hst
          refine ⟨s1.m, _, hS1, hP1 ▸ hs2, hP2.trans hP1, ?_⟩
          first
            | rfl
            | (exfalso; exact hsame rfl)
            | (simp at hsame; simp [parseRes, viewRet, hsame])
  · cases h

/-! ### whole logs -/

/-- a log entry as the driver hands it to the replayer (`Driver.EvTrace.event` on a `dq` state): the thread, and the
    words of the line still unparsed -/
inductive Entry where
  | inv (t : Nat) (args : List String)
  | res (t : Nat) (args : List String)
  | sync (t : Nat) (fn act res : String)

/-- the observed call history: what the invocation / response notes of the log say -/
def Entry.obs : Entry → Option (Ev Op RetV)
  | .inv t args => (parseCall args).map (.inv t)
  | .res t args => (parseRes args).map (.res t)
  | .sync .. => none

/-- rendering of an event of the model's history as the log shows it -/
def viewEv : Ev Op Ret → Ev Op RetV
  | .inv t op => .inv t op
  | .res t r => .res t (viewRet r)

/-- the driver's treatment of one entry -/
def replay1 (s : State) : Entry → Except String State
  | .inv t args => invL s t args
  | .res t args => resL s t args
  | .sync t fn act res => DQ.sync s t fn act res

def replay (s : State) : List Entry → Except String State
  | [] => .ok s
  | e :: es => replay1 s e >>= fun s' => replay s' es

/-- once `skip` is set nothing is judged (and nothing is claimed) any more -/
theorem replay1_skip {s s' : State} {e : Entry} (hk : s.skip = true) (h : replay1 s e = .ok s') : s' = s := by
  cases e with
  | inv t args => simp only [replay1, invL, hk, if_true] at h; cases h; rfl
  | res t args =>
    simp only [replay1, resL, hk, if_true] at h; cases h; rfl
  | sync t fn act res =>
    simp only [replay1, DQ.sync, hk, if_true] at h; cases h; rfl

theorem replay_skip : ∀ (es : List Entry) {s s' : State}, s.skip = true → replay s es = .ok s' → s' = s
  | [], s, s', _, h => by cases h; rfl
  | e :: es, s, s', hk, h => by
    obtain ⟨s1, h1, h2⟩ := bind_ok h
    have := replay1_skip hk h1
    subst this
    exact replay_skip es hk h2

theorem history_one (P : Params) (l : Label) : (sys P).history [l] = (obs l).toList := by
  simp only [ObjSystem.history, sys, List.filterMap_cons, List.filterMap_nil]
  cases obs l <;> rfl

/-- one judged entry: a run of the model whose history, rendered, is what the entry shows -/
theorem replay1_sound {s s' : State} {e : Entry} (hk : s.skip = false) (h : replay1 s e = .ok s') :
    s'.P = s.P ∧ ∃ ls, (sys s.P).toSystem.run s.m ls = some s'.m ∧
      ((sys s.P).history ls).map viewEv = e.obs.toList := by
  cases e with
  | inv t args =>
    obtain ⟨op, hp, hP, hs⟩ := dq_inv_sound hk h
    refine ⟨hP, [invLabel t op], run_one _ _ _ _ hs, ?_⟩
    rw [history_one]
    cases op <;> simp [Entry.obs, hp, invLabel, DelayQ.obs, viewEv]
  | res t args =>
    obtain ⟨m1, r, ⟨ls, hr, ho⟩, hs, hP, hp⟩ := dq_res_sound hk h
    refine ⟨hP, ls ++ [.ret t r], ?_, ?_⟩
    · rw [System.run_append, hr]
      exact run_one _ _ _ _ hs
    · have : (sys s.P).history (ls ++ [.ret t r]) = (sys s.P).history ls ++ (sys s.P).history [.ret t r] := by
        simp only [ObjSystem.history, List.filterMap_append]
      rw [this, ho, history_one]
      simp [Entry.obs, hp, DelayQ.obs, viewEv]
  | sync t fn act res =>
    obtain ⟨hP, ls, hr, ho⟩ := dq_sync_sound h
    exact ⟨hP, ls, hr, by rw [ho]; rfl⟩

theorem replay_sound : ∀ (es : List Entry) (s s' : State), replay s es = .ok s' →
    s'.P = s.P ∧ ∃ ls, (sys s.P).toSystem.run s.m ls = some s'.m ∧
      ((sys s.P).history ls).map viewEv <+: es.filterMap Entry.obs ∧
      (s'.skip = false → ((sys s.P).history ls).map viewEv = es.filterMap Entry.obs)
  | [], s, s', h => by cases h; exact ⟨rfl, [], rfl, List.prefix_refl _, fun _ => rfl⟩
  | e :: es, s, s', h => by
    cases hk : s.skip with
    | true =>
      have := replay_skip (e :: es) hk h
      subst this
      exact ⟨rfl, [], rfl, List.nil_prefix, fun hf => by rw [hk] at hf; cases hf⟩
    | false =>
      obtain ⟨s1, h1, h2⟩ := bind_ok h
      obtain ⟨hP1, l1, r1, o1⟩ := replay1_sound hk h1
      obtain ⟨hP2, l2, r2, o2, o2'⟩ := replay_sound es s1 s' h2
      rw [hP1] at r2 o2 o2'
      have hh : ((sys s.P).history (l1 ++ l2)).map viewEv
          = e.obs.toList ++ ((sys s.P).history l2).map viewEv := by
        rw [← o1]; simp only [ObjSystem.history, List.filterMap_append, List.map_append]
      have he : (e :: es).filterMap Entry.obs = e.obs.toList ++ es.filterMap Entry.obs := by
        simp only [List.filterMap_cons]; cases e.obs <;> rfl
      refine ⟨hP2.trans hP1, l1 ++ l2, ?_, ?_, ?_⟩
      · rw [System.run_append, r1]; exact r2
      · rw [hh, he]; exact (List.prefix_append_right_inj _).mpr o2
      · intro hf; rw [hh, he, o2' hf]

/-- what `init` builds from the arguments of `new evt dq …`: the model's initial state, judged -/
theorem init_sound {args : List String} {s0 : State} (h : init args = .ok s0) :
    s0.m = DelayQ.init ∧ s0.skip = false := by
  unfold init at h
  split at h
  · split at h
    · cases h; exact ⟨rfl, rfl⟩
    · split at h
      · cases h; exact ⟨rfl, rfl⟩
      · cases h
  · cases h

/-- **an accepted log is a run of the verified model**: from the model's initial state, with parameters `P` as `init`
    read them (discipline and capacity of the scenario), and with the logged invocations and responses as its
    (rendered) history — all of them if the replay did not end `skip`ped, a prefix of them otherwise -/
theorem dq_replay_sound (args : List String) (s0 : State) (h0 : init args = .ok s0) (es : List Entry) (s' : State)
    (h : replay s0 es = .ok s') :
    s'.P = s0.P ∧ ∃ ls, (sys s0.P).toSystem.run (sys s0.P).init ls = some s'.m ∧
      ((sys s0.P).history ls).map viewEv <+: es.filterMap Entry.obs ∧
      (s'.skip = false → ((sys s0.P).history ls).map viewEv = es.filterMap Entry.obs) := by
  obtain ⟨hP, ls, hr, ho⟩ := replay_sound es s0 s' h
  rw [(init_sound h0).1] at hr
  exact ⟨hP, ls, hr, ho⟩

/-- hence the final model state is reachable: every invariant of `Ekit/Props/C08.lean` / `C09b.lean` holds of it -/
theorem dq_replay_reachable (args : List String) (s0 : State) (h0 : init args = .ok s0) (es : List Entry) (s' : State)
    (h : replay s0 es = .ok s') : (sys s0.P).toSystem.Reachable s'.m := by
  obtain ⟨_, ls, hr, _⟩ := dq_replay_sound args s0 h0 es s' h
  exact System.reachable_of_run _ ls System.Reachable.init hr


end Driver.Ev.DQ
