/-
Shared helpers of the synchronisation-event replayers (driver area `evtrace`, see Driver/EvTrace.lean).

Every target module `Driver/Ev/<Target>.lean` offers, for its model,

    init  : List String → Except String State        -- from the k=v arguments of `new evt <target> …`
    inv   : State → Nat → List String → Except String State     -- `e <tid> inv <call …>`
    res   : State → Nat → List String → Except String State     -- `e <tid> res <result …>`
    sync  : State → Nat → (fn act res : String) → Except String State   -- `e <tid> <fn>:<act> => <res>`
    atEnd : State → Option String                     -- complaint at `end`, if any

written in terms of the model's own `step`.
-/
import Driver.Util

namespace Driver.Ev
open Driver

/-- "a/b/c" → [a,b,c]; "" → [] -/
def parseSlash (s : String) : Option (List Int) :=
  if s = "" then some [] else (s.splitOn "/").mapM (·.toInt?)

/-- "k1=v1,k2=v2" lookup -/
def snapField (snap key : String) : Option String :=
  (snap.splitOn ",").findSome? fun w =>
    if w.startsWith (key ++ "=") then some ((w.drop (key.length + 1)).toString) else none

def argInt (ws : List String) (key : String) : Option Int :=
  ws.findSome? fun w => if w.startsWith (key ++ "=") then ((w.drop (key.length + 1)).toString).toInt? else none

def argStr (ws : List String) (key : String) : Option String :=
  ws.findSome? fun w => if w.startsWith (key ++ "=") then some ((w.drop (key.length + 1)).toString) else none

/-- split "Type_Func:Action(target)" at the first ':' -/
def splitSite (site : String) : String × String :=
  match site.splitOn ":" with
  | fn :: rest => (fn, ":".intercalate rest)
  | [] => (site, "")

end Driver.Ev
