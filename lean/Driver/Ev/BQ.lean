/-
Event replayers of the two blocking queues (targets `abq`, `lbq`) on `Ekit.ArrayBQ` / `Ekit.LinkedBQ`.
-/
import Driver.Ev.Core
import Ekit.Model.ArrayBQ
import Ekit.Model.LinkedBQ

namespace Driver.Ev
open Driver Ekit Ekit.Conc Ekit.BQ

def parseRet : List String → Option Ret
  | ["ok"] => some .ok
  | ["ctxErr"] => some .ctxErr
  | ["err"] => some .err
  | ["val", v] => v.toInt?.map .val
  | ["n", k] => k.toInt?.map .n
  | ["slice", l] => (parseInts l).map .slice
  | _ => none

def parseOp : List String → Option Op
  | "enq" :: v :: _ => v.toInt?.map .enq
  | "deq" :: _ => some .deq
  | ["len"] => some .len
  | ["asslice"] => some .asSlice
  | _ => none

/-! ### array blocking queue -/
namespace ABQ
open Ekit.ArrayBQ

/-- program counters whose next step is not a logged synchronisation action -/
def silent : Pc → Bool
  | .eStore _ | .eAdv _ | .dRead | .dAdv _ | .lRead | .aMake | .aLoop _ _ => true
  | _ => false

/-- advance `t` over silent steps -/
def advance (s : State) (t : Nat) : Nat → Except String State
  | 0 => .error "model: too many silent steps"
  | fuel + 1 =>
    if silent (s.pc t) then
      match step s (.tau t) with
      | some s' => advance s' t fuel
      | none => .error s!"model: thread {t} cannot perform the statement at {repr (s.pc t)}"
    else .ok s

def tau (s : State) (t : Nat) (what : String) : Except String State :=
  match step s (.tau t) with
  | some s' => if s'.panicked then .error s!"model: {what} makes the model panic" else .ok s'
  | none => .error s!"model: {what} by thread {t} is not enabled in the model's state (pc {repr (s.pc t)}, writer {repr s.writer}, readers {s.readers}, enqFree {s.enqFree}, deqFree {s.deqFree})"

/-- the context of `t`'s call was observed ended -/
def ended (s : State) (t : Nat) : Except String State :=
  if s.ctxDone t then .ok s else
  match step s (.ctxEnd t) with
  | some s' => .ok s'
  | none => .error "model: ctxEnd not enabled"

def checkSnap (s : State) (snap : String) : Except String Unit :=
  if snap = "na" ∨ snap = "-" ∨ snap = "" then .ok () else
  match (snapField snap "head").bind (·.toNat?), (snapField snap "tail").bind (·.toNat?),
        (snapField snap "count").bind (·.toInt?), (snapField snap "data").bind parseSlash with
  | some h, some tl, some c, some d =>
    if h = s.head ∧ tl = s.tail ∧ c = s.count ∧ d = s.data then .ok ()
    else .error s!"snapshot inside the critical section ({snap}) differs from the model: head={s.head} tail={s.tail} count={s.count} data={renderInts s.data}"
  | _, _, _, _ => .error s!"unreadable snapshot {snap}"

/-- one logged synchronisation action `fn:act` with result `res` of thread `t` -/
def sync (s : State) (t : Nat) (fn act res : String) : Except String State := do
  let s ← advance s t 10000
  let bad : Except String State :=
    .error s!"thread {t} logged {fn}:{act} ({res}) where the model is at {repr (s.pc t)}"
  match s.pc t, act with
  | .eAcq _, "SemAcquire(enqueueCap)" =>
    if res = "nil" then tau s t act
    else do
      let s ← ended s t
      match step s (.ctxArm t) with
      | some s' => pure s'
      | none => .error "model: Acquire cannot fail here"
  | .dAcq, "SemAcquire(dequeueCap)" =>
    if res = "nil" then tau s t act
    else do
      let s ← ended s t
      match step s (.ctxArm t) with
      | some s' => pure s'
      | none => .error "model: Acquire cannot fail here"
  | .eLock _, "Lock(mutex)" => tau s t act
  | .dLock, "Lock(mutex)" => tau s t act
  | .eChk _, "ctx.Err" | .dChk, "ctx.Err" =>
    if res = "nil" then
      if s.ctxDone t then .error s!"thread {t}: ctx.Err() = nil after the context had been observed ended" else tau s t act
    else do
      let s ← ended s t
      tau s t act
  | .eRelBack, "SemRelease(enqueueCap)" => tau s t act
  | .dRelBack, "SemRelease(dequeueCap)" => tau s t act
  | .eRel, "SemRelease(dequeueCap)" => tau s t act
  | .dRel _, "SemRelease(enqueueCap)" => tau s t act
  | .unlock .ctxErr, "ctx.Err" =>       -- the `return ctx.Err()` of the early exit
    if res = "nil" then .error s!"thread {t}: the early exit returns a nil ctx.Err()" else pure s
  | .unlock _, "Unlock(mutex)" =>
    do checkSnap s res; tau s t act
  | .lRLock, "RLock(mutex)" => tau s t act
  | .aRLock, "RLock(mutex)" => tau s t act
  | .runlock (.n _), "RUnlock(mutex)" => do checkSnap s res; tau s t act
  | .runlock (.slice _), "RUnlock(mutex)" => do checkSnap s res; tau s t act
  | _, _ => bad

def inv (s : State) (t : Nat) (op : Op) : Except String State :=
  match step s (.inv t op) with
  | some s' => .ok s'
  | none => .error s!"model: thread {t} starts a call while the model has it at {repr (s.pc t)}"

def res (s : State) (t : Nat) (r : Ret) : Except String State := do
  let s ← advance s t 10000
  match step s (.res t r) with
  | some s' => pure s'
  | none => .error s!"thread {t} returned {repr r} where the model is at {repr (s.pc t)}"

end ABQ

/-! ### linked blocking queue (+ cond) -/
namespace LBQ
open Ekit.LinkedBQ

def silent : Pc → Bool
  | .eGuard _ | .eSigRead _ | .eAppend _ | .dGuard | .dSigRead | .dDelete | .bcSwap _ _ | .lRead | .aRead => true
  | _ => false

def advance (s : State) (t : Nat) : Nat → Except String State
  | 0 => .error "model: too many silent steps"
  | fuel + 1 =>
    if silent (s.pc t) then
      match step s (.tau t) with
      | some s' => advance s' t fuel
      | none => .error s!"model: thread {t} cannot perform the statement at {repr (s.pc t)}"
    else .ok s

def tau (s : State) (t : Nat) (what : String) : Except String State :=
  match step s (.tau t) with
  | some s' => if s'.panicked then .error s!"model: {what} makes the model panic" else .ok s'
  | none => .error s!"model: {what} by thread {t} is not enabled in the model's state (pc {repr (s.pc t)}, writer {repr s.writer}, readers {s.readers}, notEmpty {repr s.notEmpty}, notFull {repr s.notFull})"

def ended (s : State) (t : Nat) : Except String State :=
  if s.ctxDone t then .ok s else
  match step s (.ctxEnd t) with
  | some s' => .ok s'
  | none => .error "model: ctxEnd not enabled"

def checkSnap (s : State) (snap : String) : Except String Unit :=
  if snap = "na" ∨ snap = "-" ∨ snap = "" then .ok () else
  match (snapField snap "max").bind (·.toInt?), (snapField snap "q").bind parseSlash with
  | some m, some q =>
    if m = s.maxSize ∧ q = s.q then .ok ()
    else .error s!"snapshot inside the critical section ({snap}) differs from the model: maxSize={s.maxSize} q={renderInts s.q}"
  | _, _ => .error s!"unreadable snapshot {snap}"

def ctxObs (s : State) (t : Nat) (res act : String) : Except String State :=
  if res = "nil" then
    if s.ctxDone t then .error s!"thread {t}: ctx.Err() = nil after the context had been observed ended" else tau s t act
  else do
    let s ← ended s t
    tau s t act

def sync (s : State) (t : Nat) (fn act res : String) : Except String State := do
  let s ← advance s t 10000
  let bad : Except String State :=
    .error s!"thread {t} logged {fn}:{act} ({res}) where the model is at {repr (s.pc t)}"
  match s.pc t, act with
  | .eCtx _, "ctx.Err" => ctxObs s t res act
  | .dCtx, "ctx.Err" => ctxObs s t res act
  | .ret .ctxErr, "ctx.Err" =>            -- `return ctx.Err()` after the check / the ctx.Done() arm
    if res = "nil" then .error s!"thread {t}: a context-error exit returns a nil ctx.Err()" else pure s
  | .eLock _, "Lock(mutex)" => tau s t act
  | .dLock, "Lock(mutex)" => tau s t act
  | .eSigUnlock _ _, "Unlock(l)" | .dSigUnlock _, "Unlock(l)" => tau s t act
  | .eSelect _ _, "Select:Recv($)" => tau s t act
  | .dSelect _, "Select:Recv($)" => tau s t act
  | .eSelect _ _, "Select:Recv(ctx.Done())" | .dSelect _, "Select:Recv(ctx.Done())" => do
      let s ← ended s t
      match step s (.ctxArm t) with
      | some s' => pure s'
      | none => .error "model: the ctx.Done() arm is not enabled"
  | .bcUnlock _ _ _, "Unlock(l)" => tau s t act
  | .bcClose _ _ _, "Close($)" => tau s t act
  | .lRLock, "RLock(mutex)" => tau s t act
  | .aRLock, "RLock(mutex)" => tau s t act
  | .runlock (.n _), "RUnlock(mutex)" => do checkSnap s res; tau s t act
  | .runlock (.slice _), "RUnlock(mutex)" => do checkSnap s res; tau s t act
  | _, _ => bad

def inv (s : State) (t : Nat) (op : Op) : Except String State :=
  match step s (.inv t op) with
  | some s' => .ok s'
  | none => .error s!"model: thread {t} starts a call while the model has it at {repr (s.pc t)}"

def res (s : State) (t : Nat) (r : Ret) : Except String State := do
  let s ← advance s t 10000
  match step s (.res t r) with
  | some s' => pure s'
  | none => .error s!"thread {t} returned {repr r} where the model is at {repr (s.pc t)}"

end LBQ


namespace ABQ
def init (args : List String) : Except String Ekit.ArrayBQ.State :=
  match argInt args "cap" with
  | some c => if c < 1 then .error "capacity < 1" else .ok (Ekit.ArrayBQ.init c.toNat)
  | none => .error "cap= missing"
def invL (s : Ekit.ArrayBQ.State) (t : Nat) (args : List String) : Except String Ekit.ArrayBQ.State :=
  match parseOp args with
  | some o => inv s t o
  | none => .error "unreadable call"
def resL (s : Ekit.ArrayBQ.State) (t : Nat) (args : List String) : Except String Ekit.ArrayBQ.State :=
  match parseRet args with
  | some r => res s t r
  | none => .error "unreadable result"
def atEnd (s : Ekit.ArrayBQ.State) : Option String :=
  if s.live.isEmpty then none else some "calls still in flight in the model at the end of the scenario"
end ABQ

namespace LBQ
def init (args : List String) : Except String Ekit.LinkedBQ.State :=
  match argInt args "cap" with
  | some c => .ok (Ekit.LinkedBQ.init c)
  | none => .error "cap= missing"
def invL (s : Ekit.LinkedBQ.State) (t : Nat) (args : List String) : Except String Ekit.LinkedBQ.State :=
  match parseOp args with
  | some o => inv s t o
  | none => .error "unreadable call"
def resL (s : Ekit.LinkedBQ.State) (t : Nat) (args : List String) : Except String Ekit.LinkedBQ.State :=
  match parseRet args with
  | some r => res s t r
  | none => .error "unreadable result"
def atEnd (s : Ekit.LinkedBQ.State) : Option String :=
  if s.live.isEmpty then none else some "calls still in flight in the model at the end of the scenario"
end LBQ

end Driver.Ev
