/-
Soundness of the event replayer of the task pool (target `pool`) with respect to the transition system the
C10–C12 theorems are about.

`Driver.Ev.Pool.invL / resL / sync` (events of harness threads) and `syncG` (events of the goroutines the library
makes) are what the driver runs on every logged event of a real execution (`Driver.EvTrace.event`, `eventG`).  Here
it is proved that whatever they accept IS a run of `Ekit.Pool.sys cfg`:

* `fire_soundO`: the only way the replayer changes the model component `st.m` of its state is `fire`, and an accepted
  `fire st l _` is the model's step `step st.cfg st.m l` (the tabulation `norm` of the callers function is the
  identity, because the model's steps move only the caller they name — `cAct_callers`, `wAct_callers` — and the
  callers beyond the scenario's threads never move: invariant `WF`);
* `csync_sound`, `sync_sound`, `wadvance_sound`, `wtimer_sound`, `wnote_sound`, `wact_sound`, `wsync_sound`,
  `syncG_sound`: an accepted synchronisation event — of a caller or of a worker goroutine, including the binding of
  a new goroutine name to a model worker — is a sequence of model steps none of which is an invocation or a return
  (`Steps`); everything else these functions do (step parts `csub`/`wsub`, goroutine names, keys, ids, the `adj`
  window, comparing snapshots) is bookkeeping beside the model and can only reject more;
* `invL_sound`, `resL_sound`: an accepted invocation note is the model's invocation step of exactly that call
  (`invAct`), an accepted response note is the model's `ret` step of that caller, and the result the code returned
  is the result of the model's call;
* `pool_replay_sound`: if a whole log (a list of parsed entries, folded with the very functions the driver calls) is
  accepted from the state `init` builds, the model component of the final state is the result of a run of
  `Ekit.Pool.sys cfg` from its initial state whose invocation / return labels are, in order, exactly the
  invocation / response notes of the log; `pool_replay_reachable`: in particular it is `Reachable`, so every
  invariant proved in `Ekit/Props/C10.lean`, `C11.lean`, `C12.lean` holds of it (`Driver/Ev/PoolSoundC10.lean`).

Not part of an entry list: lines the driver skips without touching the state (events of the constructor,
`New…`, on an unregistered goroutine) and the `end` line (`atEnd`, used in `PoolSoundC10.lean`).

So the replay is not merely a plausibility filter: acceptance of a real execution's log is a proof that the
execution is one the verified model has.
-/
import Driver.Ev.Pool

namespace Driver.Ev.Pool
open Driver Ekit.Pool

/-! ### the model's steps move only the caller they name -/

theorem wAct_callers {c : Cfg} {s s' : St} {i : Nat} {w : Worker} {a : WAct} (h : wAct c s i w a = some s') :
    s'.callers = s.callers := by
  cases a <;> simp only [wAct] at h <;> (repeat' split at h) <;>
    first
    | (cases h; rfl)
    | (cases h; done)

theorem setC_callers (s : St) (t u : Nat) (cl : Caller) (hu : u ≠ t) : (s.setC t cl).callers u = s.callers u := by
  simp [St.setC, upd, hu]

theorem cAct_callers {c : Cfg} {s s' : St} {t : Nat} {cl : Caller} {a : CAct} (h : cAct c s t cl a = some s') :
    ∀ u, u ≠ t → s'.callers u = s.callers u := by
  intro u hu
  cases a <;> simp only [cAct, toUnlock] at h <;> (repeat' split at h) <;>
    first
    | (cases h; first | rfl | exact (setC_callers _ _ _ _ hu).trans rfl)
    | (cases h; done)

/-! ### `norm` is the identity on the states of a scenario -/

/-- the callers beyond `g` (no thread of the scenario) have never moved -/
def WF (g : Nat) (m : St) : Prop := ∀ u, g < u → m.callers u = {}

theorem norm_eq {g : Nat} {m : St} (h : WF g m) : norm g m = m := by
  have : (fun u => ((List.range (g + 1)).map m.callers).getD u {}) = m.callers := by
    funext u
    by_cases hu : u < g + 1
    · simp [List.getD_eq_getElem?_getD, hu]
    · have : ((List.range (g + 1)).map m.callers)[u]? = none := by
        simp; omega
      rw [List.getD_eq_getElem?_getD, this]
      exact (h u (by omega)).symm
  show { m with callers := fun u => ((List.range (g + 1)).map m.callers).getD u {} } = m
  rw [this]

/-- the labels the replayer may fire: any worker's, and those of the callers `0 … g` -/
def labOk (g : Nat) : Label → Prop
  | .w _ _ => True
  | .c t _ => t ≤ g

theorem labOk_c {g t : Nat} {a : CAct} (h : t ≤ g) : labOk g (.c t a) := h

theorem step_WF {c : Cfg} {g : Nat} {s s' : St} {l : Label} (h : step c s l = some s') (hl : labOk g l)
    (hw : WF g s) : WF g s' := by
  intro u hu
  cases l with
  | w i a =>
    simp only [step, wStep] at h
    split at h
    · rw [wAct_callers h]; exact hw u hu
    · cases h
  | c t a =>
    have ht : t ≤ g := hl
    rw [cAct_callers h u (by omega)]; exact hw u hu

/-! ### runs of the model inside replayer states -/

theorem run_one (c : Cfg) (s s' : St) (l : Label) (h : step c s l = some s') : (sys c).run s [l] = some s' := by
  have h' : (sys c).step s l = some s' := h
  simp only [Ekit.Conc.System.run, h']

/-- the observable labels of the model: a caller's invocation and its return -/
def vis : Label → Bool
  | .c _ (.invSubmit _ _) | .c _ .invSubmitNil | .c _ .invStart | .c _ .invShutdown | .c _ .invShutdownNow
  | .c _ .invStates | .c _ .ret => true
  | _ => false

/-- `StepsO o st st'`: same configuration, same threads; if `st` is a state of the scenario then so is `st'`, and the
    model component of `st'` is reached from that of `st` by steps of the model whose observable labels are `o` -/
def StepsO (o : List Label) (st st' : State) : Prop :=
  st'.cfg = st.cfg ∧ st'.g = st.g ∧
    (WF st.g st.m → WF st'.g st'.m ∧ ∃ ls, (sys st.cfg).run st.m ls = some st'.m ∧ ls.filter vis = o)

/-- reached by steps of the model none of which is an invocation or a return -/
abbrev Steps (st st' : State) : Prop := StepsO [] st st'

theorem Steps.refl (st : State) : Steps st st := ⟨rfl, rfl, fun h => ⟨h, [], rfl, rfl⟩⟩

theorem StepsO.trans {o1 o2 : List Label} {a b c : State} (h1 : StepsO o1 a b) (h2 : StepsO o2 b c) :
    StepsO (o1 ++ o2) a c := by
  obtain ⟨c1, g1, r1⟩ := h1
  obtain ⟨c2, g2, r2⟩ := h2
  refine ⟨c2.trans c1, g2.trans g1, fun hw => ?_⟩
  obtain ⟨w1, l1, e1, v1⟩ := r1 hw
  obtain ⟨w2, l2, e2, v2⟩ := r2 w1
  refine ⟨w2, l1 ++ l2, ?_, ?_⟩
  · rw [Ekit.Conc.System.run_append, e1, ← c1]; exact e2
  · rw [List.filter_append, v1, v2]

theorem Steps.trans {a b c : State} (h1 : Steps a b) (h2 : Steps b c) : Steps a c := StepsO.trans h1 h2

/-- bookkeeping beside the model -/
theorem Steps.frame {st st' : State} (hc : st'.cfg = st.cfg) (hg : st'.g = st.g) (hm : st'.m = st.m) : Steps st st' :=
  ⟨hc, hg, fun h => ⟨by rw [hg, hm]; exact h, [], by rw [hm]; rfl, rfl⟩⟩

/-- **an accepted `fire` is the model's step** -/
theorem fire_soundO {st st' : State} {l : Label} {what : String} (h : fire st l what = .ok st')
    (hl : WF st.g st.m → labOk st.g l) : StepsO ([l].filter vis) st st' := by
  unfold fire at h
  split at h
  · rename_i m' hs
    split at h
    · cases h
    · cases h
      refine ⟨rfl, rfl, fun hw => ?_⟩
      have hw' : WF st.g m' := step_WF hs (hl hw) hw
      show WF st.g (norm st.g m') ∧ ∃ ls, (sys st.cfg).run st.m ls = some (norm st.g m') ∧ _
      rw [norm_eq hw']
      exact ⟨hw', [l], run_one _ _ _ _ hs, rfl⟩
  · cases h

theorem fire_sound {st st' : State} {l : Label} {what : String} (h : fire st l what = .ok st')
    (hl : WF st.g st.m → labOk st.g l) (hv : vis l = false) : Steps st st' := by
  have := fire_soundO h hl
  simpa [List.filter, hv] using this

/-- a caller that is not idle is a thread of the scenario -/
theorem le_of_pc {g t : Nat} {m : St} (hw : WF g m) (h : (m.callers t).pc ≠ .idle) : t ≤ g := by
  apply Nat.le_of_not_lt
  intro hlt
  rw [hw t hlt] at h
  exact h rfl

theorem le_of_ret {g t : Nat} {m : St} (hw : WF g m) (h : ¬ (m.callers t).pc ≠ .ret) : t ≤ g := by
  apply le_of_pc hw
  intro e
  rw [e] at h
  exact h (by decide)

/-- a `do`-block `x ← a; f x` that succeeds: both parts succeeded -/
theorem bind_ok {α β : Type} {a : Except String α} {f : α → Except String β} {b : β}
    (h : (a >>= f) = .ok b) : ∃ x, a = .ok x ∧ f x = .ok b := by
  cases a with
  | error e => cases h
  | ok x => exact ⟨x, rfl, h⟩

/-! ### the traversal of a replayer function

`h : e = .ok st'` with goal `Steps st st'`, where `e` is built from `fire`, the checks (`Except String Unit`), `pure` of
a state that differs from the current one in the bookkeeping only, errors, `if`/`match` and `do`. -/

set_option hygiene false in
macro "pool_lab" : tactic =>
  `(tactic| first
      | exact fun _ => True.intro
      | exact fun _ => Nat.zero_le _
      | exact fun hw => le_of_pc hw (by simp only [*]; try decide)
      | exact fun _ => labOk_c (by omega)
      | exact fun hw => le_of_ret hw (by assumption))

syntax "pool_go " ident : tactic
set_option hygiene false in
macro_rules
  | `(tactic| pool_go $h:ident) => `(tactic| first
      | (cases $h:ident; done)
      | (cases $h:ident; exact Steps.refl _)
      | (cases $h:ident; exact Steps.frame rfl rfl rfl)
      | ((with_reducible refine fire_sound $h ?_ ?_) <;> first | rfl | pool_lab)
      | with_reducible exact wadvance_sound _ _ _ _ $h
      | with_reducible exact wgo_sound $h
      | with_reducible exact wgoSnap_sound $h
      | with_reducible exact wnote_sound $h
      | ((with_reducible refine learnId_sound ?_ ?_ ?_ $h) <;> rfl)
      | with_reducible exact wact_sound $h
      | (with_reducible obtain ⟨x, h1, h2⟩ := bind_ok $h
         first
           | (refine Steps.trans (?_ : Steps _ x) ?_
              · pool_go h1
              · pool_go h2)
           | (clear h1; pool_go h2))
      | (split at $h:ident <;> pool_go $h))

/-! ### callers -/

theorem csync_sound {st st' : State} {t : Nat} {fn act res : String}
    (h : csync st t fn act res = .ok st') : Steps st st' := by
  unfold csync at h
  dsimp only at h
  pool_go h

theorem sync_sound {st st' : State} {t : Nat} {fn act res : String}
    (h : sync st t fn act res = .ok st') : Steps st st' := by
  unfold sync at h
  split at h
  · cases h; exact Steps.refl _
  · exact csync_sound h

/-- the invocation a call note stands for -/
def invAct : List String → Option CAct
  | ["submit", k, _ctx, beh] =>
    match k.toNat?, parseBeh beh with
    | some _, some b => some (.invSubmit true b)
    | _, _ => none
  | ["submitnil"] => some .invSubmitNil
  | ["start"] => some .invStart
  | ["shutdown"] => some .invShutdown
  | ["shutdownnow"] => some .invShutdownNow
  | _ => none

theorem StepsO.then {o : List Label} {a b c : State} (h1 : StepsO o a b) (h2 : Steps b c) : StepsO o a c := by
  have := StepsO.trans h1 h2
  rwa [List.append_nil] at this

/-- **an accepted invocation note is the model's invocation step of that call** -/
theorem invL_sound {st st' : State} {t : Nat} {args : List String}
    (h : invL st t args = .ok st') : ∃ a, invAct args = some a ∧ StepsO [.c t a] st st' := by
  unfold invL at h
  dsimp only at h
  split at h
  · obtain ⟨_, h1, _⟩ := bind_ok h
    cases h1
  · rename_i hg
    have hl : ∀ a, WF st.g st.m → labOk st.g (.c t a) := fun a _ => labOk_c (by omega)
    split at h
    · split at h
      · rename_i hk hb
        obtain ⟨x, h1, h2⟩ := bind_ok h
        cases h2
        exact ⟨_, by simp only [invAct, hk, hb], (fire_soundO h1 (hl _)).then (Steps.frame rfl rfl rfl)⟩
      · cases h
    · exact ⟨_, rfl, fire_soundO h (hl _)⟩
    · exact ⟨_, rfl, fire_soundO h (hl _)⟩
    · exact ⟨_, rfl, fire_soundO h (hl _)⟩
    · exact ⟨_, rfl, fire_soundO h (hl _)⟩
    · cases h

/-- **an accepted response note is the model's return step of that call**, and the result the code returned is the
    result of the model's call (for ShutdownNow also the tasks handed back, in order) -/
theorem resL_sound {st st' : State} {t : Nat} {args : List String}
    (h : resL st t args = .ok st') :
    (∃ r rest, args = r :: rest ∧ parseRes r = some (st.m.callers t).res) ∧ StepsO [.c t .ret] st st' := by
  unfold resL at h
  dsimp only at h
  split at h
  · obtain ⟨_, h1, _⟩ := bind_ok h
    cases h1
  · rename_i hpc
    have hl : WF st.g st.m → labOk st.g (.c t .ret) := fun hw => le_of_ret hw hpc
    split at h
    · split at h
      · rename_i r' hr
        split at h
        · obtain ⟨_, h1, _⟩ := bind_ok h
          cases h1
        · rename_i hres
          have hres' : (st.m.callers t).res = r' := Decidable.of_not_not hres
          refine ⟨⟨_, _, rfl, by rw [hr, hres']⟩, ?_⟩
          repeat' split at h
          all_goals first
            | exact fire_soundO h hl
            | (obtain ⟨_, h1, h2⟩ := bind_ok h
               first
                 | (cases h1; done)
                 | exact fire_soundO h2 hl)
      · cases h
    · cases h

/-! ### workers -/

theorem wadvance_sound (i : Nat) : ∀ (fuel : Nat) (st st' : State), wadvance st i fuel = .ok st' → Steps st st'
  | 0, st, st', h => by cases h
  | fuel + 1, st, st', h => by
    unfold wadvance at h
    split at h
    · split at h
      · obtain ⟨x, h1, h2⟩ := bind_ok h
        exact Steps.trans (fire_sound h1 (fun _ => True.intro) rfl) (wadvance_sound i fuel x st' h2)
      · split at h
        · obtain ⟨x, h1, h2⟩ := bind_ok h
          exact Steps.trans (fire_sound h1 (fun _ => True.intro) rfl) (wadvance_sound i fuel x st' h2)
        · cases h; exact Steps.refl _
    · cases h

theorem learnId_sound {st st0 st' : State} {snap : String} {i : Nat}
    (hc : st0.cfg = st.cfg) (hg : st0.g = st.g) (hm : st0.m = st.m)
    (h : learnId st0 snap i = .ok st') : Steps st st' := by
  refine Steps.trans (Steps.frame hc hg hm) ?_
  unfold learnId at h
  dsimp only at h
  pool_go h

theorem wtimer_sound {st st' : State} {i sub0 : Nat} {fn act res : String}
    (h : wtimer st i sub0 fn act res = .ok st') : Steps st st' := by
  unfold wtimer at h
  pool_go h

theorem wgo_sound {st st' : State} {i : Nat} {w : Worker} {fn act : String} {a : WAct}
    (h : wgo st i w fn act a = .ok st') : Steps st st' :=
  fire_sound h (fun _ => True.intro) rfl

theorem wgoSnap_sound {st st' : State} {i : Nat} {w : Worker} {fn act res : String} {a : WAct}
    (h : wgoSnap st i w fn act res a = .ok st') : Steps st st' := by
  unfold wgoSnap at h
  obtain ⟨x, h1, h2⟩ := bind_ok h
  obtain ⟨_, _, h3⟩ := bind_ok h2
  cases h3
  exact wgo_sound h1

theorem wnote_sound {st st' : State} {i : Nat} {w : Worker} {fn act res : String}
    (h : wnote st i w fn act res = .ok st') : Steps st st' := by
  unfold wnote at h
  dsimp only at h
  pool_go h

theorem wact_sound {st st' : State} {i : Nat} {w : Worker} {fn act res : String}
    (h : wact st i w fn act res = .ok st') : Steps st st' := by
  unfold wact at h
  dsimp only at h
  pool_go h

theorem wsync_sound {st st' : State} {i : Nat} {fn act res : String}
    (h : wsync st i fn act res = .ok st') : Steps st st' := by
  unfold wsync at h
  dsimp only at h
  split at h
  · exact wtimer_sound h
  · split at h
    · cases h
    · rename_i x hx
      refine Steps.trans (wadvance_sound _ _ _ _ hx) ?_
      pool_go h

/-- **an accepted event of a library-made goroutine is a run of the model** (binding a goroutine name to a model
    worker is bookkeeping) -/
theorem syncG_sound {st st' : State} {gid fn act res : String}
    (h : syncG st gid fn act res = .ok st') : Steps st st' := by
  unfold syncG at h
  split at h
  · exact wsync_sound h
  · dsimp only at h
    split at h
    · exact Steps.trans (Steps.frame (st' := setW { st with gids := st.gids ++ [gid] } st.gids.length 4) rfl rfl rfl)
        (wsync_sound h)
    · cases h

/-! ### whole logs -/

/-- a parsed log entry (`e <tid> inv …`, `e <tid> res …`, `e <tid> <fn>:<act> => <obs>` of a harness thread,
    `e g<N> <fn>:<act> => <obs>` of a goroutine the library made) -/
inductive Entry where
  | inv (t : Nat) (args : List String)
  | res (t : Nat) (args : List String)
  | sync (t : Nat) (fn act obs : String)
  | syncG (gid : String) (fn act obs : String)

/-- the driver's treatment of one entry (`Driver.EvTrace.event` / `eventG` on a `pool` state) -/
def replay1 (st : State) : Entry → Except String State
  | .inv t args => invL st t args
  | .res t args => resL st t args
  | .sync t fn act obs => Pool.sync st t fn act obs
  | .syncG gid fn act obs => Pool.syncG st gid fn act obs

def replay (st : State) : List Entry → Except String State
  | [] => .ok st
  | e :: es => replay1 st e >>= fun st' => replay st' es

/-- the observable label of the model an entry stands for: the invocation / the return of a call -/
def Entry.obs : Entry → Option Label
  | .inv t args => (invAct args).map (.c t)
  | .res t _ => some (.c t .ret)
  | .sync .. => none
  | .syncG .. => none

theorem replay1_sound {st st' : State} {e : Entry} (h : replay1 st e = .ok st') : StepsO e.obs.toList st st' := by
  cases e with
  | inv t args =>
    obtain ⟨a, ha, hs⟩ := invL_sound h
    show StepsO ((invAct args).map (.c t)).toList st st'
    rw [ha]; exact hs
  | res t args => exact (resL_sound h).2
  | sync t fn act obs => exact sync_sound h
  | syncG gid fn act obs => exact syncG_sound h

theorem replay_sound : ∀ (es : List Entry) (st st' : State), replay st es = .ok st' →
    StepsO (es.filterMap Entry.obs) st st'
  | [], st, st', h => by cases h; exact Steps.refl _
  | e :: es, st, st', h => by
    obtain ⟨x, h1, h2⟩ := bind_ok h
    have := StepsO.trans (replay1_sound h1) (replay_sound es x st' h2)
    have he : (e :: es).filterMap Entry.obs = e.obs.toList ++ es.filterMap Entry.obs := by
      cases ho : e.obs <;> simp [ho]
    rw [he]; exact this

/-- what `init` builds from the `new evt pool …` line: the configuration the model's constructor returns for the
    scenario's parameters, and the model's initial state -/
theorem init_ok {args : List String} {st0 : State} (h : Pool.init args = .ok st0) :
    (∃ i c mx q r : Int, newPool i q [.coreGo c, .maxGo mx, .rate r 1000, .idle] = .ok st0.cfg) ∧
      st0.m = Ekit.Pool.init := by
  unfold Pool.init at h
  split at h
  · rename_i i c mx q r g _ _ _ _ _ _
    split at h
    · rename_i cfg hc
      cases h
      exact ⟨⟨i, c, mx, q, r, hc⟩, rfl⟩
    · cases h
  · cases h

/-- an accepted log from ANY replayer state whose model component is the model's initial state -/
theorem pool_replay_sound_from (st0 st' : State) (es : List Entry)
    (hm : st0.m = Ekit.Pool.init) (h : replay st0 es = .ok st') :
    ∃ ls, (sys st0.cfg).run (sys st0.cfg).init ls = some st'.m ∧ ls.filter vis = es.filterMap Entry.obs := by
  obtain ⟨_, _, hr⟩ := replay_sound es st0 st' h
  have hw : WF st0.g st0.m := by
    intro u _; rw [hm]; rfl
  obtain ⟨_, ls, hl⟩ := hr hw
  rw [hm] at hl
  exact ⟨ls, hl⟩

/-- **an accepted log is a run of the verified model**: if the replayer (the very functions the driver folds over
    the log of a real execution) accepts the entries `es` from the state `init` builds for the scenario, the model
    component of the final state is the result of a run of `Ekit.Pool.sys cfg` from its initial state — `cfg` being
    what the model's constructor `newPool` returns for the scenario's parameters (`init_ok`) — and the invocation
    and return labels of that run are, in order, exactly the harness's invocation / response notes of the log -/
theorem pool_replay_sound (args : List String) (st0 st' : State) (es : List Entry)
    (h0 : Pool.init args = .ok st0) (h : replay st0 es = .ok st') :
    ∃ ls, (sys st0.cfg).run (sys st0.cfg).init ls = some st'.m ∧ ls.filter vis = es.filterMap Entry.obs :=
  pool_replay_sound_from st0 st' es (init_ok h0).2 h

/-- hence the final model state is reachable: every invariant of `Ekit/Props/C10.lean` – `C12.lean` holds of it -/
theorem pool_replay_reachable (args : List String) (st0 st' : State) (es : List Entry)
    (h0 : Pool.init args = .ok st0) (h : replay st0 es = .ok st') :
    (sys st0.cfg).Reachable st'.m := by
  obtain ⟨ls, hr, _⟩ := pool_replay_sound args st0 st' es h0 h
  exact Ekit.Conc.System.reachable_of_run _ ls Ekit.Conc.System.Reachable.init hr

end Driver.Ev.Pool
