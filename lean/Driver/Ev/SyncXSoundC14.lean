/-
What acceptance of a real execution's event log by the `limit` / `seg` replayers proves about that execution (C14):
the corollaries of `Driver/Ev/SyncXSound.lean` through the property theorems of `Ekit/Props/C14.lean`.
(Audited with C14: `Audit/C14.lean`.)

Every prefix of an accepted log is an accepted log (`replay_append`), so the statements below hold not only of the
state the replay ends in but of the model state after EVERY accepted line (`…_at_every_line`).
-/
import Driver.Ev.SyncXSound
import Ekit.Props.C14

namespace Driver.Ev.Limit
open Ekit Ekit.Conc Ekit.LimitPool Driver.Ev.SyncXSound

theorem replay_append : ∀ (es1 es2 : List Entry) (s s' : State), replay s (es1 ++ es2) = .ok s' →
    ∃ s1, replay s es1 = .ok s1 ∧ replay s1 es2 = .ok s'
  | [], es2, s, s', h => ⟨s, rfl, h⟩
  | e :: es1, es2, s, s', h => by
    obtain ⟨s0, h1, h2⟩ := bind_ok' h
    obtain ⟨s1, h3, h4⟩ := replay_append es1 es2 s0 s' h2
    refine ⟨s1, ?_, h4⟩
    show (replay1 s e >>= fun s' => replay s' es1) = _
    rw [h1]; exact h3

/-- the configuration an accepted `new evt limit` line builds is inside the range of the C14 theorems as soon as the
    logged `max=` is below 2^31 (it is ≥ 0, and the thread bound is 2^31, by `init`) -/
theorem cfg_ok {args : List String} {s0 : State} (hi : init args = .ok s0) (hmax : s0.cfg.maxTokens < 2147483648) :
    s0.cfg.Ok := by
  obtain ⟨_, hnn, hth, _⟩ := init_sound hi
  exact ⟨hnn, hmax, by rw [hth]; exact Nat.le_refl _⟩

/-- **the model state an accepted real execution ends in satisfies the C14 LimitPool invariants**: never more than
    `maxTokens` successful Gets outstanding (nor objects borrowed), and the int32 counter is exactly
    `maxTokens − outstanding − failing` (no wrap) -/
theorem c14_limit_evtrace_invariants {args : List String} {s0 s' : State} {es : List Entry}
    (hi : init args = .ok s0) (hmax : s0.cfg.maxTokens < 2147483648) (h : replay s0 es = .ok s') :
    (outstanding s'.m : Int) ≤ s0.cfg.maxTokens ∧ (s'.m.borrowed : Int) ≤ s0.cfg.maxTokens ∧
    s'.m.tokens.toInt = s0.cfg.maxTokens - outstanding s'.m - failing s'.m := by
  have ok := cfg_ok hi hmax
  have hr := limit_replay_reachable hi h
  exact ⟨c14_limitPool_outstanding_le_max _ ok _ hr, c14_limitPool_borrowed_le_max _ ok _ hr,
    c14_limitPool_bookkeeping _ ok _ hr⟩

/-- …and so does the model state after every accepted line of the log -/
theorem c14_limit_evtrace_invariants_at_every_line {args : List String} {s0 s' : State} {es1 es2 : List Entry}
    (hi : init args = .ok s0) (hmax : s0.cfg.maxTokens < 2147483648) (h : replay s0 (es1 ++ es2) = .ok s') :
    ∃ s1, replay s0 es1 = .ok s1 ∧
      (outstanding s1.m : Int) ≤ s0.cfg.maxTokens ∧ (s1.m.borrowed : Int) ≤ s0.cfg.maxTokens ∧
      s1.m.tokens.toInt = s0.cfg.maxTokens - outstanding s1.m - failing s1.m := by
  obtain ⟨s1, h1, _⟩ := replay_append es1 es2 s0 s' h
  exact ⟨s1, h1, c14_limit_evtrace_invariants hi hmax h1⟩

/-- the driver's check at `end` (`atEnd`) accepts only a quiescent model: nobody is inside a method -/
theorem atEnd_quiescent {s : State} (h : atEnd s = none) : s.calls = [] ∧ Quiescent s.m := by
  unfold atEnd at h
  split at h
  · cases h
  · rename_i hc
    split at h
    · rename_i hq
      refine ⟨?_, of_decide_eq_true hq⟩
      cases hs : s.calls with
      | nil => rfl
      | cons a l => simp [hs] at hc
    · cases h

/-- **"tokens are conserved"** for an accepted real execution: when the scenario's `end` line is accepted too and the
    model has nothing borrowed, the counter is back at `maxTokens` (partial as `c14_limitPool_conserved_partial`:
    `maxTokens < 2^31`, known finding C14-T) -/
theorem c14_limit_evtrace_conserved_partial {args : List String} {s0 s' : State} {es : List Entry}
    (hi : init args = .ok s0) (hmax : s0.cfg.maxTokens < 2147483648) (h : replay s0 es = .ok s')
    (hend : atEnd s' = none) (hb : s'.m.borrowed = 0) : s'.m.tokens.toInt = s0.cfg.maxTokens :=
  c14_limitPool_conserved_partial _ (cfg_ok hi hmax) _ (limit_replay_reachable hi h) (atEnd_quiescent hend).2 hb

/-! #### non-vacuity: a concrete accepted log (two goroutines, `maxTokens = 1`: a successful Get with a factory call, a
failing Get of the other goroutine whose compensation comes after the first one's Put, the `end` check).
Checked by evaluation (`#guard`): the kernel cannot reduce `String.splitOn` / `String.toInt?`, so no `decide` here; every
run of the check replays 10^4 real events of this shape through the same functions. -/
def demoLog : List Entry :=
  [⟨0, "inv", ["get"], "-"⟩, ⟨0, "LimitPool_Get:AtomicAdd(tokens)", [], "0"⟩, ⟨0, "Factory:Call(factory)", [], "-"⟩,
   ⟨0, "res", ["true"], "-"⟩,
   ⟨1, "inv", ["get"], "-"⟩, ⟨1, "LimitPool_Get:AtomicAdd(tokens)", [], "-1"⟩,
   ⟨0, "inv", ["put"], "-"⟩, ⟨0, "LimitPool_Put:AtomicAdd(tokens)", [], "0"⟩, ⟨0, "res", ["ok"], "-"⟩,
   ⟨1, "LimitPool_Get:AtomicAdd(tokens)", [], "1"⟩, ⟨1, "res", ["false"], "-"⟩]

#guard match init ["max=1", "g=1"] with
  | .ok s0 => (match replay s0 demoLog with
    | .ok s' => atEnd s' == none && s'.m.borrowed == 0 && s'.m.tokens.toInt == 1 && s'.m.created == 1
    | .error _ => false)
  | .error _ => false

end Driver.Ev.Limit

namespace Driver.Ev.Seg
open Ekit Ekit.Conc Ekit.SegmentLock Driver.Ev.SyncXSound

theorem replay_append : ∀ (es1 es2 : List Entry) (s s' : State), replay s (es1 ++ es2) = .ok s' →
    ∃ s1, replay s es1 = .ok s1 ∧ replay s1 es2 = .ok s'
  | [], es2, s, s', h => ⟨s, rfl, h⟩
  | e :: es1, es2, s, s', h => by
    obtain ⟨s0, h1, h2⟩ := bind_ok' h
    obtain ⟨s1, h3, h4⟩ := replay_append es1 es2 s0 s' h2
    refine ⟨s1, ?_, h4⟩
    show (replay1 s e >>= fun s' => replay s' es1) = _
    rw [h1]; exact h3

/-- **the model state an accepted real execution ends in satisfies the C14 exclusion property**: every other recorded
    hold (any thread, read or write) lies on a different segment than a write hold; in particular no other thread
    holds a read or write lock on a key with equal contents -/
theorem c14_seg_evtrace_lock_excludes {args : List String} {s0 s' : State} {es : List Entry}
    (hi : init args = .ok s0) (h : replay s0 es = .ok s') :
    (∀ hd ∈ s'.m.held, hd.write = true → ∀ h' ∈ s'.m.held.erase hd, seg s0.size h'.key ≠ seg s0.size hd.key) ∧
    (∀ t k, (⟨t, k, true⟩ : Hold) ∈ s'.m.held → ∀ t', t' ≠ t → ∀ w, (⟨t', k, w⟩ : Hold) ∉ s'.m.held) := by
  have hne := (init_sound hi).1
  have hr := seg_replay_reachable hi h
  exact ⟨fun hd hm hw => c14_segment_lock_excludes _ hne _ hr hd hm hw,
    fun t k hm t' ht w => c14_segment_lock_excludes_key _ hne _ hr t k hm t' ht w⟩

/-- …and so does the model state after every accepted line of the log -/
theorem c14_seg_evtrace_lock_excludes_at_every_line {args : List String} {s0 s' : State} {es1 es2 : List Entry}
    (hi : init args = .ok s0) (h : replay s0 (es1 ++ es2) = .ok s') :
    ∃ s1, replay s0 es1 = .ok s1 ∧
      (∀ hd ∈ s1.m.held, hd.write = true → ∀ h' ∈ s1.m.held.erase hd, seg s0.size h'.key ≠ seg s0.size hd.key) ∧
      (∀ t k, (⟨t, k, true⟩ : Hold) ∈ s1.m.held → ∀ t', t' ≠ t → ∀ w, (⟨t', k, w⟩ : Hold) ∉ s1.m.held) := by
  obtain ⟨s1, h1, _⟩ := replay_append es1 es2 s0 s' h
  exact ⟨s1, h1, c14_seg_evtrace_lock_excludes hi h1⟩

/-- **"… and TryLock/TryRLock on it fail"** in the state an accepted real execution ends in: while the model records
    `Lock(k)` of `t`, on every key of the same segment the Try… methods answer `false` and `Lock`/`RLock` block -/
theorem c14_seg_evtrace_try_fails_while_locked {args : List String} {s0 s' : State} {es : List Entry}
    (hi : init args = .ok s0) (h : replay s0 es = .ok s') (t : Nat) (k : Key) (hm : ⟨t, k, true⟩ ∈ s'.m.held)
    (t' : Nat) (k' : Key) (hk : seg s0.size k' = seg s0.size k) :
    step s0.size s'.m ⟨t', .tryLock k' true⟩ = none ∧ step s0.size s'.m ⟨t', .tryRLock k' true⟩ = none ∧
    step s0.size s'.m ⟨t', .tryLock k' false⟩ = some s'.m ∧ step s0.size s'.m ⟨t', .tryRLock k' false⟩ = some s'.m ∧
    step s0.size s'.m ⟨t', .lock k'⟩ = none ∧ step s0.size s'.m ⟨t', .rlock k'⟩ = none :=
  c14_segment_try_fails_while_locked _ (init_sound hi).1 _ (seg_replay_reachable hi h) t k hm t' k' hk

/-- a `Try… = false` the replayer accepted although the model's mutex looked available (`tryFalse`): the state reached
    by the in-flight acquisition that explains it is a reachable state of the model too, and in it the model itself
    answers `false` — the refusal is a behaviour of the model under the schedule in which that acquisition (already
    performed in the real execution, logged late) comes first -/
theorem c14_seg_evtrace_tryFalse_explained {args : List String} {s0 s' : State} {es : List Entry}
    (hi : init args = .ok s0) (h : replay s0 es = .ok s') {t : Nat} {c : Call} {i : Nat}
    (htf : tryFalse s' t c i = true) :
    ∃ u cu m1, (u, cu) ∈ s'.calls ∧ u ≠ t ∧ cu.done = none ∧ (cu.kind = .lock ∨ cu.kind = .rlock) ∧
      (sys s0.size).Reachable m1 ∧ step s0.size s'.m ⟨u, cu.kind.op cu.key true⟩ = some m1 ∧
      (step s0.size m1 ⟨t, c.kind.op c.key false⟩).isSome := by
  obtain ⟨hsz, _⟩ := seg_replay_sound hi h
  obtain ⟨u, cu, m1, hm, hu, hd, hk, _, hs, hf⟩ := tryFalse_spec htf
  rw [hsz] at hs hf
  exact ⟨u, cu, m1, hm, hu, hd, hk, System.Reachable.step (seg_replay_reachable hi h) hs, hs, hf⟩

/-! #### non-vacuity: a concrete accepted log that uses the special rule (thread 1's `TryLock` answers `false` while
thread 0's `Lock` on the same key is in flight: invoked, logged later), then an ordinary refused `TryRLock` and the
`Unlock`; checked by evaluation as above. -/
def demoLog : List Entry :=
  [⟨0, "inv", ["lock", "6b"], "-"⟩, ⟨1, "inv", ["trylock", "6b"], "-"⟩,
   ⟨1, "SegmentKeysLock_TryLock:TryLock(getLock(key))", [], "false,i=2"⟩, ⟨1, "res", ["false"], "-"⟩,
   ⟨0, "SegmentKeysLock_Lock:Lock(getLock(key))", [], "i=2"⟩, ⟨0, "res", ["ok"], "-"⟩,
   ⟨1, "inv", ["tryrlock", "6b"], "-"⟩,
   ⟨1, "SegmentKeysLock_TryRLock:TryRLock(getLock(key))", [], "false,i=2"⟩, ⟨1, "res", ["false"], "-"⟩,
   ⟨0, "inv", ["unlock", "6b"], "-"⟩, ⟨0, "SegmentKeysLock_Unlock:Unlock(getLock(key))", [], "i=2"⟩, ⟨0, "res", ["ok"], "-"⟩]

#guard match init ["size=4"] with
  | .ok s0 => (match replay s0 demoLog with | .ok s' => atEnd s' == none | .error _ => false)
  | .error _ => false

#guard match init ["size=4"] with
  | .ok s0 => (match replay s0 (demoLog.take 6) with
    | .ok s' => s'.m.held == [⟨0, [107], true⟩]
    | .error _ => false)
  | .error _ => false

/-- the part the kernel can evaluate (no string parsing beyond the key): after the two invocation notes the model's
    mutex is free, `TryLock = false` is NOT a step of the model, and `tryFalse` holds — the hypothesis of
    `c14_seg_evtrace_tryFalse_explained` is satisfiable on a replayed state -/
example : (match replay { size := 4#32, m := SegmentLock.init 4#32, calls := [] } (demoLog.take 2) with
    | .ok s' => step s'.size s'.m ⟨1, .tryLock [107] false⟩ == none &&
                tryFalse s' 1 { kind := .tryLock, key := [107], done := none } 2
    | .error _ => false) = true := by decide +kernel

end Driver.Ev.Seg
