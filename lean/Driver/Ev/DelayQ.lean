/-
Event replayer of `queue.DelayQueue` (target `dq`) on `Ekit.DelayQ` — the timed transition system of C08 / C09b.

Producer: harness/evtrace/target_dq.go on a copy instrumented by harness/evinst.  One scenario:

    new evt dq cap=<c> g=.. calls=.. late=.. disc=sync|async seed=..
    e <t> inv enq <id> <dl> <ctx kind> | inv deq <ctx kind>
    e <t> clk:Delay                    => <id>/<dl>@<reading>     the code evaluated Delay() of element (id, dl)
    e <t> <fn>:<action>                => <result | snapshot | ->
    e <t> res ok | res val <id> | res ctxErr | res err

Program counters of the model and what the log shows for them (everything is written with the model's own `step`):

* logged synchronisation actions — `eTop`/`dTop`: `Select:default` (label `ctxOk`) or `Select:Recv(ctx.Done())`
  (`cancel` if the model has not seen the end of the context yet, then `ctxErr`); `eLock`/`dLock`/`dRelock`:
  `Lock(mutex)`; `bUnlock`/`sUnlock`: `Unlock(l)` with the snapshot `sig=<identity of c.signal>`; `bClose`:
  `Close(old)` with `ch=<identity of the channel closed>` (identities are tied to the model's generations: the swap
  installs a fresh channel, the fetch sees the current one of the right cond, the close hits the superseded one, the
  signal arm receives from the generation fetched under the lock); `dArm`: `NewTimer` (the call must have no timer in the model) or `TimerReset(timer)` (it must have
  one); `eWait`/`dWaitE`/`dWaitT`: the arm taken, `Select:Recv(ctx.Done())` (`cancel`?, `selCtx`), `Select:Recv(signal)`
  (`selSig`: the generation must be closed in the model) or `Select:Recv(timer.C)` (`fire`?, `selTimer`);
  `dReUnlock`: `Unlock(mutex)` with the snapshot `q=<heap array>`; `ret`: `ctx.Err` (not nil) and the deferred
  `TimerStop(timer)` (logged iff the call has a timer in the model), then `res` (label `ret`, same result);
* `dPeek`/`dRepeek`: the code calls `Peek()` and, if the queue is not empty, `Delay()` of the root: a `clk:Delay`
  event of the thread at these pcs is the label `peek t (some x)` / `repeek t (some x)` — the heap's root `x` is the
  oracle the model leaves open (the model checks that it is present and of minimal deadline) — executed at clock =
  the logged reading; no `clk:Delay` before the next synchronisation action = `peek t none` (enabled only if the
  model's queue is empty);
* silent (inside the thread's critical section, advanced when its next synchronisation action arrives):
  `eCrit` (`enq`), `dPop x` (`pop t (some x)`: within one critical section the heap pops the root it has just
  shown), `bSwap` (`swap`), `sFetch` (`fetch`).  `clk:Delay` events at `eCrit`/`dPop` are the heap's comparator.

Virtual time is driven by observations only, keeping  model clock ≤ real time of the current log position:
`tick` to the reading of every `clk:Delay` (read inside the log mutex, so readings are monotone in log order and the
model decides `delay ≤ 0` exactly as the code did, and arms the timer with the same duration); `tick` up to the
armed instant `w` when a tick is received from a timer the model has armed for `w > now` (the runtime never fires
early and the model's `w` = model clock at `arm` + d ≤ real instant, so real time ≥ w is proved by the observation);
the same when `Reset` returns false for a timer still armed in the model (it had expired: `fire` is replayed before
`arm`, which is what leaves a stale tick in the channel under the asynchronous discipline).  A timer that fired
unobserved and was never looked at again needs no label.

Comparator stalls: the heap compares `src.Delay()` and `dst.Delay()` read at two instants; the model compares
deadlines.  When two consecutive readings of one thread inside a critical section are further apart than the
deadlines of their (increasing) elements, the real comparison may have come out the other way: from then on a
root that is present but not of minimal deadline is not judged (the scenario is skipped from that line on).
-/
import Driver.Ev.Core
import Ekit.Model.DelayQ

namespace Driver.Ev.DQ
open Driver Ekit Ekit.Conc Ekit.DelayQ

structure State where
  P : Params
  m : Ekit.DelayQ.State
  threads : List Nat := []
  /-- identity of the channel of generation `g` of cond `c`, as far as snapshots have shown it -/
  chans : List ((CondId × Nat) × Nat) := []
  /-- previous `Delay()` evaluation of the thread in its current critical section: (deadline, reading) -/
  last : Nat → Option (Nat × Nat) := fun _ => none
  stopSeen : List Nat := []
  /-- a comparator stall that can have inverted two deadlines was seen -/
  taint : Bool := false
  /-- the rest of the scenario is not judged (see `taint`) -/
  skip : Bool := false

/-- one-line rendering (a verdict is one line) -/
def rs {α} [Repr α] (a : α) : String := ((reprStr a).replace "\n" " ")

/-- `id:dl/id:dl/…`, at most 16 elements -/
def showQ (q : List Elem) : String :=
  "[" ++ "/".intercalate ((q.take 16).map fun x => s!"{x.id}:{x.dl}") ++ (if q.length > 16 then s!"/… {q.length} elements" else "") ++ "]"

def showPc (s : State) (t : Nat) : String := rs (s.m.pc t)

def labelThread : Label → Nat
  | .tick _ => 0
  | .cancel t | .fire t | .invEnq t _ | .invDeq t | .ctxErr t | .ctxOk t | .lock t | .enq t
  | .peek t _ | .pop t _ | .repeek t _ | .swap t | .fetch t | .unlock t | .close t | .arm t | .selCtx t
  | .selSig t | .selTimer t | .ret t _ => t

def stepM (s : State) (l : Label) (what : String) : Except String State :=
  match step s.P s.m l with
  | some m' => .ok { s with m := m' }
  | none => .error s!"model: {what} is not enabled in the model's state (label {rs l}, pc {showPc s (labelThread l)}, mutex {rs s.m.mutex}, now {s.m.now}, queue {showQ s.m.q})"

/-- the model's clock follows an observation that proves real time ≥ `r` -/
def tickTo (s : State) (r : Nat) : Except String State :=
  if r ≤ s.m.now then .ok s else stepM s (.tick (r - s.m.now)) "tick"

/-- advance `t` over the statements of its critical section that are not logged -/
def advance (s : State) (t : Nat) : Nat → Except String State
  | 0 => .error "model: too many silent steps"
  | fuel + 1 =>
    match s.m.pc t with
    | .eCrit _ => do advance (← stepM s (.enq t) "q.Enqueue") t fuel
    | .dPeek =>
      match step s.P s.m (.peek t none) with
      | some m' => advance { s with m := m' } t fuel
      | none => .error s!"thread {t} went on after Peek() without evaluating Delay(), but the model's queue is not empty: {showQ s.m.q}"
    | .dRepeek =>
      match step s.P s.m (.repeek t none) with
      | some m' => advance { s with m := m' } t fuel
      | none => .error s!"thread {t} went on after the second Peek() without evaluating Delay(), but the model's queue is not empty: {showQ s.m.q}"
    | .dPop x => do advance (← stepM s (.pop t (some x)) "q.Dequeue") t fuel
    | .bSwap _ _ => do advance (← stepM s (.swap t) "broadcast: swap") t fuel
    | .sFetch _ => do advance (← stepM s (.fetch t) "signalCh: read") t fuel
    | _ => .ok s

/-- the context of `t`'s call was observed ended -/
def ended (s : State) (t : Nat) : Except String State :=
  if s.m.ctxDone t then .ok s else stepM s (.cancel t) "cancel"

/-- `sig=<n>` in the snapshot of a cond's Unlock (the channel stored in `c.signal`), `ch=<n>` at `close(old)` and at
    the `<-signal` arm (the channel closed / received from): generation `g` of `c` is channel `n` -/
def checkChan (s : State) (c : CondId) (g : Nat) (key snap : String) : Except String State :=
  if snap = "na" ∨ snap = "-" ∨ snap = "" then .ok s else
  match (snapField snap key).bind (·.toNat?) with
  | none => .error s!"unreadable snapshot {snap}"
  | some n =>
    match s.chans.find? (fun e => e.1 = (c, g)) with
    | some e =>
      if e.2 = n then .ok s
      else .error s!"{key}: the code uses channel #{n} where the model has generation {g} of {rs c}, which is channel #{e.2}"
    | none =>
      match s.chans.find? (fun e => e.2 = n) with
      | some e => .error s!"{key}: the code uses channel #{n}, which is generation {e.1.2} of {rs e.1.1}, where the model has generation {g} of {rs c}"
      | none => .ok { s with chans := ((c, g), n) :: s.chans }

def parseElem (w : String) (sep : String) : Option Elem :=
  match w.splitOn sep with
  | [a, b] => do some ⟨← a.toNat?, ← b.toNat?⟩
  | _ => none

def elemLe (a b : Elem) : Bool := a.id < b.id || (a.id == b.id && a.dl ≤ b.dl)

def insertElem (x : Elem) : List Elem → List Elem
  | [] => [x]
  | y :: ys => if elemLe x y then x :: y :: ys else y :: insertElem x ys

def sortElems (l : List Elem) : List Elem := l.foldr insertElem []

/-- `q=<id>:<dl>/…` (heap order) against the model's queue, as multisets -/
def checkQueue (s : State) (snap : String) : Except String Unit :=
  if snap = "na" ∨ snap = "-" ∨ snap = "" then .ok () else
  match snapField snap "q" with
  | none => .error s!"unreadable snapshot {snap}"
  | some body =>
    let ws := if body = "" then [] else body.splitOn "/"
    match ws.mapM (parseElem · ":") with
    | none => .error s!"unreadable snapshot {snap}"
    | some es =>
      if sortElems es = sortElems s.m.q then .ok ()
      else .error s!"snapshot inside the critical section ({snap}) differs from the model's queue {showQ s.m.q}"

/-- `clk:Delay => id/dl@reading` -/
def clk (s : State) (t : Nat) (res : String) : Except String State :=
  match res.splitOn "@" with
  | [e, r] =>
    match parseElem e "/", r.toNat? with
    | some x, some r => do
      if r < s.m.now then throw s!"clock reading {r} is behind the model's clock {s.m.now}"
      let s ← tickTo s r
      let stall := match s.last t with
        | some (dl0, r0) => decide (dl0 < x.dl) && decide (x.dl - dl0 ≤ r - r0)
        | none => false
      let s := { s with last := upd s.last t (some (x.dl, r)), taint := s.taint || stall }
      let oracle (l : Label) (what : String) : Except String State :=
        match step s.P s.m l with
        | some m' => .ok { s with m := m' }
        | none =>
          if s.taint && s.m.q.contains x then .ok { s with skip := true }
          else .error s!"{what} returned {rs x}, which is not an element of minimal deadline of the model's queue {showQ s.m.q}"
      match s.m.pc t with
      | .dPeek => oracle (.peek t (some x)) "Peek()"
      | .dRepeek => oracle (.repeek t (some x)) "the second Peek()"
      | .eCrit _ | .dPop _ => pure s            -- the heap's comparator
      | _ => throw s!"thread {t} evaluated Delay() where the model is at {showPc s t}"
    | _, _ => .error s!"unreadable clock event {res}"
  | _ => .error s!"unreadable clock event {res}"

/-- one logged synchronisation action `fn:act` with result `res` of thread `t` -/
def sync (s : State) (t : Nat) (fn act res : String) : Except String State := do
  if s.skip then return s
  if fn = "clk" then return ← clk s t res
  let s ← advance { s with last := upd s.last t none } t 100
  let bad : Except String State :=
    .error s!"thread {t} logged {fn}:{act} ({res}) where the model is at {showPc s t}"
  match s.m.pc t, act with
  -- loop head: non-blocking select
  | .eTop _, "Select:default" | .dTop, "Select:default" =>
    if s.m.ctxDone t then .error s!"thread {t}: the default arm was taken after the context had been observed ended"
    else stepM s (.ctxOk t) act
  | .eTop _, "Select:Recv(ctx.Done())" | .dTop, "Select:Recv(ctx.Done())" => do
    stepM (← ended s t) (.ctxErr t) act
  | .ret .enqCtx, "ctx.Err" | .ret .deqCtx, "ctx.Err" =>          -- `return ctx.Err()`
    if res = "nil" then .error s!"thread {t}: a context-error exit returns a nil ctx.Err()" else pure s
  | .eLock _, "Lock(mutex)" | .dLock, "Lock(mutex)" | .dRelock, "Lock(mutex)" => stepM s (.lock t) act
  -- cond.broadcast / cond.signalCh
  | .bUnlock c old _, "Unlock(l)" => do
    -- the swap has installed generation old+1
    let s ← checkChan s c (old + 1) "sig" res
    stepM s (.unlock t) act
  | .sUnlock g k, "Unlock(l)" => do
    -- the fetch has read generation g, which is the current one (the lock is still held)
    let s ← checkChan s k.cond g "sig" res
    stepM s (.unlock t) act
  | .bClose c old _, "Close($)" => do
    let s ← checkChan s c old "ch" res                     -- the channel closed is the superseded generation
    stepM s (.close t) act
  -- blocking selects
  | .eWait _ _, "Select:Recv(ctx.Done())" | .dWaitE _, "Select:Recv(ctx.Done())" | .dWaitT _, "Select:Recv(ctx.Done())" => do
    stepM (← ended s t) (.selCtx t) act
  | .eWait _ g, "Select:Recv($)" => do
    let s ← checkChan s .deqSig g "ch" res                 -- the channel received from is the generation fetched under the lock
    stepM s (.selSig t) act
  | .dWaitE g, "Select:Recv($)" | .dWaitT g, "Select:Recv($)" => do
    let s ← checkChan s .enqSig g "ch" res
    stepM s (.selSig t) act
  | .dWaitT _, "Select:Recv($.C)" =>
    match s.m.timer t with
    | some ⟨_, true⟩ => stepM s (.selTimer t) act          -- a tick is already in the channel (stale or not)
    | some ⟨some w, false⟩ => do
      let s ← tickTo s w                                   -- the tick proves real time ≥ w
      let s ← stepM s (.fire t) "fire"
      stepM s (.selTimer t) act
    | _ => .error s!"thread {t} received a tick, but in the model its timer is neither armed nor holds a tick"
  -- the timer
  | .dArm _ _, "NewTimer" =>
    match s.m.timer t with
    | none => stepM s (.arm t) act
    | some _ => .error s!"thread {t} makes a new timer, the model's call already has one (Reset expected)"
  | .dArm _ _, "TimerReset($)" =>
    match s.m.timer t with
    | none => .error s!"thread {t} resets a timer, the model's call has none (NewTimer expected)"
    | some ⟨some w, _⟩ =>
      if res = "false" then do
        -- the timer had expired (unobserved): real time ≥ w; its tick is (async) / is not (sync) left in the channel
        let s ← tickTo s w
        let s ← stepM s (.fire t) "fire"
        stepM s (.arm t) act
      else stepM s (.arm t) act
    | some ⟨none, _⟩ => stepM s (.arm t) act
  -- timer arm taken: re-lock, re-peek; head missing or still delayed
  | .dReUnlock, "Unlock(mutex)" => do
    checkQueue s res
    stepM s (.unlock t) act
  -- the deferred timer.Stop() of Dequeue
  | .ret _, "TimerStop($)" =>
    if (s.m.timer t).isNone then .error s!"thread {t} stops a timer, the model's call has none"
    else if s.stopSeen.contains t then .error s!"thread {t} stops its timer twice"
    else pure { s with stopSeen := t :: s.stopSeen }
  | _, _ => bad

def init (args : List String) : Except String State :=
  match argInt args "cap", argStr args "disc" with
  | some c, some d =>
    if d = "sync" then .ok { P := ⟨.sync, c.toNat⟩, m := Ekit.DelayQ.init }
    else if d = "async" then .ok { P := ⟨.async, c.toNat⟩, m := Ekit.DelayQ.init }
    else .error s!"unknown timer discipline {d}"
  | _, _ => .error "cap= or disc= missing"

def invL (s : State) (t : Nat) (args : List String) : Except String State :=
  if s.skip then .ok s else
  let s := { s with threads := if s.threads.contains t then s.threads else t :: s.threads }
  match args with
  | ["enq", id, dl, _] =>
    match id.toNat?, dl.toNat? with
    | some id, some dl => stepM s (.invEnq t ⟨id, dl⟩) "the invocation of Enqueue"
    | _, _ => .error "unreadable call"
  | ["deq", _] => stepM s (.invDeq t) "the invocation of Dequeue"
  | _ => .error "unreadable call"

def resL (s : State) (t : Nat) (args : List String) : Except String State := do
  if s.skip then return s
  let s ← advance { s with last := upd s.last t none } t 100
  match s.m.pc t with
  | .ret r =>
    let same : Bool := match r, args with
      | .enqOk, ["ok"] => true
      | .enqCtx, ["ctxErr"] => true
      | .deqCtx, ["ctxErr"] => true
      | .deqOk x, ["val", v] => v.toNat? == some x.id
      | .deqErr, ["err"] => true
      | _, _ => false
    if !same then throw s!"thread {t} returned {" ".intercalate args} where the model returns {rs r}"
    if (s.m.timer t).isSome != s.stopSeen.contains t then
      throw s!"thread {t} returned without the deferred timer.Stop() of its timer"
    let s ← stepM s (.ret t r) "return"
    pure { s with stopSeen := s.stopSeen.erase t }
  | _ => throw s!"thread {t} returned {" ".intercalate args} where the model is at {showPc s t}"

def atEnd (s : State) : Option String :=
  if s.skip then none
  else if s.threads.all (fun t => s.m.pc t == .idle) then none
  else some "calls still in flight in the model at the end of the scenario"

end Driver.Ev.DQ
