/-
Event replayer of the task pool (target `pool`) on `Ekit.Pool` (Ekit/Model/Pool.lean, the model of C10–C12).

Producer: harness/evtrace/target_pool.go on a copy of pool/task_pool.go instrumented by harness/evinst with the
options `poll,go,chan=queue,cancel=interruptCtxCancel`:

* every load / CAS of `state`, every `len(b.queue)`, close, cancel, atomic add, Unlock/RUnlock, every arm of
  trySubmit's select AND (option `poll`) every arm of the worker's select and every receive of ShutdownNow's
  drain loop is executed inside the log mutex: the log order of all operations on the queue channel, the
  lifecycle cell and the interrupt context is their real order.  Only Lock/RLock are logged after they
  returned (late, never early), which never disables a lock step.
* workers are goroutines made by the library (`go b.goroutine(id)`): the spawning caller logs `Go(goroutine)`
  inside the log mutex (model step `spawn` / `stSpawn` appends a worker); the first event of a goroutine name
  `g<N>` not seen before is bound to the oldest model worker that has no goroutine yet (unbound workers are
  in their initial state and have done nothing: any bijection that respects creation order is the same run).

Correspondence of logged actions and model labels (one logged action = one label, except where noted):

  callers   Load(state) = sub/st/sd/snLoad*, CAS(state) = subCas1/2, unlock, stCas, stUnlock, sdCas, snCas;
            Select:Send(queue)/default/Recv(ctx.Done()) = selSend/selDefault/selCtx; RLock(mutex) = allowRLock;
            Len(queue) = allowRead (the model reads queue length and totalGo in this one step; totalGo cannot
            change while the real reader holds the lock, so the step is placed at the length read and the
            following RUnlock(mutex) only checks the snapshot); Lock/Unlock(mutex) = incLock/incWrite,
            stIncLock/stIncWrite; Len(queue) in Start = stNum; AddInt32(id) (checked = number of workers + 1)
            then Go(goroutine) = spawn / stSpawn; Close(queue) = sdClose/snClose; Cancel = snCancel;
            Range:Recv(queue) true/false = snDrainTake/snDrainEnd; `res` = ret.
  workers   Select:Recv(queue) true/false = selRecv/selClosed; Select:Recv(idleTimer.C) = [fire] selIdle;
            Select:Recv(interruptCtx.Done()) = selInt; Lock/Unlock(mutex) = int/idle/cl/post Lock and the write
            steps; RLock/RUnlock(mutex) = clRLock/clRead; CAS(state) = clCas; Cancel = clCancel;
            AddInt32(numGoRunningTasks) = incRun/decRun; harness notes trun/tend/tpanic = (check of the task) /
            [release] taskRet / taskPanic; Len(queue) = postLen1/postLen2.
            The timeout group has its own mutex `mu`, which the model does not have (its group operations are
            atomic): isIn = RLock(mu) RUnlock(mu), delete/add = Lock(mu) Unlock(mu), size = RLock(mu) RUnlock(mu).
            leaveGroup is placed at the end of isIn (not a member) or at the Unlock(mu) of delete (member);
            postGrp at the RUnlock(mu) of size (the decision), the following add only checks; idleWrite at
            Unlock(mutex) (the delete inside only checks).  Between a size and its add, and between the idle
            path's delete and its Unlock(mutex), the model's counter is one ahead of the real one (`adj`); both
            windows lie inside critical sections of b.mutex and every READ of the counter (size) is inside one
            too, so no decision is affected.  The code's goroutine ids (the keys of the group's map) are learnt
            from the snapshot at a goroutine's first add and then compared in every group snapshot.
  silent    worker pcs `panicked` (recover) and `postDecide` when the worker stays (no action of the code);
            NewTimer / TimerStop(idleTimer) / `Recv(idleTimer.C)` outside a select (creating, stopping and
            draining the timer: required at the start of the goroutine, after leaving the group as a member,
            and NewTimer before the add of a joining worker — part of leaveGroup / postGrp in the model); ctx.Err() inside the error return; len(b.queue) for the capacity of the result
            slice in ShutdownNow (checked against the model's queue).
  observed  expiry of a Submit context (selCtx is enabled whenever the call has a context that can end), the
            idle timer (label `fire` replayed when the timer arm is taken), the end of a blocking task (label
            `release` replayed when the task ends).
-/
import Driver.Ev.Core
import Ekit.Model.Pool

namespace Driver.Ev.Pool
open Driver Ekit.Pool

structure State where
  cfg : Cfg
  g : Nat                      -- callers 0 … g (g = the harness's own goroutine)
  m : St                       -- the model's state
  gids : List String := []     -- gids[i]: goroutine of worker i (bound workers are a prefix of m.workers)
  wsub : List Nat := []        -- position of worker i inside a model step that spans several logged actions
  csub : List Nat := []        -- the same for caller t
  keys : List Nat := []        -- keys[i]: the harness's key of model task i
  adj : Option Nat := none     -- the worker inside one of the two windows described above (model grpN = real counter + 1)
  rid : List Nat := []         -- rid[i]: the id the code gave worker i's goroutine (0 = not yet seen; learnt at its first add)

def lifeCode : Life → Nat
  | .created => 1 | .running => 2 | .closing => 3 | .stopped => 4 | .locked => 5

/-- the callers function as a finite table (the model's `upd` would otherwise grow by one closure per step);
    extensionally the identity: only callers 0 … g ever move -/
def norm (g : Nat) (m : St) : St :=
  let cs := (List.range (g + 1)).map m.callers
  { m with callers := fun u => cs.getD u {} }

def describe (st : State) : String :=
  s!"life {repr st.m.life}, queue {st.m.queue}, closed {st.m.closed}, totalGo {st.m.totalGo}, mutex writer {repr st.m.mu.writer} readers {st.m.mu.readers}, group {st.m.grpN}, cancelled {st.m.cancelled}, workers {st.m.workers.length}"

/-- one label of the model: must be enabled and must not set the panic flag -/
def fire (st : State) (l : Label) (what : String) : Except String State :=
  match step st.cfg st.m l with
  | some m' =>
    if m'.panic then .error s!"model: {what} makes the model panic (send on / close of the closed queue)"
    else .ok { st with m := norm st.g m' }
  | none => .error s!"model: {what} is not enabled in the model's state ({describe st})"

def setW (st : State) (i v : Nat) : State :=
  { st with wsub := (st.wsub ++ List.replicate (i + 1 - st.wsub.length) 0).set i v }
def setC (st : State) (t v : Nat) : State :=
  { st with csub := (st.csub ++ List.replicate (t + 1 - st.csub.length) 0).set t v }

def expectNat (res : String) (n : Nat) (what : String) : Except String Unit :=
  if res.toNat? = some n then .ok () else .error s!"{what}: the code observed {res}, the model has {n}"

def expectBool (res : String) (b : Bool) (what : String) : Except String Unit :=
  if res = toString b then .ok () else .error s!"{what}: the code observed {res}, the model has {b}"

def noSnap (snap : String) : Bool := snap = "na" ∨ snap = "-" ∨ snap = ""

/-- snapshot inside a critical section of b.mutex -/
def checkGo (st : State) (snap : String) : Except String Unit :=
  if noSnap snap then .ok () else
  match (snapField snap "go").bind (·.toNat?) with
  | some n => if n = st.m.totalGo then .ok ()
              else .error s!"snapshot inside the critical section of mutex ({snap}) differs from the model: totalGo={st.m.totalGo}"
  | none => .error s!"unreadable snapshot {snap}"

def insertSorted (x : Nat) : List Nat → List Nat
  | [] => [x]
  | y :: ys => if x ≤ y then x :: y :: ys else y :: insertSorted x ys

def sortNat (l : List Nat) : List Nat := l.foldr insertSorted []

/-- the ids of the model's group members, the worker inside a window left out -/
def members (st : State) : List Nat :=
  sortNat ((List.range st.m.workers.length).filterMap fun j =>
    match st.m.workers[j]? with
    | some w => if w.inGroup ∧ st.adj ≠ some j then some (st.rid.getD j 0) else none
    | none => none)

/-- snapshot inside a critical section of the group's mutex: the counter `n` and the member ids -/
def checkGrp (st : State) (snap : String) : Except String Unit :=
  if noSnap snap then .ok () else
  match (snapField snap "n").bind (·.toNat?), (snapField snap "mp").bind parseSlash with
  | some n, some mp =>
    if n + (if st.adj.isSome then 1 else 0) ≠ st.m.grpN then
      .error s!"snapshot inside the critical section of the group ({snap}) differs from the model: group counter {st.m.grpN} (a worker inside a window: {st.adj})"
    else if mp ≠ (members st).map Int.ofNat then
      .error s!"snapshot inside the critical section of the group ({snap}) differs from the model: members {members st}"
    else .ok ()
  | _, _ => .error s!"unreadable snapshot {snap}"

/-- the snapshot at the end of add(id) of worker `i`: the one member that is not a known member is its id -/
def learnId (st : State) (snap : String) (i : Nat) : Except String State :=
  if noSnap snap then .ok st else
  match (snapField snap "mp").bind parseSlash with
  | some mp =>
    let others := members { st with adj := some i }
    match (mp.map Int.toNat).filter (fun x => !others.contains x) with
    | [x] =>
      let cur := st.rid.getD i 0
      if cur = 0 then
        if x = 0 ∨ x > st.m.workers.length ∨ st.rid.contains x then
          .error s!"add(id) of worker {i}: id {x} was not drawn from the id counter for this goroutine ({snap})"
        else .ok { st with rid := (st.rid ++ List.replicate (i + 1 - st.rid.length) 0).set i x }
      else if cur = x then .ok st
      else .error s!"add(id) of worker {i}: joined as {x}, its id is {cur}"
    | _ => .error s!"add(id) of worker {i}: the group ({snap}) does not contain exactly one new member (others {others})"
  | none => .error s!"unreadable snapshot {snap}"

/-! Names of locals and of the receiver are not part of the correspondence (a helper may hold the timer in a
parameter of another name): the interrupt arm is the receive from `….Done()` that is not the caller's `ctx`,
a timer channel is `<local>.C`. -/
def isIntArm (act : String) : Bool :=
  act.startsWith "Select:Recv(" && act.endsWith ".Done())" && act ≠ "Select:Recv(ctx.Done())"
def isTimerArm (act : String) : Bool := act.startsWith "Select:Recv(" && act.endsWith ".C)"
def isTimerDrain (act : String) : Bool := act.startsWith "Recv(" && act.endsWith ".C)"
def isTimerStop (act : String) : Bool := act.startsWith "TimerStop("
def isGo (act : String) : Bool := act.startsWith "Go("

/-! ### callers -/

def csync (st : State) (t : Nat) (fn act res : String) : Except String State := do
  let cl := st.m.callers t
  let sub := st.csub.getD t 0
  let bad : Except String State :=
    .error s!"caller {t} logged {fn}:{act} ({res}) where the model is at {repr cl.pc} (step part {sub})"
  let go (a : CAct) : Except String State := fire st (.c t a) s!"{act} by caller {t} at {repr cl.pc}"
  let load (a : CAct) : Except String State := do
    expectNat res (lifeCode st.m.life) s!"caller {t}: load of the lifecycle cell"; go a
  let cas (from_ : Life) (a : CAct) : Except String State := do
    expectBool res (st.m.life == from_) s!"caller {t}: CAS of the lifecycle cell from {repr from_}"; go a
  let lenIs : Except String Unit := expectNat res st.m.queue.length s!"caller {t}: len(queue)"
  -- the RUnlock that follows allowToCreateGoroutine's read (the model's allowRead is already done)
  if sub = 1 then
    if act = "RUnlock(mutex)" then do
      checkGo st res
      pure (setC st t 0)
    else bad
  else
  match cl.pc, (if isGo act then "Go" else act) with
  | .subLoad1, "atomic.LoadInt32(state)" => load .subLoad1
  | .subLoad2, "atomic.LoadInt32(state)" => load .subLoad2
  | .subCas1, "atomic.CompareAndSwapInt32(state)" => cas .created .subCas1
  | .subCas2, "atomic.CompareAndSwapInt32(state)" => cas .running .subCas2
  | .subSel, "Select:Recv(ctx.Done())" => go .selCtx
  | .subSel, "Select:Send(queue)" => go .selSend
  | .subSel, "Select:default" => go .selDefault
  | .subAllowWant, "RLock(mutex)" => go .allowRLock
  | .subAllowHeld, "Len(queue)" => do
      lenIs
      let st ← go .allowRead
      pure (setC st t 1)
  | .subIncWant, "Lock(mutex)" => go .incLock
  | .subIncHeld, "Unlock(mutex)" => do
      let st ← go .incWrite
      checkGo st res
      pure st
  | .subSpawn, "atomic.AddInt32(id)" => do
      if sub ≠ 0 then bad else
      expectNat res (st.m.workers.length + 1) s!"caller {t}: id of the new goroutine"
      pure (setC st t 2)
  | .subSpawn, "Go" => do
      if sub ≠ 2 then bad else
      let st ← go .spawn
      pure (setC st t 0)
  | .subUnlock, "ctx.Err" =>
      if cl.res = .errCtx ∧ res ≠ "nil" then pure st else bad
  | .subUnlock, "atomic.CompareAndSwapInt32(state)" => do
      let st ← cas .locked .unlock
      pure (setC st t 0)
  | .stLoad1, "atomic.LoadInt32(state)" => load .stLoad1
  | .stLoad2, "atomic.LoadInt32(state)" => load .stLoad2
  | .stLoad3, "atomic.LoadInt32(state)" => load .stLoad3
  | .stCas, "atomic.CompareAndSwapInt32(state)" => cas .created .stCas
  | .stNum, "Len(queue)" => do lenIs; go .stNum
  | .stIncWant, "Lock(mutex)" => go .stIncLock
  | .stIncHeld, "Unlock(mutex)" => do
      let st ← go .stIncWrite
      checkGo st res
      pure st
  | .stSpawn, "atomic.AddInt32(id)" => do
      if sub ≠ 0 ∨ cl.k = 0 then bad else
      expectNat res (st.m.workers.length + 1) s!"caller {t}: id of the new goroutine"
      pure (setC st t 2)
  | .stSpawn, "Go" => do
      if sub ≠ 2 then bad else
      let st ← go .stSpawn
      pure (setC st t 0)
  | .stSpawn, "atomic.CompareAndSwapInt32(state)" =>
      if sub ≠ 0 then bad else cas .locked .stUnlock
  | .sdLoad1, "atomic.LoadInt32(state)" => load .sdLoad1
  | .sdLoad2, "atomic.LoadInt32(state)" => load .sdLoad2
  | .sdLoad3, "atomic.LoadInt32(state)" => load .sdLoad3
  | .sdCas, "atomic.CompareAndSwapInt32(state)" => cas .running .sdCas
  | .sdClose, "Close(queue)" => go .sdClose
  | .snLoad1, "atomic.LoadInt32(state)" => load .snLoad1
  | .snLoad2, "atomic.LoadInt32(state)" => load .snLoad2
  | .snLoad3, "atomic.LoadInt32(state)" => load .snLoad3
  | .snCas, "atomic.CompareAndSwapInt32(state)" => cas .running .snCas
  | .snClose, "Close(queue)" => go .snClose
  | .snCancel, "Cancel(interruptCtxCancel)" => go .snCancel
  | .snDrain, "Len(queue)" => do lenIs; pure st       -- capacity of the result slice
  | .snDrain, "Range:Recv(queue)" =>
      if res = "true" then go .snDrainTake else if res = "false" then go .snDrainEnd else bad
  | _, _ => bad

def parseBeh : String → Option Beh
  | "ret" => some .ret | "panic" => some .panic | "block" => some .block | _ => none

def invL (st : State) (t : Nat) (args : List String) : Except String State := do
  if t > st.g then throw s!"caller {t} is not a thread of this scenario"
  let go (a : CAct) : Except String State := fire st (.c t a) s!"the invocation by caller {t} (model pc {repr (st.m.callers t).pc})"
  match args with
  | ["submit", k, _ctx, beh] =>
    match k.toNat?, parseBeh beh with
    | some k, some b => do
      -- every context the harness uses can end (cancelled before, deadline)
      let st ← go (.invSubmit true b)
      pure { st with keys := st.keys ++ [k] }
    | _, _ => throw "unreadable call"
  | ["submitnil"] => go .invSubmitNil
  | ["start"] => go .invStart
  | ["shutdown"] => go .invShutdown
  | ["shutdownnow"] => go .invShutdownNow
  | _ => throw "unreadable call"

def parseRes : String → Option Res
  | "ok" => some .ok | "err:ctx" => some .errCtx | "err:closing" => some .errClosing | "err:stopped" => some .errStopped
  | "err:started" => some .errStarted | "err:notrunning" => some .errNotRunning | "err:invalid" => some .errInvalid
  | _ => none

def resL (st : State) (t : Nat) (args : List String) : Except String State := do
  let cl := st.m.callers t
  if cl.pc ≠ .ret then throw s!"caller {t} returned ({" ".intercalate args}) where the model is at {repr cl.pc}"
  match args with
  | r :: rest =>
    match parseRes r with
    | some r' =>
      if cl.res ≠ r' then throw s!"caller {t} returned {r}, the model's call returns {repr cl.res}"
      -- ShutdownNow: the tasks handed back, in order
      if cl.kind = .shutdownNow ∧ r' = .ok then
        match rest with
        | [l] =>
          let want := st.m.returned.map fun i => (st.keys.getD i 0 : Int)
          if parseInts l ≠ some want then
            throw s!"ShutdownNow handed back tasks {l}, the model's drain loop took {renderInts want}"
        | _ => throw "unreadable result"
      fire st (.c t .ret) s!"return of caller {t}"
    | none => throw s!"unreadable result {r}"
  | [] => throw "unreadable result"

/-! ### workers -/

/-- steps of worker `i` that correspond to no logged action -/
def wadvance (st : State) (i : Nat) : Nat → Except String State
  | 0 => .error "model: too many silent steps"
  | fuel + 1 =>
    match st.m.workers[i]? with
    | some w =>
      if w.pc = .panicked then do
        let st ← fire st (.w i .recover) s!"recover of worker {i}"
        wadvance st i fuel
      else if w.pc = .postDecide ∧ exitAboveCore st.cfg w.v w.nt = false then do
        let st ← fire st (.w i .postDecide) s!"the stay decision of worker {i}"
        wadvance st i fuel
      else .ok st
    | none => .error s!"no worker {i} in the model"

/-! `wsync` is split into `wtimer` / `wnote` / `wact` (and the helpers `wbad`, `wgo`, `wgoSnap`) so that each part is a small
term: `Driver/Ev/PoolSound.lean` proves them sound one by one. -/

/-- timer housekeeping that is no step of the model: `NewTimer(0)` at the start of the goroutine (4), then — also
    after leaving the group — `if !idleTimer.Stop() { <-idleTimer.C }` (6: Stop, 7: the drain of a timer that had fired) -/
def wtimer (st : State) (i sub0 : Nat) (fn act res : String) : Except String State :=
  if sub0 = 4 then
    if act = "NewTimer" then .ok (setW st i 6)
    else .error s!"worker {i} logged {fn}:{act} ({res}) where a new goroutine creates its timer"
  else if sub0 = 6 then
    if isTimerStop act ∧ res = "true" then .ok (setW st i 0)
    else if isTimerStop act ∧ res = "false" then .ok (setW st i 7)
    else .error s!"worker {i} logged {fn}:{act} ({res}) where it stops its idle timer"
  else
    if isTimerDrain act then .ok (setW st i 0)
    else .error s!"worker {i} logged {fn}:{act} ({res}) where it drains its idle timer"

def wbad (st : State) (i : Nat) (w : Worker) (fn act res : String) : Except String State :=
  .error s!"worker {i} logged {fn}:{act} ({res}) where the model is at {repr w.pc} (step part {st.wsub.getD i 0})"

def wgo (st : State) (i : Nat) (w : Worker) (fn act : String) (a : WAct) : Except String State :=
  fire st (.w i a) s!"{fn}:{act} by worker {i} at {repr w.pc}"

def wgoSnap (st : State) (i : Nat) (w : Worker) (fn act res : String) (a : WAct) : Except String State := do
  let st ← wgo st i w fn act a
  checkGo st res
  pure st

/-- harness notes made by the task body (`act = ""`) -/
def wnote (st : State) (i : Nat) (w : Worker) (fn act res : String) : Except String State :=
  let sub := st.wsub.getD i 0
  let bad : Except String State := wbad st i w fn act res
  match w.pc, fn with
  | .running, "trun" =>
    if sub ≠ 0 then bad
    else if res.toNat? ≠ some (st.keys.getD w.task 0) then
      throw s!"worker {i} runs task {res}, the model's worker received task {st.keys.getD w.task 0}"
    else pure (setW st i 5)
  | .running, "tpanic" =>
    if sub ≠ 5 then bad else do
      let st ← wgo st i w fn act .taskPanic
      pure (setW st i 0)
  | .running, "tend" =>
    if sub ≠ 5 then bad else do
      -- a blocking task ended: released by the harness, by the interrupt context or by its own timeout
      let st ← match st.m.tasks[w.task]? with
        | some tk => if tk.beh = .block ∧ tk.released = false then fire st (.c 0 (.release w.task)) "release" else pure st
        | none => pure st
      let st ← fire st (.w i .taskRet) s!"end of the task of worker {i}"
      pure (setW st i 0)
  | _, _ => bad

/-- a logged action of worker `i`, whose model worker `w` is at `w.pc` -/
def wact (st : State) (i : Nat) (w : Worker) (fn act res : String) : Except String State :=
  let sub := st.wsub.getD i 0
  let bad : Except String State := wbad st i w fn act res
  let go (a : WAct) : Except String State := wgo st i w fn act a
  let goSnap (a : WAct) : Except String State := wgoSnap st i w fn act res a
  match w.pc, sub, act with
  -- the select
  | .sel, 0, "Select:Recv(queue)" =>
      if res = "true" then go .selRecv else if res = "false" then go .selClosed else bad
  | .sel, 0, _ =>
      if isTimerArm act then do
        let st ← if w.timer = .armed then fire st (.w i .fire) s!"expiry of the idle timer of worker {i}" else pure st
        fire st (.w i .selIdle) s!"the idle-timer arm of worker {i} (timer {repr w.timer})"
      else if isIntArm act then go .selInt else bad
  -- interrupt exit: decreaseTotalGo(1)
  | .intWant, 0, "Lock(mutex)" => go .intLock
  | .intHeld, 0, "Unlock(mutex)" => goSnap .intWrite
  -- idle exit: Lock; totalGo--; group.delete(id); Unlock
  | .idleWant, 0, "Lock(mutex)" => go .idleLock
  | .idleHeld, 0, "Lock(mu)" => pure (setW st i 1)
  | .idleHeld, 1, "Unlock(mu)" => do
      -- the real counter is decremented here, the model's at the Unlock(mutex) that follows
      let st := { st with adj := if w.inGroup then some i else none }
      checkGrp st res
      pure (setW st i 2)
  | .idleHeld, 2, "Unlock(mutex)" => do
      let st ← goSnap .idleWrite
      pure (setW { st with adj := none } i 0)
  -- after the receive: isIn(id) [delete(id); Stop/drain]
  | .recvd, 0, "RLock(mu)" => pure (setW st i 1)
  | .recvd, 1, "RUnlock(mu)" => do
      checkGrp st res
      if w.inGroup then pure (setW st i 2) else do
        let st ← go .leaveGroup
        pure (setW st i 0)
  | .recvd, 2, "Lock(mu)" => pure (setW st i 3)
  | .recvd, 3, "Unlock(mu)" => do
      let st ← go .leaveGroup
      checkGrp st res
      pure (setW st i 6)
  -- queue closed and empty: decreaseTotalGo(1); numOfGo(); CAS; cancel
  | .clWant, 0, "Lock(mutex)" => go .clLock
  | .clHeld, 0, "Unlock(mutex)" => goSnap .clWrite
  | .clNumWant, 0, "RLock(mutex)" => go .clRLock
  | .clNumHeld, 0, "RUnlock(mutex)" => do checkGo st res; go .clRead
  | .clCas, 0, "atomic.CompareAndSwapInt32(state)" => do
      expectBool res (st.m.life == .closing) s!"worker {i}: CAS of the lifecycle cell from closing"
      go .clCas
  | .clCancel, 0, "Cancel(interruptCtxCancel)" => go .clCancel
  -- the task
  | .incRun, 0, "atomic.AddInt32(numGoRunningTasks)" => do
      let st ← go .incRun
      expectNat res st.m.numRunning s!"worker {i}: numGoRunningTasks after the increment"
      pure st
  | .decRun, 0, "atomic.AddInt32(numGoRunningTasks)" => do
      let st ← go .decRun
      expectNat res st.m.numRunning s!"worker {i}: numGoRunningTasks after the decrement"
      pure st
  -- the section after the task
  | .postWant, 0, "Lock(mutex)" => go .postLock
  | .postLen1, 0, "Len(queue)" => do
      expectNat res st.m.queue.length s!"worker {i}: len(queue)"
      go .postLen1
  | .postLen2, 0, "Len(queue)" => do
      expectNat res st.m.queue.length s!"worker {i}: len(queue)"
      go .postLen2
  | .postDecide, 0, "Unlock(mutex)" => goSnap .postDecide        -- (wadvance left it here: the worker exits)
  | .postGrp, 0, "RLock(mu)" => pure (setW st i 1)
  | .postGrp, 1, "RUnlock(mu)" => do
      checkGrp st res
      let st ← go .postGrp
      -- joined: the add(id) follows, until then the model's counter is one ahead
      match st.m.workers[i]? with
      | some w' =>
        if w'.inGroup ∧ ¬ w.inGroup then pure (setW { st with adj := some i } i 2) else pure (setW st i 0)
      | none => bad
  | .postUnlock, 2, "NewTimer" => pure (setW st i 8)        -- idleTimer = time.NewTimer(maxIdleTime): armed by postGrp
  | .postUnlock, 8, "Lock(mu)" => pure (setW st i 3)
  | .postUnlock, 3, "Unlock(mu)" => do
      let st ← learnId { st with adj := none } res i
      checkGrp st res
      pure (setW st i 0)
  | .postUnlock, 0, "Unlock(mutex)" => goSnap .postUnlock
  | _, _, _ => bad

def wsync (st : State) (i : Nat) (fn act res : String) : Except String State :=
  let sub0 := st.wsub.getD i 0
  if sub0 = 4 ∨ sub0 = 6 ∨ sub0 = 7 then wtimer st i sub0 fn act res else
  match wadvance st i 100 with
  | .error e => .error e
  | .ok st =>
    match st.m.workers[i]? with
    | none => .error s!"no worker {i} in the model"
    | some w => if act = "" then wnote st i w fn act res else wact st i w fn act res

/-- an event of a goroutine the library made: bind a new name to the oldest worker without goroutine -/
def syncG (st : State) (gid : String) (fn act res : String) : Except String State :=
  match st.gids.idxOf? gid with
  | some i => wsync st i fn act res
  | none =>
    let i := st.gids.length
    if i < st.m.workers.length then
      -- a fresh goroutine may first drain its zero timer
      wsync (setW { st with gids := st.gids ++ [gid] } i 4) i fn act res
    else .error s!"event {fn}:{act} of goroutine {gid}, which no go statement of the model has created ({st.m.workers.length} workers, all bound)"

/-- an event of a registered caller thread -/
def sync (st : State) (t : Nat) (fn act res : String) : Except String State :=
  -- the constructor runs on the harness's goroutine before the first call: the model's `init`
  if fn.startsWith "New" then .ok st else csync st t fn act res

def init (args : List String) : Except String State :=
  match argInt args "init", argInt args "core", argInt args "max", argInt args "q", argInt args "rate", argInt args "g" with
  | some i, some c, some mx, some q, some r, some g =>
    match newPool i q [.coreGo c, .maxGo mx, .rate r 1000, .idle] with
    | .ok cfg => .ok { cfg := cfg, g := g.toNat, m := Ekit.Pool.init }
    | .error e => .error s!"the model's constructor rejects the configuration ({repr e})"
  | _, _, _, _, _, _ => .error "init= core= max= q= rate= g= missing"

/-- At `end` every call has returned and — the harness stops the log only after every goroutine of the scenario
    is gone — every worker the model created has run to its exit in the model too (a goroutine that ended
    earlier than the model's worker has skipped actions). -/
def atEnd (st : State) : Option String :=
  match (List.range (st.g + 1)).find? fun t => (st.m.callers t).pc ≠ .idle with
  | some t => some s!"the call of caller {t} is still in flight in the model at the end of the scenario (pc {repr (st.m.callers t).pc})"
  | none =>
    match (List.range st.m.workers.length).find? fun i => (st.m.workers[i]?.map (·.pc)) ≠ some .exited with
    | some i =>
      some s!"all goroutines of the scenario have ended, but the model's worker {i} ({st.gids.getD i "never seen"}) is at {repr (st.m.workers[i]?.map (·.pc))}: the code left out the rest of its exit path"
    | none => none

end Driver.Ev.Pool
