/-
Soundness of the event replayer of `syncx.Cond` (target `cond`, Driver/Ev/Cond.lean) with respect to the transition
system `Ekit.Cond.sys` the C13 theorems are about.

`Driver.Ev.Cond.invL / sync / resL` are what the driver runs on every logged event of a real execution
(`Driver.EvTrace.event` on a `cond` state; `event_cond_eq` below).  The replayer's state carries, beside the model's
state `m`, the list of the scenario's threads and the table real node name ↦ model node; the statements are about `m`.
Here it is proved that whatever the replayer accepts IS a run of `Ekit.Cond.sys`:

* `cond_sync_sound`: an accepted synchronisation event is a sequence of model steps none of which is observable
  (the thread's statements, the environment's `expire`, another thread's silent `free`);
* `cond_inv_sound`, `cond_res_sound`: an accepted invocation / response note is a run of the model whose history is
  exactly the noted call event (`invWait/invSignal/invBroadcast`, silent steps then `resWait/resSignal/resBroadcast`),
  or no event for the client's `L.Lock()` / `L.Unlock()` notes (the model's silent `lockL` / `unlockL`);
* `cond_replay_sound`: if a whole log is accepted from the state `init` builds, the final model state is the result of a
  run of `Ekit.Cond.sys` from its initial state whose history is exactly the list of call events of the log; in
  particular it is `Reachable` (`cond_replay_reachable`), so every invariant of `Ekit/Props/C13.lean` holds of it
  (Driver/Ev/CondSoundC13.lean).

The re-tabulation `retab` the replayer applies after a response is the identity (`retab_eq`).
-/
import Driver.Ev.Cond
import Driver.EvTrace

namespace Driver.Ev.Cond
open Ekit Ekit.Conc Ekit.Cond

theorem run_cons {σ ι : Type} (S : System σ ι) (s : σ) (l : ι) (ls : List ι) :
    S.run s (l :: ls) = (S.step s l).bind (fun s' => S.run s' ls) := by
  simp only [System.run]; cases S.step s l <;> rfl

theorem run_one (s s' : Ekit.Cond.State) (l : Label) (h : step s l = some s') :
    sys.toSystem.run s [l] = some s' := by
  rw [run_cons]
  show (step s l).bind (fun s1 => sys.toSystem.run s1 []) = some s'
  rw [h]; rfl

/-- `Path s o s'`: `s'` is reached from `s` by a run of the model whose history is `o` -/
def Path (s : Ekit.Cond.State) (o : List (Ev Op Ret)) (s' : Ekit.Cond.State) : Prop :=
  ∃ ls : List Label, sys.toSystem.run s ls = some s' ∧ sys.history ls = o

/-- `Sil s s'`: `s'` is reached from `s` by model steps without observable event -/
abbrev Sil (s s' : Ekit.Cond.State) : Prop := Path s [] s'

theorem Path.refl (s : Ekit.Cond.State) : Path s [] s := ⟨[], rfl, rfl⟩

theorem Path.trans {a b c : Ekit.Cond.State} {o1 o2 : List (Ev Op Ret)} (h1 : Path a o1 b) (h2 : Path b o2 c) :
    Path a (o1 ++ o2) c := by
  obtain ⟨l1, r1, e1⟩ := h1
  obtain ⟨l2, r2, e2⟩ := h2
  refine ⟨l1 ++ l2, ?_, ?_⟩
  · rw [System.run_append, r1]; exact r2
  · simp only [ObjSystem.history, List.filterMap_append] at *
    rw [e1, e2]

theorem Path.single {s s' : Ekit.Cond.State} (l : Label) (h : step s l = some s') : Path s (obs l).toList s' := by
  refine ⟨[l], run_one s s' l h, ?_⟩
  simp only [ObjSystem.history, sys, List.filterMap_cons, List.filterMap_nil]
  cases obs l <;> rfl

theorem Sil.refl (s : Ekit.Cond.State) : Sil s s := Path.refl s

theorem Sil.trans {a b c : Ekit.Cond.State} (h1 : Sil a b) (h2 : Sil b c) : Sil a c := Path.trans h1 h2

theorem Sil.single {s s' : Ekit.Cond.State} (l : Label) (h : step s l = some s') (ho : obs l = none) : Sil s s' := by
  have := Path.single l h
  rw [ho] at this; exact this

theorem Sil.then {a b c : Ekit.Cond.State} {o : List (Ev Op Ret)} (h1 : Sil a b) (h2 : Path b o c) : Path a o c := by
  have := Path.trans h1 h2
  simpa using this

/-- a `do`-block `x ← a; f x` that succeeds: both parts succeeded -/
theorem bind_ok {α β : Type} {a : Except String α} {f : α → Except String β} {b : β}
    (h : (a >>= f) = .ok b) : ∃ x, a = .ok x ∧ f x = .ok b := by
  cases a with
  | error e => cases h
  | ok x => exact ⟨x, rfl, h⟩

/-! ### the helpers -/

theorem fire_sound {s s' : Ekit.Cond.State} {t : Nat} {l : Label} {w : String} (h : fire s t l w = .ok s') :
    step s l = some s' := by
  unfold fire at h
  split at h
  · rename_i s1 hs
    split at h
    · cases h
    · cases h; exact hs
  · cases h

theorem silentLabel_obs {t : Nat} {p : Pc} {l : Label} (h : silentLabel t p = some l) : obs l = none := by
  cases p <;> simp [silentLabel] at h <;> subst h <;> rfl

theorem advance_sound (t : Nat) : ∀ (fuel : Nat) (s s' : Ekit.Cond.State), advance s t fuel = .ok s' → Sil s s'
  | 0, s, s', h => by simp [advance] at h
  | fuel + 1, s, s', h => by
    unfold advance at h
    split at h
    · rename_i l hl
      obtain ⟨s1, hf, h⟩ := bind_ok h
      exact Sil.trans (Sil.single l (fire_sound hf) (silentLabel_obs hl)) (advance_sound t fuel s1 s' h)
    · cases h; exact Sil.refl s

/-- a `do`-block `let s' ← fire s t l w; pure { st with m := s' }` -/
theorem fire_pure_sound {st' : State} {s : Ekit.Cond.State} {t : Nat} {l : Label} {w : String} {f : Ekit.Cond.State → State}
    (hf : ∀ x, (f x).m = x)
    (h : (fire s t l w >>= fun s' => (pure (f s') : Except String State)) = .ok st') :
    step s l = some st'.m := by
  obtain ⟨s1, h1, h2⟩ := bind_ok h
  cases h2
  rw [hf]; exact fire_sound h1

theorem ctxSeen_sound {s s' : Ekit.Cond.State} {t : Nat} (h : ctxSeen s t = .ok s') : Sil s s' := by
  unfold ctxSeen at h
  split at h
  · cases h; exact Sil.refl s
  · exact Sil.single (.expire t) (fire_sound h) rfl

/-- `wAlloc` resolved by the snapshot: the model's `alloc`, preceded where needed by the previous owner's `free` -/
theorem alloc_sound {st st' : State} {t : Nat} {snap : String} (h : alloc st t snap = .ok st') : Sil st.m st'.m := by
  unfold alloc at h
  simp only at h
  split at h
  · obtain ⟨s1, h1, h2⟩ := bind_ok h
    cases h2
    exact Sil.single _ (fire_sound h1) rfl
  · obtain ⟨real, _, h⟩ := bind_ok h
    split at h
    · cases h
    · split at h
      · obtain ⟨s1, h1, h2⟩ := bind_ok h
        cases h2
        exact Sil.single _ (fire_sound h1) rfl
      · split at h
        · obtain ⟨s1, h1, h2⟩ := bind_ok h
          cases h2
          exact Sil.single _ (fire_sound h1) rfl
        · split at h
          · obtain ⟨s1, h1, h⟩ := bind_ok h
            obtain ⟨s2, h2, h3⟩ := bind_ok h
            cases h3
            exact Sil.trans (Sil.single _ (fire_sound h1) rfl) (Sil.single _ (fire_sound h2) rfl)
          · cases h

/-- the `go` of `sync` / `invL`: one model step, stored into the replayer's state -/
theorem go_sil {st st' : State} {s : Ekit.Cond.State} {t : Nat} {l : Label} {w : String}
    (h : (fire s t l w >>= fun s' => (pure { st with m := s' } : Except String State)) = .ok st')
    (ho : obs l = none) : Sil s st'.m :=
  Sil.single l (fire_pure_sound (fun _ => rfl) h) ho

theorem cond_sync_sound {st st' : State} {t : Nat} {fn act res : String}
    (h : sync st t fn act res = .ok st') : Sil st.m st'.m := by
  unfold sync at h
  obtain ⟨st1, h1, h⟩ := bind_ok h
  have p1 : Sil st.m st1.m := by
    split at h1
    · split at h1
      · exact alloc_sound h1
      · cases h1
    · cases h1; exact Sil.refl _
  clear h1
  obtain ⟨s, ha, h⟩ := bind_ok h
  refine Sil.trans p1 (Sil.trans (advance_sound t _ _ _ ha) ?_)
  clear ha p1
  simp only at h
  split at h
  all_goals first
    | exact go_sil h rfl
    | cases h
    | (obtain ⟨_, _, h⟩ := bind_ok h; exact go_sil h rfl)
    | (split at h
       · first | exact go_sil h rfl | cases h
       · first | exact go_sil h rfl | cases h)
    | (split at h <;> split at h <;> first | exact go_sil h rfl | cases h)
    | (obtain ⟨s1, hc, h⟩ := bind_ok h
       exact Sil.trans (ctxSeen_sound hc) (go_sil h rfl))

/-! ### invocation and response notes -/

/-- the call event an `inv` note stands for (`lock` / `unlock` are the client's own `L.Lock()` / `L.Unlock()`: not calls of
    the Cond) -/
def invObs (t : Nat) : List String → Option (Ev Op Ret)
  | ["wait", kind] => some (.inv t (.wait (kind == "pre")))
  | ["signal"] => some (.inv t .signal)
  | ["broadcast"] => some (.inv t .broadcast)
  | _ => none

/-- the return event a `res` note stands for -/
def resObs (t : Nat) : List String → Option (Ev Op Ret)
  | ["nil"] => some (.res t (.wait .nil))
  | ["ctxErr"] => some (.res t (.wait .ctxErr))
  | ["unit"] => some (.res t .unit)
  | _ => none

theorem go_path {st st' : State} {s : Ekit.Cond.State} {t : Nat} {l : Label} {w : String}
    (h : (fire s t l w >>= fun s' => (pure { st with m := s' } : Except String State)) = .ok st') :
    Path s (obs l).toList st'.m :=
  Path.single l (fire_pure_sound (fun _ => rfl) h)

/-- **an accepted invocation note is the model's invocation step** (for the client's lock notes: a check without a step /
    the silent `unlockL`) -/
theorem cond_inv_sound {st st' : State} {t : Nat} {args : List String} (h : invL st t args = .ok st') :
    Path st.m (invObs t args).toList st'.m := by
  unfold invL at h
  simp only at h
  split at h
  · split at h
    · cases h; exact Path.refl _
    · cases h
  · exact go_path h
  · exact go_path h
  · exact go_path h
  · exact go_path h
  · cases h

theorem lookup_map_some {β : Type} (f : Nat → β) (tids : List Nat) (t : Nat) (p : β)
    (h : (tids.map fun u => (u, f u)).lookup t = some p) : p = f t := by
  induction tids with
  | nil => cases h
  | cons u us ih =>
    simp only [List.map_cons, List.lookup_cons] at h
    by_cases hu : t = u
    · subst hu; simp at h; exact h.symm
    · have : (t == u) = false := by simpa using hu
      rw [this] at h; exact ih h

/-- the re-tabulation is the identity -/
theorem retab_eq (s : Ekit.Cond.State) (tids : List Nat) : retab s tids = s := by
  cases s
  simp only [retab, Ekit.Cond.State.mk.injEq, true_and]
  refine ⟨?_, ?_, ?_, ?_⟩ <;> funext t <;> split <;>
    first | rfl | (rename_i h; exact lookup_map_some _ _ _ _ h)

/-- **an accepted response note is silent model steps followed by the model's response step** (for the client's lock
    notes: followed by the silent `lockL` / by nothing) -/
theorem cond_res_sound {st st' : State} {t : Nat} {args : List String} (h : resL st t args = .ok st') :
    Path st.m (resObs t args).toList st'.m := by
  unfold resL at h
  obtain ⟨s, ha, h⟩ := bind_ok h
  refine Sil.then (advance_sound t _ _ _ ha) ?_
  clear ha
  simp only [retab_eq] at h
  have fin : ∀ l : Label, (match step s l with
        | some s' => (pure { st with m := s' } : Except String State)
        | none => .error s!"thread {t} returned {args} where the model is at {repr (s.pc t)}") = .ok st' →
      Path s (obs l).toList st'.m := by
    intro l hl
    split at hl
    · rename_i s1 hs; cases hl; exact Path.single l hs
    · cases hl
  split at h
  · split at h
    · rename_i s1 hs; cases h; exact Path.single (.lockL t) hs
    · cases h
  · cases h; exact Path.refl _
  · exact fin _ h
  · exact fin _ h
  · split at h
    · exact fin _ h
    · exact fin _ h
  · cases h

/-! ### whole logs -/

/-- a log line `e <t> <what> <args…> => <obs>` as the driver hands it to `Driver.EvTrace.event` -/
structure Entry where
  t : Nat
  what : String
  args : List String
  obs : String

/-- the call event of a log line: `inv` / `res` notes of the three methods; synchronisation events and the client's lock
    notes have none -/
def Entry.ev (e : Entry) : Option (Ev Op Ret) :=
  if e.what = "inv" then invObs e.t e.args else if e.what = "res" then resObs e.t e.args else none

/-- the driver's treatment of one line (`event_cond_eq`) -/
def replay1 (st : State) (e : Entry) : Except String State :=
  if e.what = "inv" then invL st e.t e.args
  else if e.what = "res" then resL st e.t e.args
  else sync st e.t (splitSite e.what).1 (splitSite e.what).2 e.obs

def replay (st : State) : List Entry → Except String State
  | [] => .ok st
  | e :: es => replay1 st e >>= fun st' => replay st' es

/-- `replay1` is literally what `Driver.EvTrace.event` does on a `cond` state -/
theorem event_cond_eq (st : State) (e : Entry) :
    Driver.EvTrace.event (.cond st) e.t e.what e.args e.obs = Driver.EvTrace.liftE .cond (replay1 st e) := by
  unfold Driver.EvTrace.event replay1
  simp only
  split
  · rfl
  · split <;> rfl

/-- … and `init` is what `Driver.EvTrace.start` does for the target `cond` -/
theorem start_cond_eq (args : List String) :
    Driver.EvTrace.start "cond" args = Driver.EvTrace.liftE .cond (init args) := by
  unfold Driver.EvTrace.start
  simp

theorem replay1_sound {st st' : State} {e : Entry} (h : replay1 st e = .ok st') :
    Path st.m e.ev.toList st'.m := by
  unfold replay1 at h
  unfold Entry.ev
  split at h
  · rename_i hw; rw [if_pos hw]; exact cond_inv_sound h
  · rename_i hw; rw [if_neg hw]
    split at h
    · rename_i hw2; rw [if_pos hw2]; exact cond_res_sound h
    · rename_i hw2; rw [if_neg hw2]; exact cond_sync_sound h

theorem replay_sound : ∀ (es : List Entry) (st st' : State), replay st es = .ok st' →
    Path st.m (es.filterMap Entry.ev) st'.m
  | [], st, st', h => by cases h; exact Path.refl _
  | e :: es, st, st', h => by
    obtain ⟨st1, h1, h2⟩ := bind_ok h
    have := Path.trans (replay1_sound h1) (replay_sound es st1 st' h2)
    rw [List.filterMap_cons]
    cases he : e.ev <;> simpa [he] using this

/-- the model component of the state `init` builds is the model's initial state -/
theorem init_m {args : List String} {st : State} (h : init args = .ok st) : st.m = Ekit.Cond.init := by
  unfold init at h
  split at h
  · cases h; rfl
  · cases h

/-- **an accepted log is a run of the verified model**: from the state the `new evt cond …` line builds, the model
    component of the final state is the result of a run of `Ekit.Cond.sys` from its initial state whose history is exactly
    the observed invocations and responses of `Wait` / `Signal` / `Broadcast` -/
theorem cond_replay_sound (args : List String) (es : List Entry) (st0 st' : State)
    (h0 : init args = .ok st0) (h : replay st0 es = .ok st') :
    ∃ ls, sys.toSystem.run sys.init ls = some st'.m ∧ sys.history ls = es.filterMap Entry.ev := by
  have := replay_sound es st0 st' h
  rw [init_m h0] at this
  exact this

/-- hence the final model state is reachable: every invariant of `Ekit/Props/C13.lean` holds of it -/
theorem cond_replay_reachable (args : List String) (es : List Entry) (st0 st' : State)
    (h0 : init args = .ok st0) (h : replay st0 es = .ok st') : Reachable st'.m := by
  obtain ⟨ls, hr, _⟩ := cond_replay_sound args es st0 st' h0 h
  exact System.reachable_of_run _ ls System.Reachable.init hr

end Driver.Ev.Cond
