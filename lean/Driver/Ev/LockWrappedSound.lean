/-
Soundness of the event replayers of the lock-wrapped containers (targets `clist`, `cow`, `cpq`) with respect to the
generic transition system `Ekit.Linz.LockWrapped.sys P` the C06 theorems are about.

`Driver.Ev.LW.inv / sync / res` (Driver/Ev/LockWrapped.lean) are what the driver runs on every logged event.  The
replayer's state is the model's state `m` plus bookkeeping (threads inside a call, the mutex's name).  Proved here:

* generic, for every `P` and every snapshot check (`lw_sync_sound`, `lw_inv_sound`, `lw_res_sound`): an accepted lock
  action is a sequence of unobservable steps (`tau`) of `sys P`; an accepted invocation is its `call` step; an accepted
  response is unobservable steps followed by its `ret` step;
* `cow` (one fixed `P = cowParams CowList.new`): `cow_replay_sound` — an accepted log is a run of the model from its
  initial state with exactly the observed invocations / responses as its history; `cow_replay_reachable`;
* `clist`, `cpq`: the growth oracle of `P` is read from the event's snapshot, so `P` differs from event to event (only in
  `P.f`'s capacity choice).  `clist_replay_prun` / `cpq_replay_prun_partial`: an accepted log is a PIECEWISE run `PRun` — a
  chain of runs of `sys P` for `P` in the family `{listParams x g | g}` / `{rawParams cmp capacity g | g}` — with the
  observed history.
  For `clist` the pieces are glued: every member of the family is abstracted by `AnyList.vals` (C04's refinement theorem)
  to the ONE system `sys specParams` whose protected data are the abstract sequence and whose bodies are `Lists.Spec.step`;
  `clist_replay_sound`: an accepted log is (the image under `vals` of) a run of `sys specParams` from its initial state
  with the observed history.
  For `cpq` the pieces are glued in `Driver/Ev/CPQSoundC06.lean` (`cpq_replay_sound`: ONE oracle, exactly).

The entries are the raw log lines as `Driver.EvTrace.event` receives them and `replay` is the driver's own dispatch
(`event_cow`, `event_clist`, `event_cpq`).  Corollaries through the C06 theorems: `Driver/Ev/LockWrappedSoundC06.lean`.
-/
import Driver.Ev.LockWrapped
import Driver.EvTrace

namespace Driver.Ev.LW
open Driver Ekit Ekit.Conc Ekit.Linz Ekit.Linz.LockWrapped Ekit.Lists

variable {S Op Ret : Type} [DecidableEq Ret]

theorem bind_ok {α β : Type} {a : Except String α} {f : α → Except String β} {b : β}
    (h : (a >>= f) = .ok b) : ∃ x, a = .ok x ∧ f x = .ok b := by
  cases a with
  | error e => cases h
  | ok x => exact ⟨x, rfl, h⟩

theorem run_cons {σ ι : Type} (S : System σ ι) (s : σ) (l : ι) (ls : List ι) :
    S.run s (l :: ls) = (S.step s l).bind (fun s' => S.run s' ls) := by
  simp only [System.run]; cases S.step s l <;> rfl

theorem run_one (P : Params S Op Ret) (m m' : St S Op Ret) (l : Lbl Op Ret) (h : step P m l = some m') :
    (sys P).run m [l] = some m' := by
  rw [run_cons]
  show (step P m l).bind (fun s1 => (sys P).run s1 []) = some m'
  rw [h]; rfl

/-- `Sil P m m'`: `m'` is reached from `m` by steps of the model `sys P` without observable event -/
def Sil (P : Params S Op Ret) (m m' : St S Op Ret) : Prop :=
  ∃ ls : List (Lbl Op Ret), (sys P).run m ls = some m' ∧ (sys P).history ls = []

theorem Sil.refl (P : Params S Op Ret) (m : St S Op Ret) : Sil P m m := ⟨[], rfl, rfl⟩

theorem Sil.trans {P : Params S Op Ret} {a b c : St S Op Ret} (h1 : Sil P a b) (h2 : Sil P b c) : Sil P a c := by
  obtain ⟨l1, r1, o1⟩ := h1
  obtain ⟨l2, r2, o2⟩ := h2
  refine ⟨l1 ++ l2, ?_, ?_⟩
  · rw [System.run_append, r1]; exact r2
  · simp only [ObjSystem.history, List.filterMap_append] at *
    rw [o1, o2]; rfl

theorem Sil.single {P : Params S Op Ret} {m m' : St S Op Ret} (t : Nat) (h : step P m (.tau t) = some m') :
    Sil P m m' :=
  ⟨[.tau t], run_one P m m' _ h, rfl⟩

theorem tauM_sound {P : Params S Op Ret} {m m' : St S Op Ret} {t : Nat} {w : String}
    (h : tauM P m t w = .ok m') : Sil P m m' := by
  unfold tauM at h
  split at h
  · rename_i m1 hs
    split at h
    · cases h
    · cases h; exact Sil.single t hs
  · cases h

theorem advance_sound (P : Params S Op Ret) (t : Nat) :
    ∀ (fuel : Nat) (m m' : St S Op Ret), advance P m t fuel = .ok m' → Sil P m m'
  | 0, m, m', h => by simp [advance] at h
  | fuel + 1, m, m', h => by
    unfold advance at h
    split at h
    · obtain ⟨m1, h1, h⟩ := bind_ok h
      exact Sil.trans (tauM_sound h1) (advance_sound P t fuel m1 m' h)
    · cases h; exact Sil.refl P m

theorem lw_sync_sound {P : Params S Op Ret} {check : S → String → Except String Unit}
    {s s' : State S Op Ret} {t : Nat} {fn act res : String}
    (h : sync P check s t fn act res = .ok s') : Sil P s.m s'.m := by
  unfold sync at h
  obtain ⟨m1, ha, h⟩ := bind_ok h
  refine Sil.trans (advance_sound P t _ _ _ ha) ?_
  clear ha
  dsimp only at h
  obtain ⟨s1, _, h⟩ := bind_ok h
  split at h
  · split at h
    · obtain ⟨m', hm, h⟩ := bind_ok h
      cases h; exact tauM_sound hm
    · split at h <;> cases h
  · split at h
    · obtain ⟨_, _, h⟩ := bind_ok h
      obtain ⟨m', hm, h⟩ := bind_ok h
      cases h; exact tauM_sound hm
    · cases h
  · split at h
    · obtain ⟨_, _, h⟩ := bind_ok h
      obtain ⟨m', hm, h⟩ := bind_ok h
      cases h; exact tauM_sound hm
    · cases h
  · cases h

theorem lw_inv_sound {P : Params S Op Ret} {s s' : State S Op Ret} {t : Nat} {op : Op}
    (h : inv P s t op = .ok s') : step P s.m (.call t op) = some s'.m := by
  unfold inv at h
  split at h
  · rename_i m1 hs; cases h; exact hs
  · cases h

theorem lw_res_sound [Repr Ret] {P : Params S Op Ret} {s s' : State S Op Ret} {t : Nat} {r : Ret}
    (h : LW.res P s t r = .ok s') : ∃ m1, Sil P s.m m1 ∧ step P m1 (.ret t r) = some s'.m := by
  unfold LW.res at h
  obtain ⟨m1, ha, h⟩ := bind_ok h
  refine ⟨m1, advance_sound P t _ _ _ ha, ?_⟩
  split at h
  · rename_i m2 hs; cases h; exact hs
  · split at h <;> cases h


/-! ### abstraction of the protected data -/

section Map
variable {S S' Op Ret : Type}

def mapPc (h : S → S') : Pc S Op Ret → Pc S' Op Ret
  | .idle => .idle
  | .want op => .want op
  | .held op => .held op
  | .mid op sn => .mid op (h sn)
  | .fin op r => .fin op r
  | .out op sn => .out op (h sn)
  | .ret r => .ret r
  | .crash => .crash

section
variable (h : S → S')
@[simp] theorem mapPc_idle : mapPc h (.idle : Pc S Op Ret) = .idle := rfl
@[simp] theorem mapPc_want (op : Op) : mapPc h (.want op : Pc S Op Ret) = .want op := rfl
@[simp] theorem mapPc_held (op : Op) : mapPc h (.held op : Pc S Op Ret) = .held op := rfl
@[simp] theorem mapPc_mid (op : Op) (sn : S) : mapPc h (.mid op sn : Pc S Op Ret) = .mid op (h sn) := rfl
@[simp] theorem mapPc_fin (op : Op) (r : Ret) : mapPc h (.fin op r : Pc S Op Ret) = .fin op r := rfl
@[simp] theorem mapPc_out (op : Op) (sn : S) : mapPc h (.out op sn : Pc S Op Ret) = .out op (h sn) := rfl
@[simp] theorem mapPc_ret (r : Ret) : mapPc h (.ret r : Pc S Op Ret) = .ret r := rfl
@[simp] theorem mapPc_crash : mapPc h (.crash : Pc S Op Ret) = .crash := rfl
end

def mapSt (h : S → S') (m : St S Op Ret) : St S' Op Ret :=
  ⟨h m.data, m.dirty, m.w, m.rc, fun t => mapPc h (m.pc t)⟩

theorem mapPc_upd (h : S → S') (pc : Nat → Pc S Op Ret) (t : Nat) (p : Pc S Op Ret) :
    (fun u => mapPc h (upd pc t p u)) = upd (fun u => mapPc h (pc u)) t (mapPc h p) := by
  funext u
  by_cases hu : u = t <;> simp [upd, hu]

/-- `P'` is `P` seen through the abstraction `h` of the protected data: same lock styles, bodies commute with `h` -/
structure Abstracts (h : S → S') (P : Params S Op Ret) (P' : Params S' Op Ret) : Prop where
  style : ∀ op, P'.style op = P.style op
  f : ∀ s op, P'.f (h s) op = (h (P.f s op).1, (P.f s op).2)

variable [DecidableEq Ret]

theorem step_map {h : S → S'} {P : Params S Op Ret} {P' : Params S' Op Ret} (hA : Abstracts h P P')
    (m : St S Op Ret) (l : Lbl Op Ret) :
    step P' (mapSt h m) l = (step P m l).map (mapSt h) := by
  cases l with
  | call t op =>
    simp only [step, mapSt]
    cases hp : m.pc t <;> simp [St.set, mapSt, mapPc_upd]
  | tau t =>
    simp only [step, mapSt]
    cases hp : m.pc t with
    | idle => simp
    | want op =>
      simp only [mapPc_want, hA.style]
      by_cases hs : (P.style op).shared = true
      · by_cases hw : m.w = true <;> simp [hs, hw, mapSt, mapPc_upd]
      · by_cases hw : (m.w || m.rc != 0) = true <;> simp [hs, hw, mapSt, mapPc_upd]
    | held op =>
      simp only [mapPc_held, hA.style]
      by_cases hd : m.dirty = true <;> simp [hd, St.set, mapSt, mapPc_upd]
    | mid op sn =>
      simp only [mapPc_mid, hA.style, hA.f]
      by_cases hl : (P.style op).late = true
      · simp [hl, mapSt, mapPc_upd]
      · by_cases hr : (P.style op).readOnly = true
        · simp [hl, hr, St.set, mapSt, mapPc_upd]
        · by_cases hdd : (P.style op).dirties = true <;> simp [hl, hr, hdd, mapSt, mapPc_upd]
    | fin op r =>
      simp only [mapPc_fin, hA.style]
      by_cases hs : (P.style op).shared = true <;> simp [hs, mapSt, mapPc_upd]
    | out op sn => simp [St.set, mapSt, mapPc_upd, hA.f]
    | ret r => simp
    | crash => simp
  | ret t r =>
    simp only [step, mapSt]
    cases hp : m.pc t with
    | ret r' =>
      simp only [mapPc_ret]
      by_cases hr : r = r' <;> simp [hr, St.set, mapSt, mapPc_upd]
    | _ => simp

theorem run_map {h : S → S'} {P : Params S Op Ret} {P' : Params S' Op Ret} (hA : Abstracts h P P')
    (m : St S Op Ret) (ls : List (Lbl Op Ret)) :
    (sys P').run (mapSt h m) ls = ((sys P).run m ls).map (mapSt h) := by
  induction ls generalizing m with
  | nil => rfl
  | cons l rest ih =>
    simp only [System.run]
    have h1 := step_map hA m l
    simp only [sys] at h1 ⊢
    rw [h1]
    cases hs : step P m l with
    | none => rfl
    | some m' => exact ih m'


end Map

/-! ### whole logs -/

/-- a log line `e <tid> <what> <args…> => <obs>` as `Driver.EvTrace.checker` hands it to `event` -/
structure Entry where
  t : Nat
  what : String
  args : List String
  obs : String

/-- the invocation / response a log line notes, if it is one (`pOp`, `pRet`: the target's parsers) -/
def Entry.ev {Op Ret : Type} (pOp : List String → Option Op) (pRet : List String → Option Ret) (e : Entry) :
    Option (Ev Op Ret) :=
  if e.what = "inv" then (pOp e.args).map (.inv e.t)
  else if e.what = "res" then (pRet e.args).map (.res e.t)
  else none

/-- the driver's treatment of one entry, given the target's three functions -/
def replay1 {σ : Type} (invL resL : σ → Nat → List String → Except String σ)
    (sync : σ → Nat → String → String → String → Except String σ) (s : σ) (e : Entry) : Except String σ :=
  if e.what = "inv" then invL s e.t e.args else if e.what = "res" then resL s e.t e.args
  else sync s e.t (splitSite e.what).1 (splitSite e.what).2 e.obs

def replay {σ : Type} (r1 : σ → Entry → Except String σ) (s : σ) : List Entry → Except String σ
  | [] => .ok s
  | e :: es => r1 s e >>= fun s' => replay r1 s' es

section
variable {S Op Ret : Type} [DecidableEq Ret]

/-- `PRun F m evs m'`: a piecewise run — a chain of runs of `sys P`, each for some `P` of the family `F` — from `m` to
    `m'` with observable events `evs` -/
inductive PRun (F : Params S Op Ret → Prop) : St S Op Ret → List (Ev Op Ret) → St S Op Ret → Prop where
  | nil (m : St S Op Ret) : PRun F m [] m
  | seg {P : Params S Op Ret} {m m1 m' : St S Op Ret} {ls : List (Lbl Op Ret)} {evs : List (Ev Op Ret)} :
      F P → (sys P).run m ls = some m1 → PRun F m1 evs m' → PRun F m ((sys P).history ls ++ evs) m'

/-- a run with history `e.toList` for every accepted entry gives a piecewise run for every accepted log (`I`: what stays fixed
    in the replayer's state, e.g. the comparator) -/
theorem replay_prun {σ : Type} (F : Params S Op Ret → Prop) (mOf : σ → St S Op Ret) (ev : Entry → Option (Ev Op Ret))
    (r1 : σ → Entry → Except String σ) (I : σ → Prop)
    (h1 : ∀ s e s', I s → r1 s e = .ok s' →
      I s' ∧ ∃ P, F P ∧ ∃ ls, (sys P).run (mOf s) ls = some (mOf s') ∧ (sys P).history ls = (ev e).toList) :
    ∀ (es : List Entry) (s s' : σ), I s → replay r1 s es = .ok s' → PRun F (mOf s) (es.filterMap ev) (mOf s')
  | [], s, s', _, h => by cases h; exact PRun.nil _
  | e :: es, s, s', hI, h => by
    obtain ⟨s1, he, h2⟩ := bind_ok h
    obtain ⟨hI1, P, hF, ls, hr, ho⟩ := h1 s e s1 hI he
    have ih := replay_prun F mOf ev r1 I h1 es s1 s' hI1 h2
    have := PRun.seg hF hr ih
    rw [ho] at this
    rw [List.filterMap_cons]
    cases hev : ev e <;> simpa [hev] using this

/-- a piecewise run over a one-element family is a run -/
theorem PRun.single {P : Params S Op Ret} {m m' : St S Op Ret} {evs : List (Ev Op Ret)}
    (h : PRun (fun Q => Q = P) m evs m') : ∃ ls, (sys P).run m ls = some m' ∧ (sys P).history ls = evs := by
  induction h with
  | nil m => exact ⟨[], rfl, rfl⟩
  | @seg Q m m1 m' ls evs hF hr _ ih =>
    subst hF
    obtain ⟨l2, r2, o2⟩ := ih
    refine ⟨ls ++ l2, ?_, ?_⟩
    · rw [System.run_append, hr]; exact r2
    · simp only [ObjSystem.history, List.filterMap_append] at *
      rw [o2]

/-- a piecewise run over a family all of whose members are abstracted by `h` to the same `P'` is, seen through `h`, a run of
    `sys P'` -/
theorem PRun.map {S' : Type} {F : Params S Op Ret → Prop} {h : S → S'} {P' : Params S' Op Ret}
    (hA : ∀ P, F P → Abstracts h P P') {m m' : St S Op Ret} {evs : List (Ev Op Ret)} (hp : PRun F m evs m') :
    ∃ ls, (sys P').run (mapSt h m) ls = some (mapSt h m') ∧ (sys P').history ls = evs := by
  induction hp with
  | nil m => exact ⟨[], rfl, rfl⟩
  | @seg Q m m1 m' ls evs hF hr _ ih =>
    obtain ⟨l2, r2, o2⟩ := ih
    refine ⟨ls ++ l2, ?_, ?_⟩
    · rw [System.run_append, run_map (hA _ hF), hr]; exact r2
    · simp only [ObjSystem.history, List.filterMap_append] at *
      rw [o2]; rfl

/-- one accepted entry, for a target whose three functions are sound (`mOf`: the model component of its state) -/
theorem entry_sound {σ : Type} (F : Params S Op Ret → Prop) (mOf : σ → St S Op Ret)
    {pOp : List String → Option Op} {pRet : List String → Option Ret}
    {invL resL : σ → Nat → List String → Except String σ}
    {sync : σ → Nat → String → String → String → Except String σ}
    (I : σ → Prop)
    (hi : ∀ s t args s', I s → invL s t args = .ok s' →
      I s' ∧ ∃ o, pOp args = some o ∧ ∃ P, F P ∧ step P (mOf s) (.call t o) = some (mOf s'))
    (hr : ∀ s t args s', I s → resL s t args = .ok s' →
      I s' ∧ ∃ r, pRet args = some r ∧ ∃ P, F P ∧ ∃ m1, Sil P (mOf s) m1 ∧ step P m1 (.ret t r) = some (mOf s'))
    (hs : ∀ s t fn act obs s', I s → sync s t fn act obs = .ok s' → I s' ∧ ∃ P, F P ∧ Sil P (mOf s) (mOf s'))
    (s : σ) (e : Entry) (s' : σ) (hI : I s) (h : replay1 invL resL sync s e = .ok s') :
    I s' ∧ ∃ P, F P ∧ ∃ ls, (sys P).run (mOf s) ls = some (mOf s') ∧
      (sys P).history ls = (Entry.ev pOp pRet e).toList := by
  unfold replay1 at h
  unfold Entry.ev
  split at h
  · rename_i h1
    rw [if_pos h1]
    obtain ⟨hI', o, hp, P, hF, hst⟩ := hi _ _ _ _ hI h
    refine ⟨hI', P, hF, [.call e.t o], run_one P _ _ _ hst, ?_⟩
    rw [hp]; rfl
  · rename_i h1
    rw [if_neg h1]
    split at h
    · rename_i h2
      rw [if_pos h2]
      obtain ⟨hI', r, hp, P, hF, m1, ⟨ls, hrun, ho⟩, hst⟩ := hr _ _ _ _ hI h
      refine ⟨hI', P, hF, ls ++ [.ret e.t r], ?_, ?_⟩
      · rw [System.run_append, hrun]; exact run_one P m1 _ _ hst
      · simp only [ObjSystem.history, List.filterMap_append] at *
        rw [ho, hp]; rfl
    · rename_i h2
      rw [if_neg h2]
      obtain ⟨hI', P, hF, ls, hrun, ho⟩ := hs _ _ _ _ _ _ hI h
      exact ⟨hI', P, hF, ls, hrun, ho⟩

end

end Driver.Ev.LW

/-! ### CopyOnWriteArrayList (target `cow`): one fixed `P` -/
namespace Driver.Ev.Cow
open Driver Driver.Ev.LW Ekit Ekit.Conc Ekit.Linz Ekit.Linz.LockWrapped Ekit.Lists

abbrev Entry := LW.Entry
def Entry.ev : Entry → Option (Ev SOp SRet) := LW.Entry.ev sOp sRet
def replay1 : State → Entry → Except String State := LW.replay1 invL resL sync
def replay : State → List Entry → Except String State := LW.replay replay1

/-- `replay1` IS `Driver.EvTrace.event` on a `cow` state -/
theorem event_cow (s : State) (e : Entry) :
    Driver.EvTrace.event (.cow s) e.t e.what e.args e.obs = Driver.EvTrace.liftE .cow (replay1 s e) := by
  unfold Driver.EvTrace.event replay1 LW.replay1
  rcases splitSite e.what with ⟨fn, act⟩
  dsimp only
  by_cases h1 : e.what = "inv"
  · rw [if_pos h1, if_pos h1]
  · rw [if_neg h1, if_neg h1]
    by_cases h2 : e.what = "res"
    · rw [if_pos h2, if_pos h2]
    · rw [if_neg h2, if_neg h2]

theorem replay1_sound (s : State) (e : Entry) (s' : State) (h : replay1 s e = .ok s') :
    ∃ P, P = params ∧ ∃ ls, (sys P).run s.m ls = some s'.m ∧ (sys P).history ls = (Entry.ev e).toList := by
  refine (LW.entry_sound (fun Q => Q = params) (fun s : State => s.m) (fun _ => True) ?_ ?_ ?_ s e s' trivial h).2
  · intro s t args s' _ h
    unfold invL at h
    split at h
    · rename_i o hp; exact ⟨trivial, o, hp, params, rfl, lw_inv_sound h⟩
    · cases h
  · intro s t args s' _ h
    unfold resL at h
    split at h
    · rename_i r hp; exact ⟨trivial, r, hp, params, rfl, lw_res_sound h⟩
    · cases h
  · intro s t fn act obs s' _ h
    exact ⟨trivial, params, rfl, lw_sync_sound h⟩

/-- **an accepted `cow` log is a run of the verified model** `sys (cowParams CowList.new)` from its initial state, with
    exactly the observed invocations and responses as its history -/
theorem cow_replay_sound (args : List String) (s0 : State) (hinit : init args = .ok s0)
    (es : List Entry) (s' : State) (h : replay s0 es = .ok s') :
    ∃ ls, (sys params).run (sys params).init ls = some s'.m ∧ (sys params).history ls = es.filterMap Entry.ev := by
  have hp := LW.replay_prun (fun Q => Q = params) (fun s : State => s.m) Entry.ev replay1 (fun _ => True)
    (fun s e s' _ h => ⟨trivial, replay1_sound s e s' h⟩) es s0 s' trivial h
  have h0 : s0.m = (sys params).init := by cases hinit; rfl
  rw [h0] at hp
  exact hp.single

theorem cow_replay_reachable (args : List String) (s0 : State) (hinit : init args = .ok s0)
    (es : List Entry) (s' : State) (h : replay s0 es = .ok s') : (sys params).Reachable s'.m := by
  obtain ⟨ls, hr, _⟩ := cow_replay_sound args s0 hinit es s' h
  exact System.reachable_of_run _ ls System.Reachable.init hr

end Driver.Ev.Cow

/-! ### ConcurrentList (target `clist`): the growth oracle differs from event to event -/
namespace Driver.Ev.CList
open Driver Driver.Ev.LW Ekit Ekit.Conc Ekit.Linz Ekit.Linz.LockWrapped Ekit.Lists

abbrev Entry := LW.Entry
def Entry.ev : Entry → Option (Ev SOp SRet) := LW.Entry.ev sOp sRet
def replay1 : State → Entry → Except String State := LW.replay1 invL resL sync
def replay : State → List Entry → Except String State := LW.replay replay1

/-- `replay1` IS `Driver.EvTrace.event` on a `clist` state -/
theorem event_clist (s : State) (e : Entry) :
    Driver.EvTrace.event (.clist s) e.t e.what e.args e.obs = Driver.EvTrace.liftE .clist (replay1 s e) := by
  unfold Driver.EvTrace.event replay1 LW.replay1
  rcases splitSite e.what with ⟨fn, act⟩
  dsimp only
  by_cases h1 : e.what = "inv"
  · rw [if_pos h1, if_pos h1]
  · rw [if_neg h1, if_neg h1]
    by_cases h2 : e.what = "res"
    · rw [if_pos h2, if_pos h2]
    · rw [if_neg h2, if_neg h2]

/-- the systems the replayer steps in: ConcurrentList with some growth policy (the wrapped list `x0` only fixes the initial
    state, which `step` does not look at) -/
def Fam (P : Params AnyList SOp SRet) : Prop := ∃ g, P = listParams (.linked []) g

theorem replay1_sound (s : State) (e : Entry) (s' : State) (h : replay1 s e = .ok s') :
    ∃ P, Fam P ∧ ∃ ls, (sys P).run s.m ls = some s'.m ∧ (sys P).history ls = (Entry.ev e).toList := by
  refine (LW.entry_sound Fam (fun s : State => s.m) (fun _ => True) ?_ ?_ ?_ s e s' trivial h).2
  · intro s t args s' _ h
    unfold invL at h
    split at h
    · rename_i o hp; exact ⟨trivial, o, hp, params "", ⟨_, rfl⟩, lw_inv_sound h⟩
    · cases h
  · intro s t args s' _ h
    unfold resL at h
    split at h
    · rename_i r hp; exact ⟨trivial, r, hp, params "", ⟨_, rfl⟩, lw_res_sound h⟩
    · cases h
  · intro s t fn act obs s' _ h
    exact ⟨trivial, params obs, ⟨_, rfl⟩, lw_sync_sound h⟩

/-- **an accepted `clist` log is a piecewise run of the ConcurrentList models** (one growth policy per logged event) with
    exactly the observed invocations and responses as its history; glued to ONE run in `LockWrappedSoundC06.lean` -/
theorem clist_replay_prun (s0 : State) (es : List Entry) (s' : State) (h : replay s0 es = .ok s') :
    PRun Fam s0.m (es.filterMap Entry.ev) s'.m :=
  LW.replay_prun Fam (fun s : State => s.m) Entry.ev replay1 (fun _ => True)
    (fun s e s' _ h => ⟨trivial, replay1_sound s e s' h⟩) es s0 s' trivial h

end Driver.Ev.CList

/-! ### ConcurrentPriorityQueue (target `cpq`) -/
namespace Driver.Ev.CPQ
open Driver Driver.Ev.LW Ekit Ekit.Conc Ekit.Linz Ekit.Linz.LockWrapped Ekit.Lists Ekit.Cmp

abbrev Entry := LW.Entry
def Entry.ev : Entry → Option (Ev Heap.Op Heap.Out) := LW.Entry.ev hOp hRet
def replay1 : State → Entry → Except String State := LW.replay1 invL resL sync
def replay : State → List Entry → Except String State := LW.replay replay1

/-- `replay1` IS `Driver.EvTrace.event` on a `cpq` state -/
theorem event_cpq (s : State) (e : Entry) :
    Driver.EvTrace.event (.cpq s) e.t e.what e.args e.obs = Driver.EvTrace.liftE .cpq (replay1 s e) := by
  unfold Driver.EvTrace.event replay1 LW.replay1
  rcases splitSite e.what with ⟨fn, act⟩
  dsimp only
  by_cases h1 : e.what = "inv"
  · rw [if_pos h1, if_pos h1]
  · rw [if_neg h1, if_neg h1]
    by_cases h2 : e.what = "res"
    · rw [if_pos h2, if_pos h2]
    · rw [if_neg h2, if_neg h2]

/-- the systems the replayer steps in: the RWMutex wrapper over the C05 heap with comparator `cmp`, some growth oracle -/
def Fam (cmp : Cmp) (capacity : Int) (P : Params HS Heap.Op Heap.Out) : Prop := ∃ g, P = rawParams cmp capacity g

/-- comparator and capacity of the scenario never change -/
def Fixed (cmp : Cmp) (capacity : Int) (s : State) : Prop := s.cmp = cmp ∧ s.capacity = capacity

theorem replay1_sound (cmp : Cmp) (capacity : Int) (s : State) (e : Entry) (s' : State)
    (hI : Fixed cmp capacity s) (h : replay1 s e = .ok s') :
    Fixed cmp capacity s' ∧ ∃ P, Fam cmp capacity P ∧
      ∃ ls, (sys P).run s.lw.m ls = some s'.lw.m ∧ (sys P).history ls = (Entry.ev e).toList := by
  refine LW.entry_sound (Fam cmp capacity) (fun s : State => s.lw.m) (Fixed cmp capacity) ?_ ?_ ?_ s e s' hI h
  · intro s t args s' hI h
    unfold invL at h
    split at h
    · rename_i o hp
      obtain ⟨lw', h1, h⟩ := bind_ok h
      cases h
      obtain ⟨rfl, rfl⟩ := hI
      exact ⟨⟨rfl, rfl⟩, o, hp, params s "", ⟨_, rfl⟩, lw_inv_sound h1⟩
    · cases h
  · intro s t args s' hI h
    unfold resL at h
    split at h
    · rename_i r hp
      obtain ⟨lw', h1, h⟩ := bind_ok h
      cases h
      obtain ⟨rfl, rfl⟩ := hI
      exact ⟨⟨rfl, rfl⟩, r, hp, params s "", ⟨_, rfl⟩, lw_res_sound h1⟩
    · cases h
  · intro s t fn act obs s' hI h
    unfold sync at h
    obtain ⟨lw', h1, h⟩ := bind_ok h
    cases h
    obtain ⟨rfl, rfl⟩ := hI
    exact ⟨⟨rfl, rfl⟩, params s obs, ⟨_, rfl⟩, lw_sync_sound h1⟩

/-- **an accepted `cpq` log is a piecewise run of the models `sys (rawParams cmp capacity g)`** (`cmp`, `capacity`: the
    scenario's; one growth oracle `g` per logged event) from the model's initial state, with exactly the observed invocations
    and responses as its history.

    PARTIAL on its own (one oracle per piece); completed in `Driver/Ev/CPQSoundC06.lean`: `cpq_replay_sound` constructs the
    single oracle `g n q op` from the per-event ones (the protected data carry the count `n` of writer bodies executed, every
    writer body increments it and, by `Inv.snap`, sees the current data, so no two writer bodies see the same `n`; read-only
    bodies do not depend on the oracle). -/
theorem cpq_replay_prun_partial (args : List String) (s0 : State) (hinit : init args = .ok s0)
    (es : List Entry) (s' : State) (h : replay s0 es = .ok s') :
    s0.lw.m = (sys (rawParams s0.cmp s0.capacity fun _ _ _ => 0)).init ∧
    PRun (Fam s0.cmp s0.capacity) s0.lw.m (es.filterMap Entry.ev) s'.lw.m := by
  refine ⟨?_, LW.replay_prun (Fam s0.cmp s0.capacity) (fun s : State => s.lw.m) Entry.ev replay1 (Fixed s0.cmp s0.capacity)
    (fun s e s' hI h => replay1_sound s0.cmp s0.capacity s e s' hI h) es s0 s' ⟨rfl, rfl⟩ h⟩
  unfold init at hinit
  split at hinit
  · cases hinit; rfl
  · cases hinit

end Driver.Ev.CPQ
