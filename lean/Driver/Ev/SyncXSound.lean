/-
Soundness of the event replayers of syncx.LimitPool (target `limit`) and syncx.SegmentKeysLock (target `seg`) with
respect to the transition systems the C14 theorems are about (`Ekit.LimitPool.sys cfg`, `Ekit.SegmentLock.sys size`).

`Driver.Ev.Limit.invL / sync / resL` and `Driver.Ev.Seg.invL / sync / resL` (Driver/Ev/SyncX.lean) are what the driver
runs on every logged event of a real execution.  These models are plain `System`s (no observable labels), and the
replayers keep bookkeeping beside the model state (`calls`: which method a thread is in, what it must return).  Proved
here about the MODEL component `m` of the replayer's state (the extra checks can only reject more):

* `Limit.limit_replay1_sound` / `Seg.seg_replay1_sound`: an accepted log line changes `m` by NO step or by exactly ONE
  step of the model's `step` function, whose label is an action / a method call of the thread that logged the line
  (relation `Steps`); the configuration (`cfg` / `size`) never changes;
* `Limit.limit_replay_sound` / `Seg.seg_replay_sound`: if a whole log (a list of `Entry`s — the log lines as
  `Driver.EvTrace.checker` hands them to `event` — folded with `replay1`, which is `Driver.EvTrace.event` on these
  targets: Driver/Ev/SyncXSoundDrv.lean) is accepted from the state `init` builds from the `new evt …` line, then
  `(sys cfg).run (sys cfg).init ls = some s'.m` for some list of labels `ls`, each an action of a logging thread
  (for `limit` preceded by the `g+1` `spawn` labels `init` performs); `cfg` is the logged `max=` with the thread bound
  2^31, `size` the logged `size=` (1 ≤ size < 2^32, so `size ≠ 0`);
* `…_replay_reachable`: hence the final `m` is `Reachable`, and the C14 invariants hold of it
  (Driver/Ev/SyncXSoundC14.lean).

The `seg` replayer's special rule — a `Try… = false` the model does not enable is accepted while another thread's
`Lock`/`RLock` on the same segment is in flight — leaves `m` unchanged: ZERO model steps (`perform_sound`, second
alternative).  What the rule has checked is `tryFalse_spec`: the in-flight acquisition is a step of the model from `m`,
and after it the refused `Try…` is one too; the acquisition itself is replayed (as a model step) when its own late log
line arrives.  So the run of the model proved here omits such a refusal — a step that would not change the state.

Refactoring of the replayer for these proofs (behaviour-preserving): `Seg.sync`'s inline `do` block was split into the
helpers `obsIdx`, `tryAnswer`, `perform`.
-/
import Driver.Ev.SyncX

namespace Driver.Ev

namespace SyncXSound

/-- a `do`-block `x ← a; f x` that succeeds: both parts succeeded -/
theorem bind_ok' {α β : Type} {a : Except String α} {f : α → Except String β} {b : β}
    (h : (a >>= f) = .ok b) : ∃ x, a = .ok x ∧ f x = .ok b := by
  cases a with
  | error e => cases h
  | ok x => exact ⟨x, rfl, h⟩

theorem run_cons {σ ι : Type} (S : Ekit.Conc.System σ ι) (s : σ) (l : ι) (ls : List ι) :
    S.run s (l :: ls) = (S.step s l).bind (fun s' => S.run s' ls) := by
  simp only [Ekit.Conc.System.run]; cases S.step s l <;> rfl

/-- a log line `e <t> <what> <args…> => <obs>` exactly as `Driver.EvTrace.checker` hands it to `Driver.EvTrace.event` -/
structure Entry where
  t : Nat
  what : String
  args : List String
  obs : String

end SyncXSound
open SyncXSound

namespace Limit
open Ekit Ekit.Conc Ekit.LimitPool

/-- `Steps cfg t m m'`: the model goes from `m` to `m'` by no step or by one step, an action of thread `t` -/
def Steps (cfg : Cfg) (t : Nat) (m : LimitPool.State) (m' : LimitPool.State) : Prop :=
  m' = m ∨ ∃ a, step cfg m (.act t a) = some m'

theorem act_sound {s : State} {t : Nat} {a : Act} {w : String} {m' : LimitPool.State}
    (h : act s t a w = .ok m') : step s.cfg s.m (.act t a) = some m' := by
  unfold act at h
  split at h
  · rename_i m1 hs; cases h; exact hs
  · cases h

theorem invL_sound {s s' : State} {t : Nat} {args : List String} (h : invL s t args = .ok s') :
    s'.cfg = s.cfg ∧ Steps s.cfg t s.m s'.m := by
  unfold invL at h
  split at h
  · split at h
    · cases h; exact ⟨rfl, .inl rfl⟩
    · obtain ⟨m, ha, h⟩ := bind_ok' h
      cases h; exact ⟨rfl, .inr ⟨_, act_sound ha⟩⟩
    · cases h
  · cases h

theorem sync_sound {s s' : State} {t : Nat} {fn a res : String} (h : sync s t fn a res = .ok s') :
    s'.cfg = s.cfg ∧ Steps s.cfg t s.m s'.m := by
  unfold sync at h
  split at h
  all_goals first
    | (cases h; exact ⟨rfl, .inl rfl⟩)
    | cases h
    | (obtain ⟨m, ha, h⟩ := bind_ok' h
       obtain ⟨u, _, h⟩ := bind_ok' h
       cases h; exact ⟨rfl, .inr ⟨_, act_sound ha⟩⟩)

theorem resL_sound {s s' : State} {t : Nat} {args : List String} (h : resL s t args = .ok s') :
    s'.cfg = s.cfg ∧ Steps s.cfg t s.m s'.m := by
  unfold resL at h
  split at h
  all_goals first
    | (cases h; exact ⟨rfl, .inl rfl⟩)
    | cases h
    | (obtain ⟨m, ha, h⟩ := bind_ok' h
       cases h; exact ⟨rfl, .inr ⟨_, act_sound ha⟩⟩)

theorem spawnN_sound (cfg : Cfg) : ∀ (n : Nat) (m m' : LimitPool.State), spawnN cfg m n = .ok m' →
    (sys cfg).run m (List.replicate n .spawn) = some m'
  | 0, m, m', h => by cases h; rfl
  | n + 1, m, m', h => by
    unfold spawnN at h
    split at h
    · rename_i m1 hs
      have := spawnN_sound cfg n m1 m' h
      rw [List.replicate_succ, run_cons]
      show (step cfg m .spawn).bind _ = _
      rw [hs]; exact this
    · cases h

/-- what an accepted `new evt limit max=… g=…` line builds -/
theorem init_sound {args : List String} {s0 : State} (h : init args = .ok s0) :
    argInt args "max" = some s0.cfg.maxTokens ∧ 0 ≤ s0.cfg.maxTokens ∧ s0.cfg.maxThreads = 2147483648 ∧
    ∃ g : Nat, (sys s0.cfg).run (sys s0.cfg).init (List.replicate g .spawn) = some s0.m := by
  unfold init at h
  split at h
  · rename_i max g hmax hg
    split at h
    · cases h
    · rename_i hneg
      obtain ⟨m, hs, h⟩ := bind_ok' h
      cases h
      exact ⟨hmax, by show 0 ≤ max; omega, rfl, _, spawnN_sound _ _ _ _ hs⟩
  · cases h

/-! ### whole logs -/

/-- the driver's treatment of one entry: `Driver.EvTrace.event` on a `limit` state
    (`event_limit` in Driver/Ev/SyncXSoundDrv.lean) -/
def replay1 (s : State) (e : Entry) : Except String State :=
  if e.what = "inv" then invL s e.t e.args else if e.what = "res" then resL s e.t e.args
  else sync s e.t (splitSite e.what).1 (splitSite e.what).2 e.obs

def replay (s : State) : List Entry → Except String State
  | [] => .ok s
  | e :: es => replay1 s e >>= fun s' => replay s' es

/-- **an accepted entry is at most one model step, an action of the thread that logged it** -/
theorem limit_replay1_sound {s s' : State} {e : Entry} (h : replay1 s e = .ok s') :
    s'.cfg = s.cfg ∧ Steps s.cfg e.t s.m s'.m := by
  unfold replay1 at h
  split at h
  · exact invL_sound h
  · split at h
    · exact resL_sound h
    · exact sync_sound h

/-- `Run cfg es m ls m'`: the labels `ls` lead the model from `m` to `m'`, and each of them is an action of a thread
    that has an entry in `es` -/
def Run (cfg : Cfg) (es : List Entry) (m : LimitPool.State) (ls : List Label) (m' : LimitPool.State) : Prop :=
  (sys cfg).run m ls = some m' ∧ ls.length ≤ es.length ∧ ∀ l ∈ ls, ∃ e ∈ es, ∃ a, l = .act e.t a

theorem replay_sound : ∀ (es : List Entry) (s s' : State), replay s es = .ok s' →
    s'.cfg = s.cfg ∧ ∃ ls, Run s.cfg es s.m ls s'.m
  | [], s, s', h => by cases h; exact ⟨rfl, [], rfl, Nat.le_refl _, by simp⟩
  | e :: es, s, s', h => by
    obtain ⟨s1, h1, h2⟩ := bind_ok' h
    obtain ⟨c1, st⟩ := limit_replay1_sound h1
    obtain ⟨c2, ls, r2, len, who⟩ := replay_sound es s1 s' h2
    rw [c1] at c2 r2
    refine ⟨c2, ?_⟩
    cases st with
    | inl heq =>
      rw [heq] at r2
      exact ⟨ls, r2, by simp only [List.length_cons]; omega, fun l hl => by
        obtain ⟨e', he', x⟩ := who l hl
        exact ⟨e', List.mem_cons_of_mem _ he', x⟩⟩
    | inr hst =>
      obtain ⟨a, hst⟩ := hst
      refine ⟨.act e.t a :: ls, ?_, by simp only [List.length_cons]; omega, ?_⟩
      · rw [run_cons]
        show (step s.cfg s.m (.act e.t a)).bind _ = _
        rw [hst]; exact r2
      · intro l hl
        cases hl with
        | head => exact ⟨e, List.mem_cons_self, a, rfl⟩
        | tail _ hl =>
          obtain ⟨e', he', x⟩ := who l hl
          exact ⟨e', List.mem_cons_of_mem _ he', x⟩

/-- **an accepted log is a run of the verified model**: from the state `NewLimitPool(max)` leaves (`g` goroutines
    appearing first), by actions of the logging threads; the configuration is the logged `max=` and 2^31 threads -/
theorem limit_replay_sound {args : List String} {s0 s' : State} {es : List Entry}
    (hi : init args = .ok s0) (h : replay s0 es = .ok s') :
    s'.cfg = s0.cfg ∧ argInt args "max" = some s0.cfg.maxTokens ∧ 0 ≤ s0.cfg.maxTokens ∧
    s0.cfg.maxThreads = 2147483648 ∧
    ∃ (g : Nat) (ls : List Label), (sys s0.cfg).run (sys s0.cfg).init (List.replicate g .spawn ++ ls) = some s'.m ∧
      ∀ l ∈ ls, ∃ e ∈ es, ∃ a, l = .act e.t a := by
  obtain ⟨hmax, hnn, hth, g, hg⟩ := init_sound hi
  obtain ⟨hc, ls, hr, _, who⟩ := replay_sound es s0 s' h
  refine ⟨hc, hmax, hnn, hth, g, ls, ?_, who⟩
  rw [System.run_append, hg]; exact hr

/-- hence the final model state is reachable -/
theorem limit_replay_reachable {args : List String} {s0 s' : State} {es : List Entry}
    (hi : init args = .ok s0) (h : replay s0 es = .ok s') : (sys s0.cfg).Reachable s'.m := by
  obtain ⟨_, _, _, _, g, ls, hr, _⟩ := limit_replay_sound hi h
  exact System.reachable_of_run _ _ System.Reachable.init hr

end Limit

namespace Seg
open Ekit Ekit.Conc Ekit.SegmentLock

/-- `Steps size t m m'`: the model goes from `m` to `m'` by no step or by one step, a method call of thread `t` -/
def Steps (size : BitVec 32) (t : Nat) (m m' : SegmentLock.State) : Prop :=
  m' = m ∨ ∃ op, step size m ⟨t, op⟩ = some m'

theorem invL_sound {s s' : State} {t : Nat} {args : List String} (h : invL s t args = .ok s') :
    s'.size = s.size ∧ s'.m = s.m := by
  unfold invL at h
  split at h
  · split at h
    · cases h; exact ⟨rfl, rfl⟩
    · cases h
    · cases h
  · cases h

theorem resL_sound {s s' : State} {t : Nat} {args : List String} (h : resL s t args = .ok s') :
    s'.size = s.size ∧ s'.m = s.m := by
  unfold resL at h
  split at h
  · dsimp only at h
    split at h
    all_goals (split at h <;> first | (cases h; exact ⟨rfl, rfl⟩) | cases h)
  · cases h

/-- what the special rule for a refused `Try…` has checked: a Lock/RLock of ANOTHER thread `u` on the same segment is
    in flight (invoked, its late log entry not yet seen), the model enables that acquisition, and after it the model
    itself answers `false` to thread `t` -/
theorem tryFalse_spec {s : State} {t : Nat} {c : Call} {i : Nat} (h : tryFalse s t c i = true) :
    ∃ u cu m1, (u, cu) ∈ s.calls ∧ u ≠ t ∧ cu.done = none ∧ (cu.kind = .lock ∨ cu.kind = .rlock) ∧
      idx s.size cu.key = some i ∧
      step s.size s.m ⟨u, cu.kind.op cu.key true⟩ = some m1 ∧
      (step s.size m1 ⟨t, c.kind.op c.key false⟩).isSome := by
  unfold tryFalse at h
  rw [List.any_eq_true] at h
  obtain ⟨⟨u, cu⟩, hm, h⟩ := h
  simp only [Bool.and_eq_true, bne_iff_ne, ne_eq, Option.isNone_iff_eq_none, Bool.or_eq_true, beq_iff_eq] at h
  obtain ⟨⟨⟨⟨hu, hd⟩, hk⟩, hi⟩, h⟩ := h
  split at h
  · rename_i m1 hs
    exact ⟨u, cu, m1, hm, hu, hd, hk.elim .inl (fun x => .inr x.1), hi, hs, h⟩
  · cases h

theorem perform_sound {s s' : State} {t : Nat} {c : Call} {i : Nat} {r : Option Bool} {verb res : String}
    (h : perform s t c i r verb res = .ok s') :
    s'.size = s.size ∧
    (step s.size s.m ⟨t, c.kind.op c.key (r.getD true)⟩ = some s'.m ∨
     (s'.m = s.m ∧ r = some false ∧ tryFalse s t c i = true)) := by
  unfold perform at h
  split at h
  · rename_i m1 hs; cases h; exact ⟨rfl, .inl hs⟩
  · split at h
    · rename_i hc; cases h; exact ⟨rfl, .inr ⟨rfl, hc⟩⟩
    · cases h

theorem sync_sound {s s' : State} {t : Nat} {fn a res : String} (h : sync s t fn a res = .ok s') :
    s'.size = s.size ∧ Steps s.size t s.m s'.m := by
  unfold sync at h
  split at h
  · rename_i c hc
    dsimp only at h
    split at h
    · cases h
    · split at h
      · cases h
      · split at h
        · cases h
        · split at h
          · cases h
          · split at h
            · cases h
            · obtain ⟨h1, h2⟩ := perform_sound h
              exact ⟨h1, h2.elim (fun x => .inr ⟨_, x⟩) (fun x => .inl x.1)⟩
  · cases h

/-- what an accepted `new evt seg size=…` line builds: the constructor's state for a size inside the property's quantifier -/
theorem init_sound {args : List String} {s0 : State} (h : init args = .ok s0) :
    s0.size ≠ 0#32 ∧ s0.m = (sys s0.size).init ∧
    ∃ n : Int, argInt args "size" = some n ∧ 1 ≤ n ∧ n < 4294967296 ∧ s0.size = BitVec.ofNat 32 n.toNat := by
  unfold init at h
  split at h
  · rename_i n hn
    split at h
    · cases h
    · rename_i hr
      cases h
      refine ⟨?_, rfl, n, hn, by omega, by omega, rfl⟩
      show BitVec.ofNat 32 n.toNat ≠ 0#32
      intro h0
      have := congrArg BitVec.toNat h0
      simp only [BitVec.toNat_ofNat] at this
      omega
  · cases h

/-! ### whole logs -/

/-- the driver's treatment of one entry: `Driver.EvTrace.event` on a `seg` state
    (`event_seg` in Driver/Ev/SyncXSoundDrv.lean) -/
def replay1 (s : State) (e : Entry) : Except String State :=
  if e.what = "inv" then invL s e.t e.args else if e.what = "res" then resL s e.t e.args
  else sync s e.t (splitSite e.what).1 (splitSite e.what).2 e.obs

def replay (s : State) : List Entry → Except String State
  | [] => .ok s
  | e :: es => replay1 s e >>= fun s' => replay s' es

/-- **an accepted entry is at most one model step, a method call of the thread that logged it** (none for the
    invocation / response notes and for a refused `Try…` explained by an in-flight acquisition, `tryFalse_spec`) -/
theorem seg_replay1_sound {s s' : State} {e : Entry} (h : replay1 s e = .ok s') :
    s'.size = s.size ∧ Steps s.size e.t s.m s'.m := by
  unfold replay1 at h
  split at h
  · obtain ⟨a, b⟩ := invL_sound h; exact ⟨a, .inl b⟩
  · split at h
    · obtain ⟨a, b⟩ := resL_sound h; exact ⟨a, .inl b⟩
    · exact sync_sound h

/-- `Run size es m ls m'`: the labels `ls` lead the model from `m` to `m'`, and each of them is a method call of a
    thread that has an entry in `es` -/
def Run (size : BitVec 32) (es : List Entry) (m : SegmentLock.State) (ls : List Label) (m' : SegmentLock.State) : Prop :=
  (sys size).run m ls = some m' ∧ ls.length ≤ es.length ∧ ∀ l ∈ ls, ∃ e ∈ es, l.tid = e.t

theorem replay_sound : ∀ (es : List Entry) (s s' : State), replay s es = .ok s' →
    s'.size = s.size ∧ ∃ ls, Run s.size es s.m ls s'.m
  | [], s, s', h => by cases h; exact ⟨rfl, [], rfl, Nat.le_refl _, by simp⟩
  | e :: es, s, s', h => by
    obtain ⟨s1, h1, h2⟩ := bind_ok' h
    obtain ⟨c1, st⟩ := seg_replay1_sound h1
    obtain ⟨c2, ls, r2, len, who⟩ := replay_sound es s1 s' h2
    rw [c1] at c2 r2
    refine ⟨c2, ?_⟩
    cases st with
    | inl heq =>
      rw [heq] at r2
      exact ⟨ls, r2, by simp only [List.length_cons]; omega, fun l hl => by
        obtain ⟨e', he', x⟩ := who l hl
        exact ⟨e', List.mem_cons_of_mem _ he', x⟩⟩
    | inr hst =>
      obtain ⟨op, hst⟩ := hst
      refine ⟨⟨e.t, op⟩ :: ls, ?_, by simp only [List.length_cons]; omega, ?_⟩
      · rw [run_cons]
        show (step s.size s.m ⟨e.t, op⟩).bind _ = _
        rw [hst]; exact r2
      · intro l hl
        cases hl with
        | head => exact ⟨e, List.mem_cons_self, rfl⟩
        | tail _ hl =>
          obtain ⟨e', he', x⟩ := who l hl
          exact ⟨e', List.mem_cons_of_mem _ he', x⟩

/-- **an accepted log is a run of the verified model** from the state `NewSegmentKeysLock(size)` leaves, by method
    calls of the logging threads; `size` is the logged `size=`, inside the property's quantifier -/
theorem seg_replay_sound {args : List String} {s0 s' : State} {es : List Entry}
    (hi : init args = .ok s0) (h : replay s0 es = .ok s') :
    s'.size = s0.size ∧ s0.size ≠ 0#32 ∧
    ∃ ls : List Label, (sys s0.size).run (sys s0.size).init ls = some s'.m ∧ ∀ l ∈ ls, ∃ e ∈ es, l.tid = e.t := by
  obtain ⟨hne, hm, _⟩ := init_sound hi
  obtain ⟨hc, ls, hr, _, who⟩ := replay_sound es s0 s' h
  exact ⟨hc, hne, ls, by rw [← hm]; exact hr, who⟩

/-- hence the final model state is reachable -/
theorem seg_replay_reachable {args : List String} {s0 s' : State} {es : List Entry}
    (hi : init args = .ok s0) (h : replay s0 es = .ok s') : (sys s0.size).Reachable s'.m := by
  obtain ⟨_, _, ls, hr, _⟩ := seg_replay_sound hi h
  exact System.reachable_of_run _ _ System.Reachable.init hr

end Seg

end Driver.Ev
