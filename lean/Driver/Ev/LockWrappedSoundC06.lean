/-
What acceptance of a real execution's event log by the `cow` / `clist` replayers proves about that execution (C06):
the corollaries of `Driver/Ev/LockWrappedSound.lean` through the property theorems of `Ekit/Props/C06.lean`.
(Audited with C06: `Audit/C06.lean`.)
-/
import Driver.Ev.LockWrappedSound
import Ekit.Props.C06

/-! ### CopyOnWriteArrayList -/
namespace Driver.Ev.Cow
open Driver.Ev.LW Ekit Ekit.Conc Ekit.Linz Ekit.Linz.LockWrapped Ekit.Lists Ekit.Props.C06

/-- **the call history of an accepted real execution of CopyOnWriteArrayList is linearizable** w.r.t. the abstract
    sequence (initially empty) -/
theorem c06_cow_evtrace_linearizable (args : List String) (s0 : State) (hinit : init args = .ok s0)
    (es : List Entry) (s' : State) (h : replay s0 es = .ok s') :
    Linearizable (seqSpec []) (es.filterMap Entry.ev) := by
  obtain ⟨ls, hr, ho⟩ := cow_replay_sound args s0 hinit es s' h
  rw [← ho]
  exact c06_cow_linearizable CowList.new ls s'.m hr

/-- **the model state the replay ends in satisfies the mutex invariants** (writer excludes everybody, reader count, a body
    between read and write has seen the current data, no torn read): it is a reachable state of the model -/
theorem c06_cow_evtrace_invariants (args : List String) (s0 : State) (hinit : init args = .ok s0)
    (es : List Entry) (s' : State) (h : replay s0 es = .ok s') :
    Inv params s'.m :=
  c06_lockWrapped_invariants params s'.m (cow_replay_reachable args s0 hinit es s' h)

/-- non-vacuity: lines of a real trace (a writer, then a snapshot reader), EVALUATED with the compiled replayer (`#guard`;
    the replayer's string parsers do not reduce in the kernel) -/
def demoLog : List Entry :=
  [⟨2, "inv", ["add", "0", "3000"], "-"⟩,
   ⟨2, "CopyOnWriteArrayList_Add:Lock(mutex)", [], "-"⟩,
   ⟨2, "CopyOnWriteArrayList_Add:Unlock(mutex)", [], "vals=3000,cap=1"⟩,
   ⟨2, "res", ["ok"], "-"⟩,
   ⟨1, "inv", ["range"], "-"⟩,
   ⟨1, "CopyOnWriteArrayList_snapshot:Lock(mutex)", [], "-"⟩,
   ⟨1, "CopyOnWriteArrayList_snapshot:Unlock(mutex)", [], "vals=3000,cap=1"⟩,
   ⟨1, "res", ["s:3000"], "-"⟩]

#guard (match (init []).bind (fun s0 => replay s0 demoLog) with
    | .ok s => s.m.data.s.vals == [3000] && (atEnd s).isNone
    | .error _ => false)
#guard demoLog.filterMap Entry.ev ==
  [.inv 2 (.add 0 3000), .res 2 (.ok .unit), .inv 1 .range, .res 1 (.ok (.slice [3000]))]

end Driver.Ev.Cow

/-! ### ConcurrentList -/
namespace Driver.Ev.CList
open Driver.Ev.LW Ekit Ekit.Conc Ekit.Linz Ekit.Linz.LockWrapped Ekit.Lists Ekit.Props.C06

/-- ConcurrentList seen through `AnyList.vals`: the protected data are the abstract sequence, the bodies are the sequence
    specification's own steps, the lock styles are ConcurrentList's -/
def specParams : Params (List Int) SOp SRet where
  init := []
  f := Lists.Spec.step
  style := listStyle

/-- every ConcurrentList model, whatever the wrapped list and the growth policy, is abstracted by `vals` to `specParams`
    (C04: every list model refines the sequence specification) -/
theorem abstracts (x0 : AnyList) (g : AnyList → SOp → Nat) : Abstracts AnyList.vals (listParams x0 g) specParams where
  style _ := rfl
  f x op := (c04_anyList_step_refines x (g x op) op).symm

theorem init_vals {args : List String} {s0 : State} (h : init args = .ok s0) :
    mapSt AnyList.vals s0.m = (sys specParams).init := by
  unfold init at h
  split at h
  · cases h; rfl
  · split at h
    · cases h
    · cases h; rfl
  · cases h

/-- **an accepted `clist` log is, seen through `vals`, a run of ONE verified model** (`sys specParams`) from its initial
    state with exactly the observed invocations and responses as its history -/
theorem clist_replay_sound (args : List String) (s0 : State) (hinit : init args = .ok s0)
    (es : List Entry) (s' : State) (h : replay s0 es = .ok s') :
    ∃ ls, (sys specParams).run (sys specParams).init ls = some (mapSt AnyList.vals s'.m) ∧
          (sys specParams).history ls = es.filterMap Entry.ev := by
  have := (clist_replay_prun s0 es s' h).map (h := AnyList.vals) (P' := specParams)
    (fun P hF => by obtain ⟨g, rfl⟩ := hF; exact abstracts _ g)
  rw [init_vals hinit] at this
  exact this

/-- **the call history of an accepted real execution of ConcurrentList is linearizable** w.r.t. the abstract sequence
    (initially empty) -/
theorem c06_clist_evtrace_linearizable (args : List String) (s0 : State) (hinit : init args = .ok s0)
    (es : List Entry) (s' : State) (h : replay s0 es = .ok s') :
    Linearizable (seqSpec []) (es.filterMap Entry.ev) := by
  obtain ⟨ls, hr, ho⟩ := clist_replay_sound args s0 hinit es s' h
  rw [← ho]
  refine c06_lockWrapped_linearizable specParams (seqSpec []) id rfl ?_ ?_ ls _ hr
  · intro x op
    exact seqStep_of_refines rfl
  · intro x op hro
    cases op <;> simp [specParams, listStyle, Style.readOnly] at hro <;>
      simp only [specParams, Lists.Spec.step] <;> (try split) <;> rfl

/-- the mutex invariants hold of the (abstracted) state the replay ends in: writer flag / reader count / no torn read -/
theorem c06_clist_evtrace_invariants (args : List String) (s0 : State) (hinit : init args = .ok s0)
    (es : List Entry) (s' : State) (h : replay s0 es = .ok s') :
    Inv specParams (mapSt AnyList.vals s'.m) := by
  obtain ⟨ls, hr, _⟩ := clist_replay_sound args s0 hinit es s' h
  exact c06_lockWrapped_invariants specParams _ (System.reachable_of_run _ ls System.Reachable.init hr)

end Driver.Ev.CList
