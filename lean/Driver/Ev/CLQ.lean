/-
Event replayer of the lock-free linked queue (target `clq`) on `Ekit.Linz.CLQ` (values `Int`).

Every step of the model between a call and its return is one `sync/atomic` action, and every one of them is
logged (no silent program counters): e1/d2 = `LoadPointer(&c.tail)`, e2/d3 = `LoadPointer(&n.next)`,
e3 = `CompareAndSwapPointer(&n.next, nil, new)`, e4 = `CompareAndSwapPointer(&c.tail, lt, new)`,
d1 = `LoadPointer(&c.head)`, d4 = `CompareAndSwapPointer(&c.head, lh, ln)`.  Atomics are non-blocking, so the
instrumenter runs them inside the log mutex: the log order is the real order, nothing appears late.

The model names a node by its index in the node history (0 = the initial dummy, i = the i-th node ever
linked); the log names pointers by first sight (`p7`, `nil`).  The replayer keeps the injective table
pointer ↦ node index: a new node is entered at the successful link CAS (e3) as index `|nodes|+1`, the
initial dummy at the first load that the model says returns node 0.  Then

* every load must have returned the pointer of the node the model's state says (or nil exactly when the model's
  `next` is `none`),
* every CAS must have been given the expected/new pointers of the model's program counter and must have
  succeeded or failed exactly as the model's `step` decides,
* the word operated on (`at=`) must be the same word whenever the model says head / tail / `next` of node i, and
  different words for different model locations (injective table word ↦ location, filled at first use).
-/
import Driver.Ev.Core
import Ekit.Model.CLQ

namespace Driver.Ev.CLQ
open Driver Ekit Ekit.Conc Ekit.Linz Ekit.Linz.CLQ

/-- a shared word of the model -/
inductive Loc where
  | head
  | tail
  | next (i : Nat)
  deriving DecidableEq, Repr

structure State where
  m : Ekit.Linz.CLQ.St Int
  ptr : List (Nat × Nat)        -- logged pointer id ↦ node index
  addr : List (Nat × Loc)       -- logged word id ↦ model location
  live : List Nat               -- threads inside a call

def pcStr : Pc Int → String
  | .idle => "idle"
  | .e1 v => s!"e1({v}): load c.tail"
  | .e2 v lt => s!"e2({v}): load node{lt}.next"
  | .e3 v lt => s!"e3({v}): CAS(node{lt}.next, nil, new)"
  | .e4 v lt nw => s!"e4({v}): CAS(c.tail, node{lt}, node{nw})"
  | .d1 => "d1: load c.head"
  | .d2 lh => s!"d2: load c.tail (head was node{lh})"
  | .d3 lh => s!"d3: load node{lh}.next"
  | .d4 lh ln => s!"d4: CAS(c.head, node{lh}, {match ln with | some j => s!"node{j}" | none => "nil"})"
  | .ret r => s!"ret {repr r}"
  | .crash => "crash"

def showState (s : State) : String :=
  s!"head=node{s.m.head} tail=node{s.m.tail} nodes={renderInts s.m.nodes}"

/-- "nil" → none, "p7" → some 7 -/
def parsePtr (w : String) : Option (Option Nat) :=
  if w = "nil" then some none
  else if w.startsWith "p" then ((w.drop 1).toString).toNat?.map some
  else none

def ptrField (res key : String) : Except String (Option Nat) :=
  match (snapField res key).bind parsePtr with
  | some p => .ok p
  | none => .error s!"unreadable pointer field {key}= in {res}"

def wordField (res : String) : Except String Nat :=
  match (snapField res "at").bind parsePtr with
  | some (some p) => .ok p
  | _ => .error s!"unreadable word identity at= in {res}"

/-- the injective table: `k` and `b` are paired with each other and with nothing else; `fresh` allows a new pair -/
def pair {β : Type} [DecidableEq β] (tbl : List (Nat × β)) (k : Nat) (b : β) (fresh : Bool) : Option (List (Nat × β)) :=
  match tbl.find? (fun e => e.1 = k), tbl.find? (fun e => e.2 = b) with
  | some e, _ => if e.2 = b then some tbl else none
  | none, some _ => none
  | none, none => if fresh then some ((k, b) :: tbl) else none

/-- the action touched word `w`, the model's location is `l` -/
def atLoc (s : State) (w : Nat) (l : Loc) : Except String State :=
  match pair s.addr w l true with
  | some a => .ok { s with addr := a }
  | none => .error s!"the action operates on word p{w}, which is not the word of the model's {repr l} (words seen: {repr s.addr})"

/-- pointer `p` (as logged) is the model's node `i` (`none` = nil) -/
def isNode (s : State) (what : String) (p : Option Nat) (i : Option Nat) : Except String State :=
  match p, i with
  | none, none => .ok s
  | some p, some i =>
    -- only the initial dummy may be met for the first time here; every other node was entered when it was linked
    match pair s.ptr p i (i = 0) with
    | some tb => .ok { s with ptr := tb }
    | none => .error s!"{what} is pointer p{p}, the model says node{i} ({showState s}; pointers: {repr s.ptr})"
  | none, some i => .error s!"{what} is nil, the model says node{i} ({showState s})"
  | some p, none => .error s!"{what} is pointer p{p}, the model says nil ({showState s})"

/-- the model's step of thread `t`; it must be enabled and must not crash (nil dereference) -/
def tau (s : State) (t : Nat) (what : String) : Except String State :=
  match step s.m (.tau t) with
  | some m' =>
    match m'.pc t with
    | .crash => .error s!"model: {what} makes the model crash (nil dereference)"
    | _ => .ok { s with m := m' }
  | none => .error s!"model: {what} by thread {t} is not enabled at {pcStr (s.m.pc t)}"

inductive Kind where
  | load | cas
  deriving DecidableEq

inductive Word where
  | head | tail | next
  deriving DecidableEq

/-- `atomic.LoadPointer(tail)`, `atomic.CompareAndSwapPointer(&x.next)` …: receiver fields are named by evinst without
    the receiver; the name of the local node variable does not matter -/
def parseAct (act : String) : Option (Kind × Word) :=
  match act.splitOn "(" with
  | [f, tg] =>
    let tg := (tg.dropEnd 1).toString
    let k : Option Kind := if f = "atomic.LoadPointer" then some .load
      else if f = "atomic.CompareAndSwapPointer" then some .cas else none
    let w : Option Word := if tg = "head" then some .head else if tg = "tail" then some .tail
      else if tg.endsWith ".next" then some .next else none
    match k, w with
    | some k, some w => some (k, w)
    | _, _ => none
  | _ => none

def boolField (res : String) : Except String Bool :=
  match snapField res "ok" with
  | some "true" => .ok true
  | some "false" => .ok false
  | _ => .error s!"unreadable CAS result in {res}"

def casMust (ok model : Bool) (what : String) (s : State) : Except String Unit :=
  if ok = model then .ok ()
  else .error s!"{what} {if ok then "succeeded" else "failed"}, in the model it {if model then "succeeds" else "fails"} ({showState s})"

/-- one logged atomic action `fn:act` with result `res` of thread `t` -/
def sync (s : State) (t : Nat) (fn act res : String) : Except String State := do
  let bad : Except String State :=
    .error s!"thread {t} logged {fn}:{act} ({res}) where the model is at {pcStr (s.m.pc t)}"
  match s.m.pc t, parseAct act with
  | .e1 _, some (.load, .tail) | .d2 _, some (.load, .tail) => do
    let s ← atLoc s (← wordField res) .tail
    let s ← isNode s "the tail loaded" (← ptrField res "v") (some s.m.tail)
    tau s t act
  | .e2 _ lt, some (.load, .next) => do
    let s ← atLoc s (← wordField res) (.next lt)
    let s ← isNode s s!"node{lt}.next loaded" (← ptrField res "v") (s.m.next lt)
    tau s t act
  | .e3 _ lt, some (.cas, .next) => do
    let s ← atLoc s (← wordField res) (.next lt)
    let ok ← boolField res
    if (← ptrField res "old") ≠ none then throw s!"thread {t}: the link CAS expects a non-nil pointer ({res}); the model's expects nil"
    let some nw ← ptrField res "new" | throw s!"thread {t}: the link CAS installs nil ({res})"
    if (s.ptr.find? (fun e => e.1 = nw)).isSome then
      throw s!"thread {t}: the link CAS installs p{nw}, which is already a linked node (pointers: {repr s.ptr})"
    casMust ok (s.m.next lt).isNone s!"thread {t}: CAS(node{lt}.next, nil, new)" s
    let s' ← tau s t act
    if ok then
      match pair s'.ptr nw s'.m.nodes.length true with
      | some tb => pure { s' with ptr := tb }
      | none => throw "replayer: the new node's index is taken"
    else pure s'
  | .e4 _ lt nw, some (.cas, .tail) => do
    let s ← atLoc s (← wordField res) .tail
    let ok ← boolField res
    let s ← isNode s "the expected pointer of the tail swing" (← ptrField res "old") (some lt)
    let s ← isNode s "the new pointer of the tail swing" (← ptrField res "new") (some nw)
    casMust ok (s.m.tail = lt) s!"thread {t}: CAS(c.tail, node{lt}, node{nw})" s
    tau s t act
  | .d1, some (.load, .head) => do
    let s ← atLoc s (← wordField res) .head
    let s ← isNode s "the head loaded" (← ptrField res "v") (some s.m.head)
    tau s t act
  | .d3 lh, some (.load, .next) => do
    let s ← atLoc s (← wordField res) (.next lh)
    let s ← isNode s s!"node{lh}.next loaded" (← ptrField res "v") (s.m.next lh)
    tau s t act
  | .d4 lh ln, some (.cas, .head) => do
    let s ← atLoc s (← wordField res) .head
    let ok ← boolField res
    let s ← isNode s "the expected pointer of the head CAS" (← ptrField res "old") (some lh)
    let s ← isNode s "the new pointer of the head CAS" (← ptrField res "new") ln
    casMust ok (s.m.head = lh) s!"thread {t}: CAS(c.head, node{lh}, …)" s
    tau s t act
  | _, _ => bad

def parseOp : List String → Option (QOp Int)
  | ["enq", v] => v.toInt?.map .enq
  | ["deq"] => some .deq
  | _ => none

def parseRet : List String → Option (QRet Int)
  | ["ok"] => some .ok
  | ["val", v] => v.toInt?.map .val
  | ["empty"] => some .empty
  | _ => none

def init (_args : List String) : Except String State :=
  .ok ⟨(sys Int).init, [], [], []⟩

def invL (s : State) (t : Nat) (args : List String) : Except String State :=
  match parseOp args with
  | none => .error "unreadable call"
  | some op =>
    match step s.m (.call t op) with
    | some m' => .ok { s with m := m', live := t :: s.live }
    | none => .error s!"model: thread {t} starts a call while the model has it at {pcStr (s.m.pc t)}"

def resL (s : State) (t : Nat) (args : List String) : Except String State :=
  match parseRet args with
  | none => .error s!"thread {t} returned {" ".intercalate args}: not a result of the model (ok / val v / empty)"
  | some r =>
    match step s.m (.ret t r) with
    | some m' => .ok { s with m := m', live := s.live.erase t }
    | none => .error s!"thread {t} returned {repr r} where the model is at {pcStr (s.m.pc t)}"

def atEnd (s : State) : Option String :=
  if s.live.isEmpty then none else some "calls still in flight in the model at the end of the scenario"

end Driver.Ev.CLQ
