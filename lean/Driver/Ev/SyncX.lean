/-
Event replayers of syncx.LimitPool (target `limit`, model `Ekit.LimitPool`) and syncx.SegmentKeysLock
(target `seg`, model `Ekit.SegmentLock`): property C14.

`limit` — what is logged (harness/evinst on syncx/limit_pool.go, harness/evtrace/target_syncx.go):

    e <t> inv get                                      e <t> inv put
    e <t> LimitPool_Get:AtomicAdd(tokens) => <new>     e <t> LimitPool_Put:AtomicAdd(tokens) => <new>
    [e <t> LimitPool_Get:AtomicAdd(tokens) => <new>]   e <t> res ok
    [e <t> Factory:Call(factory)]          (a note of the harness's factory: sync.Pool.Get made a new object)
    e <t> res true|false

  Logged program counters: `idle` (Get: `tokens.Add(-1)` = `getDec`), `getFail` (`tokens.Add(1)` = `getUndo`),
  `putInc` (`tokens.Add(1)` = `putInc`); every `Add` runs inside the log mutex, so log order = real order, and its
  logged return value must be the model's counter after the step.  NOT logged (sync.Pool is not instrumented):
  `pool.Put(t)` (`putPool`, replayed at `inv put` — the earliest point it can have happened) and `pool.Get()`
  (`getPool reuse`, replayed at `res true` — the latest point; `reuse` = the factory was not seen running inside
  this call).  With that placement a real reuse always finds `pooled > 0` in the model (the Put that stored the
  object was invoked before, the Get that took it returns after); the model's `poolDrop` (GC) is never needed
  because only `reuse = true` consults `pooled`.

`seg` — every method is one model step on the RWMutex selected by `getLock(key)`:

    e <t> inv lock|rlock|unlock|runlock|trylock|tryrlock <hex key>
    e <t> SegmentKeysLock_Lock:Lock(getLock(key)) => i=<index of the mutex in s.locks>      (hook zzverifObj)
    e <t> SegmentKeysLock_TryLock:TryLock(getLock(key)) => true|false,i=<index>
    e <t> res ok | res true|false

  The logged index must be the model's FNV-1a index `SegmentLock.idx size key`, and the model's `step` with the
  label of the call (for Try… with the OBSERVED answer) must be enabled.  Unlock/RUnlock/TryLock/TryRLock are logged
  atomically with themselves; Lock/RLock are logged after they returned, so an acquisition may appear late.  The only
  logged step a late acquisition can disable is a `Try… = false` (the mutex looks free in the model although a
  Lock/RLock that is still "in flight" — invoked, not yet logged — already holds it): `tryFalse` accepts it iff the
  model enables it after the model's own step of such an in-flight acquisition on the same segment (state unchanged,
  as `tryLock _ false` leaves it).
-/
import Driver.Ev.Core
import Driver.SyncX
import Ekit.Model.LimitPool
import Ekit.Model.SegmentLock

namespace Driver.Ev
open Driver Ekit Ekit.Conc

def lookupCall {α} (l : List (Nat × α)) (t : Nat) : Option α := (l.find? (·.1 == t)).map (·.2)
def eraseCall {α} (l : List (Nat × α)) (t : Nat) : List (Nat × α) := l.filter (·.1 != t)
def setCall {α} (l : List (Nat × α)) (t : Nat) (c : α) : List (Nat × α) := (t, c) :: eraseCall l t

/-! ### LimitPool -/
namespace Limit
open Ekit.LimitPool

/-- where the harness-level call of a thread stands (the model's `PC` does not record which method an idle
    thread has invoked, nor the result a finished call must report) -/
inductive Call where
  | get (factory : Bool)   -- Get invoked; `factory`: the factory ran inside it
  | getFailed              -- the compensation has run: `res false` must follow
  | put                    -- Put invoked, `pool.Put` replayed
  | putDone                -- `res ok` must follow
  deriving DecidableEq, Repr

structure State where
  cfg : Cfg
  m : Ekit.LimitPool.State
  calls : List (Nat × Call)

def spawnN (cfg : Cfg) (s : Ekit.LimitPool.State) : Nat → Except String Ekit.LimitPool.State
  | 0 => .ok s
  | n + 1 =>
    match step cfg s .spawn with
    | some s' => spawnN cfg s' n
    | none => .error "model: spawn not enabled"

/-- `new evt limit max=<maxTokens> g=<goroutines> …`: threads 0..g-1 plus thread g (the closing phase) -/
def init (args : List String) : Except String State :=
  match argInt args "max", argInt args "g" with
  | some max, some g =>
    if max < 0 then .error "negative maxTokens is outside the property's quantifier" else
    let cfg : Cfg := { maxTokens := max, maxThreads := 2147483648 }
    do let m ← spawnN cfg (Ekit.LimitPool.init cfg) (g.toNat + 1)
       pure { cfg, m, calls := [] }
  | _, _ => .error "max= / g= missing"

def act (s : State) (t : Nat) (a : Act) (what : String) : Except String Ekit.LimitPool.State :=
  match step s.cfg s.m (.act t a) with
  | some m' => .ok m'
  | none => .error s!"model: {what} by thread {t} is not enabled in the model's state (pc {repr (pcOf s.m t)}, tokens {s.m.tokens.toInt}, borrowed {s.m.borrowed}, pooled {s.m.pooled})"

/-- the value `tokens.Add` returned must be the model's counter after the step -/
def checkTokens (m : Ekit.LimitPool.State) (t : Nat) (what res : String) : Except String Unit :=
  if res.toInt? = some m.tokens.toInt then .ok ()
  else .error s!"thread {t}: {what} returned {res} where the model's counter becomes {m.tokens.toInt}"

def invL (s : State) (t : Nat) (args : List String) : Except String State :=
  match lookupCall s.calls t, pcOf s.m t with
  | none, some .idle =>
    match args with
    | ["get"] => .ok { s with calls := setCall s.calls t (.get false) }
    | ["put"] => do
      -- `pool.Put(t)` is not logged: replayed here, the earliest point at which it can have happened
      let m ← act s t .putPool "Put of a borrowed object (pool.Put)"
      pure { s with m, calls := setCall s.calls t .put }
    | _ => .error "unreadable call"
  | _, _ => .error s!"model: thread {t} starts a call while the model has it at {repr (pcOf s.m t)} / in {repr (lookupCall s.calls t)}"

def sync (s : State) (t : Nat) (fn act' res : String) : Except String State :=
  match lookupCall s.calls t, pcOf s.m t, act' with
  | some (.get false), some .idle, "AtomicAdd(tokens)" => do
    let m ← act s t .getDec act'
    checkTokens m t "tokens.Add(-1)" res
    pure { s with m }
  | some (.get _), some .getFail, "AtomicAdd(tokens)" => do
    let m ← act s t .getUndo act'
    checkTokens m t "the compensating tokens.Add" res
    pure { s with m, calls := setCall s.calls t .getFailed }
  | some (.get false), some .getOk, "Call(factory)" => .ok { s with calls := setCall s.calls t (.get true) }
  | some .put, some .putInc, "AtomicAdd(tokens)" => do
    let m ← act s t .putInc act'
    checkTokens m t "Put's tokens.Add" res
    pure { s with m, calls := setCall s.calls t .putDone }
  | c, pc, _ => .error s!"thread {t} logged {fn}:{act'} ({res}) where the model is at {repr pc} in {repr c}"

def resL (s : State) (t : Nat) (args : List String) : Except String State :=
  let bad : Except String State :=
    .error s!"thread {t} returned {" ".intercalate args} where the model is at {repr (pcOf s.m t)} in {repr (lookupCall s.calls t)}"
  match lookupCall s.calls t, pcOf s.m t, args with
  | some (.get factory), some .getOk, ["true"] => do
    -- `pool.Get()` is not logged: replayed here, the latest point at which it can have happened
    let m ← act s t (.getPool (!factory)) "pool.Get reusing a pooled object (no factory call was seen)"
    pure { s with m, calls := eraseCall s.calls t }
  | some .getFailed, some .idle, ["false"] => .ok { s with calls := eraseCall s.calls t }
  | some .putDone, some .idle, ["ok"] => .ok { s with calls := eraseCall s.calls t }
  | _, _, _ => bad

def atEnd (s : State) : Option String :=
  if !s.calls.isEmpty then some "calls still in flight in the model at the end of the scenario"
  else if decide (Quiescent s.m) then none else some "a model thread is inside a method at the end of the scenario"

end Limit

/-! ### SegmentKeysLock -/
namespace Seg
open Ekit.SegmentLock

inductive Kind where
  | lock | unlock | rlock | runlock | tryLock | tryRLock
  deriving DecidableEq, Repr

def Kind.verb : Kind → String
  | .lock => "Lock" | .unlock => "Unlock" | .rlock => "RLock" | .runlock => "RUnlock"
  | .tryLock => "TryLock" | .tryRLock => "TryRLock"

def Kind.isTry : Kind → Bool
  | .tryLock | .tryRLock => true
  | _ => false

def Kind.op (k : Kind) (key : Key) (r : Bool) : Op :=
  match k with
  | .lock => .lock key | .unlock => .unlock key | .rlock => .rlock key | .runlock => .runlock key
  | .tryLock => .tryLock key r | .tryRLock => .tryRLock key r

/-- the call of a thread: the method is one model step, `done` = it has been replayed (with the Try… answer) -/
structure Call where
  kind : Kind
  key : Key
  done : Option (Option Bool)

structure State where
  size : BitVec 32
  m : Ekit.SegmentLock.State
  calls : List (Nat × Call)

def init (args : List String) : Except String State :=
  match argInt args "size" with
  | some n =>
    if n < 1 ∨ n ≥ 4294967296 then .error "size outside the property's quantifier (1 ≤ size < 2^32)"
    else let size := BitVec.ofNat 32 n.toNat
         .ok { size, m := Ekit.SegmentLock.init size, calls := [] }
  | none => .error "size= missing"

def parseKind : String → Option Kind
  | "lock" => some .lock | "unlock" => some .unlock | "rlock" => some .rlock | "runlock" => some .runlock
  | "trylock" => some .tryLock | "tryrlock" => some .tryRLock
  | _ => none

def invL (s : State) (t : Nat) (args : List String) : Except String State :=
  match args with
  | [k, key] =>
    match parseKind k, Driver.SyncX.parseKey key, lookupCall s.calls t with
    | some kind, some key, none => .ok { s with calls := setCall s.calls t { kind, key, done := none } }
    | _, _, some _ => .error s!"model: thread {t} starts a call inside a call"
    | _, _, _ => .error "unreadable call"
  | _ => .error "unreadable call"

def holds (m : Ekit.SegmentLock.State) : String := Driver.SyncX.renderHolds m.held

/-- `Try… = false` where the model's mutex looks available: admissible iff a Lock/RLock of another thread on the
    same segment is in flight (invoked, its late log entry not yet seen) whose model step, performed first,
    makes the model answer `false` too.  (A `TryRLock` can only be refused by a writer.)  The state is unchanged:
    the in-flight acquisition is NOT committed here, it is replayed when its own log entry arrives.
    This also covers the one behaviour of sync.RWMutex the model does not have: `RWMutex.Lock` first takes the
    internal writer mutex `rw.w` and only then announces itself to the readers, and `TryLock` fails as soon as
    `rw.w` is taken — so a `TryLock` can answer `false` because of a writer that has ARRIVED but does not hold the
    lock yet, on a mutex that nobody holds (a reader may still get in before that writer).  In the model
    `tryLock _ false` needs a holder (`!rw.free`); only `tryRLock _ false` is lenient.  Such a `false` is
    accepted here exactly when that arriving writer exists (an in-flight `Lock` on the same segment). -/
def tryFalse (s : State) (t : Nat) (c : Call) (i : Nat) : Bool :=
  s.calls.any fun (u, cu) =>
    u != t && cu.done.isNone && (cu.kind == .lock || (cu.kind == .rlock && c.kind == .tryLock)) &&
    idx s.size cu.key == some i &&
    match step s.size s.m ⟨u, cu.kind.op cu.key true⟩ with
    | some m1 => (step s.size m1 ⟨t, c.kind.op c.key false⟩).isSome
    | none => false

/-- the mutex the action was performed on, named by its position in s.locks (`none`: not named, "na") -/
def obsIdx (t : Nat) (verb res : String) (isTry : Bool) : Except String (Option Nat) :=
  let named := if isTry then (res.splitOn ",").drop 1 else res.splitOn ","
  if named = ["na"] then .ok none else
  match named.findSome? fun w => if w.startsWith "i=" then some ((w.drop 2).toString) else none with
  | some v => match v.toInt? with
    | some j => if j < 0 then .error s!"thread {t}: {verb} was performed on a mutex that is not one of s.locks" else .ok (some j.toNat)
    | none => .error s!"unreadable object name {res}"
  | none => .error s!"unreadable object name {res}"

/-- the answer of a Try… (`none` for the other methods) -/
def tryAnswer (isTry : Bool) (res : String) : Except String (Option Bool) :=
  if isTry then
    match (res.splitOn ",").head? with
    | some "true" => .ok (some true)
    | some "false" => .ok (some false)
    | _ => .error s!"unreadable result {res}"
  else .ok none

/-- the model step of the call `c` of thread `t` with the observed answer `r`; a `Try… = false` the model does not
    enable is accepted with the state unchanged iff `tryFalse` -/
def perform (s : State) (t : Nat) (c : Call) (i : Nat) (r : Option Bool) (verb res : String) : Except String State :=
  match step s.size s.m ⟨t, c.kind.op c.key (r.getD true)⟩ with
  | some m' => .ok { s with m := m', calls := setCall s.calls t { c with done := some r } }
  | none =>
    if r = some false ∧ tryFalse s t c i then .ok { s with calls := setCall s.calls t { c with done := some r } }
    else .error s!"model: {verb} by thread {t}{if c.kind.isTry then s!" answering {res}" else ""} is not enabled: segment {i} is {repr (s.m.locks[i]?)}; holds: {holds s.m}"

def sync (s : State) (t : Nat) (fn act res : String) : Except String State :=
  match lookupCall s.calls t with
  | some c =>
    let verb := (act.takeWhile (· ≠ '(')).toString
    if c.done.isSome ∨ verb ≠ c.kind.verb then
      .error s!"thread {t} logged {fn}:{act} ({res}) where the model's call is {repr c.kind} (performed: {c.done.isSome})"
    else
    match idx s.size c.key with
    | none => .error "model: getLock panics (size = 0)"
    | some i =>
      -- the mutex the action was performed on (named by its position in s.locks) must be the model's
      match obsIdx t verb res c.kind.isTry with
      | .error e => .error e
      | .ok oi =>
        if oi.isSome ∧ oi ≠ some i then
          .error s!"thread {t}: {verb} was performed on the mutex of segment {oi.getD 0} where the model's FNV-1a index of the key is {i}"
        else
        match tryAnswer c.kind.isTry res with
        | .error e => .error e
        | .ok r => perform s t c i r verb res
  | none => .error s!"thread {t} logged {fn}:{act} ({res}) outside a call"

def resL (s : State) (t : Nat) (args : List String) : Except String State :=
  match lookupCall s.calls t, args with
  | some c, [r] =>
    let want := match c.done with
      | some none => some "ok"
      | some (some true) => some "true"
      | some (some false) => some "false"
      | none => none
    if want = some r then .ok { s with calls := eraseCall s.calls t }
    else .error s!"thread {t} returned {r} where the model's {repr c.kind} {if c.done.isSome then s!"returns {want.getD ""}" else "has not performed its action on the mutex"}"
  | _, _ => .error s!"thread {t} returned outside a call"

def atEnd (s : State) : Option String :=
  if !s.calls.isEmpty then some "calls still in flight in the model at the end of the scenario"
  else if !s.m.held.isEmpty then some s!"the model still records holds at the end of the scenario: {holds s.m}"
  else none

end Seg

end Driver.Ev
