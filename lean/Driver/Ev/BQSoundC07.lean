/-
What acceptance of a real execution's event log by the `abq` replayer proves about that execution (C07):
the corollaries of `Driver/Ev/BQSound.lean` through the property theorems of `Ekit/Props/C07.lean`.
(Audited with C07: `Audit/C07.lean`.)
-/
import Driver.Ev.BQSound
import Driver.Ev.LBQSound
import Ekit.Props.C07

namespace Driver.Ev.ABQ
open Ekit Ekit.Conc Ekit.BQ Ekit.ArrayBQ

/-- **the call history of an accepted real execution is linearizable** w.r.t. the bounded FIFO queue of the
    constructor's capacity (`es.filterMap Entry.obs` is the list of the harness's invocation / response notes) -/
theorem c07_abq_evtrace_linearizable (cap : Nat) (hcap : 1 ≤ cap) (es : List Entry) (s' : State)
    (h : replay (ArrayBQ.init cap) es = .ok s') :
    Linearizable (bqSpec (some cap)) (es.filterMap Entry.obs) := by
  obtain ⟨ls, hr, ho⟩ := abq_replay_sound cap es s' h
  rw [← ho]
  exact c07_abq_linearizable cap hcap ls s' hr

/-- **the state the replay ends in satisfies the C07 invariants** (0 ≤ count ≤ cap, permit conservation, ring
    well-formedness, no panic): it is a reachable state of the model -/
theorem c07_abq_evtrace_invariants (cap : Nat) (hcap : 1 ≤ cap) (es : List Entry) (s' : State)
    (h : replay (ArrayBQ.init cap) es = .ok s') :
    0 ≤ s'.count ∧ s'.count ≤ cap ∧ s'.data.length = cap ∧ s'.panicked = false := by
  have hr := abq_replay_reachable cap es s' h
  have := c07_abq_inv cap hcap s' hr
  exact ⟨this.1, this.2.1, this.2.2.2.2.2.1, this.2.2.2.2.2.2.2.2.2⟩

end Driver.Ev.ABQ

namespace Driver.Ev.LBQ
open Ekit Ekit.Conc Ekit.BQ Ekit.LinkedBQ

/-- the same for the linked blocking queue created with capacity `m` (`m ≤ 0`: unbounded) -/
theorem c07_lbq_evtrace_linearizable (m : Int) (es : List Entry) (s' : State)
    (h : replay (LinkedBQ.init m) es = .ok s') :
    Linearizable (bqSpec (bound m)) (es.filterMap Entry.obs) := by
  obtain ⟨ls, hr, ho⟩ := lbq_replay_sound m es s' h
  rw [← ho]
  exact c07_lbq_linearizable m ls s' hr

end Driver.Ev.LBQ

namespace Driver.Ev.ABQ
open Ekit Ekit.Conc Ekit.BQ Ekit.ArrayBQ

/-- non-vacuity: a concrete accepted log (Enqueue 7 then Dequeue on a queue of capacity 1, single thread; the snapshot
    fields are "na" here only because parsing decimal strings is too slow for the kernel — every run of the check accepts
    10^4–10^5 real events with full snapshots) -/
def demoLog : List Entry :=
  [.inv 0 (.enq 7), .sync 0 "f" "SemAcquire(enqueueCap)" "nil", .sync 0 "f" "Lock(mutex)" "-", .sync 0 "f" "ctx.Err" "nil",
   .sync 0 "f" "SemRelease(dequeueCap)" "-", .sync 0 "f" "Unlock(mutex)" "na", .res 0 .ok,
   .inv 0 .deq, .sync 0 "f" "SemAcquire(dequeueCap)" "nil", .sync 0 "f" "Lock(mutex)" "-", .sync 0 "f" "ctx.Err" "nil",
   .sync 0 "f" "SemRelease(enqueueCap)" "-", .sync 0 "f" "Unlock(mutex)" "na", .res 0 (.val 7)]

example : (match replay (ArrayBQ.init 1) demoLog with | .ok _ => true | .error _ => false) = true := by decide +kernel

end Driver.Ev.ABQ
