/-
What acceptance of a real execution's event log by the `clq` replayer proves about that execution (C06):
the corollaries of `Driver/Ev/CLQSound.lean` through the property theorems of `Ekit/Props/C06.lean`.
(Audited with C06: `Audit/C06.lean`.)
-/
import Driver.Ev.CLQSound
import Ekit.Props.C06

namespace Driver.Ev.CLQ
open Ekit Ekit.Conc Ekit.Linz Ekit.Linz.CLQ Ekit.Props.C06

/-- **the call history of an accepted real execution of ConcurrentLinkedQueue is linearizable** w.r.t. the FIFO queue
    (`es.filterMap Entry.ev` is the list of the harness's invocation / response notes, parsed as the replayer parses
    them) -/
theorem c06_clq_evtrace_linearizable (args : List String) (s0 : State) (hinit : init args = .ok s0)
    (es : List Entry) (s' : State) (h : replay s0 es = .ok s') :
    Linearizable (fifoSpec Int) (es.filterMap Entry.ev) := by
  obtain ⟨ls, hr, ho⟩ := clq_replay_sound args s0 hinit es s' h
  rw [← ho]
  exact c06_clq_linearizable ls s'.m hr

/-- **the model state the replay ends in satisfies the C06 invariants** (`head ≤ tail ≤ |nodes| ≤ tail+1`, at most one
    thread between its two CASes, the threads' snapshots lag, nobody crashed): it is a reachable state of the model -/
theorem c06_clq_evtrace_invariants (args : List String) (s0 : State) (hinit : init args = .ok s0)
    (es : List Entry) (s' : State) (h : replay s0 es = .ok s') :
    CLQ.Inv s'.m :=
  c06_clq_invariants s'.m (clq_replay_reachable args s0 hinit es s' h)

/-- **a scenario accepted to its `end`**: every call has returned and the model's queue has its quiescent shape — the
    tail is the last node and the chain after the head is the abstract queue -/
theorem c06_clq_evtrace_quiescent (args : List String) (s0 : State) (hinit : init args = .ok s0)
    (es : List Entry) (s' : State) (h : replay s0 es = .ok s') (hend : atEnd s' = none) :
    (∀ t, s'.m.pc t = .idle) ∧
    s'.m.nodes.length = s'.m.tail ∧ s'.m.next s'.m.tail = none ∧ s'.m.absq = s'.m.nodes.drop s'.m.head := by
  have hq := clq_replay_quiescent args s0 hinit es s' h hend
  refine ⟨hq, c06_clq_quiescent s'.m (clq_replay_reachable args s0 hinit es s' h) ?_⟩
  intro t; rw [hq t]; rfl

/-- non-vacuity: a concrete accepted log — lines of a real trace (one thread: Enqueue 2002, then Dequeue).  The test
    below is EVALUATED (`#guard`: the same compiled code the driver runs), not kernel-checked: `String.splitOn` /
    `String.toInt?`, which the replayer's parsers use, do not reduce in the kernel.  Every run of the check accepts 10^4
    real events with the same functions. -/
def demoLog : List Entry :=
  [⟨1, "inv", ["enq", "2002"], "-"⟩,
   ⟨1, "ConcurrentLinkedQueue_Enqueue:atomic.LoadPointer(tail)", [], "v=p0,at=p2"⟩,
   ⟨1, "ConcurrentLinkedQueue_Enqueue:atomic.LoadPointer(&$.next)", [], "v=nil,at=p3"⟩,
   ⟨1, "ConcurrentLinkedQueue_Enqueue:atomic.CompareAndSwapPointer(&$.next)", [], "ok=true,old=nil,new=p4,at=p3"⟩,
   ⟨1, "ConcurrentLinkedQueue_Enqueue:atomic.CompareAndSwapPointer(tail)", [], "ok=true,old=p0,new=p4,at=p2"⟩,
   ⟨1, "res", ["ok"], "-"⟩,
   ⟨1, "inv", ["deq"], "-"⟩,
   ⟨1, "ConcurrentLinkedQueue_Dequeue:atomic.LoadPointer(head)", [], "v=p0,at=p1"⟩,
   ⟨1, "ConcurrentLinkedQueue_Dequeue:atomic.LoadPointer(tail)", [], "v=p4,at=p2"⟩,
   ⟨1, "ConcurrentLinkedQueue_Dequeue:atomic.LoadPointer(&$.next)", [], "v=p4,at=p3"⟩,
   ⟨1, "ConcurrentLinkedQueue_Dequeue:atomic.CompareAndSwapPointer(head)", [], "ok=true,old=p0,new=p4,at=p1"⟩,
   ⟨1, "res", ["val", "2002"], "-"⟩]

#guard (match (init []).bind (fun s0 => replay s0 demoLog) with
    | .ok s => s.m.nodes == [2002] && s.m.head == 1 && s.m.tail == 1 && (atEnd s).isNone
    | .error _ => false)
#guard demoLog.filterMap Entry.ev == [.inv 1 (.enq 2002), .res 1 .ok, .inv 1 .deq, .res 1 (.val 2002)]

end Driver.Ev.CLQ
