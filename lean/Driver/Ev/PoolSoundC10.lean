/-
What acceptance of a real execution's event log by the `pool` replayer proves about that execution (C10–C12):
the corollaries of `Driver/Ev/PoolSound.lean` through the property theorems of `Ekit/Props/C10.lean`, `C11.lean`,
`C12.lean`.  (Audited with C10: `Audit/C10.lean`.)

`pool_replay_reachable`: the model state the replay of an accepted log ends in is a reachable state of
`Ekit.Pool.sys cfg`, where `cfg` is what the model's constructor `newPool` returns for the scenario's parameters — a
valid configuration (`c11_ctor_rejects`).  So every theorem of C10–C12 about reachable states holds of it; the
replayer has checked on the way that the quantities the code observed (lifecycle loads and CASes, channel lengths,
`totalGo` and the timeout group inside their critical sections, the ids drawn, `numGoRunningTasks`, what every call
returned and which tasks ShutdownNow handed back) are the model's.
-/
import Driver.Ev.PoolSound
import Ekit.Props.C10
import Ekit.Props.C11
import Ekit.Props.C12

namespace Driver.Ev.Pool
open Ekit.Pool

/-- the configuration of an accepted scenario is one the constructor accepts: 1 ≤ initGo ≤ coreGo ≤ maxGo, 0 ≤ rate ≤ 1 -/
theorem pool_evtrace_cfg_valid {args : List String} {st0 : State} (h0 : Pool.init args = .ok st0) : st0.cfg.Valid := by
  obtain ⟨⟨i, c, mx, q, r, hc⟩, _⟩ := init_ok h0
  exact (c11_ctor_rejects i q _ _ hc).1

section
variable (args : List String) (st0 st' : State) (es : List Entry)
  (h0 : Pool.init args = .ok st0) (h : replay st0 es = .ok st')
include h0 h

/-- **C10 of the state an accepted real execution ends in**: no send on / second close of the closed queue has
    happened; every task is accounted for (runs + handed back + queued + in a worker's hands = [its send happened]);
    a task whose Submit returned nil has run once, or was handed back once, or is still queued / held — exactly one
    of these, with multiplicity one; a task whose Submit returned an error was never sent, run or handed back -/
theorem c10_pool_evtrace_exactly_once :
    st'.m.panic = false ∧
    (∀ id, runsN st'.m.tasks id + st'.m.returned.count id + st'.m.queue.count id + st'.m.workers.countP (holdsT id)
            = sentN st'.m.tasks id) ∧
    (∀ id, runsN st'.m.tasks id + st'.m.returned.count id ≤ 1) ∧
    (∀ id tk, st'.m.tasks[id]? = some tk → tk.subRes = .ok →
        tk.runs + st'.m.returned.count id + st'.m.queue.count id + st'.m.workers.countP (holdsT id) = 1) ∧
    (∀ id tk, st'.m.tasks[id]? = some tk → tk.subRes.isErr = true →
        tk.sent = false ∧ tk.runs = 0 ∧ st'.m.returned.count id = 0 ∧ st'.m.queue.count id = 0 ∧
        st'.m.workers.countP (holdsT id) = 0) := by
  have hv := pool_evtrace_cfg_valid h0
  have hr := pool_replay_reachable args st0 st' es h0 h
  exact ⟨(c10_send_never_after_close _ hv _ hr).1, c10_conservation _ hv _ hr, c10_at_most_once _ hv _ hr,
    c10_exactly_once _ hv _ hr, c10_err_never_runs _ hv _ hr⟩

/-- the source's comment "此处b.queue <- task不会因为b.queue被关闭而panic" for the accepted execution: the queue is closed
    only once shutdown has begun, and a caller at trySubmit's select holds the lifecycle lock with the queue open -/
theorem c10_pool_evtrace_send_never_after_close :
    st'.m.panic = false ∧ (st'.m.closed = true → shutBegun st'.m.life = true) ∧
    (∀ t, (st'.m.callers t).pc = .subSel → st'.m.life = .locked ∧ st'.m.holder = t ∧ st'.m.closed = false) :=
  c10_send_never_after_close _ (pool_evtrace_cfg_valid h0) _ (pool_replay_reachable args st0 st' es h0 h)

/-- **at the end of an accepted scenario** (the driver's `atEnd` check passed: every call has returned, every worker
    the model created has run to its exit) every task whose Submit returned nil has been executed exactly once, or
    handed back by ShutdownNow exactly once, or is still in the queue of a pool without workers — never two of these -/
theorem c10_pool_evtrace_exactly_once_at_end (hend : atEnd st' = none) (id : Nat) (tk : Task)
    (hid : st'.m.tasks[id]? = some tk) (hok : tk.subRes = .ok) :
    tk.runs + st'.m.returned.count id + st'.m.queue.count id = 1 := by
  have h1 := (c10_pool_evtrace_exactly_once args st0 st' es h0 h).2.2.2.1 id tk hid hok
  have hw : st'.m.workers.countP (holdsT id) = 0 := by
    rw [List.countP_eq_zero]
    intro w hwm
    obtain ⟨i, hi⟩ := List.getElem?_of_mem hwm
    have hlt : i < st'.m.workers.length := by
      rcases Nat.lt_or_ge i st'.m.workers.length with hlt | hge
      · exact hlt
      · rw [List.getElem?_eq_none hge] at hi; cases hi
    have hex : w.pc = .exited := by
      unfold atEnd at hend
      split at hend
      · cases hend
      · split at hend
        · cases hend
        · rename_i hnone
          have := List.find?_eq_none.mp hnone i (List.mem_range.mpr hlt)
          simpa [hi] using this
    simp [holdsT, hex]
  omega

/-- **C11 of the state an accepted real execution ends in**: at most `maxGo` workers are counted and at most `maxGo`
    tasks execute at once; Start has succeeded at most once, Shutdown / ShutdownNow at most once between them -/
theorem c11_pool_evtrace_bounds :
    st'.m.totalGo ≤ st0.cfg.maxGo ∧ st'.m.workers.countP (fun w => execPc w.pc) ≤ st0.cfg.maxGo ∧
    st'.m.nStartOk ≤ 1 ∧ st'.m.nShutOk ≤ 1 ∧ (st'.m.nStartOk = 0 → st'.m.workers = [] ∧ st'.m.totalGo = 0) := by
  have hv := pool_evtrace_cfg_valid h0
  have hr := pool_replay_reachable args st0 st' es h0 h
  exact ⟨c11_totalGo_le_maxGo _ hv _ hr, c11_running_le_maxGo _ hv _ hr, c11_start_at_most_once _ hv _ hr,
    c11_shutdown_at_most_once _ hv _ hr, c11_no_task_before_start _ hv _ hr⟩

/-- **C12 of the state an accepted real execution ends in**: if the graceful path has closed the done channel, the
    queue is empty, no worker is counted any more, and every accepted task has been executed exactly once -/
theorem c12_pool_evtrace_done_not_early (hg : st'.m.graceful = true) (hd : st'.m.cancelled = true) :
    st'.m.queue = [] ∧ st'.m.totalGo = 0 ∧
    (∀ id tk, st'.m.tasks[id]? = some tk → tk.subRes = .ok → tk.runs + st'.m.returned.count id = 1) := by
  have hv := pool_evtrace_cfg_valid h0
  have hr := pool_replay_reachable args st0 st' es h0 h
  have h1 := c12_done_not_early _ hv _ hr hg hd
  exact ⟨h1.1, h1.2.1, fun id tk hid hok => c12_done_all_ran _ hv _ hr hg hd id tk hid hok⟩

end

/-- non-vacuity: a concrete accepted log (two threads; an invalid Submit that returns, a Shutdown and a Start in flight)
    from the state `init` builds for `init=1 core=1 max=1 q=1 rate=0 g=1`, with its observable labels.  (Only call notes:
    the synchronisation events carry decimal numbers, and parsing decimal strings does not reduce in the kernel — every run of
    the check accepts about 3·10^4 real events of this target with all observed values.) -/
def demoSt0 : State :=
  { cfg := { initGo := 1, coreGo := 1, maxGo := 1, cap := 1, rateNum := 0, rateDen := 1000 }, g := 1, m := Ekit.Pool.init }

def demoLog : List Entry :=
  [.inv 0 ["submitnil"], .inv 1 ["shutdown"], .res 0 ["err:invalid"], .inv 0 ["start"]]

example : (match newPool 1 1 [.coreGo 1, .maxGo 1, .rate 0 1000, .idle] with
           | .ok c => decide (c = demoSt0.cfg) | .error _ => false) = true := by decide +kernel
example : (match replay demoSt0 demoLog with | .ok _ => true | .error _ => false) = true := by decide +kernel
example : demoLog.filterMap Entry.obs = [.c 0 .invSubmitNil, .c 1 .invShutdown, .c 0 .ret, .c 0 .invStart] := by
  decide +kernel

end Driver.Ev.Pool
