/-
What acceptance of a real execution's event log by the `dq` replayer proves about that execution (C08): the
corollaries of `Driver/Ev/DelayQSound.lean` through the property theorems of `Ekit/Props/C08.lean` and
`Ekit/Props/C08Rev.lean`.  (Audited with C08: `Audit/C08.lean`; the DelayQueue share of C09 is in
`Driver/Ev/DelayQSoundC09.lean`.)

Throughout, `s0` is the state `Driver.Ev.DQ.init` builds from the arguments of `new evt dq cap=… disc=…` (so `s0.P` is
the scenario's timer discipline and capacity), `es` the entries of the log as the driver hands them to the replayer,
`s'` the state the replay ends in, `es.filterMap Entry.obs` the list of the harness's invocation / response notes.
A replay that ends with `s'.skip = true` (a comparator stall was seen and a root of non-minimal deadline followed)
has judged only a prefix of the log; the statements about the call history say so.
-/
import Driver.Ev.DelayQSound
import Ekit.Props.C08
import Ekit.Props.C08Rev

namespace Driver.Ev.DQ
open Ekit Ekit.Conc Ekit.DelayQ

/-- **the call history of an accepted real execution is linearizable** w.r.t. the atomic timed specification of the
    scenario's parameters: the logged notes are the rendering (`viewEv`: ids of dequeued elements, one word for both
    context-error exits) of a history `H` of the model, and `H` is `Linearizable (timedSpec P)` — Enqueue inserts
    unless the bounded queue is full, Dequeue removes a present, expired element of minimal deadline, context-error
    calls have no effect -/
theorem c08_dq_evtrace_linearizable (args : List String) (s0 : State) (h0 : init args = .ok s0) (es : List Entry)
    (s' : State) (h : replay s0 es = .ok s') :
    ∃ H : List (Ev Op Ret), Linearizable (timedSpec s0.P) H ∧
      H.map viewEv <+: es.filterMap Entry.obs ∧
      (s'.skip = false → H.map viewEv = es.filterMap Entry.obs) := by
  obtain ⟨_, ls, hr, ho, ho'⟩ := dq_replay_sound args s0 h0 es s' h
  exact ⟨(sys s0.P).history ls, c08_linearizable_timed s0.P ls s'.m hr, ho, ho'⟩

/-- the same with the clock: the accepted log is a run `ls` of the model — its `tick`s are the clock advances the
    log's readings and timer observations prove — whose TIMED history (calls, returns and ticks) is linearizable
    w.r.t. `exactSpec` (`TLinearizable`: a successful Dequeue takes effect at an instant of the run's own clock at
    which its element is present, expired and of minimal deadline) -/
theorem c08_dq_evtrace_tlinearizable (args : List String) (s0 : State) (h0 : init args = .ok s0) (es : List Entry)
    (s' : State) (h : replay s0 es = .ok s') :
    ∃ ls : List Label, (sys s0.P).toSystem.run (sys s0.P).init ls = some s'.m ∧
      TLinearizable s0.P (thistory ls) ∧
      ((sys s0.P).history ls).map viewEv <+: es.filterMap Entry.obs ∧
      (s'.skip = false → ((sys s0.P).history ls).map viewEv = es.filterMap Entry.obs) := by
  obtain ⟨_, ls, hr, ho, ho'⟩ := dq_replay_sound args s0 h0 es s' h
  exact ⟨ls, hr, c08_tlinearizable s0.P ls s'.m hr, ho, ho'⟩

/-- **the model state the replay ends in satisfies the C08 invariants**: nothing lost or duplicated (`exactly once`),
    the bounded queue within its capacity, every call about to return an element returns an expired one, no call is
    about to return the internal error, a call about to return a context error has not touched the queue -/
theorem c08_dq_evtrace_invariants (args : List String) (s0 : State) (h0 : init args = .ok s0) (es : List Entry)
    (s' : State) (h : replay s0 es = .ok s') :
    ((s'.m.q ++ s'.m.deqd).Perm s'.m.enqd ∧ s'.m.enqd.Nodup ∧ s'.m.deqd.Nodup ∧ s'.m.retd.Nodup ∧
      (∀ x ∈ s'.m.retd, x ∈ s'.m.deqd) ∧ (∀ x ∈ s'.m.deqd, x ∈ s'.m.enqd ∧ x ∉ s'.m.q)) ∧
    (0 < s0.P.cap → s'.m.q.length ≤ s0.P.cap) ∧
    (∀ t x, s'.m.pc t = .ret (.deqOk x) → x.dl ≤ s'.m.now) ∧
    (∀ t, s'.m.pc t ≠ .ret .deqErr) ∧
    (∀ t, s'.m.pc t = .ret .enqCtx ∨ s'.m.pc t = .ret .deqCtx → s'.m.eff t = false) := by
  have hr := dq_replay_reachable args s0 h0 es s' h
  exact ⟨c08_exactly_once s0.P s'.m hr, c08_bounded_len_le_cap s0.P s'.m hr,
    fun t x hx => c08_returned_expired s0.P s'.m t x hr hx,
    fun t => c08_dequeue_no_internal_error s0.P s'.m t hr,
    fun t ht => c08_ctx_err_no_effect s0.P s'.m t hr ht⟩

/-! ### non-vacuity -/

/-- a concrete accepted log, strings as the harness writes them: one thread enqueues element 7 with deadline 5 and
    dequeues it once the clock reads 9 (the `clk:Delay` event at `dPeek` carries the heap's root and the reading; the
    channel-identity snapshots are "na" here only to keep the evaluation inside the default heartbeats — every run of the
    check accepts 10^4–10^5 real events with full snapshots) -/
def demoArgs : List String := ["cap=0", "g=1", "calls=2", "late=0", "disc=sync", "seed=1"]

def demoLog : List Entry :=
  [.inv 0 ["enq", "7", "5", "bg"], .sync 0 "f" "Select:default" "-", .sync 0 "f" "Lock(mutex)" "-",
   .sync 0 "f" "Unlock(l)" "na", .sync 0 "f" "Close($)" "na", .res 0 ["ok"],
   .inv 0 ["deq", "bg"], .sync 0 "f" "Select:default" "-", .sync 0 "f" "Lock(mutex)" "-",
   .sync 0 "clk" "Delay" "7/5@9", .sync 0 "f" "Unlock(l)" "na", .sync 0 "f" "Close($)" "na", .res 0 ["val", "7"]]

/-- the log is accepted, not skipped, and its observed history is the two calls -/
def demoVerdict : Option (Bool × Nat × List (Ev Op RetV)) :=
  match init demoArgs with
  | .error _ => none
  | .ok s0 =>
    match replay s0 demoLog with
    | .error _ => none
    | .ok s' => some (s'.skip, s'.m.now, demoLog.filterMap Entry.obs)

/-- (`cbv`: the kernel's `decide` cannot evaluate `String.toNat?` / `splitOn`) -/
theorem demo_accepted : demoVerdict = some (false, 9, [.inv 0 (.enq ⟨7, 5⟩), .res 0 .ok, .inv 0 .deq, .res 0 (.val 7)]) := by
  cbv

end Driver.Ev.DQ
