/-
What acceptance of a real execution's event log by the `cond` replayer proves about that execution (C13):
the corollaries of `Driver/Ev/CondSound.lean` through the property theorems of `Ekit/Props/C13.lean`.
(Audited with C13: `Audit/C13.lean`.)

`Ekit.Cond` has no sequential specification (a condition variable is not a linearizable object: `Wait` spans two
effects); its property theorems are invariants of reachable states and counting laws over runs.  Both kinds transfer:
the replayer's final model state is reachable, and the observed call history is the history of the run.
-/
import Driver.Ev.CondSound
import Ekit.Props.C13

namespace Driver.Ev.Cond
open Ekit Ekit.Conc Ekit.Cond

/-- **the model state the replay of an accepted log ends in satisfies the C13 invariants**: the structural invariant
    (mutual exclusion under `mu`, node ownership, list / channel / pool discipline, `L` discipline), no thread has
    faulted, tokens are conserved, and no wake-up was invented -/
theorem c13_cond_evtrace_invariants (args : List String) (es : List Entry) (st0 st' : State)
    (h0 : init args = .ok st0) (h : replay st0 es = .ok st') :
    Inv st'.m ∧ (∀ t f, st'.m.pc t ≠ .fault f) ∧
    (∀ t u, (st'.m.pc t).inMu = true → (st'.m.pc u).inMu = true → t = u) ∧
    st'.m.issued = st'.m.consumedNil + st'.m.full.length + st'.m.inHand + st'.m.dropped ∧
    st'.m.sigChecks = st'.m.sigIssued + st'.m.sigEmpty + st'.m.sigInFlight ∧
    st'.m.retNil ≤ st'.m.sigChecks + st'.m.bcIssued := by
  have hr := cond_replay_reachable args es st0 st' h0 h
  exact ⟨c13_inv hr, c13_no_fault hr, c13_mutex hr, c13_conservation hr, c13_signal_accounting hr,
    c13_nil_le_signals_plus_broadcast hr⟩

/-- a `Wait` returned nil -/
def isNilRet : Ev Op Ret → Bool
  | .res _ (.wait .nil) => true
  | _ => false

/-- a `Wait` returned `ctx.Err()` -/
def isErrRet : Ev Op Ret → Bool
  | .res _ (.wait .ctxErr) => true
  | _ => false

theorem filterMap_obs_cons (l : Label) (ls : List Label) :
    (l :: ls).filterMap Ekit.Cond.obs = (Ekit.Cond.obs l).toList ++ ls.filterMap Ekit.Cond.obs := by
  rw [List.filterMap_cons]; cases Ekit.Cond.obs l <;> rfl

theorem nil_pt (l : Label) : (Ekit.Cond.obs l).toList.countP isNilRet = if l.isRetNil = true then 1 else 0 := by
  cases l <;> try rfl
  rename_i t r; cases r <;> rfl

theorem err_pt (l : Label) : (Ekit.Cond.obs l).toList.countP isErrRet = if l.isRetErr = true then 1 else 0 := by
  cases l <;> try rfl
  rename_i t r; cases r <;> rfl

theorem countP_hist_nil (ls : List Label) :
    (ls.filterMap Ekit.Cond.obs).countP isNilRet = ls.countP Label.isRetNil := by
  induction ls with
  | nil => rfl
  | cons l ls ih => rw [filterMap_obs_cons, List.countP_append, ih, nil_pt, List.countP_cons, Nat.add_comm]

theorem countP_hist_err (ls : List Label) :
    (ls.filterMap Ekit.Cond.obs).countP isErrRet = ls.countP Label.isRetErr := by
  induction ls with
  | nil => rfl
  | cons l ls ih => rw [filterMap_obs_cons, List.countP_append, ih, err_pt, List.countP_cons, Nat.add_comm]

/-- **the model's ghost counters count the real execution**: after an accepted log, `retNil` / `retErr` of the model are
    the numbers of `Wait` calls the harness saw return nil / `ctx.Err()` -/
theorem c13_cond_evtrace_counters (args : List String) (es : List Entry) (st0 st' : State)
    (h0 : init args = .ok st0) (h : replay st0 es = .ok st') :
    st'.m.retNil = (es.filterMap Entry.ev).countP isNilRet ∧
    st'.m.retErr = (es.filterMap Entry.ev).countP isErrRet := by
  obtain ⟨ls, hr, ho⟩ := cond_replay_sound args es st0 st' h0 h
  have hc := counts_run ls _ _ hr
  simp only [State.counts, Counts.mk.injEq] at hc
  obtain ⟨a, b, _⟩ := hc
  have e1 := countP_hist_nil ls
  have e2 := countP_hist_err ls
  rw [← ho]
  show st'.m.retNil = (ls.filterMap Ekit.Cond.obs).countP isNilRet ∧
    st'.m.retErr = (ls.filterMap Ekit.Cond.obs).countP isErrRet
  rw [e1, e2, a, b]
  simp [sys, Ekit.Cond.init]

/-- **no invented wake-up in an accepted real execution**: the number of `Wait` calls observed to return nil is at most
    the number of Signals that took effect (performed their length check under `mu`) plus the number of tokens
    Broadcasts sent, as counted by the model along the replay -/
theorem c13_cond_evtrace_no_invented_wakeup (args : List String) (es : List Entry) (st0 st' : State)
    (h0 : init args = .ok st0) (h : replay st0 es = .ok st') :
    (es.filterMap Entry.ev).countP isNilRet ≤ st'.m.sigChecks + st'.m.bcIssued := by
  rw [← (c13_cond_evtrace_counters args es st0 st' h0 h).1]
  exact c13_nil_le_signals_plus_broadcast (cond_replay_reachable args es st0 st' h0 h)

/-- at the end of a scenario the driver also requires `atEnd` to have no complaint: then both locks are free in the
    model and, if no token is left in a channel and no receiver is still on its way out, every token issued was either
    consumed by a `Wait` observed to return nil or dropped by a cancelled waiter that found the list empty -/
theorem c13_cond_evtrace_quiescent (args : List String) (es : List Entry) (st0 st' : State)
    (h0 : init args = .ok st0) (h : replay st0 es = .ok st') (he : atEnd st' = none)
    (hq2 : st'.m.full = []) (hq3 : st'.m.nilPend = []) :
    (es.filterMap Entry.ev).countP isNilRet + st'.m.dropped = st'.m.issued := by
  rw [← (c13_cond_evtrace_counters args es st0 st' h0 h).1]
  refine c13_quiescent_count (cond_replay_reachable args es st0 st' h0 h) ?_ hq2 hq3
  unfold atEnd at he
  simp only at he
  split at he
  · cases he
  · split at he
    · cases he
    · rename_i hl
      cases hm : st'.m.mu with
      | none => rfl
      | some u => simp [hm] at hl

/-- the three kinds of log lines after the driver's dispatch (`replay1`: `what = "inv"`, `what = "res"`, otherwise
    `splitSite what = (fn, act)`) -/
inductive Line where
  | inv (t : Nat) (args : List String)
  | res (t : Nat) (args : List String)
  | sync (t : Nat) (act obs : String)

def Line.run (st : State) : Line → Except String State
  | .inv t args => invL st t args
  | .res t args => resL st t args
  | .sync t act obs => Cond.sync st t "f" act obs

/-- non-vacuity: a concrete accepted log — thread 0 locks `L` and calls `Wait` with a live context; thread 1 calls
    `Signal`; the waiter receives the token and returns nil.  (Given after the dispatch because `String.splitOn` in
    `splitSite` does not reduce in the kernel; snapshots are "na" because parsing decimal strings is too slow for it:
    every run of the check accepts about 2·10^4 real events with full snapshots.) -/
def demoLog : List Line :=
  [.inv 0 ["lock"], .res 0 ["locked"],
   .inv 0 ["wait", "live"],
   .sync 0 "atomic.LoadPointer(checker)" "-",
   .sync 0 "atomic.CompareAndSwapPointer(checker)" "true",
   .sync 0 "OnceDo(once)" "-",
   .sync 0 "Lock(mu)" "-",
   .sync 0 "Unlock(mu)" "na",
   .sync 0 "Unlock(L)" "-",
   .inv 1 ["signal"],
   .sync 1 "atomic.LoadPointer(checker)" "-",
   .sync 1 "OnceDo(once)" "-",
   .sync 1 "Lock(mu)" "-",
   .sync 1 "Send($)" "-",
   .sync 1 "Unlock(mu)" "na",
   .res 1 ["unit"],
   .sync 0 "Select:Recv($)" "-",
   .sync 0 "Lock(L)" "-",
   .res 0 ["nil"],
   .inv 0 ["unlock"], .res 0 ["unlocked"]]

def demoInit : State := { m := Ekit.Cond.init, tids := [0, 1], nodes := [] }

example : (match demoLog.foldlM Line.run demoInit with
    | .ok st => st.m.retNil == 1 && st.m.sigChecks == 1 && (atEnd st).isNone
    | .error _ => false) = true := by decide +kernel

end Driver.Ev.Cond
