/-
The pure folds `Limit.replay` / `Seg.replay` of Driver/Ev/SyncXSound.lean ARE what the driver runs: `Driver.EvTrace.event`
on a `limit` / `seg` state is `replay1` (`event_limit`, `event_seg`), `Driver.EvTrace.start` is `init`, and a list of log lines
the driver's `event` takes without complaint is an accepted log in the sense of the soundness theorems (`drive_limit`,
`drive_seg`).  Kept apart from SyncXSound.lean because it imports Driver/EvTrace.lean, i.e. every other target's replayer.
-/
import Driver.Ev.SyncXSound
import Driver.EvTrace

namespace Driver.Ev
open SyncXSound

namespace Limit
theorem event_limit (s : State) (e : Entry) :
    Driver.EvTrace.event (.limit s) e.t e.what e.args e.obs = Driver.EvTrace.liftE .limit (replay1 s e) := by
  unfold Driver.EvTrace.event replay1
  generalize splitSite e.what = p
  cases p
  dsimp only
  split
  · rfl
  · split <;> rfl

theorem start_limit (args : List String) :
    Driver.EvTrace.start "limit" args = Driver.EvTrace.liftE .limit (init args) := rfl

theorem finish_limit (s : State) : Driver.EvTrace.finish (.limit s) = atEnd s := rfl

end Limit

namespace Seg
theorem event_seg (s : State) (e : Entry) :
    Driver.EvTrace.event (.seg s) e.t e.what e.args e.obs = Driver.EvTrace.liftE .seg (replay1 s e) := by
  unfold Driver.EvTrace.event replay1
  generalize splitSite e.what = p
  cases p
  dsimp only
  split
  · rfl
  · split <;> rfl

theorem start_seg (args : List String) :
    Driver.EvTrace.start "seg" args = Driver.EvTrace.liftE .seg (init args) := rfl

theorem finish_seg (s : State) : Driver.EvTrace.finish (.seg s) = atEnd s := rfl

end Seg

/-! ### the driver's own fold -/
namespace SyncXSound
open Driver.EvTrace

/-- `Driver.EvTrace.event` folded over a list of entries, stopping at the first complaint (after a complaint the driver's
    state is `dead` and the rest of the scenario is not judged) -/
def drive : St → List Entry → Option St
  | st, [] => some st
  | st, e :: es =>
    match event st e.t e.what e.args e.obs with
    | (st', none) => drive st' es
    | (_, some _) => none

theorem drive_limit : ∀ (es : List Entry) (s : Limit.State) (st' : St), drive (.limit s) es = some st' →
    ∃ s', st' = .limit s' ∧ Limit.replay s es = .ok s'
  | [], s, st', h => by cases h; exact ⟨s, rfl, rfl⟩
  | e :: es, s, st', h => by
    unfold drive at h
    rw [Limit.event_limit] at h
    unfold Limit.replay
    cases hr : Limit.replay1 s e with
    | error m => rw [hr] at h; cases h
    | ok s1 =>
      rw [hr] at h
      exact drive_limit es s1 st' h

theorem drive_seg : ∀ (es : List Entry) (s : Seg.State) (st' : St), drive (.seg s) es = some st' →
    ∃ s', st' = .seg s' ∧ Seg.replay s es = .ok s'
  | [], s, st', h => by cases h; exact ⟨s, rfl, rfl⟩
  | e :: es, s, st', h => by
    unfold drive at h
    rw [Seg.event_seg] at h
    unfold Seg.replay
    cases hr : Seg.replay1 s e with
    | error m => rw [hr] at h; cases h
    | ok s1 =>
      rw [hr] at h
      exact drive_seg es s1 st' h

end SyncXSound
end Driver.Ev
