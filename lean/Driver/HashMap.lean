import Driver.Util
import Ekit.Model.HashMap
/-! Trace acceptor for C03 (hash-backed maps and sets). Producer: harness/hashmap/main.go.

`model` mode folds the model functions of `Ekit/Model/HashMap.lean` (`HMap.step`, `LMap.step`,
`multiStep`, `BMap.step`, `MapSet.step`) over the trace and compares results, `Len`, `Keys` (under the
bucket order read off the observation), `Values`, the chain dump per hash code, the fields of the
node a `Delete` handed to the pool, and the linked list walked both ways.
`spec` mode uses only `Spec.step` (the abstract map keyed by `Equals`) and compares results, `Len`
and `Keys`/`Values` (as multisets for the unordered containers, exactly for the linked map). -/
namespace Driver.HashMap
open Ekit.HashMap Ekit.Go Driver

/-- a call's result: a token, or a list that may have to be compared up to order -/
inductive DRes where
  | tok (s : String)
  | list (xs : List String)
  | keys (ks : List Int)
  deriving Repr, DecidableEq, Inhabited

def splitList (s : String) : List String := if s = "-" ∨ s = "" then [] else s.splitOn ","
def joinList (xs : List String) : String := if xs.isEmpty then "-" else ",".intercalate xs
def sortStrs (xs : List String) : List String := xs.mergeSort fun a b => !(decide (b < a))
def sortInts (xs : List Int) : List Int := xs.mergeSort fun a b => decide (a ≤ b)

def rInt (v : Int) : String := toString v
/-- a multi-map value: "1.2.3", "e" when empty -/
def rList (v : List Int) : String := if v.isEmpty then "e" else ".".intercalate (v.map toString)

def resOf {V : Type} (rv : V → String) : Out V → DRes
  | .ok .unit => .tok "ok"
  | .ok (.found v) => .tok ("ok:" ++ rv v)
  | .ok .missing => .tok "miss"
  | .ok (.int n) => .tok s!"ok:{n}"
  | .ok (.keys ks) => .keys ks
  | .ok (.vals vs) => .list (vs.map rv)
  | .err e => .tok e.render
  | .panic m => .tok ("panic:" ++ m.replace " " "_")

def isFound {V : Type} : Out V → Bool
  | .ok (.found _) => true
  | _ => false

def parseOpInt (ws : List String) : Option (Op Int) :=
  match ws with
  | ["put", k, v] => do pure (.put (← parseInt? k) (← parseInt? v))
  | ["get", k] => (parseInt? k).map .get
  | ["delete", k] => (parseInt? k).map .delete
  | ["len"] => some .len
  | ["keys"] => some .keys
  | ["values"] => some .values
  | _ => none

def parseOpList (ws : List String) : Option (Op (List Int)) :=
  match ws with
  | ["put", k, vs] => do pure (.put (← parseInt? k) (← parseInts vs))
  | ["get", k] => (parseInt? k).map .get
  | ["delete", k] => (parseInt? k).map .delete
  | ["len"] => some .len
  | ["keys"] => some .keys
  | ["values"] => some .values
  | _ => none

def parseSetOp (ws : List String) : Option SetOp :=
  match ws with
  | ["add", k] => (parseInt? k).map .add
  | ["exist", k] => (parseInt? k).map .exist
  | ["delete", k] => (parseInt? k).map .delete
  | ["keys"] => some .keys
  | _ => none

/-- key lists agree: exactly (`eqv = none`), or — for the specification, which does not say which of
    several `Equals` keys a map hands back — up to `Equals`: same length, position-wise `Equals` when
    the order is promised, otherwise the observed keys are pairwise not `Equals` and each is `Equals`
    to an expected one -/
def keysMatch (eqv : Option (Int → Int → Bool)) (ordered : Bool) (want got : List Int) : Bool :=
  match eqv with
  | none => if ordered then got == want else sortInts got == sortInts want
  | some eq =>
    got.length == want.length &&
    (if ordered then (List.zipWith eq want got).all id
     else got.all (fun k => want.any (eq · k)) &&
          (List.range got.length).all fun i => (List.range i).all fun j =>
            !(eq (got.getD j 0) (got.getD i 0)))

/-- does the observed result token agree with the expected result? -/
def resMatches (eqv : Option (Int → Int → Bool)) (exact : Bool) (want : DRes) (got : String) : Bool :=
  match want with
  | .tok s => s == got
  | .list xs =>
    if got.startsWith "ok:" then
      let g := splitList (got.drop 3).toString
      if exact then g == xs else sortStrs g == sortStrs xs
    else false
  | .keys ks =>
    if got.startsWith "ok:" then
      match parseInts (got.drop 3).toString with
      | some g => keysMatch eqv exact ks g
      | none => false
    else false

def showRes : DRes → String
  | .tok s => s
  | .list xs => "ok:" ++ joinList xs
  | .keys ks => "ok:" ++ renderInts ks

/-! ### model mode -/

/-- what the generic acceptor needs to know about one container's model -/
structure View (σ : Type) where
  /-- one call; the `Bool` says that a node went to the pool (successful `Delete`) -/
  step : σ → Oracle → List String → Option (σ × DRes × Bool)
  /-- the `sync.Pool.Get` choices worth trying -/
  poolCands : σ → List (Option Nat)
  /-- keys of the Go map -/
  codes : σ → List Int
  /-- the user's `Code` -/
  code : Int → Int
  len : σ → Int
  keysIn : σ → List Int → List Int
  vals : σ → Option (List String)
  /-- white-box fields of the observation -/
  white : σ → List (String × String)
  /-- rendering of the node most recently handed to the pool -/
  freed : σ → Option String
  /-- `Keys`/`Values` promise an order -/
  ordered : Bool

def insertByCode {β : Type} (b : Int × β) : List (Int × β) → List (Int × β)
  | [] => [b]
  | x :: r => if b.1 ≤ x.1 then b :: x :: r else x :: insertByCode b r

def renderChains {V : Type} (rv : V → String) (bs : List (Int × Chain V)) : String :=
  let sorted := bs.foldr insertByCode []
  if sorted.isEmpty then "-" else
  ";".intercalate (sorted.map fun (c, ch) =>
    s!"{c}:" ++ (if ch.isEmpty then "nilhead" else ",".intercalate (ch.map fun (k, v) => s!"{k}/{rv v}")))

/-- indices of pairwise different pooled nodes (identical ones are interchangeable), then a new node -/
def poolCandsOf {V : Type} [DecidableEq V] (pool : List (PNode V)) : List (Option Nat) :=
  let idx := (List.range pool.length).filter fun i =>
    !((List.range i).any fun j => pool[j]? == pool[i]?)
  idx.map some ++ [none]

def renderFreed {V : Type} (rv : V → String) (pool : List (PNode V)) : Option String :=
  pool.head?.map fun n => s!"{n.key}/{rv n.value}/{if n.tail.isEmpty then 0 else 1}"

def hashView (h : Hashable) : View (HMap Int) where
  step m o ws := (parseOpInt ws).map fun op =>
    let r := m.step h o op
    (r.1, resOf rInt r.2, (match op with | .delete _ => isFound r.2 | _ => false))
  poolCands m := poolCandsOf m.pool
  codes m := m.buckets.map (·.1)
  code := h.code
  len m := m.len (m.buckets.map (·.1))
  keysIn m order := m.keys order
  vals m := some ((m.values (m.buckets.map (·.1))).map rInt)
  white m := [("chains", renderChains rInt m.buckets)]
  freed m := renderFreed rInt m.pool
  ordered := false

def multiView (h : Hashable) : View (HMap (List Int)) where
  step m o ws := (parseOpList ws).map fun op =>
    let r := multiStep (hashMapi h (List Int)) m o op
    (r.1, resOf rList r.2, (match op with | .delete _ => isFound r.2 | _ => false))
  poolCands m := poolCandsOf m.pool
  codes m := m.buckets.map (·.1)
  code := h.code
  len m := m.len (m.buckets.map (·.1))
  keysIn m order := m.keys order
  vals m := some ((m.values (m.buckets.map (·.1))).map rList)
  white m := [("chains", renderChains rList m.buckets)]
  freed m := renderFreed rList m.pool
  ordered := false

def rEntry (l : LMap Int) (id : Nat) : String :=
  if id = 0 then "nil" else
  match l.deref id with
  | some n => s!"{n.key}~{n.value}"
  | none => "dangling"

def linkedView (h : Hashable) : View (LMap Int) where
  step l o ws := (parseOpInt ws).map fun op =>
    let r := l.step h o op
    (r.1, resOf rInt r.2, (match op with | .delete _ => isFound r.2 | _ => false))
  poolCands l := poolCandsOf l.m.pool
  codes l := l.m.buckets.map (·.1)
  code := h.code
  len l := l.length
  keysIn l _ := l.list.map (·.key)
  vals l := some (l.list.map fun n => rInt n.value)
  white l :=
    let walk := joinList (l.list.map fun n => s!"{n.key}~{n.value}")
    [("chains", renderChains (rEntry l) l.m.buckets), ("fwd", walk), ("bwd", walk)]
  freed l := renderFreed (fun id => if id = 0 then "nil" else "ptr") l.m.pool
  ordered := true

def builtinView : View (BMap Int) where
  step b o ws := (parseOpInt ws).map fun op =>
    let r := b.step o op
    (r.1, resOf rInt r.2, false)
  poolCands _ := [none]
  codes b := b.map (·.1)
  code := fun k => k
  len b := b.length
  keysIn b order := b.keys order
  vals b := some ((b.values (b.map (·.1))).map rInt)
  white _ := []
  freed _ := none
  ordered := false

def multibView : View (BMap (List Int)) where
  step b o ws := (parseOpList ws).map fun op =>
    let r := multiStep (builtinMapi (List Int)) b o op
    (r.1, resOf rList r.2, false)
  poolCands _ := [none]
  codes b := b.map (·.1)
  code := fun k => k
  len b := b.length
  keysIn b order := b.keys order
  vals b := some ((b.values (b.map (·.1))).map rList)
  white _ := []
  freed _ := none
  ordered := false

def setView : View (BMap Unit) where
  step b o ws := (parseSetOp ws).map fun op =>
    let r := MapSet.step b o op
    (r.1, resOf (fun _ => "1") r.2, false)
  poolCands _ := [none]
  codes b := b.map (·.1)
  code := fun k => k
  len b := (BMap.keys b (b.map (·.1))).length        -- the harness prints len(Keys())
  keysIn b order := BMap.keys b order
  vals _ := none
  white _ := []
  freed _ := none
  ordered := false

/-- the constraint on the iteration-order oracle (`Oracle.Valid` / `BMap.OrderValid`): the order read
    off an observed key listing must visit every slot of the Go map exactly once.  Without this check a
    `Keys()` that skips whole buckets would be "explained" by an order that omits them. -/
def isPermInts (a b : List Int) : Bool := sortInts a == sortInts b

/-- compare the state dump that follows every call -/
def checkDump {σ : Type} (v : View σ) (st : σ) (obs : String) : Option String :=
  if field obs "cycle" == some "1" then some "a chain or the entry list is cyclic" else
  let obsKeys := (fieldInts obs "keys").getD []
  let order := (obsKeys.map v.code).eraseDups
  let wantKeys := v.keysIn st order
  if fieldInt obs "len" ≠ some (v.len st) then some s!"Len want {v.len st}"
  else if !isPermInts order (v.codes st) then
    some s!"Keys does not visit every bucket exactly once: visited {renderInts order}, buckets {renderInts (v.codes st)}"
  else if fieldInts obs "keys" ≠ some wantKeys then some s!"Keys want {renderInts wantKeys} (bucket order {renderInts order})"
  else
    let valsBad : Option String := match v.vals st with
      | none => none
      | some want =>
        let got := splitList ((field obs "vals").getD "?")
        if (if v.ordered then got == want else sortStrs got == sortStrs want) then none
        else some s!"Values want {joinList want}"
    match valsBad with
    | some m => some m
    | none =>
      match (v.white st).find? fun (n, w) => field obs n ≠ some w with
      | some (n, w) => some s!"{n} want {w}"
      | none => none

def stepModel {σ : Type} (v : View σ) (st : σ) (ws : List String) (obs : String) : σ × Option String :=
  let got := resultTok obs
  let resKeys : Option (List Int) := if got.startsWith "ok:" then parseInts (got.drop 3).toString else none
  let opOrder : List Int :=
    if ws == ["keys"] then ((resKeys.map fun ks => (ks.map v.code).eraseDups).getD (v.codes st)) else v.codes st
  let cands := if ws.head? == some "put" then v.poolCands st else [none]
  let tries := cands.filterMap fun c => v.step st ⟨c, opOrder⟩ ws
  if !isPermInts opOrder (v.codes st) then
    (st, some s!"Keys does not visit every bucket exactly once: visited {renderInts opOrder}, buckets {renderInts (v.codes st)}")
  else
  match tries with
  | [] => (st, some s!"bad-op {ws}")
  | first :: _ =>
    let pick := (tries.find? fun t => (v.white t.1).all fun (n, w) => field obs n == some w).getD first
    let (st', res, pooled) := pick
    let exact := v.ordered || ws == ["keys"]
    if !resMatches none exact res got then (st', some s!"result want {showRes res} got {got}")
    else
      match checkDump v st' obs with
      | some m => (st', some m)
      | none =>
        let wantFreed := if pooled then v.freed st' else none
        if field obs "freed" ≠ wantFreed then (st', some s!"pooled node want {wantFreed}")
        else (st', none)

/-! ### spec mode -/

structure SpecView (τ : Type) where
  step : τ → List String → Option (τ × DRes)
  len : τ → Int
  keys : τ → List Int
  vals : τ → Option (List String)
  ordered : Bool
  /-- the user's `Equals` -/
  eqv : Int → Int → Bool

def specViewInt (h : Hashable) (ordered : Bool) : SpecView (Spec.State Int) where
  step s ws := (parseOpInt ws).map fun op => let r := Spec.step h s op; (r.1, resOf rInt r.2)
  len s := s.length
  keys s := s.map (·.1)
  vals s := some (s.map fun e => rInt e.2)
  ordered := ordered
  eqv := h.equals

def specViewMulti (h : Hashable) : SpecView (Spec.State (List Int)) where
  step s ws := (parseOpList ws).map fun op => let r := Spec.multiStep h s op; (r.1, resOf rList r.2)
  len s := s.length
  keys s := s.map (·.1)
  vals s := some (s.map fun e => rList e.2)
  ordered := false
  eqv := h.equals

def specViewSet : SpecView (Spec.State Unit) where
  step s ws := (parseSetOp ws).map fun op => let r := Spec.setStep s op; (r.1, resOf (fun _ => "1") r.2)
  len s := s.length
  keys s := s.map (·.1)
  vals _ := none
  ordered := false
  eqv := idHashable.equals

def checkDumpSpec {τ : Type} (v : SpecView τ) (s : τ) (obs : String) : Option String :=
  if field obs "cycle" == some "1" then some "a chain or the entry list is cyclic: an entry is listed more than once" else
  let normS (xs : List String) := if v.ordered then xs else sortStrs xs
  if fieldInt obs "len" ≠ some (v.len s) then some s!"Len want {v.len s}"
  else if !(((fieldInts obs "keys").map (keysMatch (some v.eqv) v.ordered (v.keys s))).getD false) then
    some s!"Keys want {renderInts (v.keys s)}"
  else match v.vals s with
    | none => none
    | some want =>
      if normS (splitList ((field obs "vals").getD "?")) == normS want then none
      else some s!"Values want {joinList want}"

def stepSpec {τ : Type} (v : SpecView τ) (s : τ) (ws : List String) (obs : String) : τ × Option String :=
  match v.step s ws with
  | none => (s, some s!"bad-op {ws}")
  | some (s', res) =>
    let got := resultTok obs
    if !resMatches (some v.eqv) v.ordered res got then (s', some s!"result want {showRes res} got {got}")
    else (s', checkDumpSpec v s' obs)

/-! ### the checker -/

inductive St where
  | none
  /-- a case the harness could not construct black-box (`=> na`): its lines are skipped -/
  | skip
  | hashM (h : Hashable) (m : HMap Int)
  | multiM (h : Hashable) (m : HMap (List Int))
  | linkedM (h : Hashable) (l : LMap Int)
  | builtinM (b : BMap Int)
  | multibM (b : BMap (List Int))
  | setM (b : BMap Unit)
  | intS (h : Hashable) (ordered : Bool) (s : Spec.State Int)
  | multiS (h : Hashable) (s : Spec.State (List Int))
  | setS (s : Spec.State Unit)

instance : Inhabited St := ⟨.none⟩

def mkState (model : Bool) (container kind : String) : Option St :=
  let hk : Option Hashable := if kind == "id" then some idHashable else keyKind kind
  match hk with
  | none => none
  | some h =>
    match container, model with
    | "hash", true => some (.hashM h HMap.empty)
    | "hash", false => some (.intS h false [])
    | "linked", true => some (.linkedM h LMap.empty)
    | "linked", false => some (.intS h true [])
    | "multi", true => some (.multiM h HMap.empty)
    | "multi", false => some (.multiS h [])
    | "multib", true => some (.multibM [])
    | "multib", false => some (.multiS idHashable [])
    | "builtin", true => some (.builtinM [])
    | "builtin", false => some (.intS idHashable false [])
    | "set", true => some (.setM [])
    | "set", false => some (.setS [])
    | _, _ => none

/-- the dump printed right after the constructor -/
def checkNew (st : St) (obs : String) : Option String :=
  match st with
  | .none => some "no-container"
  | .skip => none
  | .hashM h m => checkDump (hashView h) m obs
  | .multiM h m => checkDump (multiView h) m obs
  | .linkedM h l => checkDump (linkedView h) l obs
  | .builtinM b => checkDump builtinView b obs
  | .multibM b => checkDump multibView b obs
  | .setM b => checkDump setView b obs
  | .intS h o s => checkDumpSpec (specViewInt h o) s obs
  | .multiS h s => checkDumpSpec (specViewMulti h) s obs
  | .setS s => checkDumpSpec specViewSet s obs

def stepSt (st : St) (ws : List String) (obs : String) : St × Option String :=
  match st with
  | .none => (.none, some "no-container")
  | .skip => (.skip, if obs == "na" then none else some "unexpected observation in a skipped case")
  | .hashM h m => let r := stepModel (hashView h) m ws obs; (.hashM h r.1, r.2)
  | .multiM h m => let r := stepModel (multiView h) m ws obs; (.multiM h r.1, r.2)
  | .linkedM h l => let r := stepModel (linkedView h) l ws obs; (.linkedM h r.1, r.2)
  | .builtinM b => let r := stepModel builtinView b ws obs; (.builtinM r.1, r.2)
  | .multibM b => let r := stepModel multibView b ws obs; (.multibM r.1, r.2)
  | .setM b => let r := stepModel setView b ws obs; (.setM r.1, r.2)
  | .intS h o s => let r := stepSpec (specViewInt h o) s ws obs; (.intS h o r.1, r.2)
  | .multiS h s => let r := stepSpec (specViewMulti h) s ws obs; (.multiS h r.1, r.2)
  | .setS s => let r := stepSpec specViewSet s ws obs; (.setS r.1, r.2)

def checker (model : Bool) : Checker where
  σ := St
  init := .none
  step st op obs :=
    let ws := words op
    match ws with
    | ["new", container, kind, _size] =>
      match mkState model container kind with
      | none => (.none, some s!"bad-op {op}")
      | some st' =>
        if obs == "na" then
          -- only the black-box stub of the hook prints `na`, and only for the unexported builtinMap wrapper;
          -- a white-box (model-mode) run, or any other container, must never be skipped
          if !model && container == "builtin" then (.skip, none)
          else (.none, some s!"case not run (`na`) although {container} can be constructed{if model then " white-box" else ""}")
        else if resultTok obs ≠ "ok" then (.none, some s!"constructor failed: {obs}")
        else (st', checkNew st' obs)
    | _ =>
      if (words obs).contains "hang=1" then (st, some "the call did not return (a chain or the entry list is cyclic)")
      else stepSt st ws obs

end Driver.HashMap
