import Driver.Util
import Std.Data.HashSet
import Ekit.Conc.LinCheck
import Ekit.Spec.BQueue
import Ekit.Model.ArrayBQ
import Ekit.Model.LinkedBQ
/-!
Trace acceptor for C07 (blocking queues).  Producer of the lines: `harness/bqueue/main.go`.

`spec` mode (the oracle): every recorded history must be linearizable w.r.t. the bounded FIFO
specification `Ekit.BQ.bqExec` (exhaustive search, `budgetExceeded` is never a violation), plus the
monitors the property names: sampled `Len()` within `[0, cap]`, exactly-once / FIFO accounting at
quiescence, per-producer order at consumers, and "a call that returned a context error left the
remaining capacity intact" (the fill/drain phase accepts exactly `cap - len` more elements and
delivers contents ++ them in order).  Also in both modes: a call that answered a context error while its
context was still live after the call (`spur`, observed by the harness) is rejected; every `Len()` /
`AsSlice()` answer recorded in the history is re-checked against the capacity and the offered values
(`readResults`, also for the storms that are too long for the search); `Len()` = `len(AsSlice())` at
quiescence; a `hang` line is rejected here too (the harness stops the run at a hang, so accepting it
would acquit every later scenario unseen); the closing `end` line must agree with the number of
scenario lines read and at least 90% of the histories given to the search must have been decided.

`model` mode additionally runs the transition-system models the theorems are about
(`Ekit.ArrayBQ.step`, `Ekit.LinkedBQ.step`): sequential scenarios are replayed label by label and the
model's results and final white-box state (cursors, raw ring, free permits) must equal the observed
ones; for concurrent scenarios the quiescent white-box state must satisfy the proved invariants, and a
call whose context was cancelled before the call must answer the context error (as the model does).
-/
namespace Driver.BQueue
open Ekit.Conc Ekit.Conc.LinCheck Ekit.BQ Driver

/-! ### a pure version of `LinCheck.check` (the driver's `step` is a pure function) -/

structure LS where
  memo : Std.HashSet String := {}
  fuel : Nat

partial def dfs {S Op Ret} [Inhabited Op] (spec : ExecSpec S Op Ret) (calls : Array (Call Op Ret))
    (done : Nat) (s : S) : StateM LS Bool := do
  let mut allDone := true
  for i in [0:calls.size] do
    if (done >>> i) % 2 == 0 && calls[i]!.res.isSome then allDone := false
  if allDone then return true
  let k := s!"{done}|{spec.key s}"
  let st ← get
  if st.memo.contains k then return false
  if st.fuel == 0 then return false
  set { st with memo := st.memo.insert k, fuel := st.fuel - 1 }
  let m := minRes calls done
  for i in [0:calls.size] do
    if (done >>> i) % 2 == 0 then
      let c := calls[i]!
      if c.inv < m then
        match c.res, c.ret with
        | some _, some r =>
          match spec.step s c.op r with
          | some s' => if (← dfs spec calls (done ||| (1 <<< i)) s') then return true
          | none => pure ()
        | _, _ =>
          for s' in spec.pend s c.op do
            if (← dfs spec calls (done ||| (1 <<< i)) s') then return true
  return false

def linCheck {S Op Ret} [Inhabited Op] (spec : ExecSpec S Op Ret) (calls : Array (Call Op Ret))
    (budget : Nat := 400000) : Verdict :=
  let (ok, st) := (dfs spec calls 0 spec.init).run { fuel := budget }
  if ok then .linearizable else if st.fuel == 0 then .budgetExceeded else .notLinearizable

/-! ### parsing -/

structure CallX where
  c : Call Op Ret
  ctx : String          -- none pre to cn, "" for len/asslice
  deriving Inhabited

def parseUnders (s : String) : Option (List Int) :=
  if s = "" then some [] else (s.splitOn "_").mapM (·.toInt?)

/-- events → calls (in invocation order); `none` on a malformed history -/
def parseHistory (h : String) : Option (Array CallX) := Id.run do
  let evs := if h = "" then [] else h.splitOn ","
  let mut calls : Array CallX := #[]
  let mut openCall : List (Nat × Nat) := []      -- tid ↦ index of its pending call
  let mut pos := 0
  for e in evs do
    match e.splitOn "." with
    | "i" :: t :: rest =>
      let some tid := t.toNat? | return none
      let opx : Option (Op × String) := match rest with
        | ["e", v, cx] => v.toInt?.map fun v => (Op.enq v, cx)
        | ["d", cx] => some (Op.deq, cx)
        | ["l"] => some (Op.len, "")
        | ["s"] => some (Op.asSlice, "")
        | _ => none
      let some (op, cx) := opx | return none
      if (openCall.lookup tid).isSome then return none
      openCall := (tid, calls.size) :: openCall
      calls := calls.push ⟨⟨tid, op, pos, none, none⟩, cx⟩
    | "r" :: t :: rest =>
      let some tid := t.toNat? | return none
      let r : Option Ret := match rest with
        | ["ok"] => some .ok
        | ["v", x] => x.toInt?.map .val
        | ["ctx"] => some .ctxErr
        | ["n", k] => k.toInt?.map .n
        | ["s", l] => (parseUnders l).map .slice
        | ["err"] => some .err
        | ["panic"] => some .err
        | _ => none
      let some r := r | return none
      let some idx := openCall.lookup tid | return none
      openCall := openCall.filter (·.1 ≠ tid)
      calls := calls.modify idx fun cx => { cx with c := { cx.c with res := some pos, ret := some r } }
    | _ => return none
    pos := pos + 1
  return some calls

/-! ### monitors -/

def enqOk (cs : Array CallX) : List (Nat × Int × Nat) :=      -- (producer, value, inv position)
  cs.toList.filterMap fun x => match x.c.op, x.c.ret with
    | .enq v, some .ok => some (x.c.tid, v, x.c.inv)
    | _, _ => none

def deqVals (cs : Array CallX) : List (Nat × Int × Nat) :=    -- (consumer, value, response position)
  cs.toList.filterMap fun x => match x.c.op, x.c.ret, x.c.res with
    | .deq, some (.val v), some p => some (x.c.tid, v, p)
    | _, _, _ => none

def hasPending (cs : Array CallX) : Bool := cs.any fun x => x.c.res.isNone

/-- every value whose Enqueue returned nil was delivered by exactly one Dequeue or is still in the
    queue, and nothing else was delivered (needs a complete history) -/
def exactlyOnce (cs : Array CallX) (final : List Int) : Option String :=
  let enq := (enqOk cs).map (·.2.1)
  let out := (deqVals cs).map (·.2.1) ++ final
  match enq.find? (fun v => out.count v ≠ 1) with
  | some v => some s!"exactly-once: value {v} enqueued-ok is delivered/visible {out.count v} times"
  | none =>
    match out.find? (fun v => enq.count v ≠ 1) with
    | some v => some s!"exactly-once: value {v} delivered/visible but enqueued-ok {enq.count v} times"
    | none => none

/-- values of one producer are seen by one consumer (and remain in the queue) in the order produced -/
def producerOrder (cs : Array CallX) (final : List Int) : Option String :=
  let enq := enqOk cs
  let info (v : Int) : Option (Nat × Nat) := (enq.find? (·.2.1 = v)).map fun e => (e.1, e.2.2)
  let deq := deqVals cs
  -- per consumer, in response order (a consumer's calls are sequential)
  let bad := deq.any fun a => deq.any fun b =>
    a.1 = b.1 && a.2.2 < b.2.2 &&
      (match info a.2.1, info b.2.1 with
       | some (pa, ia), some (pb, ib) => pa = pb && ib < ia
       | _, _ => false)
  if bad then some "per-producer order violated at a consumer" else
  -- what is left in the queue was produced after what left it (same producer), and is itself in order
  let bad2 := deq.any fun a => final.any fun f =>
      (match info a.2.1, info f with
       | some (pa, ia), some (pf, jf) => pa = pf && jf < ia
       | _, _ => false)
  if bad2 then some "an element still queued was produced before a delivered one of the same producer" else
  let rec ordered : List Int → Bool
    | [] => true
    | x :: rest => (rest.all fun y => match info x, info y with
        | some (px, ix), some (py, iy) => !(px = py && iy < ix)
        | _, _ => true) && ordered rest
  if ordered final then none else some "queued elements of one producer are out of order"

/-- `snap` scenarios (one producer): every AsSlice result is a contiguous run of the sequence of
    values whose Enqueue returned nil, in the order they were produced -/
def snapshots (cs : Array CallX) (mode : String) : Option String :=
  if mode ≠ "snap" then none else
  let produced := (enqOk cs).map (·.2.1)
  let isRun (l : List Int) : Bool :=
    match l with
    | [] => true
    | x :: _ => ((produced.dropWhile (· ≠ x)).take l.length) == l
  match cs.find? (fun c => match c.c.ret with
      | some (.slice l) => !isRun l
      | _ => false) with
  | some c => some s!"thread {c.c.tid}: AsSlice returned {repr c.c.ret}, not a contiguous run of the produced sequence"
  | none => none

structure Scn where
  kind : String
  cap : Int
  deriving Inhabited

def Scn.bound (s : Scn) : Option Nat := if 0 < s.cap then some s.cap.toNat else none

/-- re-derived from the raw history (every mode, also the storms that are too long for the search):
    every `Len()` answer lies in `[0, cap]`; every `AsSlice()` answer has at most `cap` elements, shows
    no element twice and shows only values some Enqueue of the history was invoked with (the zero value
    of a vacated slot in particular is none of them). -/
def readResults (sc : Scn) (cs : Array CallX) : Option String :=
  let offered : List Int := cs.toList.filterMap fun x => match x.c.op with
    | .enq v => some v
    | _ => none
  let over (k : Int) : Bool := match sc.bound with
    | some c => k > (c : Int)
    | none => false
  cs.toList.findSome? fun x => match x.c.ret with
    | some (.n k) =>
      if k < 0 then some s!"thread {x.c.tid}: Len() = {k}"
      else if over k then some s!"thread {x.c.tid}: Len() = {k} exceeds capacity {sc.cap}"
      else none
    | some (.slice l) =>
      if over l.length then some s!"thread {x.c.tid}: len(AsSlice()) = {l.length} exceeds capacity {sc.cap}"
      else if l.eraseDups.length ≠ l.length then some s!"thread {x.c.tid}: AsSlice() = {renderInts l} shows an element twice"
      else match l.find? (fun v => !offered.contains v) with
        | some v => some s!"thread {x.c.tid}: AsSlice() = {renderInts l} shows {v}, which no Enqueue was called with"
        | none => none
    | _ => none

/-- the fill/drain phase after the storm: exactly `cap - len` more are accepted, then delivered -/
def fillDrain (sc : Scn) (obs : String) (final : List Int) : Option String :=
  let fill := field obs "fill"
  let over := field obs "over"
  let drain := fieldInts obs "drain"
  let under := field obs "under"
  let want : Nat := match sc.bound with
    | some c => c - final.length
    | none => 3
  let filled : List Int := (List.range want).map fun (i : Nat) => (900001 : Int) + (i : Int)
  if fill ≠ some (toString want) then
    some s!"after the scenario the queue accepted fill={fill.getD "?"} elements, capacity left should be {want}"
  else if sc.bound.isSome && over ≠ some "ctx" then some s!"an Enqueue on the full queue answered {over.getD "?"}"
  else if drain ≠ some (final ++ filled) then
    some s!"drain delivered {field obs "drain" |>.getD "?"}, expected {renderInts (final ++ filled)}"
  else if under ≠ some "ctx" then some s!"a Dequeue on the drained queue answered {under.getD "?"}"
  else none

/-! ### model mode -/

namespace A
open Ekit.ArrayBQ
partial def drive (s : State) (fuel : Nat) : Option (State × Ret) :=
  if fuel = 0 then none else
  match s.pc 0 with
  | .ret r => (step s (.res 0 r)).map (·, r)
  | _ =>
    match step s (.tau 0) with
    | some s' => drive s' (fuel - 1)
    | none =>
      let s1 := if s.ctxDone 0 then s else (step s (.ctxEnd 0)).getD s
      match step s1 (.ctxArm 0) with
      | some s' => drive s' (fuel - 1)
      | none => none

def runCall (s : State) (op : Op) (early : Bool) : Option (State × Ret) := do
  let s1 ← step s (.inv 0 op)
  let s2 ← if early then step s1 (.ctxEnd 0) else some s1
  drive s2 200

/-- replay a sequential history on the model; returns the final state or an explanation -/
def replay (cap : Nat) (cs : Array CallX) : Except String State := do
  let mut s := init cap
  for x in cs do
    let some want := x.c.ret | throw "pending call in a sequential scenario"
    let pre := x.ctx == "pre"
    let try1 := runCall s x.c.op pre
    match try1 with
    | some (s', r) =>
      if r == want then s := s'
      else
        match runCall s x.c.op true with
        | some (s'', r') =>
          if r' == want && x.ctx ≠ "" then s := s''
          else throw s!"model answers {repr r} to {repr x.c.op} (ctx {x.ctx}), implementation {repr want}"
        | none => throw "model stuck"
    | none => throw "model stuck"
  return s

/-- the quiescent instance of the proved invariant (all threads idle) -/
def quiescentOk (cap : Nat) (head tail : Nat) (count : Int) (ef df : Nat) (data : List Int) : Option String :=
  if data.length ≠ cap then some "len(data) != capacity"
  else if count < 0 ∨ count > cap then some s!"count={count} outside [0,cap]"
  else if (ef : Int) + count ≠ cap then some s!"enqFree={ef} != cap - count"
  else if (df : Int) ≠ count then some s!"deqFree={df} != count"
  else if ¬ head < cap then some "head out of range"
  else if tail ≠ (head + count.toNat) % cap then some "tail != (head + count) mod cap"
  else none
end A

namespace L
open Ekit.LinkedBQ
partial def drive (s : State) (fuel : Nat) : Option (State × Ret) :=
  if fuel = 0 then none else
  match s.pc 0 with
  | .ret r => (step s (.res 0 r)).map (·, r)
  | _ =>
    match step s (.tau 0) with
    | some s' => drive s' (fuel - 1)
    | none =>
      let s1 := if s.ctxDone 0 then s else (step s (.ctxEnd 0)).getD s
      match step s1 (.ctxArm 0) with
      | some s' => drive s' (fuel - 1)
      | none => none

def runCall (s : State) (op : Op) (early : Bool) : Option (State × Ret) := do
  let s1 ← step s (.inv 0 op)
  let s2 ← if early then step s1 (.ctxEnd 0) else some s1
  drive s2 200

def replay (maxSize : Int) (cs : Array CallX) : Except String State := do
  let mut s := init maxSize
  for x in cs do
    let some want := x.c.ret | throw "pending call in a sequential scenario"
    let pre := x.ctx == "pre"
    match runCall s x.c.op pre with
    | some (s', r) =>
      if r == want then s := s'
      else
        match runCall s x.c.op true with
        | some (s'', r') =>
          if r' == want && x.ctx ≠ "" then s := s''
          else throw s!"model answers {repr r} to {repr x.c.op} (ctx {x.ctx}), implementation {repr want}"
        | none => throw "model stuck"
    | none => throw "model stuck"
  return s
end L

def parseWbA (w : String) : Option (Nat × Nat × Int × Nat × Nat × List Int) :=
  match w.splitOn ":" with
  | [h, t, c, e, d, data] => do
    pure (← h.toNat?, ← t.toNat?, ← c.toInt?, ← e.toNat?, ← d.toNat?, ← parseInts data)
  | _ => none

def modelChecks (sc : Scn) (mode : String) (cs : Array CallX) (obs : String) (final : List Int) : Option String :=
  -- a call whose context was cancelled before the call answers the context error in both models
  match cs.find? (fun x => x.ctx == "pre" && x.c.ret.isSome && x.c.ret ≠ some .ctxErr) with
  | some x => some s!"model: a call with an already cancelled context answered {repr x.c.ret} (thread {x.c.tid})"
  | none =>
  let wb := (field obs "wb").getD ""
  if wb = "skip" then
    -- black-box fallback (stub hooks): only the model's answers can be compared
    if mode ≠ "seq" then none
    else if sc.kind = "abq" then
      match A.replay sc.cap.toNat cs with
      | .error m => some s!"model replay: {m}"
      | .ok s => if Ekit.ArrayBQ.contents s ≠ final then some "model replay: final contents differ" else none
    else
      match L.replay sc.cap cs with
      | .error m => some s!"model replay: {m}"
      | .ok s => if s.q ≠ final then some "model replay: final contents differ" else none
  else if sc.kind = "abq" then
    match parseWbA wb with
    | none => some s!"bad white-box dump {wb}"
    | some (h, t, c, ef, df, data) =>
      let cap := sc.cap.toNat
      match A.quiescentOk cap h t c ef df data with
      | some m => some s!"model invariant at quiescence: {m}"
      | none =>
        let st : Ekit.ArrayBQ.State := { Ekit.ArrayBQ.init cap with data := data, head := h, tail := t, count := c, enqFree := ef, deqFree := df }
        if Ekit.ArrayBQ.contents st ≠ final then some "model: ring contents differ from AsSlice at quiescence"
        else if mode = "seq" then
          match A.replay cap cs with
          | .error m => some s!"model replay: {m}"
          | .ok s =>
            if s.head ≠ h ∨ s.tail ≠ t ∨ s.count ≠ c ∨ s.enqFree ≠ ef ∨ s.deqFree ≠ df ∨ s.data ≠ data then
              some s!"model replay: final state head={s.head} tail={s.tail} count={s.count} enqFree={s.enqFree} deqFree={s.deqFree} data={renderInts s.data} differs from {wb}"
            else if s.panicked then some "model replay: model panicked" else none
        else none
  else
    match wb.splitOn ":" with
    | [ms, l] =>
      if ms.toInt? ≠ some sc.cap then some "model: maxSize differs from the constructor argument"
      else if l.toNat? ≠ some final.length then some "model: list length differs from AsSlice at quiescence"
      else if mode = "seq" then
        match L.replay sc.cap cs with
        | .error m => some s!"model replay: {m}"
        | .ok s => if s.q ≠ final then some s!"model replay: final contents {renderInts s.q}"
                   else if s.panicked then some "model replay: model panicked" else none
      else none
    | _ => some s!"bad white-box dump {wb}"

/-! ### the checker -/

/-- checks shared by C07 and the C09 share; `wake := true` adds the C09 conditions -/
def checkGo (model : Bool) (wake : Bool) (sc : Scn) (mode : String) (obs : String) : Option String × Option Verdict :=
  match (field obs "h").bind parseHistory with
  | none => (some "malformed history", none)
  | some cs =>
    -- linearizability (small histories; exhaustive)
    let linV : Option Verdict :=
      if wake then none
      else if cs.size ≤ 16 ∨ mode ≠ "big" then
        if cs.size > 60 then none else some (linCheck (bqExec sc.bound) (cs.map (·.c)))
      else none
    (·, linV) <|
    let hang := (field obs "hang").getD "?"
    let stuck := (field obs "stuck").getD "?"
    let wedged := (field obs "wedged").getD "-"
    if wedged ≠ "-" then
      some s!"the queue is wedged (leaked lock?): after the scenario's calls, some of which returned a context error, Len()/AsSlice()/Enqueue/Dequeue no longer return, ignoring their contexts (wedged={wedged} hang={(field obs "hang").getD "-"})"
    else if (field obs "postpanic").isSome then some s!"the queue panicked after the scenario: {(field obs "postpanic").getD ""}"
    else if wake && hang ≠ "-" then some s!"a call did not return although its context ended long ago (the bound): hang={hang}"
    else if wake && stuck ≠ "-" then some s!"a blocked call stayed blocked although it could proceed (lost wake-up): stuck={stuck}"
    -- "a context error only when the context ended": the harness looked at the call's context AFTER the
    -- call had returned the error and found it still live (contexts are monotone)
    else if field obs "spur" ≠ some "-" then
      some s!"a call answered a context error although its context had not ended (thread:op:ctx = {(field obs "spur").getD "?"})"
    else
    match cs.find? (fun x => x.c.ret = some .err) with
    | some x => some s!"thread {x.c.tid}: {repr x.c.op} failed with a non-context error or panicked"
    | none =>
    let lin : Option String :=
      match linV with
      | some .notLinearizable => some "history is not linearizable w.r.t. the bounded FIFO queue"
      | _ => none
    match lin with
    | some m => some m
    | none =>
    -- sampled Len()/AsSlice()
    match fieldInt obs "maxlen", fieldInt obs "minlen", fieldInt obs "maxslice" with
    | none, _, _ | _, none, _ | _, _, none => some "malformed sampler fields (maxlen/minlen/maxslice)"
    | some maxlen, some minlen, some maxslice =>
    let mon : Option String :=
      if wake then none
      else if minlen < 0 then some s!"Len() = {minlen} observed"
      else if sc.bound.isSome ∧ maxlen > sc.cap then some s!"Len() = {maxlen} exceeds capacity {sc.cap}"
      else if sc.bound.isSome ∧ maxslice > sc.cap then some s!"len(AsSlice()) = {maxslice} exceeds capacity {sc.cap}"
      else if field obs "dup" ≠ some "0" then some "AsSlice() showed an element twice"
      else if (field obs "zero").getD "0" ≠ "0" then some "AsSlice() showed the zero value of a dequeued slot"
      else if (field obs "torn").getD "0" ≠ "0" then some "AsSlice() is not in the order of the single producer's sequence"
      else (readResults sc cs).orElse fun _ => snapshots cs mode
    match mon with
    | some m => some m
    | none =>
    if hang ≠ "-" then
      -- no quiescent observations, an incomplete history, and the harness stops the run here: nothing
      -- after this scenario is executed, so accepting the line would acquit the rest of the run unseen
      some s!"a call did not return although its context ended long ago (hang={hang}): the history is incomplete and the run was stopped, the remaining scenarios were not executed"
    else
    match fieldInts obs "final" with
    | none => some "malformed final contents"
    | some final =>
      if fieldInt obs "flen" ≠ some (final.length : Int) then
        some s!"at quiescence Len() = {(field obs "flen").getD "?"} but AsSlice() has {final.length} elements"
      else
      let acct : Option String :=
        if wake then none
        else if hasPending cs then none
        else (exactlyOnce cs final).orElse fun _ => producerOrder cs final
      match acct with
      | some m => some m
      | none =>
      match fillDrain sc obs final with
      | some m => some m
      | none => if model then modelChecks sc mode cs obs final else none

/-- the high-volume exactly-once monitor (`flood` lines, harness/bqueue/flood.go): the books kept by
    the harness must balance — every value whose Enqueue returned nil was delivered exactly once or is
    still in the queue, nothing was delivered that was never accepted (the zero value in particular),
    each consumer saw each producer's values in the order produced, the queue never exceeded its
    capacity, and the queue kept answering. -/
def checkFlood (wake : Bool) (capOf : Option Nat) (obs : String) : Option String :=
  let n (k : String) : Int := (fieldInt obs k).getD (-1)
  let w := (field obs "w").getD "?"
  let wedged := (field obs "wedged").getD "?"
  if wedged ≠ "-" then some s!"the queue is wedged (leaked lock?): producers/consumers of the flood scenario no longer return, ignoring their contexts (wedged={wedged})"
  else if n "spur" ≠ 0 then
    some s!"{n "spur"} Enqueue/Dequeue calls of the flood answered an error although their context had not ended"
  else if wake then none
  else if n "invented" ≠ 0 then
    some s!"a Dequeue returned a value no Enqueue was accepted for ({n "invented"} times, {n "zero"} of them the zero value); witness {w}"
  else if n "lost" ≠ 0 then
    some s!"{n "lost"} values whose Enqueue returned nil were never delivered and are not in the queue; witness {w}"
  else if n "dup" ≠ 0 then some s!"{n "dup"} values were delivered more than once; witness {w}"
  else if n "ord" ≠ 0 then some s!"per-producer FIFO order violated at a consumer {n "ord"} times; witness {w}"
  else if n "overcap" ≠ 0 then some "the quiescent queue holds more elements than its capacity"
  else if n "accepted" < 0 ∨ n "delivered" < 0 ∨ n "left" < 0 ∨ n "accepted" ≠ n "delivered" + n "left" then
    some s!"exactly-once books do not balance: accepted={n "accepted"} delivered={n "delivered"} left={n "left"}"
  else if n "final" ≠ n "left" ∨ n "flen" ≠ n "left" then
    some s!"at quiescence Len() = {n "flen"} and len(AsSlice()) = {n "final"}, but {n "left"} accepted values are still queued"
  else if (match capOf with | some c => decide (n "left" > (c : Int)) | none => false) then
    some s!"the quiescent queue holds {n "left"} elements, more than its capacity"
  else if n "accepted" = 0 ∨ n "delivered" = 0 then
    some s!"the flood moved nothing through the queue (accepted={n "accepted"} delivered={n "delivered"}): no evidence"
  else none

structure St where
  sc : Option Scn := none
  goSeen : Nat := 0          -- `go` lines seen
  floodSeen : Nat := 0
  linTried : Nat := 0        -- histories given to the linearizability search
  linOpen : Nat := 0         -- ... on which the search ran out of budget (never a violation by itself)

/-- the `end` line closes a run: the harness says how many scenario lines it wrote (a trace that lost
    lines is not evidence), and the linearizability search must have DECIDED at least 90% of the
    histories it was given (`budgetExceeded` is never a violation on one history, but a run in which
    the search decides next to nothing certifies nothing). -/
def checkEnd (wake : Bool) (st : St) (obs : String) : Option String :=
  if fieldNat obs "go" ≠ some st.goSeen ∨ fieldNat obs "flood" ≠ some st.floodSeen then
    some s!"the harness wrote go={(field obs "go").getD "?"} flood={(field obs "flood").getD "?"} scenario lines, the trace has {st.goSeen} and {st.floodSeen}"
  else if !wake ∧ st.linTried ≥ 20 ∧ st.linOpen * 10 > st.linTried then
    some s!"the linearizability search could not decide {st.linOpen} of {st.linTried} histories within its budget: the run is no evidence"
  else none

def mkChecker (model : Bool) (wake : Bool) : Checker where
  σ := St
  init := {}
  step st op obs :=
    match words op with
    | ["new", kind, c] =>
      match c.toInt? with
      | some c =>
        if (kind = "abq" ∧ c ≥ 1) ∨ kind = "lbq" then ({ st with sc := some ⟨kind, c⟩ }, none)
        else ({ st with sc := none }, some s!"bad-op {op}")
      | none => ({ st with sc := none }, some s!"bad-op {op}")
    | "call" :: _ => (st, if obs = "ok" then none else some s!"harness: {obs}")
    | "flood" :: _ =>
      match st.sc with
      | none => (st, some "no-queue")
      | some sc => ({ st with floodSeen := st.floodSeen + 1 }, checkFlood wake sc.bound obs)
    | "go" :: _ :: mode :: _ =>
      match st.sc with
      | none => (st, some "no-queue")
      | some sc =>
        let (msg, v) := checkGo model wake sc mode obs
        let st := { st with goSeen := st.goSeen + 1 }
        let st := match v with
          | some .budgetExceeded => { st with linTried := st.linTried + 1, linOpen := st.linOpen + 1 }
          | some _ => { st with linTried := st.linTried + 1 }
          | none => st
        (st, msg)
    | "end" :: _ => ({}, checkEnd wake st obs)
    | _ => (st, some s!"bad-op {op}")

def checker (model : Bool) : Checker := mkChecker model false

end Driver.BQueue
