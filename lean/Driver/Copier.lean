import Driver.Util
import Ekit.Model.Copier
import Ekit.Spec.Copier
/-! Trace acceptor for C20 (bean/copier). See harness/copier/{main,types,values}.go for the
producer of the lines and the type / value syntax. -/
namespace Driver.Copier
open Ekit.Copier Ekit.Go Driver

/-! ### parsing the type and value syntax -/

def untilSemi (cs : List Char) : Option (String × List Char) :=
  let (w, r) := cs.span (· ≠ ';')
  match r with
  | ';' :: r' => some (String.ofList w, r')
  | _ => none

def bkindOf : String → Option BKind
  | "bool" => some .bool | "int" => some .int | "int8" => some .int8 | "int16" => some .int16
  | "int32" => some .int32 | "int64" => some .int64 | "uint" => some .uint | "uint8" => some .uint8
  | "uint16" => some .uint16 | "uint32" => some .uint32 | "uint64" => some .uint64
  | "uintptr" => some .uintptr | "float32" => some .float32 | "float64" => some .float64
  | "complex64" => some .complex64 | "complex128" => some .complex128 | "string" => some .string
  | _ => none

mutual
partial def parseTy : List Char → Option (Ty × List Char)
  | 'k' :: cs => do
    let (w, r) ← untilSemi cs
    let k ← bkindOf w
    pure (.basic k, r)
  | 'n' :: cs => do
    let (w, r) ← untilSemi cs
    let id ← w.toNat?
    let (u, r') ← parseTy r
    pure (.named id u, r')
  | 's' :: cs => do let (e, r) ← parseTy cs; pure (.slice e, r)
  | 'a' :: cs => do
    let (w, r) ← untilSemi cs
    let n ← w.toNat?
    let (e, r') ← parseTy r
    pure (.arr n e, r')
  | 'm' :: cs => do
    let (k, r) ← parseTy cs
    let (v, r') ← parseTy r
    pure (.map k v, r')
  | 'c' :: cs => do let (e, r) ← parseTy cs; pure (.chan e, r)
  | 'f' :: cs => do let (w, r) ← untilSemi cs; let id ← w.toNat?; pure (.func id, r)
  | 'i' :: cs => do let (w, r) ← untilSemi cs; let id ← w.toNat?; pure (.iface id, r)
  | 'u' :: cs => some (.uptr, cs)
  | 'p' :: cs => do let (e, r) ← parseTy cs; pure (.ptr e, r)
  | 'T' :: cs => some (timeTy, cs)
  | '{' :: cs => parseFields cs []
  | _ => none
partial def parseFields : List Char → List Field → Option (Ty × List Char)
  | '}' :: cs, acc => some (.struct acc.reverse, cs)
  | cs, acc =>
    let (name, r) := cs.span (fun c => c ≠ '+' && c ≠ '-')
    match r with
    | '+' :: r' => do let (t, r'') ← parseTy r'; parseFields r'' ((String.ofList name, true, t) :: acc)
    | '-' :: r' => do let (t, r'') ← parseTy r'; parseFields r'' ((String.ofList name, false, t) :: acc)
    | _ => none
end

def parseTyStr (s : String) : Option Ty :=
  match parseTy s.toList with
  | some (t, []) => some t
  | _ => none

mutual
partial def parseVal : List Char → Option (Val × List Char)
  | 'z' :: cs => some (.nil, cs)
  | 'T' :: cs => some (.bool true, cs)
  | 'F' :: cs => some (.bool false, cs)
  | '#' :: cs => do let (w, r) ← untilSemi cs; let n ← w.toInt?; pure (.int n, r)
  | '\'' :: cs => do let (w, r) ← untilSemi cs; pure (.str w, r)
  | 'o' :: cs => do let (w, r) ← untilSemi cs; let n ← w.toNat?; pure (.opaque n, r)
  | '&' :: cs => do let (v, r) ← parseVal cs; pure (.ptr v, r)
  | '[' :: cs => do let (vs, r) ← parseVals ']' cs []; pure (.seq vs, r)
  | '(' :: cs => do let (vs, r) ← parseVals ')' cs []; pure (.arr vs, r)
  | '{' :: cs => do let (vs, r) ← parseVals '}' cs []; pure (.struct vs, r)
  | _ => none
partial def parseVals (close : Char) : List Char → List Val → Option (List Val × List Char)
  | [], _ => none
  | c :: cs, acc =>
    if c == close then some (acc.reverse, cs)
    else do let (v, r) ← parseVal (c :: cs); parseVals close r (v :: acc)
end

def parseValStr (s : String) : Option Val :=
  match parseVal s.toList with
  | some (v, []) => some v
  | _ => none

mutual
partial def renderVal : Val → String
  | .nil => "z"
  | .bool true => "T"
  | .bool false => "F"
  | .int n => s!"#{n};"
  | .str s => s!"'{s};"
  | .opaque n => s!"o{n};"
  | .ptr v => "&" ++ renderVal v
  | .seq vs => "[" ++ renderVals vs ++ "]"
  | .arr vs => "(" ++ renderVals vs ++ ")"
  | .struct vs => "{" ++ renderVals vs ++ "}"
partial def renderVals : List Val → String
  | [] => ""
  | v :: r => renderVal v ++ renderVals r
end

mutual
partial def renderTrie : List Node → String
  | ns => "[" ++ ",".intercalate (ns.map renderNode) ++ "]"
partial def renderNode : Node → String
  | .mk n s d leaf kids =>
    if leaf then s!"{n}/{s}/{d}/L" ++ (if kids.isEmpty then "" else "!kids")
    else s!"{n}/{s}/{d}/N" ++ renderTrie kids
end

/-! ### options and the converter table (same table as `convOpt` in the harness) -/

def intTy : Ty := .basic .int
def strTy : Ty := .basic .string

def convLib : String → Option (Option Conv)
  | "i2s" => some (some ⟨intTy, strTy, fun | .int n => some (.str (toString n)) | _ => none⟩)
  | "neg" => some (some ⟨intTy, intTy, fun | .int n => some (.int (-n)) | _ => none⟩)
  | "fail" => some (some ⟨intTy, intTy, fun _ => none⟩)
  | "s2i" => some (some ⟨strTy, intTy, fun | .str s => some (.int s.length) | _ => none⟩)
  | "pinc" => some (some ⟨.ptr intTy, .ptr intTy,
      fun | .nil => some .nil | .ptr (.int n) => some (.ptr (.int (n + 1))) | _ => none⟩)
  | "t2s" => some (some ⟨timeTy, strTy,
      fun | .struct [_, .int ext, _] => some (.str s!"t{ext - 62135596800}") | _ => none⟩)
  | "nil" => some none
  | _ => none

/-- `ign@<k>=A,B` / `conv@<k>=A:neg` name an option VALUE that the case holds and passes to several
    constructors / calls (harness: `optPool`). An option value is an immutable description of "ignore these
    fields" / "convert this field": where, how often and next to which other options it has been used
    before does not change what it means, so the word reads exactly like `ign=A,B` / `conv=A:neg`. -/
def plainOptWord (w : String) : String :=
  let cs := w.toList
  let (head, r) := cs.span (fun c => c ≠ '@' && c ≠ '=')
  match r with
  | '@' :: r' =>
    let h := String.ofList head
    if h == "ign" || h == "conv" then h ++ String.ofList (r'.dropWhile (· ≠ '=')) else w
  | _ => w

/-- the `ign=` / `conv=` words of an op, in order -/
def parseOptItems (ws0 : List String) : Option (List OptItem) :=
  (ws0.map plainOptWord).foldlM (init := []) fun acc w =>
    if w.startsWith "ign=" then
      let body := (w.drop 4).toString
      some (acc ++ [.ignoreFields (if body == "-" then [] else body.splitOn ",")])
    else if w.startsWith "conv=" then do
      let items ← ((w.drop 5).toString.splitOn ",").mapM fun fc =>
        match fc.splitOn ":" with
        | [f, c] => (convLib c).map (OptItem.convertField f)
        | _ => none
      some (acc ++ items)
    else some acc

/-! ### outcomes -/

def renderRes : Outcome Unit → String
  | .ok _ => "ok"
  | .err e => e.render
  | .panic _ => "panic"

def normTok (t : String) : String := if t.startsWith "panic" then "panic" else t

structure St where
  S : Ty
  D : Ty
  defaults : List OptItem
  /-- the model's copier (model mode) -/
  copier : Option Copier
  /-- did the real constructor succeed? -/
  built : Bool

def derefOr (v : Val) : Val := match v with | .ptr x => x | x => x

/-- the judgement of one constructor call (`new`, `sib`, `rebuild`): the state a case goes on with if it
    keeps this copier, and the complaint if any -/
def judgeBuild (model : Bool) (S D : Ty) (items : List OptItem) (got : String) (obs : String) : St × Option String :=
  if model then
    match newReflectCopier defaultAtomics S D items with
    | .ok c =>
      let st' := { S, D, defaults := items, copier := some c, built := got == "ok" : St }
      if got ≠ "ok" then (st', some s!"constructor: want ok got {got}")
      else if field obs "trie" ≠ some (renderTrie c.root.fields) then
        (st', some s!"trie: want {renderTrie c.root.fields}")
      else (st', none)
    | .err e =>
      let st' := { S, D, defaults := items, copier := none, built := got == "ok" : St }
      if got ≠ e.render then (st', some s!"constructor: want {e.render} got {got}") else (st', none)
    | .panic m =>
      let st' := { S, D, defaults := items, copier := none, built := got == "ok" : St }
      if got ≠ "panic" then (st', some s!"constructor: model panics ({m}) got {got}") else (st', none)
  else
    let st' := { S, D, defaults := items, copier := none, built := got == "ok" : St }
    if got == "panic" then (st', some s!"constructor panicked: {resultTok obs}")
    else if S.kind == .struct && D.kind == .struct && Spec.identicalB defaultAtomics (S.depth + 1) S D && got ≠ "ok" then
      (st', some s!"constructor must succeed when corresponding field types are identical, got {got}")
    else (st', none)

/-- `model := true`: the executable model the C20 theorems are about (result, error kind and field,
    trie, destination after — also after a failed call —, pure CopyTo);
    `model := false`: the property's statement only (`Spec.copyRel`, no panic, source unchanged,
    agreement and success on the stated families). -/
def checker (model : Bool) : Checker where
  σ := Option St
  init := none
  step st op obs :=
    let ws := words op
    let got := normTok (resultTok obs)
    match ws with
    | ["new", "L", "recursive"] =>
      -- a recursively DEFINED struct type (type N struct{V int; Next *N}) is outside the model's finite
      -- type trees; the property only demands that building the copier does not panic/crash: since the
      -- fix badc2e4 the constructor reports an error for it
      if got.startsWith "err" then (none, none)
      else (none, some s!"constructor on a recursive struct type must return an error, got {resultTok obs}")
    | ["new", "L", "purecyclic"] =>
      -- a cyclic VALUE (n.Next = n) is outside the model's finite value trees; the property demands that
      -- running a copier does not panic/crash: since the fix 9a0a893 the pure CopyTo reports an error
      if got.startsWith "err" then (none, none)
      else (none, some s!"pure CopyTo on a cyclic value must return an error, got {resultTok obs}")
    | "new" :: kind :: rest =>
      let optWords := if kind == "L" then rest.drop 1 else rest.drop 2
      if obs == "blackbox" then (none, if model then some "black-box run" else none) else
      match (field obs "src").bind parseTyStr, (field obs "dst").bind parseTyStr, parseOptItems optWords with
      | some S, some D, some items =>
        let (st', msg) := judgeBuild model S D items got obs
        (some st', msg)
      | _, _, _ => (none, some s!"bad-op-or-observation {op}")
    | opk :: _ =>
      match st with
      | none => (none, if obs == "no-copier" || obs == "no-case" then none else some "no-case")
      | some s =>
        if opk == "sib" || opk == "rebuild" then
          -- another constructor call for the same pair of types (the harness prints the types again: they
          -- must be the case's). Its options may be option values the case has used before: that changes
          -- nothing. `sib`: the copier is dropped; `rebuild`: the case goes on with it.
          match (field obs "src").bind parseTyStr, (field obs "dst").bind parseTyStr, parseOptItems (ws.drop 1) with
          | some S, some D, some items =>
            if S != s.S || D != s.D then (st, some "bad-observation: a sibling copier has the case's types")
            else
              let (st', msg) := judgeBuild model S D items got obs
              (if opk == "rebuild" then some st' else st, msg)
          | _, _, _ => (st, some s!"bad-op-or-observation {op}")
        else if got == "no-copier" then
          if model && s.copier.isSome then (st, some "the model built a copier")
          else if s.built then (st, some "no-copier after a successful constructor")
          else
            -- only the pure CopyTo was run
            match (field obs "src").bind parseValStr, (field obs "d0").bind parseValStr, (field obs "pd1").bind parseValStr with
            | some src, some d0, some pd1 =>
              let pure := normTok ((field obs "pure").getD "")
              if !wt s.S src || !wt s.D d0 then (st, some "bad-observation: ill-typed value")
              else if field obs "psame" ≠ some "1" then (st, some "the pure CopyTo modified the source")
              else if model then
                let pr := pureCopyTo (.ptr s.S) (.ptr src) (.ptr s.D) (.ptr d0)
                if renderRes pr.res ≠ pure then (st, some s!"pure result: want {renderRes pr.res} got {pure}")
                else if derefOr pr.dst ≠ pd1 then (st, some s!"pure destination: want {renderVal (derefOr pr.dst)}")
                else (st, none)
              else
                let pp : Spec.Params := ⟨[], .either, [], []⟩
                if pure == "panic" then (st, some s!"pure CopyTo panicked: {(field obs "pure").getD ""}")
                else if pure == "ok" && !Spec.copyRel pp s.S src s.D d0 pd1 then
                  (st, some "a successful pure CopyTo does not satisfy the specification")
                else if Spec.identicalB [] (s.S.depth + 1) s.S s.D && pure ≠ "ok" then
                  (st, some s!"pure CopyTo between identical field types must succeed, got {pure}")
                else (st, none)
            | _, _, _ => (st, if obs == "no-copier" then none else some "bad-observation")
        else if !s.built then (st, some "copy observed without a copier")
        else if opk == "nilarg" then
          if !model then (st, none)
          else
            let src := Val.ptr (zeroOf s.S)
            let dst := Val.ptr (zeroOf s.D)
            let want : Option String := match field op "which", s.copier with
              | some "dst", some c => some (renderRes (c.copyTo src .nil []).res)
              | some "src", some c => some (renderRes (c.copyTo .nil dst []).res)
              | some "puresrc", _ => some (renderRes (pureCopyTo (.ptr s.S) .nil (.ptr s.D) dst).res)
              | some "puredst", _ => some (renderRes (pureCopyTo (.ptr s.S) src (.ptr s.D) .nil).res)
              | some "pureboth", _ => some (renderRes (pureCopyTo (.ptr s.S) .nil (.ptr s.D) .nil).res)
              | _, _ => none
            match want with
            | some w => (st, if w == got then none else some s!"nil argument: want {w} got {got}")
            | none => (st, some "bad-op")
        else if opk ≠ "copy" ∧ opk ≠ "conc" then (st, some s!"bad-op {op}")
        else
          match (field obs "src").bind parseValStr, (field obs "d0").bind parseValStr,
                (field obs "d1").bind parseValStr, parseOptItems ws with
          | some src, some d0, some d1, some callOpts =>
            let isCopy := opk == "copy"
            let apiCopy := field op "api" == some "copy"
            let pure := normTok ((field obs "pure").getD "")
            let pd1 := (field obs "pd1").bind parseValStr
            if !wt s.S src || !wt s.D d0 then (st, some "bad-observation: ill-typed value")
            else if apiCopy && d0 ≠ zeroOf s.D then (st, some "bad-observation: Copy starts from a fresh destination")
            else if field obs "same" ≠ some "1" then (st, some "the source was modified")
            else if isCopy && field obs "psame" ≠ some "1" then (st, some "the pure CopyTo modified the source")
            else if !isCopy && field obs "allsame" ≠ some "1" then
              (st, some "a copier shared by several goroutines gave different results")
            else if isCopy && pd1.isNone then (st, some "bad-observation")
            else if model then
              match s.copier with
              | none => (st, some "the model has no copier")
              | some c =>
                let r := if apiCopy then c.copy (.ptr src) callOpts else c.copyTo (.ptr src) (.ptr d0) callOpts
                let pr := pureCopyTo (.ptr s.S) (.ptr src) (.ptr s.D) (.ptr d0)
                if renderRes r.res ≠ got then (st, some s!"result: want {renderRes r.res} got {got}")
                else if derefOr r.dst ≠ d1 then (st, some s!"destination: want {renderVal (derefOr r.dst)}")
                else if isCopy && renderRes pr.res ≠ pure then (st, some s!"pure result: want {renderRes pr.res} got {pure}")
                else if isCopy && some (derefOr pr.dst) ≠ pd1 then
                  (st, some s!"pure destination: want {renderVal (derefOr pr.dst)}")
                else (st, none)
            else
              let opts := ({} : Options).applyAll (s.defaults ++ callOpts)
              let p : Spec.Params := ⟨defaultAtomics, .either, opts.ignore, opts.conv⟩
              let pp : Spec.Params := ⟨[], .either, [], []⟩
              let noOpts := opts.ignore.isEmpty && opts.conv.isEmpty
              let identical := Spec.identicalB defaultAtomics (s.S.depth + 1) s.S s.D
              let identicalP := Spec.identicalB [] (s.S.depth + 1) s.S s.D
              if got == "panic" then (st, some s!"copy panicked: {resultTok obs}")
              else if isCopy && pure == "panic" then (st, some s!"pure CopyTo panicked: {(field obs "pure").getD ""}")
              else if got == "ok" && !Spec.copyRel p s.S src s.D d0 d1 then
                (st, some "a successful copy does not satisfy the specification (matching fields copied, zero source leaves skipped, ignored/unmatched fields untouched, converters applied)")
              else if isCopy && pure == "ok" && !Spec.copyRel pp s.S src s.D d0 (pd1.getD .nil) then
                (st, some "a successful pure CopyTo does not satisfy the specification")
              else if identical && opts.conv.isEmpty && got ≠ "ok" then
                (st, some s!"copy between identical field types must succeed, got {got}")
              else if isCopy && identicalP && pure ≠ "ok" then
                (st, some s!"pure CopyTo between identical types must succeed, got {pure}")
              else if isCopy && got == "ok" && pure == "ok" && noOpts && d0 == zeroOf s.D
                      && Spec.family defaultAtomics s.S && Spec.family defaultAtomics s.D && some d1 ≠ pd1 then
                (st, some "tree copier and pure CopyTo disagree on a fresh destination")
              else (st, none)
          | _, _, _, _ => (st, some s!"bad-op-or-observation {op}")
    | _ => (st, some "bad-op")

end Driver.Copier
