import Driver.Util
import Ekit.Model.PoolExplore
import Ekit.Spec.Pool
/-! Trace acceptor for C10/C11/C12 (task pool).  Producer of the lines: harness/pool/main.go.

* `seq` cases: `model` mode = the model's step function as an acceptor over all schedules
  (`Ekit.Pool.Explore`) plus the abstract laws; `spec` mode = the abstract laws only (`Ekit.Pool.Spec`).
* `conc` / `aim` cases (one line each): the abstract laws selected by `prop=`; `model` mode additionally
  compares the constructor's normalised configuration and the final white-box snapshot with the model. -/
namespace Driver.Pool
open Ekit.Pool Ekit.Pool.Explore Ekit.Pool.Spec Driver

/-- constructor arguments of a `new` line → the model's constructor -/
def parseCfg (op : String) : Except CtorErr Cfg :=
  let init := (fieldInt op "init").getD 1
  let q := (fieldInt op "q").getD 0
  let ord := ((field op "ord").getD "cmr").toList
  let opts : List Opt := ord.filterMap fun ch =>
    if ch == 'c' then (fieldInt op "core").map Opt.coreGo
    else if ch == 'm' then (fieldInt op "max").map Opt.maxGo
    else if ch == 'r' then (fieldInt op "rate").map fun r => Opt.rate r 1000
    else none
  newPool init q (opts ++ [Opt.idle])

def shortIdle (op : String) : Bool := ((fieldNat op "idle").getD 0) > 0

def parseSnap (obs : String) : Option Snap := do
  let st ← fieldNat obs "st"
  let go ← fieldNat obs "go"
  let grp ← fieldNat obs "grp"
  let q ← fieldNat obs "q"
  let dn ← fieldNat obs "dn"
  let runs ← fieldInts obs "runs"
  pure { st, go, grp, q, dn := dn == 1, runs := runs.map Int.toNat, unstable := (field obs "unstable").isSome,
         bb := field obs "wb" == some "na" }

def resOf (r : String) : Option Res :=
  if r == "ok" then some .ok
  else if r == "err:ctx" then some .errCtx
  else if r == "err:closing" then some .errClosing
  else if r == "err:stopped" then some .errStopped
  else if r == "err:started" then some .errStarted
  else if r == "err:notrunning" then some .errNotRunning
  else if r == "err:invalid" then some .errInvalid
  else none

/-- the model's task behaviours.  `bpanic` / `berr` (stay inside Run until released, then panic / return an
    error) are `.block` for the acceptor: the model ignores the value `task.Run` returns, and a panic followed by
    the wrapper's recover leaves the worker where a normal return leaves it (`c10_panic_contained`), so the
    snapshots of a released held task are the same whatever way it ends. -/
def behOf (b : String) : Beh := if held b then .block else if b == "panic" then .panic else .ret

structure SeqCtx where
  prop : String
  cfg : Cfg
  fire : Bool
  states : Option (Array St)      -- model mode; `none` = not tracked (budget exhausted / already reported)
  mon : SeqMon
  nsub : Nat := 0

/-- the model as acceptor for one op of a seq case -/
def modelOp (x : SeqCtx) (ss : Array St) (ws : List String) (res : String) : Outcome × Option String :=
  let c := x.cfg
  let callRes (inv : CAct) (ok : St → Bool) : Outcome × Option String := (call c x.fire ss inv ok, none)
  let plain (r : String) (inv : CAct) : Outcome × Option String :=
    match resOf r with
    | some rr => callRes inv fun s => (s.callers 0).res == rr
    | none => (.overflow, some s!"unknown result {r}")
  match ws with
  | "sub" :: beh :: _ => plain res (.invSubmit true (behOf beh))
  | ["subnil"] => plain res .invSubmitNil
  | ["start"] => plain res .invStart
  | ["shutdown"] => plain res .invShutdown
  | ["shutdownnow"] =>
    if res.startsWith "ok:" then
      match parseInts (res.drop 3).toString with
      | some ids => callRes .invShutdownNow fun s => (s.callers 0).res == .ok && s.returned == ids.map Int.toNat
      | none => (.overflow, some "bad returned list")
    else plain res .invShutdownNow
  | ["states"] =>
    if res.startsWith "gocnt:" then
      match (res.drop 6).toString.toNat? with
      | some n => callRes .invStates fun s => (s.callers 0).res == .goCnt n
      | none => (.overflow, none)      -- no sample within the time limit: not tracked further
    else callRes .invStates fun s => (s.callers 0).res == .errCtx
  | ["rel", i] => (env c x.fire ss (if res == "ok" then (i.toNat?).toList else []), none)
  | ["end"] => (env c x.fire ss (List.range x.nsub), none)
  | ["waitdone"] =>
    match env c x.fire ss [] with
    | .overflow => (.overflow, none)
    | .states ss' =>
      if res == "closed" then (.states (ss'.filter (·.cancelled)), none)
      else if res == "hang" then (.states (ss'.filter fun s => !s.cancelled && dead c x.fire s), none)
      else (.states ss', none)
  | _ => (env c x.fire ss [], none)

def seqStep (model : Bool) (x : SeqCtx) (op obs : String) : SeqCtx × Option String :=
  let ws := words op
  let res := resultTok obs
  match parseSnap obs with
  | none => (x, some s!"bad-observation {obs}")
  | some sn =>
    -- abstract laws
    let (mon1, e1) := x.mon.call ws res
    let mon1 := if ws == ["shutdownnow"] && res.startsWith "ok:" then
        { mon1 with returned := ((parseInts (res.drop 3).toString).getD []).map Int.toNat } else mon1
    -- an accepted blocking task that the scenario never released keeps Shutdown from completing by the
    -- scenario's own doing (only shrunk replays contain such cases): that hang is not the pool's
    let unreleased := mon1.tasks.any fun t => t.accepted && held t.beh && !t.released
    let rad := (fieldNat obs "runatdone").getD 0
    let rs := sn.runs.toArray
    let e2 : Option String :=
      if ws == ["waitdone"] && res == "hang" && x.prop == "C12" && !unreleased &&
         classify x.cfg x.fire sn.st sn.go sn.q = .other then
        some s!"C12 Shutdown never completed: unexplained hang st={sn.st} totalGo={sn.go} queue={sn.q}"
      else if ws == ["waitdone"] && res == "closed" && x.prop == "C12" then
        -- the channel *returned by Shutdown* was observed closed (the snapshot law below looks at the pool's
        -- context through the hook): no task inside Run at that instant, every accepted task finished,
        -- nothing queued
        if rad > 0 then some s!"C12 done channel closed while {rad} task(s) were still running"
        else if !sn.unstable && !sn.bb && sn.q != 0 then some s!"C12 done channel closed with {sn.q} tasks queued"
        else match (List.range mon1.tasks.size).find? (fun i =>
            (mon1.tasks.getD i default).accepted && !finished (mon1.tasks.getD i default) (rs.getD i 0)) with
          | some i => some s!"C12 done channel closed while accepted task {i} was not finished"
          | none => none
      else if ws == ["states"] && res.startsWith "gocnt:" && x.prop == "C11" &&
         ((res.drop 6).toString.toNat?).any (· > x.cfg.maxGo) then some s!"C11 States reported {res}, maxGo={x.cfg.maxGo}"
      else none
    let e3 := if sn.unstable then none
      else mon1.snap x.prop sn.go sn.q sn.dn sn.runs (ws == ["end"]) sn.bb (field obs "bbq" == some "1")
    let e1 := if x.prop == "C11" then e1 else none
    let nsub := if ws.head? == some "sub" then x.nsub + 1 else x.nsub
    let x1 := { x with mon := mon1, nsub := nsub }
    let specErr := e1 <|> e2 <|> e3
    -- the model as acceptor
    if model then
      match x.states with
      | none => (x1, specErr)
      | some ss =>
        let (out, perr) := modelOp x ss ws res
        match perr, out with
        | some e, _ => ({ x1 with states := none }, some e)
        | none, .overflow => ({ x1 with states := none }, specErr)
        | none, .states ss' =>
          let ss'' := ss'.filter (explains · sn)
          if ss''.isEmpty then
            ({ x1 with states := none },
             some (s!"no schedule of the model explains `{op}` => {res} with snapshot st={sn.st} go={sn.go} grp={sn.grp} q={sn.q} dn={sn.dn} runs={sn.runs}"
                   ++ (if ss'.isEmpty then " (the call's result itself is impossible in the model)" else "")
                   ++ (match specErr with | some e => "; " ++ e | none => "")))
          else ({ x1 with states := some ss'' }, specErr)
    else (x1, specErr)

/-! ### one-line cases -/

def splitOnC (s : String) (c : Char) : List String := if s == "-" || s == "" then [] else s.splitOn (String.singleton c)

def parseCalls (s : String) : Option (List CallObs) :=
  (splitOnC s ';').mapM fun item =>
    match item.splitOn ":" with
    | [k, r, i, e] => do pure ⟨k, r == "ok", ← i.toNat?, ← e.toNat?⟩
    | _ => none

def parseTasks (s : String) : Option (List TaskObs) :=
  (splitOnC s ';').mapM fun item =>
    match item.splitOn ":" with
    | [sub, beh, runs, marked, fin, inv, res] => do
      pure ⟨sub, beh, ← runs.toNat?, ← marked.toNat?, ← fin.toNat?, ← inv.toNat?, ← res.toNat?⟩
    | _ => none

def parseConc (c : Cfg) (obs : String) : Option ConcObs := do
  let hwm ← fieldNat obs "hwm"
  let gomax ← fieldInt obs "gomax"
  let before ← fieldNat obs "before"
  let afterDone ← fieldNat obs "afterdone"
  let calls ← (field obs "calls").bind parseCalls
  let tasks ← (field obs "tasks").bind parseTasks
  let dseq ← fieldNat obs "dseq"
  let done ← field obs "done"
  let st ← fieldNat obs "st"
  let go ← fieldNat obs "go"
  let q ← fieldNat obs "q"
  pure { maxGo := c.maxGo, hwm, gomax, before, afterDone, calls, tasks, dseq, done, st, go, q,
         unstable := (field obs "unstable").isSome, bb := field obs "wb" == some "na",
         cstart := (fieldNat obs "cstart").getD 0, bbq := field obs "bbq" == some "1" }

def burstStep (cfg : Cfg) (obs : String) : Option String :=
  match fieldNat obs "maxpeak", fieldInt obs "maxgocnt", fieldInt obs "maxtotal", fieldInt obs "badrep" with
  | some pk, some gc, some tot, some br => burstLaw cfg.maxGo pk gc tot br
  | _, _, _, _ => some s!"bad-observation {obs}"

def idleSubStep (obs : String) : Option String :=
  match fieldNat obs "lost", fieldNat obs "dup", fieldInt obs "badit" with
  | some l, some d, some b => idleSubLaw l d b
  | _, _, _ => some s!"bad-observation {obs}"

def gburstStep (obs : String) : Option String :=
  match fieldNat obs "late", fieldNat obs "floorviol", fieldNat obs "lost", fieldNat obs "dup" with
  | some la, some fv, some l, some d =>
    gburstLaw la fv l d ((fieldInt obs "core").getD (-1)) ((fieldInt obs "badlow").getD (-1))
      ((fieldInt obs "badpeak").getD (-1)) ((fieldInt obs "badtrial").getD (-1))
  | _, _, _, _ => some s!"bad-observation {obs}"

def handoffStep (cfg : Cfg) (fire : Bool) (obs : String) : Option String :=
  match fieldNat obs "early", fieldNat obs "cstart", fieldNat obs "hangs", fieldInt obs "badround" with
  | some e, some cs, some h, some br => handoffLaw e cs h br (classify cfg fire 3 0 0)
  | _, _, _, _ => some s!"bad-observation {obs}"

/-- constructor law (C11 `ctor_rejects`): the real constructor rejects exactly what `newPool` rejects;
    white-box: the normalised initGo/coreGo/maxGo are the model's -/
def ctorCheck (model : Bool) (prop : String) (cfg : Except CtorErr Cfg) (obs : String) : Option String :=
  let ctor := (field obs "ctor").getD ""
  match cfg with
  | .error e =>
    if ctor == "ok" && (prop == "C11" || model) then some s!"C11 constructor accepted arguments that must be rejected ({repr e})" else none
  | .ok c =>
    if ctor != "ok" then
      (if prop == "C11" || model then some s!"C11 constructor rejected valid arguments: {ctor}" else none)
    else if model && (field obs "cfg").isSome && field obs "cfg" != some s!"{c.initGo}/{c.coreGo}/{c.maxGo}" then
      some s!"constructor normalisation: model {c.initGo}/{c.coreGo}/{c.maxGo}, real {(field obs "cfg").getD "?"}"
    else none

def concStep (model : Bool) (prop : String) (cfg : Cfg) (fire : Bool) (obs : String) : Option String :=
  match parseConc cfg obs with
  | none => some s!"bad-observation {obs}"
  | some o =>
    let cls := classify cfg fire o.st o.go o.q
    let law := if prop == "C10" then c10Conc o else if prop == "C11" then c11Conc o else c12Conc o cls
    -- tasks inside Run at the instant the channel returned by Shutdown was observed closed
    let rad := (fieldNat obs "runatdone").getD 0
    let law := if prop == "C12" && o.done == "closed" && rad > 0 then
        some s!"C12 done channel closed while {rad} task(s) were still running" else law
    let wb : Option String :=
      if model && !o.unstable && !o.bb then
        -- white-box facts proved for the model: totalGo ≤ maxGo; done closed gracefully ⇒ stopped, no worker, empty queue
        if o.go > cfg.maxGo then some s!"totalGo={o.go} above maxGo={cfg.maxGo}"
        else if o.done == "closed" && !(o.st == 4 && o.q == 0) then some s!"done closed but st={o.st} q={o.q}"
        else none
      else none
    law <|> wb

/-- classes=hang/st3/go0/q0:14;running-go0-queued:3 -/
def aimStep (cfg : Cfg) (obs : String) : Option String :=
  let items := splitOnC ((field obs "classes").getD "-") ';'
  items.findSome? fun item =>
    match item.splitOn ":" with
    | [cls, _n] =>
      if cls == "running-go0-queued" then
        (if cfg.coreGo < cfg.maxGo then none else some s!"C12 totalGo=0 while running with queued tasks in a configuration without room above coreGo")
      else if cls == "hang/st3/go0/q0" then
        (if classify cfg true 3 0 0 = .other then some s!"C12 unexplained hang {cls}" else none)
      else if cls == "hang/st3/go0/q+" then
        (if classify cfg true 3 0 1 = .other then some s!"C12 unexplained hang {cls}" else none)
      else some s!"C12 unexplained outcome {item}"
    | _ => some s!"bad-observation {item}"

def checker (model : Bool) : Checker where
  σ := Option SeqCtx
  init := none
  step st op obs :=
    let ws := words op
    if obs == "skipped" then (none, none) else   -- not executed (hang budget of the harness exhausted)
    match ws with
    | "new" :: kind :: _ =>
      let prop := (field op "prop").getD "C10"
      let cfg := parseCfg op
      match ctorCheck model prop cfg obs, cfg with
      | some e, _ => (none, some e)
      | none, .error _ => (none, none)
      | none, .ok c =>
        if (field obs "ctor").getD "" != "ok" then (none, none) else
        if kind == "seq" then
          let x : SeqCtx := { prop, cfg := c, fire := shortIdle op, states := if model then some #[init] else none,
                              mon := { maxGo := c.maxGo } }
          (some x, none)
        else if kind == "conc" then (none, concStep model prop c (shortIdle op) obs)
        else if kind == "aim" then (none, aimStep c obs)
        else if kind == "burst" then (none, burstStep c obs)
        else if kind == "idlesub" then (none, idleSubStep obs)
        else if kind == "gburst" then (none, gburstStep obs)
        else if kind == "handoff" then (none, handoffStep c (shortIdle op) obs)
        else (none, some s!"bad-kind {kind}")
    | _ =>
      match st with
      | none => (none, if obs == "no-pool" then none else some s!"op without a pool: {op} => {obs}")
      | some x =>
        let (x', e) := seqStep model x op obs
        (some x', e)

end Driver.Pool
