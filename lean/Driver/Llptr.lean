import Driver.Lists
import Ekit.Generated.LinkedListGo
/-! Trace acceptor for C04, pointer level of the linked list: same traces as area `lists` (harness/lists).

`model` mode runs the MiniGo interpreter (Ekit/MiniGo/LangLL.lean) on the program that `harness/minigoll` translated from the
CURRENT `list/linked_list.go` (`Ekit.Gen.LinkedListGo.procs`) on every case whose container is a LinkedList (`linked`,
`linkedof`, also behind the ConcurrentList wrapper and with the boxed element type) and compares after every call: the result
of the translated calls (Get/Append/Add/Set/Delete/Len), and `len` + the element sequence read off the interpreter's heap by
following `next` pointers from the head sentinel (for every op, also those whose Go code is not translated: they must not
change the list).  This ties the translator and the interpreter's reading of Go to the real code.
`spec` mode is the abstract-sequence oracle of area `lists`. -/
namespace Driver.Llptr
open Ekit.MiniGo.LL Ekit.Gen.LinkedListGo Driver

def fuel : Nat := 1000000

def emptySt : St := { h := fun _ => {}, alloc := 0, head := none, tail := none, length := 0 }

/-- the interpreter's heap is a closure that grows by one `if` per write; re-tabulate it after every call so that a read
    stays O(1) (driver-side only: the function denoted is the same on every address) -/
def compact (st : St) : St :=
  let arr : Array Node := Array.ofFn (n := st.alloc) fun i => st.h i.val
  { st with h := fun a => if h : a < arr.size then arr[a] else {} }

def failTok : Fail → String
  | .panic => "panic:nil-dereference"
  | .fuel => "diverged"
  | .stuck => "stuck"

/-- the elements between the sentinels, following `next` (`n` bounds the walk) -/
def elems (st : St) : Nat → Option Nat → List Int
  | 0, _ => []
  | _, none => []
  | n + 1, some a =>
    if some a == st.tail then [] else (st.h a).val :: elems st n (st.h a).next

def contents (st : St) : List Int :=
  match st.head with
  | some hd => elems st (st.alloc + 1) (st.h hd).next
  | none => []

def errTok : Val → String
  | .ptr none => "ok"
  | .errIdx l i => s!"err:idx:{l}:{i}"
  | _ => "?"

def valErrTok : Val → String
  | .pair (.int v) (.ptr none) => s!"ok:{v}"
  | .pair _ (.errIdx l i) => s!"err:idx:{l}:{i}"
  | _ => "?"

/-- result token ("-" = not compared) and new state -/
def stepOp (st : St) (ws : List String) : Option (Res (String × St)) :=
  let run (fn : PName) (args : List Val) (tok : Val → String) : Res (String × St) :=
    (call procs fuel fn args st).map fun (v, st1) => (tok v, compact st1)
  match ws with
  | ["get", i] => i.toInt?.map fun i => run .Get [.int i] valErrTok
  | ["append", ts] => (parseInts ts).map fun ts => run .Append [.ints ts] errTok
  | ["add", i, t] => do
    let i ← i.toInt?
    let t ← t.toInt?
    pure (run .Add [.int i, .int t] errTok)
  | ["set", i, t] => do
    let i ← i.toInt?
    let t ← t.toInt?
    pure (run .Set [.int i, .int t] errTok)
  | ["delete", i] => i.toInt?.map fun i => run .Delete [.int i] valErrTok
  | ["len"] => some (run .Len [] fun v => match v with | .int n => s!"ok:{n}" | _ => "?")
  | ["asslice"] | ["range"] | ["rangestop", _] => some (.ok ("-", st))   -- not translated; the list must be unchanged
  | _ => none                          -- re-entrant writers inside Range etc.: this area gives up on the case

def checker (model : Bool) : Checker :=
  if !model then Driver.Lists.checker false else
  { σ := Option St
    init := none
    step := fun sg op obs =>
      let ws := words op
      let got := resultTok obs
      let same (st : St) : Option String :=
        let l := contents st
        let okVals : Bool := match fieldInts obs "vals", fieldNat obs "vh" with
          | some vs, _ => vs == l
          | none, some h => h == (hashInts l).toNat
          | none, none => true
        if fieldInt obs "len" ≠ some st.length then some s!"length field want {st.length}"
        else if !okVals then some s!"contents want {renderInts l}"
        else none
      match ws with
      | "new" :: kind0 :: rest =>
        let kind := let k := if kind0.startsWith "box-" then (kind0.drop 4).toString else kind0
                    if k.startsWith "conc-" then (k.drop 5).toString else k
        let init : Option (List Int) := match kind, rest with
          | "linked", [] => some []
          | "linkedof", [ts] => parseInts ts
          | _, _ => none
        match init with
        | none => (none, none)            -- not a linked list
        | some ts =>
          if got ≠ "ok" then (none, none) else
          match call procs fuel .NewLinkedList [] emptySt with
          | .error e => (none, some s!"the translated constructor fails ({failTok e})")
          | .ok (_, s0) =>
            match (if ts.isEmpty then .ok (Val.unit, s0) else call procs fuel .Append [.ints ts] s0) with
            | .error e => (none, some s!"the translated Append fails ({failTok e})")
            | .ok (_, s1) => (some (compact s1), same s1)
      | _ =>
        match sg with
        | none => (none, none)
        | some st =>
          match stepOp st ws with
          | none => (none, none)
          | some (.error e) => (sg, some s!"the translated program fails ({failTok e}) where the implementation answered {got}")
          | some (.ok (tok, st1)) =>
            let r : Option String :=
              if tok ≠ "-" ∧ tok ≠ got then some s!"result want {tok} got {got}" else same st1
            (some st1, r) }

end Driver.Llptr
