#!/usr/bin/env python3
"""Regenerate MANIFEST.json from checklib/manifest_table.py (keeps it valid and in sync with the registry)."""
import json, os, sys
sys.path.insert(0, os.path.dirname(os.path.dirname(os.path.abspath(__file__))))
from checklib import registry
from checklib.manifest_table import NOT_APPLICABLE
TABLE = registry.MANIFEST_TABLE

V = os.path.dirname(os.path.dirname(os.path.abspath(__file__)))
props = [json.loads(l) for l in open(os.path.join(V, "properties.jsonl"))]
baseline = json.load(open("/root/.vp/BASELINE.json"))["cmd"]
checks = []
for p in props:
    pid = p["id"]
    if pid in TABLE and pid in registry.CHECKS:
        t = TABLE[pid]
        checks.append({
            "property_id": pid,
            "quick_cmd": "./check %s --tier quick" % pid,
            "thorough_cmd": "./check %s --tier thorough" % pid,
            "evidence_file": "/verif/evidence/%s.json" % pid,
            "replay_cmd_template": "./check %s --replay {path}" % pid,
            "engine": "lean4-proof",
            "level_claimed": {"category": "proof", "text": t["text"], "design_ref": t.get("design_ref", "DESIGN.md §5 " + pid)},
            "level_note": t["note"],
            "technique": t["technique"],
        })
na = [{"property_id": p["id"], "reason": NOT_APPLICABLE.get(p["id"], "check under construction in this session; not claimed yet")}
      for p in props if p["id"] not in [c["property_id"] for c in checks]]
m = {
    "version": 1,
    "setup_cmd": "./setup.sh",
    "hooks": {
        "guard": "verif",
        "enable": "no hook is committed to /repo: every check copies /repo's working tree to a scratch directory, overlays /verif/hooks/** (added files tagged //go:build verif) and /verif/harness/** (as package zzverif) onto the copy and builds the harness there with -tags verif",
        "baseline_off_cmd": baseline,
        "source_commits": [],
        "add_only": True,
    },
    "engines": [{"name": "lean4-proof", "path": "lean", "serves_properties": [c["property_id"] for c in checks],
                 "kind_free_text": "Lean 4 executable models + theorems (lake project, core-only), tied to /repo by definitions regenerated from the Go source and by a differential correspondence harness (Go harness on the real code, compiled Lean driver as acceptor)"}],
    "checks": checks,
    "not_applicable": na,
    "notes": "See DESIGN.md. ./check <id> rebuilds everything from /repo's working tree; known_findings.json lists recorded/fixed defects.",
}
json.dump(m, open(os.path.join(V, "MANIFEST.json"), "w"), indent=1, ensure_ascii=False)
print("checks:", [c["property_id"] for c in checks])
