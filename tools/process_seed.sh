#!/bin/bash
# process_seed.sh <seed-id> <property> <demo-dst-dir> <go test args...>: confirm the seed, then run the property's check on a patched copy.
id=$1; pid=$2; dst=$3; shift 3
cd /verif
demo=$(ls /tmp/wt/$id/_seed/*.go.txt | head -1)
tools/confirm_seed.sh /tmp/wt/$id $demo $dst "$@" 2>&1 | tail -1 | sed "s/^/$id /"
cp evidence/$pid.json /tmp/evidence.$pid.$$.json 2>/dev/null
tmp=$(mktemp -d /tmp/selftest.XXXX); rsync -a --exclude .git --exclude _seed /repo/ $tmp/repo/
(cd $tmp/repo && patch -p1 -s < /tmp/wt/$id/_seed/patch.diff) || echo "$id patch fail"
VERIF_REPO=$tmp/repo flock /tmp/verif-check.lock ./check $pid 2>&1 | grep -E "^VIOLATION|^KNOWN|OK tier|FAILED tier|^  " | sed "s/^/$id /"
rm -rf $tmp
# the mutant run rewrote the evidence file and the generated Lean: restore the unchanged-tree state
mv /tmp/evidence.$pid.$$.json evidence/$pid.json 2>/dev/null
flock /tmp/verif-check.lock ./check $pid > /dev/null 2>&1
