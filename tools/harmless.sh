#!/bin/bash
# harmless.sh <patch.diff> <pid> [pid...]: apply a behaviour-preserving refactoring to a scratch copy of /repo and run the
# given properties' quick checks against it (VERIF_REPO). Prints one line per property. A VIOLATION here is a false alarm
# (or, per the brief, a broken obligation reported with no-failing-input-found): both are worth knowing.
cd "$(dirname "$0")/.."
patch=$1; shift
L=/tmp/verif-check.lock; [ "$PWD" != /verif ] && L=/tmp/verif-check-$(echo $PWD | md5sum | cut -c1-8).lock
tmp=$(mktemp -d /tmp/harmless.XXXX); rsync -a --exclude .git --exclude _h --exclude _seed /repo/ $tmp/repo/
if ! (cd $tmp/repo && git apply --unsafe-paths $patch 2>/dev/null || patch -p1 -s < $patch); then echo "$patch: does not apply"; rm -rf $tmp; exit 2; fi
for pid in "$@"; do
  cp evidence/$pid.json $tmp/evidence.$pid.json 2>/dev/null
  out=$(VERIF_REPO=$tmp/repo flock $L ./check $pid 2>&1)
  echo "$(basename $(dirname $patch))/$(basename $patch) $pid: $(echo "$out" | grep -E "^VIOLATION|OK tier|FAILED tier" | tr '\n' ' ')"
  echo "$out" | grep -E "^  " | head -4
  for r in $(echo "$out" | grep -oE "replay=[^ ]+" | cut -d= -f2); do python3 -c "
import json,sys
r=json.load(open('$r'))
print('    broken:', str(r.get('broken') or r.get('broken_obligation') or r.get('first_message'))[:300])
print('    errors:', str(r.get('errors'))[:600])
" 2>/dev/null; done
  mv $tmp/evidence.$pid.json evidence/$pid.json 2>/dev/null
done
rm -rf $tmp
