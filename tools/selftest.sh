#!/bin/bash
# selftest.sh [seed-id ...]: run each seeded patch (seeded/<id>/patch.diff) against its property's check on a
# scratch copy of /repo (VERIF_REPO) and print what the check reported. Leaves /repo untouched.
cd "$(dirname "$0")/.."
ids=${@:-$(ls seeded | grep -v INDEX)}
for id in $ids; do
  pid=$(python3 -c "import json;print(json.load(open('seeded/$id/meta.json'))['property'])")
  tmp=$(mktemp -d /tmp/selftest.XXXX)
  rsync -a --exclude .git /repo/ $tmp/repo/
  if ! (cd $tmp/repo && patch -p1 -s < $OLDPWD/seeded/$id/patch.diff); then echo "$id: patch does not apply"; rm -rf $tmp; continue; fi
  out=$(VERIF_REPO=$tmp/repo ./check $pid 2>&1 | grep -E "^VIOLATION|^KNOWN|OK tier|FAILED tier" | tr '\n' ' ')
  echo "$id [$pid]: $out"
  rm -rf $tmp
done
# evidence files were rewritten by mutant runs: restore them from the unchanged tree
for pid in $(for id in $ids; do python3 -c "import json;print(json.load(open('seeded/$id/meta.json'))['property'])"; done | sort -u); do ./check $pid > /dev/null 2>&1; done
