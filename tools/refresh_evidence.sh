#!/bin/bash
# Re-run every registered check (quick tier) on the unchanged tree so the committed evidence files are the
# records of passing runs against /repo itself. Prints one line per check.
cd /verif
for pid in $(python3 -c "import sys; sys.path.insert(0,'.'); from checklib import registry; print(' '.join(sorted(registry.CHECKS)))"); do
  ./check $pid 2>&1 | grep -E "OK tier|FAILED tier|^VIOLATION"
done
