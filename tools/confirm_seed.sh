#!/bin/bash
# confirm_seed.sh <worktree> <demo-src> <dst-dir-rel> <go test args...>
# Confirms, in the seeded worktree (patch applied): builds, existing tests pass (all packages but spi),
# demo FAILS with the patch and PASSES without it.  Prints a summary line.
export GOFLAGS=-mod=mod GOPROXY=off GOSUMDB=off GOTOOLCHAIN=local
WT=$1; DEMO=$2; DST=$3; shift 3
cd "$WT" || exit 2
git apply --check -R _seed/patch.diff 2>/dev/null || { git checkout -- . ; git apply _seed/patch.diff || { echo "CONFIRM patch does not apply"; exit 2; }; }
go build ./... || { echo "CONFIRM build=FAIL"; exit 1; }
PKGS=$(go list ./... | grep -v '/spi' | grep -v '/_seed' | grep -v 'net/httpx$')
go test -count=1 -vet=off $PKGS > _seed/suite.log 2>&1; SUITE=$?
cp "$DEMO" "$DST/zz_seed_demo_test.go"
go test -count=1 -vet=off "$@" > _seed/demo_with.log 2>&1; WITH=$?
git apply -R _seed/patch.diff
go test -count=1 -vet=off "$@" > _seed/demo_without.log 2>&1; WITHOUT=$?
git apply _seed/patch.diff
rm -f "$DST/zz_seed_demo_test.go"
echo "CONFIRM build=ok suite_exit=$SUITE demo_with_patch_exit=$WITH demo_without_patch_exit=$WITHOUT"
[ $SUITE -eq 0 ] && [ $WITH -ne 0 ] && [ $WITHOUT -eq 0 ]
