#!/usr/bin/env python3
"""Regenerate seeded/INDEX.md from seeded/*/meta.json."""
import json, os
root = "/verif/seeded"
rows = []
for d in sorted(os.listdir(root)):
    m = os.path.join(root, d, "meta.json")
    if os.path.exists(m):
        j = json.load(open(m))
        rows.append((d, j.get("property", "?"), j.get("check_result", "?"), (j.get("summary", "") or "")[:160].replace("\n", " "),
                     (j.get("needs", "") or "")[:140].replace("\n", " "), (j.get("check_note", "") or "")[:200].replace("\n", " ")))
out = ["# Seeded changes (independent sub-agents; confirmed by the coordinator) and what the checks reported", "",
       "| seed | property | check result | change | needs | what the check reported |", "|---|---|---|---|---|---|"]
for r in rows:
    out.append("| %s | %s | %s | %s | %s | %s |" % r)
open(os.path.join(root, "INDEX.md"), "w").write("\n".join(out) + "\n")
print(len(rows), "seeds")
