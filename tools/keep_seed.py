#!/usr/bin/env python3
"""keep_seed.py <worktree> <seed-id> <property> <detected: concrete|obligation|missed> <note...>
Copies patch.diff, the demonstration, HOWTO and meta.json into /verif/seeded/<seed-id>/ and extends meta.json
with what the coordinator ran to confirm it and which check caught it."""
import json, os, shutil, sys
wt, sid, pid, detected = sys.argv[1:5]
note = " ".join(sys.argv[5:])
dst = os.path.join("/verif/seeded", sid)
os.makedirs(dst, exist_ok=True)
for f in os.listdir(os.path.join(wt, "_seed")):
    if f.endswith(".log"):
        continue
    src = os.path.join(wt, "_seed", f)
    if os.path.isdir(src):
        shutil.copytree(src, os.path.join(dst, f), dirs_exist_ok=True)
    else:
        shutil.copy(src, os.path.join(dst, f))
try:
    meta = json.load(open(os.path.join(dst, "meta.json")))
except Exception:
    meta = {}
meta.update({
    "property": pid, "seed_id": sid,
    "confirmed_by_coordinator": "tools/confirm_seed.sh in the scratch worktree: go build ./... ok; existing suite (all packages but spi) passes with the patch; demonstration fails with the patch and passes without it",
    "check_result": detected, "check_note": note,
    "how_to_run_check": "git -C /repo apply /verif/seeded/%s/patch.diff && (cd /verif && ./check %s); git -C /repo checkout -- ." % (sid, pid),
})
json.dump(meta, open(os.path.join(dst, "meta.json"), "w"), indent=1, ensure_ascii=False)
print("kept", dst)
