#!/bin/bash
# harmless_all.sh [area ...]: run every behaviour-preserving refactoring kept under harmless/<area>/rN.diff against the quick checks
# of the properties anchored in that area (a scratch copy of /repo per patch). Output: one line per (patch, property).
cd "$(dirname "$0")/.."
declare -A P=( [tree]="C01 C02" [hash]="C03" [list]="C04 C05" [lin]="C06 C15" [bq]="C07 C08 C09" [pool]="C10 C11 C12 C15"
               [sync]="C13 C14 C15" [pure]="C16 C17" [sqlretry]="C18 C19" [copier]="C20" )
for a in ${@:-tree hash list lin bq pool sync pure sqlretry copier}; do
  for r in harmless/$a/r*.diff; do tools/harmless.sh $PWD/$r ${P[$a]}; done
done
