#!/bin/sh
# merge_agent.sh <name>: copy NEW files from /tmp/agents/<name>/verif into /verif; list modified shared files.
set -e
SRC=/tmp/agents/$1/verif
cd "$SRC"
echo "== new files"
rsync -a --ignore-existing --itemize-changes \
  --exclude '.lake' --exclude 'evidence' --exclude 'build' --exclude '__pycache__' --exclude 'MANIFEST.json' \
  --exclude 'lean/Ekit.lean' --exclude 'lean/Driver/Main.lean' --exclude 'lean/Driver.lean' --exclude 'sk' \
  ./ /verif/ | grep '^>f' || true
echo "== existing files that differ (review by hand)"
diff -rq --exclude .lake --exclude evidence --exclude build --exclude __pycache__ --exclude MANIFEST.json \
  --exclude Ekit.lean --exclude Main.lean --exclude .git "$SRC" /verif 2>/dev/null | grep '^Files' || true
