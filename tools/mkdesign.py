#!/usr/bin/env python3
"""Assemble DESIGN.md = Part I (tools/design_part1*.md) + generated appendices T (audited theorems per
property, from lean/Audit/*.lean) and S (seeded changes, from seeded/*/meta.json) + Part II (the original plan)."""
import json, os, re
V = os.path.dirname(os.path.dirname(os.path.abspath(__file__)))
out = open(os.path.join(V, "tools/design_part1.md")).read() + open(os.path.join(V, "tools/design_part1b.md")).read()
out += "\n---------------------------------------------------------------------------------------------------\n\n## Appendix T — audited theorems per property (generated from lean/Audit/*.lean)\n\n"
for f in sorted(os.listdir(os.path.join(V, "lean/Audit"))):
    if not f.endswith(".lean"):
        continue
    names = re.findall(r"^#print axioms\s+(\S+)", open(os.path.join(V, "lean/Audit", f)).read(), flags=re.M)
    names = [n.split(".")[-1] for n in names]
    skel = [n for n in names if "_skel_" in n]
    rest = [n for n in names if "_skel_" not in n]
    out += "**%s** (%d theorems%s): %s\n\n" % (f[:-5], len(names), (", of which %d skeleton equalities `%s…`" % (len(skel), skel[0].split("_skel_")[0] + "_skel_")) if skel else "",
                                             ", ".join("`%s`" % n for n in rest))
out += "## Appendix S — seeded changes and what the checks reported (generated from seeded/*/meta.json)\n\n"
out += "| seed | property | result | change (needs) | what the check reported |\n|---|---|---|---|---|\n"
sd = os.path.join(V, "seeded")
for d in sorted(os.listdir(sd)):
    m = os.path.join(sd, d, "meta.json")
    if os.path.exists(m):
        j = json.load(open(m))
        cell = lambda s, n: (s or "").replace("\n", " ").replace("|", "/")[:n]
        out += "| %s | %s | %s | %s — needs: %s | %s |\n" % (d, j.get("property"), j.get("check_result"), cell(j.get("summary"), 220), cell(j.get("needs"), 160), cell(j.get("check_note"), 320))
out += "\n---------------------------------------------------------------------------------------------------\n\n" + open(os.path.join(V, "tools/design_part2_plan.md")).read()
open(os.path.join(V, "DESIGN.md"), "w").write(out)
print("DESIGN.md:", out.count("\n"), "lines")
