#!/bin/bash
# sweep.sh <first-seed> <last-seed> [pids...]: run the quick checks on the unchanged tree for a range of seeds;
# print only the runs that raised an alarm (false alarms on the unchanged tree are bugs in the machinery).
cd "$(dirname "$0")/.."
a=$1; b=$2; shift 2
pids=${@:-$(python3 -c "import sys; sys.path.insert(0,'.'); from checklib import registry; print(' '.join(sorted(registry.CHECKS)))")}
for s in $(seq $a $b); do
  for pid in $pids; do
    out=$(VERIF_SEED=$s ./check $pid 2>&1)
    if echo "$out" | grep -q "VIOLATION\|FAILED\|Traceback"; then
      echo "seed=$s $pid:"; echo "$out" | grep -E "VIOLATION|FAILED|^  |Error|Traceback" | head -5
      mkdir -p sweep-fails; cp evidence/replays/$pid-*.json sweep-fails/ 2>/dev/null
    fi
  done
  echo "seed $s done"
done
