"""Regenerates lean/Ekit/Lemmas/PoolPc.lean (program-counter classes of the pool model and their per-constructor
simp lemmas) from the constructor lists in lean/Ekit/Model/Pool.lean.  Run after changing WPc / CPc."""
import os
import re
src=open('' + os.path.join(os.path.dirname(os.path.dirname(os.path.abspath(__file__))), 'lean') + '/Ekit/Model/Pool.lean').read()
def ctors(name):
    m=re.search(r'inductive %s where\n(.*?)\n  deriving'%name, src, re.S)
    body=re.sub(r'--.*','',m.group(1))
    return re.findall(r'\|\s*(\w+)', body)
cp=ctors('CPc'); wp=ctors('WPc')
W={
 'wHeld':("the worker holds `mutex` as writer", ['intHeld','idleHeld','clHeld','postLen1','postLen2','postDecide','postGrp','postUnlock']),
 'live':("the worker is still counted in `totalGo` (has not executed its decrement)", [p for p in wp if p not in ('clNumWant','clNumHeld','clCas','clCancel','exited')]),
 'execPc':("inside `task.Run` (incl. the wrapper's recover)", ['running','panicked']),
 'clPath':("on the `!ok` exit path after the receive", ['clWant','clHeld','clNumWant','clNumHeld','clCas','clCancel']),
 'intPath':("on the interrupt exit path", ['intWant','intHeld']),
 'finisher':("past its decrement on the `!ok` path: may still perform closing→stopped and cancel", ['clNumWant','clNumHeld','clCas','clCancel']),
}
C={
 'crit':("inside the critical section of the `state` spin lock", ['subSel','subAllowWant','subAllowHeld','subIncWant','subIncHeld','subSpawn','subUnlock','stNum','stIncWant','stIncHeld','stSpawn']),
 'cHeld':("the caller holds `mutex` as writer", ['subIncHeld','stIncHeld']),
 'preSend':("Submit before the select of trySubmit completed", ['subLoad1','subLoad2','subCas1','subCas2','subSel']),
 'postSend':("trySubmit after the send", ['subAllowWant','subAllowHeld','subIncWant','subIncHeld','subSpawn']),
 'growPc':("Submit between the positive allowToCreateGoroutine answer and the increment", ['subIncWant','subIncHeld']),
 'stPre':("Start before its increment of totalGo", ['stNum','stIncWant','stIncHeld']),
 'pcClose':("about to close the queue", ['sdClose','snClose']),
 'snAfter':("ShutdownNow after its CAS", ['snClose','snCancel','snDrain']),
 'okPath':("after a successful CAS of the call", ['subSel','subAllowWant','subAllowHeld','subIncWant','subIncHeld','subSpawn','subUnlock','stNum','stIncWant','stIncHeld','stSpawn','sdClose','snClose','snCancel','snDrain']),
}
out=['''/-
Program-counter classes of the pool model and their evaluation on every constructor (`@[simp]`, by
`rfl`; the classes themselves are never unfolded by `simp`), plus projection lemmas for `setW`/`setC`.
The constructor-evaluation lemmas are mechanical (one per constructor and class).
-/
import Ekit.Model.Pool
namespace Ekit.Pool
''']
def emit(ty, all_, table):
    for name,(doc,yes) in table.items():
        for y in yes: assert y in all_, (name,y)
        out.append('/-- %s -/\ndef %s : %s → Bool\n  | %s => true\n  | _ => false\n' % (doc,name,ty,' | '.join('.'+y for y in yes)))
        out.append(''.join('@[simp] theorem %s_%s : %s .%s = %s := rfl\n'%(name,c,name,c,'true' if c in yes else 'false') for c in all_))
emit('WPc',wp,W)
emit('CPc',cp,C)
fields=['idleExits','hwmGo','pending','life','queue','closed','totalGo','mu','grpN','cancelled','numRunning','workers','callers','panic','holder','tasks','returned','nStartOk','nShutOk','graceful','badExits','liveAtShut']
out.append('''/-! ### inclusions between the classes -/

theorem growPc_crit (p : CPc) : growPc p = true → crit p = true := by cases p <;> simp
theorem stPre_crit (p : CPc) : stPre p = true → crit p = true := by cases p <;> simp
theorem postSend_crit (p : CPc) : postSend p = true → crit p = true := by cases p <;> simp
theorem cHeld_crit (p : CPc) : cHeld p = true → crit p = true := by cases p <;> simp
theorem crit_okPath (p : CPc) : crit p = true → okPath p = true := by cases p <;> simp
theorem execPc_live (p : WPc) : execPc p = true → live p = true := by cases p <;> simp
theorem wHeld_live (p : WPc) : wHeld p = true → live p = true := by cases p <;> simp
theorem finisher_not_live (p : WPc) : finisher p = true → live p = false := by cases p <;> simp
theorem not_crit_facts (p : CPc) (h : crit p = false) :
    growPc p = false ∧ stPre p = false ∧ postSend p = false ∧ cHeld p = false ∧ p ≠ .subSpawn ∧ p ≠ .stSpawn ∧
    p ≠ .stIncWant ∧ p ≠ .stIncHeld ∧ p ≠ .subUnlock ∧ p ≠ .subSel := by
  cases p <;> simp at h ⊢
''')
out.append('/-! ### projections of the two state updaters -/\n')
for f in fields:
    if f!='workers':
        out.append('@[simp] theorem setW_%s (s : St) (i : Nat) (w : Worker) : (s.setW i w).%s = s.%s := rfl'%(f,f,f))
    if f!='callers':
        out.append('@[simp] theorem setC_%s (s : St) (t : Nat) (c : Caller) : (s.setC t c).%s = s.%s := rfl'%(f,f,f))
    if f!='tasks':
        out.append('@[simp] theorem recSub_%s (s : St) (i : Nat) (r : Res) : (s.recSub i r).%s = s.%s := rfl'%(f,f,f))
out.append('@[simp] theorem setW_workers (s : St) (i : Nat) (w : Worker) : (s.setW i w).workers = s.workers.set i w := rfl')
out.append('@[simp] theorem setC_callers (s : St) (t : Nat) (c : Caller) : (s.setC t c).callers = upd s.callers t c := rfl')
out.append('\nend Ekit.Pool\n')
open('' + os.path.join(os.path.dirname(os.path.dirname(os.path.abspath(__file__))), 'lean') + '/Ekit/Lemmas/PoolPc.lean','w').write('\n'.join(out))
