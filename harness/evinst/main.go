// evinst: synchronisation-event logging instrumenter (used only on a scratch copy of the repository).
//
// It rewrites the given Go source files so that every synchronisation action of every function —
// mutex Lock/Unlock/RLock/RUnlock/TryLock, semaphore Acquire/Release, sync/atomic operations (package
// functions and the methods of atomic-typed fields), channel close/send/receive, select arms,
// ctx.Err()/ctx.Done() observations, timer operations — appends one event
//
//	(goroutine, function, action, observed result)
//
// to a global, mutex-protected log (file zz_verif_evlog.go, dropped into each touched package), and so
// that a white-box snapshot of the receiver is taken inside the critical section right before every
// Unlock/RUnlock of a receiver mutex (if the receiver type has a method `zzverifSnap() string`, which a
// hook file provides).  A synchronisation object that is not a receiver field — the result of a receiver
// method (`s.getLock(key).Lock()`) or a local — is named in the log through a second hook,
// `zzverifObj(any) string`, if the receiver type has one (without it such call-result receivers are not
// instrumented, as before).  The Lean models (transition systems with one label per atomic action) must
// accept the logged sequence step by step: `harness/evtrace` + `lean/Driver/EvTrace.lean`.
//
// Ordering discipline (what makes the logged order a legal order of the real execution):
//   - NON-BLOCKING actions (Unlock, RUnlock, Release, close, atomics, TryLock, non-blocking selects,
//     ctx.Err) are executed INSIDE the log mutex together with their log entry: log order = real order.
//   - A channel SEND statement is first attempted without blocking inside the log mutex (a buffered channel with
//     room: the entry is atomic with the send and therefore precedes the entry of the receive it enables); only
//     when that attempt finds the channel not ready is it performed as a blocking action and logged afterwards.
//   - BLOCKING acquisitions (Lock, RLock, Acquire, sync.Once.Do, channel receive / blocking select arm; also as a
//     deferred call `defer x.Lock()`) are logged right AFTER they return.  An acquisition can only complete after the release that enabled it,
//     and that release is logged atomically with itself, so the acquire entry still follows the entry of
//     the enabling release; the only effect of the delay is that the log may show a resource as still
//     free a little longer than it really was, which never disables a logged step of a permit- or
//     lock-like primitive.
//
// Timers and channel identities (DelayQueue): time.NewTimer(d), t.Reset(d), t.Stop() are non-blocking actions
// ("NewTimer", "TimerReset(t)", "TimerStop(t)", the boolean result logged).  A close(x) / a blocking select arm
// `<-x` whose channel is held by a plain local variable x logs the channel's identity "ch=<n>" (numbered at first
// sight, never reused; zzverifChanID is also available to snapshot hooks).  VerifEvClock(text) reads the
// monotonic clock INSIDE the log mutex and logs the reading at that position: harness elements implement
// Delay() with it, so every clock reading the code acts upon is in the log, monotone in log order.
//
// The instrumentation only adds waiting on one extra mutex around non-blocking actions: every
// behaviour of the instrumented code is a behaviour of the original code under some schedule.
//
//	evinst -root <scratch repo> file.go[:option,…] ...
//
// Per-file options (see type options): chan=<field>, cancel=<field>, go, poll.  A deferred instant action
// (`defer atomic.CompareAndSwapInt32(&b.state, …)`) is logged when it runs, at function exit.
package main

import (
	"bytes"
	"flag"
	"fmt"
	"go/ast"
	"go/format"
	"go/parser"
	"go/token"
	"os"
	"path/filepath"
	"strings"
)

const evlogSrc = `//go:build verif

package %s

import (
	"fmt"
	"reflect"
	"runtime"
	"sync"
	"time"
	"unsafe"
)

type zzverifEvent struct {
	gid  uint64
	text string
}

var (
	zzverifG    sync.Mutex
	zzverifLog  []zzverifEvent
	zzverifOn   bool
	zzverifTids = map[uint64]int{}
	zzverifBase = time.Now().Add(-time.Second)
	zzverifPtrs = map[unsafe.Pointer]int{}
)

// zzverifPid names a pointer by the order of first sight since VerifEvStart ("nil", "p0", "p1", …): pointer
// IDENTITY without addresses (the map keeps the object alive, so a number is never reused).  Must be called
// with zzverifG held.
func zzverifPid(p unsafe.Pointer) string {
	if p == nil {
		return "nil"
	}
	if !zzverifOn {
		return "_"
	}
	n, ok := zzverifPtrs[p]
	if !ok {
		n = len(zzverifPtrs)
		zzverifPtrs[p] = n
	}
	return fmt.Sprintf("p%%d", n)
}

func zzverifAddr[T any](p *T) unsafe.Pointer { return unsafe.Pointer(p) }

// VerifEvClock reads the monotonic clock (ns since one second before VerifEvStart) INSIDE the log mutex
// and, if text is not empty, appends the entry "<text>@<reading>" at that very position of the log: the
// readings are monotone in log order, and a reading is the real time of its log position.  (Used by
// harness elements whose Delay() is the only clock the DelayQueue code looks at.)
func VerifEvClock(text string) int64 {
	zzverifG.Lock()
	r := int64(time.Since(zzverifBase))
	if text != "" && zzverifOn {
		zzverifLog = append(zzverifLog, zzverifEvent{zzverifGid(), fmt.Sprintf("%%s@%%d", text, r)})
	}
	zzverifG.Unlock()
	return r
}

// zzverifGid: the current goroutine's id (parsed from the stack header; only used while logging is on).
func zzverifGid() uint64 {
	var buf [64]byte
	n := runtime.Stack(buf[:], false)
	var id uint64
	for _, c := range buf[len("goroutine "):n] {
		if c < '0' || c > '9' {
			break
		}
		id = id*10 + uint64(c-'0')
	}
	return id
}

func VerifEvInstrumented() bool { return true }

// VerifEvStart clears the log and switches logging on; VerifEvStop switches it off and returns the
// log as lines "<tid> <function>:<action> <result>" (tid = the number registered for the goroutine
// with VerifEvTid, or g<id>).
func VerifEvStart() {
	zzverifG.Lock()
	zzverifLog = zzverifLog[:0]
	zzverifTids = map[uint64]int{}
	zzverifPtrs = map[unsafe.Pointer]int{}
	zzverifBase = time.Now().Add(-time.Second)
	zzverifOn = true
	zzverifG.Unlock()
}

func VerifEvStop() []string {
	zzverifG.Lock()
	defer zzverifG.Unlock()
	zzverifOn = false
	zzverifPtrs = map[unsafe.Pointer]int{}
	out := make([]string, 0, len(zzverifLog))
	for _, e := range zzverifLog {
		if t, ok := zzverifTids[e.gid]; ok {
			out = append(out, fmt.Sprintf("%%d %%s", t, e.text))
		} else {
			out = append(out, fmt.Sprintf("g%%d %%s", e.gid, e.text))
		}
	}
	return out
}

// VerifEvTid names the calling goroutine in the log.
func VerifEvTid(t int) {
	g := zzverifGid()
	zzverifG.Lock()
	zzverifTids[g] = t
	zzverifG.Unlock()
}

// VerifEvNote appends a harness-made entry (invocation / response markers) in log order.
func VerifEvNote(text string) {
	zzverifG.Lock()
	if zzverifOn {
		zzverifLog = append(zzverifLog, zzverifEvent{zzverifGid(), text})
	}
	zzverifG.Unlock()
}

func zzverifFmt(v any) string {
	switch x := v.(type) {
	case nil:
		return "nil"
	case error:
		_ = x
		return "err"
	case bool:
		if x {
			return "true"
		}
		return "false"
	case int, int8, int16, int32, int64, uint, uint8, uint16, uint32, uint64:
		return fmt.Sprint(x)
	case unsafe.Pointer:
		return zzverifPid(x)
	}
	return "_"
}

// zzverifAppend must be called with zzverifG held.
func zzverifAppend(site string, res string) {
	if zzverifOn {
		if res != "" {
			site += " " + res
		}
		zzverifLog = append(zzverifLog, zzverifEvent{zzverifGid(), site})
	}
}

// zzverifAfter logs a blocking acquisition that has just returned.
func zzverifAfter(site string) {
	zzverifG.Lock()
	zzverifAppend(site, "")
	zzverifG.Unlock()
}

// zzverifAcq performs a blocking acquisition given as a method value (deferred Lock: the receiver is
// evaluated at the defer statement, as in the original) and logs it right after it returned.
func zzverifAcq(site string, f func()) {
	f()
	zzverifAfter(site)
}

// zzverifChanID: the identity of a channel as a small number assigned at first sight (the registry keeps the
// channel alive, so identities are never reused).  Must be called with zzverifG held.
var zzverifChans = map[uintptr][2]any{}

func zzverifChanID(ch any) int {
	v := reflect.ValueOf(ch)
	if !v.IsValid() || v.Kind() != reflect.Chan {
		return -1
	}
	p := v.Pointer()
	if e, ok := zzverifChans[p]; ok {
		return e[0].(int)
	}
	id := len(zzverifChans) + 1
	zzverifChans[p] = [2]any{id, ch}
	return id
}

// zzverifAfterCh logs a completed receive (select arm) from the channel held by a local variable, with the
// channel's identity; zzverifRelCh a close of such a channel, atomically with the close.
func zzverifAfterCh(site string, ch any) {
	zzverifG.Lock()
	if zzverifOn {
		zzverifAppend(site, fmt.Sprintf("ch=%%d", zzverifChanID(ch)))
	}
	zzverifG.Unlock()
}

func zzverifRelCh(site string, f func(), ch any) {
	zzverifG.Lock()
	if zzverifOn {
		zzverifAppend(site, fmt.Sprintf("ch=%%d", zzverifChanID(ch)))
	}
	f()
	zzverifG.Unlock()
}

// zzverifAfterV logs a blocking call that has just returned v and passes v on.
func zzverifAfterV[T any](site string, v T) T {
	zzverifG.Lock()
	zzverifAppend(site, zzverifFmt(any(v)))
	zzverifG.Unlock()
	return v
}

// zzverifRel performs a non-blocking release action atomically with its log entry; snap (may be nil)
// is evaluated first, still inside the critical section that f ends.
func zzverifRel(site string, f func(), snap func() string) {
	zzverifG.Lock()
	s := ""
	if snap != nil && zzverifOn {
		s = snap()
	}
	zzverifAppend(site, s)
	f()
	zzverifG.Unlock()
}

// zzverifEnter / zzverifLeave bracket a statement whose synchronisation actions are all non-blocking:
// they run inside the log mutex, each logging itself with zzverifIn / zzverifInV.
func zzverifEnter() { zzverifG.Lock() }
func zzverifLeave()  { zzverifUnlockY() }
func zzverifLeaveB(b bool) bool {
	zzverifUnlockY()
	return b
}
func zzverifLeaveV[T any](v T) T {
	zzverifUnlockY()
	return v
}
func zzverifLeaveV2[A, B any](a A, b B) (A, B) {
	zzverifUnlockY()
	return a, b
}

// VerifEvYield(permille): while logging is on, the goroutine yields the processor after that fraction of its
// bracketed non-blocking actions (atomics, Try…, ctx.Err), right after leaving the log mutex, so that other
// goroutines get between two actions of one call more often.  0 (the default) = never.  Only the schedule changes.
var (
	zzverifYieldPm  int
	zzverifYieldRnd uint32 = 2463534242
)

func VerifEvYield(permille int) {
	zzverifG.Lock()
	zzverifYieldPm = permille
	zzverifG.Unlock()
}

// zzverifUnlockY leaves the log mutex (held by the caller) and possibly yields.
func zzverifUnlockY() {
	y := false
	if zzverifOn && zzverifYieldPm > 0 {
		zzverifYieldRnd = zzverifYieldRnd*1664525 + 1013904223
		y = int(zzverifYieldRnd>>16)%%1000 < zzverifYieldPm
	}
	zzverifG.Unlock()
	if y {
		runtime.Gosched()
	}
}
func zzverifIn(site string) { zzverifAppend(site, "") }
func zzverifInV[T any](site string, v T) T {
	zzverifAppend(site, zzverifFmt(any(v)))
	return v
}

// Object naming (receiver types with a hook method zzverifObj(any) string): a synchronisation object that
// is not a receiver field (the result of a receiver method such as s.getLock(key), or a local) is named by
// the hook, and the name is logged with the action: "<result>,<name>" for instants, "<name>" otherwise.
// zzverifBind runs inside the log mutex (instants only), so the global is not shared.
var zzverifBound any

func zzverifBind[T any](x T) T {
	zzverifBound = x
	return x
}
func zzverifInVO[T any](site string, v T, obj func(any) string) T {
	r := zzverifFmt(any(v))
	if zzverifOn {
		r += "," + obj(zzverifBound)
	}
	zzverifBound = nil
	zzverifAppend(site, r)
	return v
}

// zzverifAfterS logs a blocking acquisition that has just returned, with the name of the acquired object.
func zzverifAfterS(site string, res string) {
	zzverifG.Lock()
	zzverifAppend(site, res)
	zzverifG.Unlock()
}
// atomic.LoadPointer(&x.f) / atomic.CompareAndSwapPointer(&x.f, old, new): the identities of the word
// operated on, of the pointer read, of the expected and of the new pointer are part of the event.
func zzverifInPL(site string, at unsafe.Pointer, v unsafe.Pointer) unsafe.Pointer {
	zzverifAppend(site, "v="+zzverifPid(v)+",at="+zzverifPid(at))
	return v
}
func zzverifInPC(site string, at unsafe.Pointer, ok bool, old, new unsafe.Pointer) bool {
	zzverifAppend(site, "ok="+zzverifFmt(ok)+",old="+zzverifPid(old)+",new="+zzverifPid(new)+",at="+zzverifPid(at))
	return ok
}
func zzverifInV2[A, B any](site string, a A, b B) (A, B) {
	zzverifAppend(site, zzverifFmt(any(a))+","+zzverifFmt(any(b)))
	return a, b
}

// zzverifPause: between two polls of a polled select / channel range (option poll), outside the log mutex.
func zzverifPause() { time.Sleep(20 * time.Microsecond) }

// zzverifDeferN: a deferred instant action f(a…) (arguments evaluated at the defer statement, as in the
// original), executed at function exit inside the log mutex together with its log entry.
func zzverifDefer0[R any](site string, f func() R) {
	zzverifG.Lock()
	zzverifAppend(site, zzverifFmt(any(f())))
	zzverifG.Unlock()
}
func zzverifDefer1[A, R any](site string, f func(A) R, a A) {
	zzverifG.Lock()
	zzverifAppend(site, zzverifFmt(any(f(a))))
	zzverifG.Unlock()
}
func zzverifDefer2[A, B, R any](site string, f func(A, B) R, a A, b B) {
	zzverifG.Lock()
	zzverifAppend(site, zzverifFmt(any(f(a, b))))
	zzverifG.Unlock()
}
func zzverifDefer3[A, B, C, R any](site string, f func(A, B, C) R, a A, b B, c C) {
	zzverifG.Lock()
	zzverifAppend(site, zzverifFmt(any(f(a, b, c))))
	zzverifG.Unlock()
}
`

// ---------------------------------------------------------------------------------------------

type inst struct {
	fset  *token.FileSet
	fn    string // Type_Func
	recv  string
	snap  bool // the receiver type has zzverifSnap
	obj   bool // the receiver type has zzverifObj (names synchronisation objects that are not receiver fields)
	fails []string
	// names of struct fields of the package whose declared type mentions sync/atomic
	atomicFields map[string]bool
	// parameters, named results and variables declared in the function: printed as `$` in action targets, and the
	// context parameter as `ctx`, so that renaming a local is invisible in the log
	locals  map[string]bool
	ctxName string
	opt     *options
	nlab    int
	res     []ast.Expr // result types of the function body being instrumented
}

// declared collects the names declared in a function (parameters, results, :=, var, range, function literals).
func declared(fd *ast.FuncDecl) (map[string]bool, string) {
	locals, ctxName := map[string]bool{}, "ctx"
	isCtx := func(t ast.Expr) bool {
		se, ok := t.(*ast.SelectorExpr)
		if !ok {
			return false
		}
		pk, ok := se.X.(*ast.Ident)
		return ok && pk.Name == "context" && se.Sel.Name == "Context"
	}
	fields := func(fl *ast.FieldList, top bool) {
		if fl == nil {
			return
		}
		for _, f := range fl.List {
			for _, n := range f.Names {
				if top && isCtx(f.Type) {
					ctxName = n.Name
					continue
				}
				locals[n.Name] = true
			}
		}
	}
	fields(fd.Type.Params, true)
	fields(fd.Type.Results, true)
	ast.Inspect(fd.Body, func(n ast.Node) bool {
		switch v := n.(type) {
		case *ast.AssignStmt:
			if v.Tok == token.DEFINE {
				for _, l := range v.Lhs {
					if id, ok := l.(*ast.Ident); ok {
						locals[id.Name] = true
					}
				}
			}
		case *ast.ValueSpec:
			for _, id := range v.Names {
				locals[id.Name] = true
			}
		case *ast.RangeStmt:
			if v.Tok == token.DEFINE {
				if id, ok := v.Key.(*ast.Ident); ok {
					locals[id.Name] = true
				}
				if id, ok := v.Value.(*ast.Ident); ok {
					locals[id.Name] = true
				}
			}
		case *ast.FuncLit:
			fields(v.Type.Params, false)
			fields(v.Type.Results, false)
		}
		return true
	})
	delete(locals, "_")
	delete(locals, ctxName)
	return locals, ctxName
}

// canon prints an action target with locals as `$` and the context parameter as `ctx`.
func (in *inst) canon(s string) string {
	var out strings.Builder
	isStart := func(c byte) bool { return c == '_' || c >= 'a' && c <= 'z' || c >= 'A' && c <= 'Z' }
	isId := func(c byte) bool { return isStart(c) || c >= '0' && c <= '9' }
	for i := 0; i < len(s); {
		c := s[i]
		if isStart(c) && (i == 0 || !isId(s[i-1])) {
			j := i
			for j < len(s) && isId(s[j]) {
				j++
			}
			id := s[i:j]
			switch {
			case i > 0 && s[i-1] == '.':
				out.WriteString(id)
			case id == in.ctxName:
				out.WriteString("ctx")
			case in.locals[id] && id != in.recv:
				out.WriteString("$")
			default:
				out.WriteString(id)
			}
			i = j
			continue
		}
		out.WriteByte(c)
		i++
	}
	return out.String()
}

func resultTypes(ft *ast.FuncType) []ast.Expr {
	var out []ast.Expr
	if ft == nil || ft.Results == nil {
		return nil
	}
	for _, f := range ft.Results.List {
		n := len(f.Names)
		if n == 0 {
			n = 1
		}
		for i := 0; i < n; i++ {
			out = append(out, f.Type)
		}
	}
	return out
}

// options of one file ("path.go:poll,go,chan=queue,cancel=interruptCtxCancel"); all off by default, so the
// treatment of the files listed without options is unchanged.
//
//	strict      refuse (exit 3) a statement that mixes an instant action with a call of a method of the receiver
//	            or of one of its fields: that method may be instrumented itself and would log / block inside the
//	            log mutex
//	skip=<func> leave function / method <func> as it is (not part of the replayed behaviour)
//	chan=<f>    receiver field f is a channel: len(recv.f) is logged as the instant action Len(f)
//	cancel=<f>  receiver field f is a context.CancelFunc: recv.f() is logged as the release action Cancel(f)
//	go          every go statement is logged as Go(<callee>) by the spawning goroutine, inside the log mutex
//	            (instant actions among the arguments are logged first, in the same critical section), so that
//	            no event of the new goroutine can precede it
//	poll        a blocking select / a range over a chan= field is turned into a polling loop whose every
//	            attempt is a NON-blocking select executed inside the log mutex: the arm taken is logged
//	            atomically with the channel operation (log order = real order also for receives, which a
//	            model with a queue-length-dependent guard needs), a failed attempt releases the log mutex,
//	            pauses and retries.  A retry is a behaviour of the blocking original (the goroutine simply
//	            stayed blocked a little longer), the arm finally taken was ready when it was taken.  What is
//	            lost: a rendez-vous between a non-blocking send and this (now never parked) receiver.
//	            Two-valued receive arms log their ok.
type options struct {
	poll, golog bool
	strict      bool
	skip        map[string]bool
	chans       map[string]bool
	cancels     map[string]bool
}

func parseSpec(spec string) (string, *options) {
	o := &options{chans: map[string]bool{}, cancels: map[string]bool{}, skip: map[string]bool{}}
	path, rest, _ := strings.Cut(spec, ":")
	for _, w := range strings.Split(rest, ",") {
		switch {
		case w == "poll":
			o.poll = true
		case w == "go":
			o.golog = true
		case w == "strict":
			o.strict = true
		case strings.HasPrefix(w, "skip="):
			o.skip[w[5:]] = true
		case strings.HasPrefix(w, "chan="):
			o.chans[w[5:]] = true
		case strings.HasPrefix(w, "cancel="):
			o.cancels[w[7:]] = true
		}
	}
	return path, o
}

func (in *inst) src(n ast.Node) string {
	var buf bytes.Buffer
	format.Node(&buf, in.fset, n)
	return strings.Join(strings.Fields(buf.String()), " ")
}

func (in *inst) recvField(x ast.Expr) (string, bool) {
	switch v := x.(type) {
	case *ast.SelectorExpr:
		if id, ok := v.X.(*ast.Ident); ok && in.recv != "" && id.Name == in.recv {
			return v.Sel.Name, true
		}
		if p, ok := in.recvField(v.X); ok {
			return p + "." + v.Sel.Name, true
		}
	case *ast.ParenExpr:
		return in.recvField(v.X)
	case *ast.StarExpr:
		return in.recvField(v.X)
	case *ast.UnaryExpr:
		if v.Op == token.AND {
			return in.recvField(v.X)
		}
	}
	return "", false
}

func (in *inst) target(x ast.Expr) string {
	if f, ok := in.recvField(x); ok {
		return f
	}
	if in.derived(x) {
		return in.canon(strings.ReplaceAll(strings.TrimPrefix(in.src(x), in.recv+"."), " ", "")) // no spaces in a log entry's site
	}
	return in.canon(strings.ReplaceAll(in.src(x), " ", ""))
}

// derived: x is the result of a method of the receiver, `recv.m(args)` (e.g. s.getLock(key)); only
// recognised as a synchronisation object when the receiver type can name it (hook zzverifObj).
func (in *inst) derived(x ast.Expr) bool {
	c, ok := x.(*ast.CallExpr)
	if !ok || !in.obj || in.recv == "" {
		return false
	}
	sel, ok := c.Fun.(*ast.SelectorExpr)
	if !ok {
		return false
	}
	id, ok := sel.X.(*ast.Ident)
	return ok && id.Name == in.recv
}

// named: the synchronisation object x of a call x.M() is to be named through recv.zzverifObj
func (in *inst) named(x ast.Expr) bool {
	if !in.obj {
		return false
	}
	if _, isField := in.recvField(x); isField {
		return false
	}
	if id, ok := x.(*ast.Ident); ok {
		return id.Name != in.recv
	}
	return in.derived(x)
}

func (in *inst) objFn() ast.Expr {
	return &ast.SelectorExpr{X: ident(in.recv), Sel: ident("zzverifObj")}
}

type kind int

const (
	kNone    kind = iota
	kAcquire      // blocking: log after it returns
	kRelease      // non-blocking, ends a critical section / frees a resource: run inside the log mutex
	kInstant      // non-blocking action with a result: run inside the log mutex
)

var acquireMethods = map[string]string{"Lock": "Lock", "RLock": "RLock", "Acquire": "SemAcquire", "Wait": "Wait",
	"Do": "OnceDo"} // once.Do(f): returns after the (first) f completed; f's body is instrumented on its own
var releaseMethods = map[string]string{"Unlock": "Unlock", "RUnlock": "RUnlock", "Release": "SemRelease"}
var instantMethods = map[string]string{"TryLock": "TryLock", "TryRLock": "TryRLock", "TryAcquire": "SemTryAcquire",
	"Load": "AtomicLoad", "Store": "AtomicStore", "CompareAndSwap": "CAS", "Swap": "AtomicSwap", "Add": "AtomicAdd"}

// methods of *time.Timer (receiver fields or plain local identifiers)
var timerMethods = map[string]string{"Reset": "TimerReset", "Stop": "TimerStop"}

// classify recognises a synchronisation call; site is "Action(target)".
func (in *inst) classify(c *ast.CallExpr) (kind, string) {
	if id, ok := c.Fun.(*ast.Ident); ok && id.Name == "close" && len(c.Args) == 1 {
		return kRelease, "Close(" + in.target(c.Args[0]) + ")"
	}
	if id, ok := c.Fun.(*ast.Ident); ok && id.Name == "len" && len(c.Args) == 1 {
		if f, ok := in.recvField(c.Args[0]); ok && in.opt.chans[f] {
			return kInstant, "Len(" + f + ")"
		}
	}
	sel, ok := c.Fun.(*ast.SelectorExpr)
	if !ok {
		return kNone, ""
	}
	if f, ok := in.recvField(sel); ok && in.opt.cancels[f] && len(c.Args) == 0 {
		return kRelease, "Cancel(" + f + ")"
	}
	if pk, ok := sel.X.(*ast.Ident); ok && pk.Name == "atomic" && len(c.Args) > 0 {
		return kInstant, "atomic." + sel.Sel.Name + "(" + in.target(c.Args[0]) + ")"
	}
	if id, ok := sel.X.(*ast.Ident); ok && id.Name == "ctx" && sel.Sel.Name == "Err" {
		return kInstant, "ctx.Err"
	}
	// timers: time.NewTimer(d) / t.Reset(d) / t.Stop() (non-blocking; the boolean result is logged)
	if pk, ok := sel.X.(*ast.Ident); ok && pk.Name == "time" && sel.Sel.Name == "NewTimer" && len(c.Args) == 1 {
		return kInstant, "NewTimer"
	}
	// methods: only on receiver fields or plain local identifiers (mutexes, semaphores, atomics, timers)
	_, isField := in.recvField(sel.X)
	_, isIdent := sel.X.(*ast.Ident)
	isDerived := in.derived(sel.X)
	if !isField && !isIdent && !isDerived {
		return kNone, ""
	}
	if id, ok := sel.X.(*ast.Ident); ok && (id.Name == in.recv || id.Name == "ctx" || id.Name == "atomic" || id.Name == "time") {
		return kNone, ""
	}
	if m, ok := acquireMethods[sel.Sel.Name]; ok {
		return kAcquire, m + "(" + in.target(sel.X) + ")"
	}
	if m, ok := releaseMethods[sel.Sel.Name]; ok {
		return kRelease, m + "(" + in.target(sel.X) + ")"
	}
	// (a local is only trusted with the Try… methods, and only where objects can be named: `l := s.getLock(key); l.TryLock()`)
	if m, ok := instantMethods[sel.Sel.Name]; ok && (isField || isDerived || (isIdent && in.obj && strings.HasPrefix(sel.Sel.Name, "Try"))) {
		// Load/Store/Add/Swap/CompareAndSwap are atomic actions only on fields whose declared type is a sync/atomic type
		// (c.List.Add(i, t) of a wrapped list is an ordinary call)
		if (strings.HasPrefix(m, "Atomic") || m == "CAS") && isField && !isDerived {
			if fs, ok := sel.X.(*ast.SelectorExpr); !ok || !in.atomicFields[fs.Sel.Name] {
				return kNone, ""
			}
		}
		return kInstant, m + "(" + in.target(sel.X) + ")"
	}
	if m, ok := timerMethods[sel.Sel.Name]; ok && ((sel.Sel.Name == "Stop" && len(c.Args) == 0) || (sel.Sel.Name == "Reset" && len(c.Args) == 1)) {
		return kInstant, m + "(" + in.target(sel.X) + ")"
	}
	return kNone, ""
}

func ident(s string) *ast.Ident { return ast.NewIdent(s) }
func strLit(s string) ast.Expr {
	return &ast.BasicLit{Kind: token.STRING, Value: fmt.Sprintf("%q", s)}
}
func call(fn string, args ...ast.Expr) *ast.CallExpr {
	return &ast.CallExpr{Fun: ident(fn), Args: args}
}
func stmtOf(e ast.Expr) ast.Stmt { return &ast.ExprStmt{X: e} }

func (in *inst) site(action string) ast.Expr { return strLit(in.fn + ":" + action) }

func (in *inst) snapArg(action string) ast.Expr {
	// snapshot only at the end of critical sections of receiver mutexes
	if in.snap && in.recv != "" && (strings.HasPrefix(action, "Unlock(") || strings.HasPrefix(action, "RUnlock(")) &&
		!strings.ContainsAny(action[strings.Index(action, "(")+1:], " .*&") {
		return &ast.FuncLit{
			Type: &ast.FuncType{Params: &ast.FieldList{}, Results: &ast.FieldList{List: []*ast.Field{{Type: ident("string")}}}},
			Body: &ast.BlockStmt{List: []ast.Stmt{&ast.ReturnStmt{Results: []ast.Expr{
				&ast.CallExpr{Fun: &ast.SelectorExpr{X: ident(in.recv), Sel: ident("zzverifSnap")}}}}}},
		}
	}
	return ident("nil")
}

// wrapInstants rewrites, inside expression e, every instant sync call f(...) into zzverifInV(site, f(...))
// (the caller has arranged that the whole statement runs inside the log mutex). Returns whether any
// was found and whether a blocking action occurs in e (then the statement cannot be bracketed).
func (in *inst) wrapInstants(e *ast.Expr) (found, blocking bool) {
	if *e == nil {
		return
	}
	nested := false
	defer func() { blocking = blocking || (found && nested) }()
	var walk func(p *ast.Expr)
	walk = func(p *ast.Expr) {
		switch v := (*p).(type) {
		case nil:
		case *ast.FuncLit:
			return // separate body, instrumented on its own
		case *ast.CallExpr:
			for i := range v.Args {
				walk(&v.Args[i])
			}
			walk(&v.Fun)
			k, site := in.classify(v)
			switch k {
			case kNone:
				// option strict: a method of the receiver (or of one of its fields) called inside a statement that
				// will run inside the log mutex may itself log or block (it may be an instrumented function)
				if sel, ok := v.Fun.(*ast.SelectorExpr); ok && in.opt.strict {
					_, onField := in.recvField(sel.X)
					if id, isId := sel.X.(*ast.Ident); onField || (isId && in.recv != "" && id.Name == in.recv) {
						nested = true
					}
				}
			case kInstant:
				found = true
				if sel, ok := v.Fun.(*ast.SelectorExpr); ok && in.named(sel.X) {
					sel.X = call("zzverifBind", sel.X)
					*p = call("zzverifInVO", in.site(site), v, in.objFn())
				} else if w := in.pointerAtomic(site, v); w != nil {
					*p = w
				} else {
					*p = call("zzverifInV", in.site(site), v)
				}
			case kAcquire:
				blocking = true
			case kRelease:
				blocking = true // handled at statement level only
			}
		case *ast.UnaryExpr:
			if v.Op == token.ARROW {
				blocking = true
			}
			walk(&v.X)
		case *ast.BinaryExpr:
			walk(&v.X)
			walk(&v.Y)
		case *ast.ParenExpr:
			walk(&v.X)
		case *ast.StarExpr:
			walk(&v.X)
		case *ast.SelectorExpr:
			walk(&v.X)
		case *ast.IndexExpr:
			walk(&v.X)
			walk(&v.Index)
		case *ast.SliceExpr:
			walk(&v.X)
		case *ast.TypeAssertExpr:
			walk(&v.X)
		case *ast.CompositeLit:
			for i := range v.Elts {
				walk(&v.Elts[i])
			}
		case *ast.KeyValueExpr:
			walk(&v.Value)
		}
	}
	walk(e)
	return
}

// pure: an expression without calls, receives or index expressions (it may be evaluated twice).
func pure(e ast.Expr) bool {
	ok := true
	ast.Inspect(e, func(n ast.Node) bool {
		switch n.(type) {
		case *ast.CallExpr, *ast.IndexExpr, *ast.FuncLit:
			ok = false
		case *ast.UnaryExpr:
			if n.(*ast.UnaryExpr).Op == token.ARROW {
				ok = false
			}
		}
		return ok
	})
	return ok
}

// pointerAtomic: atomic.LoadPointer(&x.f) and atomic.CompareAndSwapPointer(&x.f, old, new) with pure arguments also log
// pointer identities (of the word, the value read, the expected and the new value); nil for any other call.
func (in *inst) pointerAtomic(site string, c *ast.CallExpr) ast.Expr {
	sel, ok := c.Fun.(*ast.SelectorExpr)
	if !ok {
		return nil
	}
	if pk, ok := sel.X.(*ast.Ident); !ok || pk.Name != "atomic" {
		return nil
	}
	for _, a := range c.Args {
		if !pure(a) {
			return nil
		}
	}
	switch {
	case sel.Sel.Name == "LoadPointer" && len(c.Args) == 1:
		return call("zzverifInPL", in.site(site), call("zzverifAddr", c.Args[0]), c)
	case sel.Sel.Name == "CompareAndSwapPointer" && len(c.Args) == 3:
		return call("zzverifInPC", in.site(site), call("zzverifAddr", c.Args[0]), c, c.Args[1], c.Args[2])
	}
	return nil
}

// hasInstant reports whether e contains an instant sync call (without rewriting).
func (in *inst) hasInstant(e ast.Expr) bool {
	found := false
	ast.Inspect(e, func(n ast.Node) bool {
		if _, ok := n.(*ast.FuncLit); ok {
			return false
		}
		if c, ok := n.(*ast.CallExpr); ok {
			if k, _ := in.classify(c); k == kInstant {
				found = true
			}
		}
		return !found
	})
	return found
}

// plain reports whether evaluating e twice is the same as evaluating it once (no call, no receive, no
// function literal): identifiers, selectors, literals, composite literals of such, index expressions.
func (in *inst) plain(e ast.Expr) bool {
	ok := true
	ast.Inspect(e, func(n ast.Node) bool {
		switch x := n.(type) {
		case *ast.CallExpr, *ast.FuncLit:
			ok = false
		case *ast.UnaryExpr:
			if x.Op == token.ARROW {
				ok = false
			}
		}
		return ok
	})
	return ok
}

func (in *inst) fail(n ast.Node, why string) {
	in.fails = append(in.fails, fmt.Sprintf("%s: %s: %s", in.fn, why, in.src(n)))
}

// cond rewrites a boolean condition that contains instant actions into
//
//	zzverifLeaveB(<cond with wrapped instants>)   preceded by zzverifEnter() in the init position
//
// and returns the init statement to use (nil if nothing was rewritten).
func (in *inst) cond(c *ast.Expr) ast.Stmt {
	if *c == nil || !in.hasInstant(*c) {
		return nil
	}
	_, blocking := in.wrapInstants(c)
	if blocking {
		in.fail(*c, "condition mixes blocking and non-blocking synchronisation")
		return nil
	}
	*c = call("zzverifLeaveB", *c)
	return stmtOf(call("zzverifEnter"))
}

func (in *inst) list(list []ast.Stmt) []ast.Stmt {
	var out []ast.Stmt
	for _, s := range list {
		out = append(out, in.stmt(s)...)
	}
	return out
}

func (in *inst) block(b *ast.BlockStmt) {
	if b != nil {
		b.List = in.list(b.List)
	}
}

// funcLits instruments the bodies of function literals occurring in n (they are separate bodies).
func (in *inst) funcLits(n ast.Node) {
	ast.Inspect(n, func(x ast.Node) bool {
		if fl, ok := x.(*ast.FuncLit); ok {
			saved := in.res
			in.res = resultTypes(fl.Type)
			in.block(fl.Body)
			in.res = saved
			return false
		}
		return true
	})
}

func (in *inst) stmt(s ast.Stmt) []ast.Stmt {
	switch v := s.(type) {
	case *ast.ExprStmt:
		if c, ok := v.X.(*ast.CallExpr); ok {
			k, site := in.classify(c)
			switch k {
			case kAcquire:
				in.funcLits(c)
				if sel, ok := c.Fun.(*ast.SelectorExpr); ok && in.named(sel.X) {
					// { zzverifT := X; zzverifT.Lock(); zzverifAfterS(site, recv.zzverifObj(zzverifT)) }
					bind := &ast.AssignStmt{Lhs: []ast.Expr{ident("zzverifT")}, Tok: token.DEFINE, Rhs: []ast.Expr{sel.X}}
					sel.X = ident("zzverifT")
					return []ast.Stmt{&ast.BlockStmt{List: []ast.Stmt{bind, s,
						stmtOf(call("zzverifAfterS", in.site(site), &ast.CallExpr{Fun: in.objFn(), Args: []ast.Expr{ident("zzverifT")}}))}}}
				}
				return []ast.Stmt{s, stmtOf(call("zzverifAfter", in.site(site)))}
			case kRelease:
				if id, ok := c.Fun.(*ast.Ident); ok && id.Name == "close" {
					if ch, ok := c.Args[0].(*ast.Ident); ok {
						// close of a channel held by a local variable: its identity is logged
						return []ast.Stmt{stmtOf(call("zzverifRelCh", in.site(site), thunk(c), ident(ch.Name)))}
					}
				}
				if sel, ok := c.Fun.(*ast.SelectorExpr); ok && in.named(sel.X) {
					// { zzverifT := X; zzverifRel(site, func() { zzverifT.Unlock() }, func() string { return recv.zzverifObj(zzverifT) }) }
					bind := &ast.AssignStmt{Lhs: []ast.Expr{ident("zzverifT")}, Tok: token.DEFINE, Rhs: []ast.Expr{sel.X}}
					sel.X = ident("zzverifT")
					name := &ast.FuncLit{
						Type: &ast.FuncType{Params: &ast.FieldList{}, Results: &ast.FieldList{List: []*ast.Field{{Type: ident("string")}}}},
						Body: &ast.BlockStmt{List: []ast.Stmt{&ast.ReturnStmt{Results: []ast.Expr{
							&ast.CallExpr{Fun: in.objFn(), Args: []ast.Expr{ident("zzverifT")}}}}}},
					}
					return []ast.Stmt{&ast.BlockStmt{List: []ast.Stmt{bind, stmtOf(call("zzverifRel", in.site(site), thunk(c), name))}}}
				}
				return []ast.Stmt{stmtOf(call("zzverifRel", in.site(site), thunk(c), in.snapArg(site)))}
			case kInstant:
				// a statement that is an atomic store (x.Store(v), atomic.StoreInt32(&x, v)) has no value to log
				if sel, ok := c.Fun.(*ast.SelectorExpr); ok && strings.HasPrefix(sel.Sel.Name, "Store") {
					for i := range c.Args {
						if _, blocking := in.wrapInstants(&c.Args[i]); blocking {
							in.fail(s, "statement mixes blocking and non-blocking synchronisation")
						}
					}
					return []ast.Stmt{stmtOf(call("zzverifEnter")), stmtOf(call("zzverifIn", in.site(site))), s, stmtOf(call("zzverifLeave"))}
				}
			}
		}
		if u, ok := v.X.(*ast.UnaryExpr); ok && u.Op == token.ARROW {
			return []ast.Stmt{s, stmtOf(call("zzverifAfter", in.site("Recv("+in.target(u.X)+")")))}
		}
		return in.simple(s, &v.X)
	case *ast.SendStmt:
		// A send may block.  If the value is a plain expression (evaluating it twice is the same as once), a
		// non-blocking attempt is made first INSIDE the log mutex: when it succeeds (always, for a buffered
		// channel that has room) the entry is atomic with the send, so it precedes the entry of the receive it
		// enables.  Otherwise (the attempt found the channel not ready) the send blocks outside the log mutex
		// and is logged right after it completed, like every blocking action.  A successful attempt is the
		// original send succeeding at that moment: no new behaviour.  The channel expression is evaluated once,
		// before the log mutex is taken (it may panic: nil dereference).
		site := in.site("Send(" + in.target(v.Chan) + ")")
		if !in.plain(v.Value) {
			return []ast.Stmt{s, stmtOf(call("zzverifAfter", site))}
		}
		ch := ident("zzverifCh")
		try := &ast.SelectStmt{Body: &ast.BlockStmt{List: []ast.Stmt{
			&ast.CommClause{Comm: &ast.SendStmt{Chan: ch, Value: v.Value},
				Body: []ast.Stmt{stmtOf(call("zzverifIn", site)), stmtOf(call("zzverifLeave"))}},
			&ast.CommClause{Body: []ast.Stmt{stmtOf(call("zzverifLeave")), &ast.SendStmt{Chan: ch, Value: v.Value},
				stmtOf(call("zzverifAfter", site))}},
		}}}
		return []ast.Stmt{&ast.BlockStmt{List: []ast.Stmt{
			&ast.AssignStmt{Lhs: []ast.Expr{ch}, Tok: token.DEFINE, Rhs: []ast.Expr{v.Chan}},
			stmtOf(call("zzverifEnter")), try}}}
	case *ast.DeferStmt:
		k, site := in.classify(v.Call)
		if k == kRelease {
			v.Call = call("zzverifRel", in.site(site), v.Call.Fun, in.snapArg(site))
			if id, ok := v.Call.Args[1].(*ast.Ident); ok && id.Name == "close" {
				in.fail(s, "deferred close")
			}
			return []ast.Stmt{s}
		}
		if k == kInstant && !strings.HasPrefix(site, "Timer") && site != "NewTimer" {
			// defer f(a…)  ->  defer zzverifDeferN(site, f, a…): same evaluation time of f's operands
			// (a deferred timer/ticker Stop is left as it is: Ticker.Stop has no result)
			n := len(v.Call.Args)
			if n > 3 || strings.Contains(site, "Store") {
				in.fail(s, "deferred synchronisation action of this shape")
				return []ast.Stmt{s}
			}
			args := append([]ast.Expr{in.site(site), v.Call.Fun}, v.Call.Args...)
			v.Call = call(fmt.Sprintf("zzverifDefer%d", n), args...)
			return []ast.Stmt{s}
		}
		if k == kAcquire && len(v.Call.Args) == 0 {
			// defer x.Lock()  ->  defer zzverifAcq(site, x.Lock): method value bound now, logged after it returned
			v.Call = call("zzverifAcq", in.site(site), v.Call.Fun)
			return []ast.Stmt{s}
		}
		in.funcLits(v.Call)
		return []ast.Stmt{s}
	case *ast.GoStmt:
		in.funcLits(v.Call)
		if in.opt.golog {
			for i := range v.Call.Args {
				if _, blocking := in.wrapInstants(&v.Call.Args[i]); blocking {
					in.fail(s, "go statement with a blocking argument")
				}
			}
			callee := "func"
			if _, lit := v.Call.Fun.(*ast.FuncLit); !lit {
				callee = in.target(v.Call.Fun)
			}
			return []ast.Stmt{stmtOf(call("zzverifEnter")), s, stmtOf(call("zzverifIn", in.site("Go("+callee+")"))), stmtOf(call("zzverifLeave"))}
		}
		return []ast.Stmt{s}
	case *ast.AssignStmt:
		// x := <-ch  /  err := sem.Acquire(ctx, 1): blocking, logged after
		if len(v.Rhs) == 1 {
			if c, ok := v.Rhs[0].(*ast.CallExpr); ok {
				if k, site := in.classify(c); k == kAcquire {
					if len(v.Lhs) == 1 {
						v.Rhs[0] = call("zzverifAfterV", in.site(site), c)
						return []ast.Stmt{s}
					}
				}
			}
			if u, ok := v.Rhs[0].(*ast.UnaryExpr); ok && u.Op == token.ARROW {
				return []ast.Stmt{s, stmtOf(call("zzverifAfter", in.site("Recv("+in.target(u.X)+")")))}
			}
		}
		any := false
		for i := range v.Rhs {
			if in.hasInstant(v.Rhs[i]) {
				any = true
			}
		}
		if !any {
			for _, r := range v.Rhs {
				in.funcLits(r)
			}
			return []ast.Stmt{s}
		}
		for i := range v.Rhs {
			if _, blocking := in.wrapInstants(&v.Rhs[i]); blocking {
				in.fail(s, "assignment mixes blocking and non-blocking synchronisation")
			}
		}
		return []ast.Stmt{stmtOf(call("zzverifEnter")), s, stmtOf(call("zzverifLeave"))}
	case *ast.IncDecStmt:
		return []ast.Stmt{s}
	case *ast.ReturnStmt:
		any := false
		for _, r := range v.Results {
			if in.hasInstant(r) {
				any = true
			}
		}
		if !any {
			for _, r := range v.Results {
				in.funcLits(r)
			}
			return []ast.Stmt{s}
		}
		for i := range v.Results {
			if _, blocking := in.wrapInstants(&v.Results[i]); blocking {
				in.fail(s, "return mixes blocking and non-blocking synchronisation")
			}
		}
		// an untyped nil among the results: instantiate the helper with the function's declared result types
		var leave2 ast.Expr = ident("zzverifLeaveV2")
		for _, r := range v.Results {
			if id, ok := r.(*ast.Ident); ok && id.Name == "nil" && len(in.res) == 2 && len(v.Results) == 2 {
				leave2 = &ast.IndexListExpr{X: ident("zzverifLeaveV2"), Indices: []ast.Expr{in.res[0], in.res[1]}}
			}
		}
		switch len(v.Results) {
		case 1:
			v.Results = []ast.Expr{call("zzverifLeaveV", v.Results[0])}
		case 2:
			v.Results = []ast.Expr{&ast.CallExpr{Fun: leave2, Args: []ast.Expr{v.Results[0], v.Results[1]}}}
		default:
			in.fail(s, "return of more than two values with synchronisation inside")
		}
		return []ast.Stmt{stmtOf(call("zzverifEnter")), s}
	case *ast.BlockStmt:
		in.block(v)
		return []ast.Stmt{s}
	case *ast.LabeledStmt:
		r := in.stmt(v.Stmt)
		if len(r) == 1 {
			v.Stmt = r[0]
		} else {
			v.Stmt = &ast.BlockStmt{List: r}
			in.fail(s, "labelled statement needs wrapping")
		}
		return []ast.Stmt{s}
	case *ast.IfStmt:
		var pre []ast.Stmt
		if v.Init != nil {
			// hoist the init statement into an enclosing block so it can be instrumented like any other
			pre = in.stmt(v.Init)
			v.Init = nil
		}
		if enter := in.cond(&v.Cond); enter != nil {
			v.Init = enter
		}
		in.block(v.Body)
		if v.Else != nil {
			r := in.stmt(v.Else)
			if len(r) == 1 {
				v.Else = r[0]
			} else {
				v.Else = &ast.BlockStmt{List: r}
			}
		}
		if pre != nil {
			return []ast.Stmt{&ast.BlockStmt{List: append(pre, s)}}
		}
		return []ast.Stmt{s}
	case *ast.ForStmt:
		if v.Cond != nil && in.hasInstant(v.Cond) {
			if _, blocking := in.wrapInstants(&v.Cond); blocking {
				in.fail(s, "loop condition mixes blocking and non-blocking synchronisation")
			}
			// for <cond> {…}  ->  for func() bool { enter; return leaveB(cond) }() {…}
			v.Cond = &ast.CallExpr{Fun: &ast.FuncLit{
				Type: &ast.FuncType{Params: &ast.FieldList{}, Results: &ast.FieldList{List: []*ast.Field{{Type: ident("bool")}}}},
				Body: &ast.BlockStmt{List: []ast.Stmt{stmtOf(call("zzverifEnter")),
					&ast.ReturnStmt{Results: []ast.Expr{call("zzverifLeaveB", v.Cond)}}}},
			}}
		}
		if v.Init != nil && in.stmtHasSync(v.Init) {
			in.fail(s, "loop init with synchronisation")
		}
		if v.Post != nil && in.stmtHasSync(v.Post) {
			in.fail(s, "loop post with synchronisation")
		}
		in.block(v.Body)
		return []ast.Stmt{s}
	case *ast.RangeStmt:
		if in.hasInstant(v.X) {
			in.fail(s, "range expression with synchronisation")
		}
		in.block(v.Body)
		if f, ok := in.recvField(v.X); ok && in.opt.poll && in.opt.chans[f] {
			return in.pollRange(v, f)
		}
		return []ast.Stmt{s}
	case *ast.SwitchStmt:
		var pre []ast.Stmt
		if v.Init != nil {
			pre = in.stmt(v.Init)
			v.Init = nil
		}
		if v.Tag != nil && in.hasInstant(v.Tag) {
			// switch tag := leaveV(tag'); tag {…} with enter before
			if _, blocking := in.wrapInstants(&v.Tag); blocking {
				in.fail(s, "switch tag mixes blocking and non-blocking synchronisation")
			}
			v.Tag = call("zzverifLeaveV", v.Tag)
			pre = append(pre, stmtOf(call("zzverifEnter")))
		}
		for _, c := range v.Body.List {
			cc := c.(*ast.CaseClause)
			for _, x := range cc.List {
				if in.hasInstant(x) {
					in.fail(x, "case expression with synchronisation")
				}
			}
			cc.Body = in.list(cc.Body)
		}
		if pre != nil {
			return []ast.Stmt{&ast.BlockStmt{List: append(pre, s)}}
		}
		return []ast.Stmt{s}
	case *ast.TypeSwitchStmt:
		for _, c := range v.Body.List {
			cc := c.(*ast.CaseClause)
			cc.Body = in.list(cc.Body)
		}
		return []ast.Stmt{s}
	case *ast.SelectStmt:
		hasDefault := false
		for _, c := range v.Body.List {
			if c.(*ast.CommClause).Comm == nil {
				hasDefault = true
			}
		}
		for _, c := range v.Body.List {
			cc := c.(*ast.CommClause)
			cc.Body = in.list(cc.Body)
			arm := "default"
			if cc.Comm != nil {
				arm = in.armName(cc.Comm)
			}
			if hasDefault || in.opt.poll {
				// non-blocking select: the whole statement runs inside the log mutex
				logit := stmtOf(call("zzverifIn", in.site("Select:"+arm)))
				if okv := recvOk(cc.Comm); okv != "" && in.opt.poll {
					logit = &ast.AssignStmt{Lhs: []ast.Expr{ident("_")}, Tok: token.ASSIGN,
						Rhs: []ast.Expr{call("zzverifInV", in.site("Select:"+arm), ident(okv))}}
				}
				cc.Body = append([]ast.Stmt{logit, stmtOf(call("zzverifLeave"))}, cc.Body...)
			} else if ch := recvIdent(cc.Comm); ch != "" {
				// receive from a channel held by a local variable: its identity is logged
				cc.Body = append([]ast.Stmt{stmtOf(call("zzverifAfterCh", in.site("Select:"+arm), ident(ch)))}, cc.Body...)
			} else {
				cc.Body = append([]ast.Stmt{stmtOf(call("zzverifAfter", in.site("Select:"+arm)))}, cc.Body...)
			}
		}
		if hasDefault {
			return []ast.Stmt{stmtOf(call("zzverifEnter")), s}
		}
		if in.opt.poll {
			// L: zzverifEnter(); select { arms…; default: zzverifLeave(); zzverifPause(); goto L }
			in.nlab++
			lab := fmt.Sprintf("zzverifPoll%d", in.nlab)
			v.Body.List = append(v.Body.List, &ast.CommClause{Body: []ast.Stmt{stmtOf(call("zzverifLeave")), stmtOf(call("zzverifPause")),
				&ast.BranchStmt{Tok: token.GOTO, Label: ident(lab)}}})
			return []ast.Stmt{&ast.LabeledStmt{Label: ident(lab), Stmt: stmtOf(call("zzverifEnter"))}, s}
		}
		return []ast.Stmt{s}
	case *ast.DeclStmt:
		if gd, ok := v.Decl.(*ast.GenDecl); ok {
			for _, sp := range gd.Specs {
				if vs, ok := sp.(*ast.ValueSpec); ok {
					for _, val := range vs.Values {
						if in.hasInstant(val) {
							in.fail(s, "declaration with synchronisation")
						}
						in.funcLits(val)
					}
				}
			}
		}
		return []ast.Stmt{s}
	}
	return []ast.Stmt{s}
}

// recvIdent: the name of the local variable x if comm is `<-x` / `v := <-x` / `v = <-x`, else "".
func recvIdent(comm ast.Stmt) string {
	var e ast.Expr
	switch c := comm.(type) {
	case *ast.ExprStmt:
		e = c.X
	case *ast.AssignStmt:
		if len(c.Rhs) == 1 {
			e = c.Rhs[0]
		}
	}
	if u, ok := e.(*ast.UnaryExpr); ok && u.Op == token.ARROW {
		if id, ok := u.X.(*ast.Ident); ok {
			return id.Name
		}
	}
	return ""
}

func (in *inst) armName(comm ast.Stmt) string {
	switch c := comm.(type) {
	case *ast.SendStmt:
		return "Send(" + in.target(c.Chan) + ")"
	case *ast.ExprStmt:
		if u, ok := c.X.(*ast.UnaryExpr); ok && u.Op == token.ARROW {
			return "Recv(" + in.target(u.X) + ")"
		}
	case *ast.AssignStmt:
		if len(c.Rhs) == 1 {
			if u, ok := c.Rhs[0].(*ast.UnaryExpr); ok && u.Op == token.ARROW {
				return "Recv(" + in.target(u.X) + ")"
			}
		}
	}
	return "?"
}

// recvOk: the name of the ok variable of a two-valued receive arm (`x, ok := <-ch`), or "".
func recvOk(comm ast.Stmt) string {
	if a, ok := comm.(*ast.AssignStmt); ok && len(a.Lhs) == 2 && len(a.Rhs) == 1 {
		if u, ok := a.Rhs[0].(*ast.UnaryExpr); ok && u.Op == token.ARROW {
			if id, ok := a.Lhs[1].(*ast.Ident); ok && id.Name != "_" {
				return id.Name
			}
		}
	}
	return ""
}

// pollRange: `for k := range recv.f { body }` over a channel field (options poll + chan=f) becomes
//
//	R: for { zzverifEnter(); select {
//	   case k, zzverifOk := <-recv.f: log Range:Recv(f) ok; zzverifLeave(); if !zzverifOk { break R }; body
//	   default: zzverifLeave(); zzverifPause() } }
func (in *inst) pollRange(v *ast.RangeStmt, f string) []ast.Stmt {
	if v.Value != nil || (v.Key != nil && v.Tok != token.DEFINE) || hasBareBreak(v.Body) {
		in.fail(v, "channel range of this shape")
		return []ast.Stmt{v}
	}
	in.nlab++
	lab := fmt.Sprintf("zzverifRange%d", in.nlab)
	var key ast.Expr = ident("_")
	if v.Key != nil {
		key = v.Key
	}
	recv := &ast.AssignStmt{Lhs: []ast.Expr{key, ident("zzverifOk")}, Tok: token.DEFINE,
		Rhs: []ast.Expr{&ast.UnaryExpr{Op: token.ARROW, X: v.X}}}
	body := []ast.Stmt{
		&ast.AssignStmt{Lhs: []ast.Expr{ident("_")}, Tok: token.ASSIGN,
			Rhs: []ast.Expr{call("zzverifInV", in.site("Range:Recv("+f+")"), ident("zzverifOk"))}},
		stmtOf(call("zzverifLeave")),
		&ast.IfStmt{Cond: &ast.UnaryExpr{Op: token.NOT, X: ident("zzverifOk")},
			Body: &ast.BlockStmt{List: []ast.Stmt{&ast.BranchStmt{Tok: token.BREAK, Label: ident(lab)}}}},
	}
	body = append(body, v.Body.List...)
	sel := &ast.SelectStmt{Body: &ast.BlockStmt{List: []ast.Stmt{
		&ast.CommClause{Comm: recv, Body: body},
		&ast.CommClause{Body: []ast.Stmt{stmtOf(call("zzverifLeave")), stmtOf(call("zzverifPause"))}},
	}}}
	loop := &ast.ForStmt{Body: &ast.BlockStmt{List: []ast.Stmt{stmtOf(call("zzverifEnter")), sel}}}
	return []ast.Stmt{&ast.LabeledStmt{Label: ident(lab), Stmt: loop}}
}

// hasBareBreak: an unlabelled break that would leave the range loop itself
func hasBareBreak(b *ast.BlockStmt) bool {
	found := false
	ast.Inspect(b, func(n ast.Node) bool {
		switch x := n.(type) {
		case *ast.ForStmt, *ast.RangeStmt, *ast.SwitchStmt, *ast.TypeSwitchStmt, *ast.SelectStmt, *ast.FuncLit:
			return false
		case *ast.BranchStmt:
			if x.Tok == token.BREAK && x.Label == nil {
				found = true
			}
		}
		return !found
	})
	return found
}

func (in *inst) stmtHasSync(s ast.Stmt) bool {
	found := false
	ast.Inspect(s, func(n ast.Node) bool {
		if c, ok := n.(*ast.CallExpr); ok {
			if k, _ := in.classify(c); k != kNone {
				found = true
			}
		}
		if u, ok := n.(*ast.UnaryExpr); ok && u.Op == token.ARROW {
			found = true
		}
		return !found
	})
	return found
}

// simple handles an expression statement that is not itself a sync call.
func (in *inst) simple(s ast.Stmt, e *ast.Expr) []ast.Stmt {
	if !in.hasInstant(*e) {
		in.funcLits(*e)
		return []ast.Stmt{s}
	}
	if _, blocking := in.wrapInstants(e); blocking {
		in.fail(s, "statement mixes blocking and non-blocking synchronisation")
	}
	return []ast.Stmt{stmtOf(call("zzverifEnter")), s, stmtOf(call("zzverifLeave"))}
}

// thunk turns the call f(args) into func() { f(args) }.
func thunk(c *ast.CallExpr) ast.Expr {
	return &ast.FuncLit{Type: &ast.FuncType{Params: &ast.FieldList{}}, Body: &ast.BlockStmt{List: []ast.Stmt{stmtOf(c)}}}
}

func main() {
	root := flag.String("root", ".", "scratch repo root")
	flag.Parse()
	pkgs := map[string]string{}
	var fails []string
	for _, spec := range flag.Args() {
		rel, opt := parseSpec(spec)
		path := filepath.Join(*root, rel)
		fset := token.NewFileSet()
		f, err := parser.ParseFile(fset, path, nil, parser.ParseComments)
		if err != nil {
			fmt.Fprintln(os.Stderr, "evinst:", err)
			os.Exit(1)
		}
		// receiver types that have a snapshot hook (declared in any file of the package directory)
		snapTypes := hookTypes(filepath.Dir(path), "zzverifSnap")
		atomicFields := atomicFieldNames(filepath.Dir(path))
		objTypes := hookTypes(filepath.Dir(path), "zzverifObj")
		for _, d := range f.Decls {
			fd, ok := d.(*ast.FuncDecl)
			if !ok || fd.Body == nil {
				continue
			}
			typ, recv := "", ""
			if fd.Recv != nil && len(fd.Recv.List) == 1 {
				t := fd.Recv.List[0].Type
				if st, ok := t.(*ast.StarExpr); ok {
					t = st.X
				}
				if ie, ok := t.(*ast.IndexExpr); ok {
					t = ie.X
				}
				if il, ok := t.(*ast.IndexListExpr); ok {
					t = il.X
				}
				if id, ok := t.(*ast.Ident); ok {
					typ = id.Name
				}
				if len(fd.Recv.List[0].Names) == 1 {
					recv = fd.Recv.List[0].Names[0].Name
				}
			}
			name := fd.Name.Name
			if opt.skip[name] {
				continue
			}
			if typ != "" {
				name = typ + "_" + name
			}
			in := &inst{fset: fset, fn: name, recv: recv, snap: snapTypes[typ], obj: objTypes[typ] && recv != "", atomicFields: atomicFields, opt: opt, res: resultTypes(fd.Type)}
			in.locals, in.ctxName = declared(fd)
			in.block(fd.Body)
			fails = append(fails, in.fails...)
		}
		f.Comments = nil
		var buf bytes.Buffer
		if err := format.Node(&buf, fset, f); err != nil {
			fmt.Fprintln(os.Stderr, "evinst: print", rel, err)
			os.Exit(1)
		}
		if err := os.WriteFile(path, buf.Bytes(), 0o644); err != nil {
			fmt.Fprintln(os.Stderr, "evinst:", err)
			os.Exit(1)
		}
		pkgs[filepath.Dir(path)] = f.Name.Name
	}
	for dir, name := range pkgs {
		if err := os.WriteFile(filepath.Join(dir, "zz_verif_evlog.go"), []byte(fmt.Sprintf(evlogSrc, name)), 0o644); err != nil {
			fmt.Fprintln(os.Stderr, "evinst:", err)
			os.Exit(1)
		}
	}
	if len(fails) > 0 {
		for _, m := range fails {
			fmt.Fprintln(os.Stderr, "evinst: unsupported:", m)
		}
		os.Exit(3)
	}
}

// hookTypes: receiver types for which some file of dir declares the hook method `func (x *T[...]) <method>(…) string`
// (zzverifSnap() string: white-box snapshot; zzverifObj(any) string: name of a synchronisation object).
func hookTypes(dir string, method string) map[string]bool {
	out := map[string]bool{}
	ents, _ := os.ReadDir(dir)
	for _, e := range ents {
		if !strings.HasSuffix(e.Name(), ".go") || strings.HasSuffix(e.Name(), "_test.go") {
			continue
		}
		fset := token.NewFileSet()
		f, err := parser.ParseFile(fset, filepath.Join(dir, e.Name()), nil, 0)
		if err != nil {
			continue
		}
		for _, d := range f.Decls {
			fd, ok := d.(*ast.FuncDecl)
			if !ok || fd.Recv == nil || fd.Name.Name != method || len(fd.Recv.List) != 1 {
				continue
			}
			t := fd.Recv.List[0].Type
			if st, ok := t.(*ast.StarExpr); ok {
				t = st.X
			}
			if ie, ok := t.(*ast.IndexExpr); ok {
				t = ie.X
			}
			if il, ok := t.(*ast.IndexListExpr); ok {
				t = il.X
			}
			if id, ok := t.(*ast.Ident); ok {
				out[id.Name] = true
			}
		}
	}
	return out
}

// atomicFieldNames: the struct fields declared in dir whose type expression mentions the package atomic
// (atomic.Int32, *atomic.Value, atomic.Pointer[T], …).
func atomicFieldNames(dir string) map[string]bool {
	out := map[string]bool{}
	ents, _ := os.ReadDir(dir)
	for _, e := range ents {
		if !strings.HasSuffix(e.Name(), ".go") || strings.HasSuffix(e.Name(), "_test.go") {
			continue
		}
		fset := token.NewFileSet()
		f, err := parser.ParseFile(fset, filepath.Join(dir, e.Name()), nil, 0)
		if err != nil {
			continue
		}
		ast.Inspect(f, func(n ast.Node) bool {
			st, ok := n.(*ast.StructType)
			if !ok || st.Fields == nil {
				return true
			}
			for _, fld := range st.Fields.List {
				isAtomic := false
				ast.Inspect(fld.Type, func(x ast.Node) bool {
					if se, ok := x.(*ast.SelectorExpr); ok {
						if id, ok := se.X.(*ast.Ident); ok && id.Name == "atomic" {
							isAtomic = true
						}
					}
					return !isAtomic
				})
				if isAtomic {
					for _, nm := range fld.Names {
						out[nm.Name] = true
					}
				}
			}
			return true
		})
	}
	return out
}
