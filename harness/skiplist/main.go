// Correspondence harness for C05 (skip list): drives internal/list.SkipList and the public
// list.SkipList wrapper and writes one "op => observation" line per call. Every observation has
// the black-box AsSlice() and a white-box dump: tower heights, level, size, and the chain of every
// level >= 1 as positions in the level-0 chain. The tower heights come from the process-global
// generator of golang.org/x/exp/rand, which every case re-seeds through the public rand.Seed.
//
//	skiplist -mode gen -tier quick|thorough -out ops.txt     (seed from VERIF_SEED)
//	skiplist -mode run -ops ops.txt -out trace.txt -stats stats.json
package main

import (
	"encoding/json"
	"flag"
	"fmt"
	"math"
	"os"
	"strconv"
	"strings"

	il "github.com/ecodeclub/ekit/internal/list"
	"github.com/ecodeclub/ekit/list"
	"github.com/ecodeclub/ekit/zzverif/vlib"
	"golang.org/x/exp/rand"
)

var cmps = []string{"nat", "nat", "div3", "div3", "rev", "diff"}

// extreme elements (never under "diff": a-b must not overflow)
var extremes = []int{math.MaxInt, math.MinInt, math.MaxInt - 1, math.MinInt + 1}
var kinds = []string{"sl", "sl", "slpub"}

func cmpOf(name string) func(a, b int) int {
	nat := func(a, b int) int {
		if a < b {
			return -1
		} else if a == b {
			return 0
		}
		return 1
	}
	switch name {
	case "nat":
		return nat
	case "div3":
		return func(a, b int) int { return nat(a/3, b/3) }
	case "rev":
		return func(a, b int) int { return nat(b, a) }
	case "diff":
		// results of any magnitude (not only -1/0/1): only the sign may matter
		return func(a, b int) int { return a - b }
	}
	panic("cmp " + name)
}

func gen(tier string, out *vlib.Out) {
	r := vlib.NewRng(vlib.Seed())
	cases := 500
	if tier == "thorough" {
		cases = 4000
	}
	corpus := []string{
		"new sl nat 1\npeek\nget 0\nget -1\nsearch 3\ndel 3\nlen\nasslice\nins 3\npeek\nget 0\nget 1\nsearch 3\nsearch 2\ndel 2\ndel 3\ndel 3\nlen\npeek",
		"new sl nat 7\nins 5\nins 5\nins 5\nins 1\nins 9\nasslice\ndel 5\nsearch 5\ndel 5\ndel 5\nsearch 5\ndel 5\nasslice\nget 1\nget 2",
		"new sl div3 3\nins 4\nins 3\nins 5\nins 6\nins 2\nasslice\nsearch 3\ndel 3\nasslice\nget 0\nget 1\npeek\ndel 5\ndel 4\ndel 3\nasslice",
		"new slof div3 5 7,3,4,5,9,0,4\nasslice\nlen\nsearch 3\nget 2\ndel 4\nins 4\npeek",
		"new slpub rev 11\nins 1\nins 2\nins 3\nins 2\nasslice\nsearch 2\ndel 2\ndel 7\nlen\nasslice",
		// a Get, an Insert of an equal value, then Gets at and after that index (a position remembered across calls goes stale)
		"new sl nat 31\nins 1\nins 2\nins 3\nget 1\nins 2\nget 0\nget 1\nget 2\nget 3\nget 4\nins 3\nget 3\nget 4\nget 5",
		// comparator results other than -1/0/1 (`return a - b`)
		"new sl diff 13\nins 50\nins 10\nins 30\nins 0\nins -20\nins 30\nasslice\nsearch 30\nsearch 20\ndel 10\ndel 20\nget 0\nget 2\npeek\nasslice",
		"new slof diff 17 9,-4,0,7,7,2\nasslice\nsearch 0\ndel 7\nins 1\nasslice",
		// zero-valued elements (the header node holds the zero value too), negatives, extreme ints
		"new sl nat 19\nsearch 0\ndel 0\nins 0\nsearch 0\npeek\nget 0\nlen\nasslice\nins 0\nins -1\nasslice\ndel 0\nsearch 0\ndel 0\nsearch 0\nasslice\ndel -1\nlen\npeek",
		"new sl nat 23\nins 9223372036854775807\nins -9223372036854775808\nins 0\nins 9223372036854775807\nasslice\nsearch -9223372036854775808\nsearch 9223372036854775806\npeek\nget 3\ndel 9223372036854775807\ndel -9223372036854775808\nasslice",
		"new slof div3 29 -9223372036854775808,-9223372036854775807,9223372036854775807,0,-2,2\nasslice\nsearch 1\nsearch -9223372036854775806\ndel 9223372036854775805\nasslice",
	}
	for _, c := range corpus {
		for _, l := range strings.Split(c, "\n") {
			out.Line("%s", l)
		}
	}
	for c := 0; c < cases; c++ {
		kind := vlib.Pick(r, kinds)
		cmp := vlib.Pick(r, cmps)
		span := vlib.Pick(r, []int{2, 6, 15, 40, 300})
		seed := r.Intn(1 << 20)
		n := 0         // upper estimate of the size
		var pool []int // values inserted and not yet chosen for deletion (approximate contents)
		if kind == "sl" && r.Chance(25) {
			k := vlib.Pick(r, []int{0, 1, 2, 5, 12, 40})
			xs := make([]int, k)
			for i := range xs {
				xs[i] = r.Range(-span/2, span)
			}
			pool = append(pool, xs...)
			out.Line("new slof %s %d %s", cmp, seed, vlib.Ints(xs))
			n = k
		} else {
			out.Line("new %s %s %d", kind, cmp, seed)
		}
		pub := kind == "slpub"
		val := func() int {
			if cmp != "diff" && r.Chance(2) {
				return vlib.Pick(r, extremes)
			}
			return r.Range(-span/2, span)
		}
		insv := func() int { v := val(); pool = append(pool, v); return v }
		delv := func() int { // mostly a present value, sometimes an arbitrary (often absent) one
			if len(pool) > 0 && r.Chance(65) {
				i := r.Intn(len(pool))
				v := pool[i]
				pool[i] = pool[len(pool)-1]
				pool = pool[:len(pool)-1]
				return v
			}
			return val()
		}
		idx := func() int {
			switch r.Intn(6) {
			case 0:
				return -1
			case 1:
				return n
			case 2:
				return n - 1
			case 3:
				return 0
			}
			return r.Range(-1, n+1)
		}
		phases := []string{"grow", "churn", "drain", "refill", "churn"}
		if r.Chance(25) {
			phases = []string{"churn"}
		}
		if r.Chance(10) {
			phases = []string{"biggrow", "churn", "drain", "refill"}
		}
		if kind != "slpub" && r.Chance(30) {
			// history-sensitive reads: a Get, then an Insert of a value that is already present (a tie), then every index again
			phases = []string{"grow", "getscan", "churn", "getscan"}
		}
		for _, ph := range phases {
			steps := r.Range(3, 30)
			switch ph {
			case "drain":
				steps = n + span/2 + 2
				if steps > 120 {
					steps = 120
				}
			case "biggrow":
				steps = vlib.Pick(r, []int{60, 120})
				if tier == "thorough" && r.Chance(20) {
					steps = 400
				}
			}
			if ph == "getscan" {
				for round := r.Range(1, 3); round > 0; round-- {
					out.Line("get %d", idx())
					if len(pool) > 0 && r.Chance(80) {
						v := pool[r.Intn(len(pool))]
						pool = append(pool, v)
						out.Line("ins %d", v)
					} else {
						out.Line("ins %d", insv())
					}
					n++
					lim := n
					if lim > 14 {
						lim = 14
					}
					from := 0
					if n > lim {
						from = r.Intn(n - lim + 1)
					}
					for i := from; i < from+lim; i++ {
						out.Line("get %d", i)
					}
				}
				continue
			}
			for s := 0; s < steps; s++ {
				pick := r.Intn(100)
				switch ph {
				case "grow", "refill", "biggrow":
					if pick < 80 {
						out.Line("ins %d", insv())
						n++
					} else if pick < 90 {
						out.Line("search %d", val())
					} else {
						out.Line("len")
					}
				case "drain":
					if pick < 85 {
						out.Line("del %d", delv())
					} else if pub {
						out.Line("asslice")
					} else {
						out.Line("peek")
					}
				default:
					switch {
					case pick < 30:
						out.Line("ins %d", insv())
						n++
					case pick < 58:
						out.Line("del %d", delv())
					case pick < 72:
						out.Line("search %d", val())
					case pick < 84:
						if pub {
							out.Line("search %d", val())
						} else {
							out.Line("get %d", idx())
						}
					case pick < 90:
						if pub {
							out.Line("len")
						} else {
							out.Line("peek")
						}
					case pick < 95:
						out.Line("asslice")
					default:
						out.Line("len")
					}
				}
			}
		}
	}
}

type stats struct {
	Ops       map[string]int `json:"ops"`
	Results   map[string]int `json:"results"`
	Kinds     map[string]int `json:"kinds"`
	Cmps      map[string]int `json:"comparators"`
	Heights   map[string]int `json:"tower_heights"`
	MaxLen    int            `json:"max_len"`
	MaxLevel  int            `json:"max_level"`
	LevelDrop int            `json:"deletes_that_lowered_level"`
	DupIns    int            `json:"inserts_of_present_element"`
	AbsentDel int            `json:"deletes_of_absent_element"`
	Seeds     int            `json:"distinct_generator_seeds"`
	Cases     int            `json:"cases"`
	Lines     int            `json:"lines"`
	Distinct  int            `json:"distinct_state_op_pairs"`
}

type sl struct {
	in  *il.SkipList[int]
	pub *list.SkipList[int]
}

func (s *sl) Insert(v int) {
	if s.pub != nil {
		s.pub.Insert(v)
		return
	}
	s.in.Insert(v)
}
func (s *sl) Delete(v int) bool {
	if s.pub != nil {
		return s.pub.DeleteElement(v)
	}
	return s.in.DeleteElement(v)
}
func (s *sl) Search(v int) bool {
	if s.pub != nil {
		return s.pub.Search(v)
	}
	return s.in.Search(v)
}
func (s *sl) AsSlice() []int {
	if s.pub != nil {
		return s.pub.AsSlice()
	}
	return s.in.AsSlice()
}
func (s *sl) Len() int {
	if s.pub != nil {
		return s.pub.Len()
	}
	return s.in.Len()
}

func chains(ch [][]int) string {
	if len(ch) == 0 {
		return "-"
	}
	parts := make([]string, len(ch))
	for i, c := range ch {
		parts[i] = vlib.Ints(c)
	}
	return strings.Join(parts, "|")
}

// state renders the observation; the dump has Level == -1 when the white-box hooks are the
// black-box stubs (or the wrapped list is hidden): then only the black-box part is printed.
func state(s *sl) (string, il.VerifSkipDump[int], []int) {
	d := il.VerifSkipDump[int]{Level: -1}
	var vals []int
	n := 0
	// a broken structure may make even the read-only walks panic: that is an observation, not a crash
	if p := vlib.Catch(func() {
		vals = s.AsSlice()
		n = s.Len()
		if s.in != nil {
			d = s.in.VerifDump(100000)
		}
	}); p != "" {
		return "statepanic=" + p, d, vals
	}
	if d.Level < 0 {
		return fmt.Sprintf("len=%d vals=%s wb=na", n, vlib.Ints(vals)), d, vals
	}
	return fmt.Sprintf("len=%d vals=%s wvh=%d hs=%s level=%d size=%d hdr=%d ch=%s", n, vlib.Ints(vals),
		vlib.Hash(d.Vals), vlib.Ints(d.Heights), d.Level, d.Size, d.HeaderH, chains(d.Chains)), d, vals
}

// Peek builds its "list is empty" error in place (no sentinel, no constructor), so the reference is
// obtained from the library itself: the error Peek returns on a freshly made empty list. An error is
// "empty" iff it reads the same as that one — whatever the wording is.
var emptyRef struct {
	done bool
	msg  string
	ok   bool
}

func isEmptyErr(err error) bool {
	if !emptyRef.done {
		emptyRef.done = true
		if p := vlib.Catch(func() {
			if _, e := il.NewSkipList[int](cmpOf("nat")).Peek(); e != nil {
				emptyRef.msg, emptyRef.ok = e.Error(), true
			}
		}); p != "" {
			emptyRef.ok = false
		}
	}
	if !emptyRef.ok {
		return false
	}
	if _, _, idx := vlib.IdxErr(err); idx {
		return false
	}
	return err.Error() == emptyRef.msg
}

func okv(v int, err error) string {
	if err != nil {
		if isEmptyErr(err) {
			return "err:empty"
		}
		return vlib.Err(err)
	}
	return "ok:" + strconv.Itoa(v)
}

func run(ops []string, out *vlib.Out, st *stats) {
	var s *sl
	var cmp func(a, b int) int
	present := func(vals []int, v int) bool {
		for _, x := range vals {
			if cmp(x, v) == 0 {
				return true
			}
		}
		return false
	}
	seen := map[string]struct{}{}
	seeds := map[string]struct{}{}
	for _, line := range ops {
		w := strings.Fields(line)
		st.Ops[w[0]]++
		st.Lines++
		if w[0] == "new" {
			st.Cases++
			st.Kinds[w[1]]++
			st.Cmps[w[2]]++
			seeds[w[3]] = struct{}{}
			perr := vlib.Catch(func() {
				seed, _ := strconv.ParseUint(w[3], 10, 64)
				rand.Seed(seed)
				cmp = cmpOf(w[2])
				s = &sl{}
				if w[1] == "slof" {
					s.in = il.NewSkipListFromSlice[int](vlib.ParseInts(w[4]), cmp)
				} else if w[1] == "slpub" {
					s.pub = list.NewSkipList[int](cmp)
					s.in = s.pub.VerifInner()
				} else {
					s.in = il.NewSkipList[int](cmp)
				}
			})
			if perr != "" {
				s = nil
				out.Line("%s => %s", line, perr)
				continue
			}
			sstr, _, _ := state(s)
			out.Line("%s => ok %s", line, sstr)
			continue
		}
		if s == nil {
			out.Line("%s => no-container", line)
			continue
		}
		before, dBefore, valsBefore := state(s)
		var res string
		perr := vlib.Catch(func() {
			switch w[0] {
			case "ins":
				v, _ := strconv.Atoi(w[1])
				if present(valsBefore, v) {
					st.DupIns++
				}
				s.Insert(v)
				res = "ok"
			case "del":
				v, _ := strconv.Atoi(w[1])
				if !present(valsBefore, v) {
					st.AbsentDel++
				}
				res = "ok:" + strconv.FormatBool(s.Delete(v))
			case "search":
				v, _ := strconv.Atoi(w[1])
				res = "ok:" + strconv.FormatBool(s.Search(v))
			case "get":
				i, _ := strconv.Atoi(w[1])
				if s.in == nil {
					res = "na" // not reachable through the public wrapper
				} else {
					res = okv(s.in.Get(i))
				}
			case "peek":
				if s.in == nil {
					res = "na"
				} else {
					res = okv(s.in.Peek())
				}
			case "asslice":
				res = "ok:" + vlib.Ints(s.AsSlice())
			case "len":
				res = "ok:" + strconv.Itoa(s.Len())
			default:
				panic("op " + w[0])
			}
		})
		if perr != "" {
			res = perr
		}
		after, d, valsAfter := state(s)
		if len(valsAfter) > st.MaxLen {
			st.MaxLen = len(valsAfter)
		}
		if d.Level > st.MaxLevel {
			st.MaxLevel = d.Level
		}
		if w[0] == "del" && d.Level >= 0 && d.Level < dBefore.Level {
			st.LevelDrop++
		}
		if w[0] == "ins" && len(d.Heights) == len(dBefore.Heights)+1 && len(d.Vals) == len(d.Heights) && len(dBefore.Vals) == len(dBefore.Heights) {
			// the new tower: the first position where the height sequences differ (or the last)
			k := len(dBefore.Heights)
			for i := range dBefore.Heights {
				if d.Heights[i] != dBefore.Heights[i] || d.Vals[i] != dBefore.Vals[i] {
					k = i
					break
				}
			}
			st.Heights[strconv.Itoa(d.Heights[k])]++
		}
		rk := res
		if i := strings.IndexByte(rk, ':'); i > 0 && !strings.HasPrefix(rk, "err:empty") {
			rk = rk[:i]
			if strings.HasPrefix(res, "err:idx") {
				rk = "err:idx"
			}
		}
		st.Results[w[0]+"/"+rk]++
		if before != after || strings.HasPrefix(res, "err") || strings.HasPrefix(res, "panic") {
			seen[before+"|"+line] = struct{}{}
		}
		out.Line("%s => %s %s", line, res, after)
	}
	st.Distinct = len(seen)
	st.Seeds = len(seeds)
}

func main() {
	mode := flag.String("mode", "gen", "gen|run")
	tier := flag.String("tier", "quick", "quick|thorough")
	opsF := flag.String("ops", "", "ops file (run mode)")
	outF := flag.String("out", "", "output file")
	statsF := flag.String("stats", "", "stats json (run mode)")
	flag.Parse()
	out := vlib.Create(*outF)
	defer out.Close()
	switch *mode {
	case "gen":
		gen(*tier, out)
	case "run":
		st := &stats{Ops: map[string]int{}, Results: map[string]int{}, Kinds: map[string]int{}, Cmps: map[string]int{}, Heights: map[string]int{}}
		run(vlib.ReadLines(*opsF), out, st)
		if *statsF != "" {
			b, _ := json.MarshalIndent(st, "", " ")
			os.WriteFile(*statsF, b, 0o644)
		}
	}
}
