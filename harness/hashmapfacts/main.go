// hashmapfacts reads mapx/hashmap.go with go/ast and prints lean/Ekit/Generated/HashMapFacts.lean:
// which node fields `formatting()` resets, which fields `newNode` assigns, and whether `Delete`
// formats a node before handing it to the pool.  The Lean model of the node pool is written in
// terms of these facts, so the C03 theorems are re-checked against what the source does now.
//
//	hashmapfacts -src <repo>/mapx/hashmap.go      (Lean text on stdout; non-zero exit when the
//	                                                source has left the recognised shape)
package main

import (
	"flag"
	"fmt"
	"go/ast"
	"go/parser"
	"go/token"
	"os"
)

func fail(format string, a ...any) {
	fmt.Fprintf(os.Stderr, "hashmapfacts: "+format+"\n", a...)
	os.Exit(3)
}

func findFunc(f *ast.File, name string) *ast.FuncDecl {
	for _, d := range f.Decls {
		if fd, ok := d.(*ast.FuncDecl); ok && fd.Name.Name == name && fd.Recv != nil && fd.Body != nil {
			return fd
		}
	}
	return nil
}

func recvName(fd *ast.FuncDecl) string {
	if len(fd.Recv.List) == 1 && len(fd.Recv.List[0].Names) == 1 {
		return fd.Recv.List[0].Names[0].Name
	}
	return ""
}

// selector `x.field` with x an identifier
func fieldOf(e ast.Expr) (base, field string, ok bool) {
	s, is := e.(*ast.SelectorExpr)
	if !is {
		return "", "", false
	}
	id, is := s.X.(*ast.Ident)
	if !is {
		return "", "", false
	}
	return id.Name, s.Sel.Name, true
}

// assigned reports whether the identifier is ever the target of an assignment, ++/--, or has its address taken
func assigned(body *ast.BlockStmt, name string) bool {
	hit := false
	ast.Inspect(body, func(n ast.Node) bool {
		switch s := n.(type) {
		case *ast.AssignStmt:
			for _, l := range s.Lhs {
				if id, ok := l.(*ast.Ident); ok && id.Name == name {
					hit = true
				}
			}
		case *ast.IncDecStmt:
			if id, ok := s.X.(*ast.Ident); ok && id.Name == name {
				hit = true
			}
		case *ast.UnaryExpr:
			if id, ok := s.X.(*ast.Ident); ok && s.Op == token.AND && id.Name == name {
				hit = true
			}
		}
		return true
	})
	return hit
}

// zero-valued expression: nil, or a local declared `var x T` without initialiser and never written
func isZero(body *ast.BlockStmt, e ast.Expr) bool {
	id, ok := e.(*ast.Ident)
	if !ok {
		return false
	}
	if id.Name == "nil" {
		return true
	}
	declared := false
	for _, st := range body.List { // top-level declarations only
		ds, ok := st.(*ast.DeclStmt)
		if !ok {
			continue
		}
		gd, ok := ds.Decl.(*ast.GenDecl)
		if !ok || gd.Tok != token.VAR {
			continue
		}
		for _, sp := range gd.Specs {
			vs := sp.(*ast.ValueSpec)
			for _, n := range vs.Names {
				if n.Name == id.Name && len(vs.Values) == 0 {
					declared = true
				}
			}
		}
	}
	return declared && !assigned(body, id.Name)
}

// the last unconditional (top-level) assignment `recv.field = rhs` of a function body
func lastTopAssign(body *ast.BlockStmt, recv, field string) ast.Expr {
	var rhs ast.Expr
	for _, st := range body.List {
		as, ok := st.(*ast.AssignStmt)
		if !ok || as.Tok != token.ASSIGN || len(as.Lhs) != len(as.Rhs) {
			continue
		}
		for i, l := range as.Lhs {
			if b, f, ok := fieldOf(l); ok && b == recv && f == field {
				rhs = as.Rhs[i]
			}
		}
	}
	return rhs
}

// any assignment to `<anything>.field` nested below the top level (conditional writes are outside the recognised shape)
func nestedFieldWrite(body *ast.BlockStmt, field string) bool {
	hit := false
	for _, st := range body.List {
		if _, ok := st.(*ast.AssignStmt); ok {
			continue
		}
		ast.Inspect(st, func(n ast.Node) bool {
			if as, ok := n.(*ast.AssignStmt); ok {
				for _, l := range as.Lhs {
					if _, f, ok := fieldOf(l); ok && f == field {
						hit = true
					}
				}
			}
			return true
		})
	}
	return hit
}

func isCall(e ast.Expr, pred func(fun ast.Expr, args []ast.Expr) bool) bool {
	c, ok := e.(*ast.CallExpr)
	return ok && pred(c.Fun, c.Args)
}

func b(v bool) string {
	if v {
		return "true"
	}
	return "false"
}

func main() {
	src := flag.String("src", "", "path of mapx/hashmap.go")
	flag.Parse()
	fset := token.NewFileSet()
	f, err := parser.ParseFile(fset, *src, nil, 0)
	if err != nil {
		fail("%v", err)
	}

	// --- formatting()
	fm := findFunc(f, "formatting")
	if fm == nil {
		fail("method formatting not found")
	}
	recv := recvName(fm)
	clears := map[string]bool{}
	for _, field := range []string{"key", "value", "next"} {
		if nestedFieldWrite(fm.Body, field) {
			fail("formatting: conditional write to %s", field)
		}
		rhs := lastTopAssign(fm.Body, recv, field)
		clears[field] = rhs != nil && isZero(fm.Body, rhs)
	}
	// `*n = node[K, V]{}` (a composite literal without elements) resets every field at once; a field
	// assigned again afterwards keeps what the later assignment gives it
	for i, st := range fm.Body.List {
		as, ok := st.(*ast.AssignStmt)
		if !ok || as.Tok != token.ASSIGN || len(as.Lhs) != 1 || len(as.Rhs) != 1 {
			continue
		}
		star, ok := as.Lhs[0].(*ast.StarExpr)
		if !ok {
			continue
		}
		id, ok := star.X.(*ast.Ident)
		lit, ok2 := as.Rhs[0].(*ast.CompositeLit)
		if !ok || !ok2 || id.Name != recv || len(lit.Elts) != 0 {
			continue
		}
		for _, field := range []string{"key", "value", "next"} {
			later := false
			for _, st2 := range fm.Body.List[i+1:] {
				if as2, ok := st2.(*ast.AssignStmt); ok {
					for _, l := range as2.Lhs {
						if r, fld, ok := fieldOf(l); ok && r == recv && fld == field {
							later = true
						}
					}
				}
			}
			if !later {
				clears[field] = true
			}
		}
	}

	// --- newNode(key, val)
	nn := findFunc(f, "newNode")
	if nn == nil {
		fail("method newNode not found")
	}
	var params []string
	for _, p := range nn.Type.Params.List {
		for _, n := range p.Names {
			params = append(params, n.Name)
		}
	}
	if len(params) != 2 {
		fail("newNode: expected (key, val) parameters")
	}
	// the variable bound to nodePool.Get()
	nodeVar := ""
	for _, st := range nn.Body.List {
		as, ok := st.(*ast.AssignStmt)
		if !ok || len(as.Lhs) != 1 || len(as.Rhs) != 1 {
			continue
		}
		if isCall(as.Rhs[0], func(fun ast.Expr, args []ast.Expr) bool {
			s, ok := fun.(*ast.SelectorExpr)
			if !ok || s.Sel.Name != "Get" || len(args) != 0 {
				return false
			}
			_, fld, ok := fieldOf(s.X)
			return ok && fld == "nodePool"
		}) {
			if id, ok := as.Lhs[0].(*ast.Ident); ok {
				nodeVar = id.Name
			}
		}
	}
	if nodeVar == "" {
		fail("newNode: no `x := m.nodePool.Get()`")
	}
	sets := map[string]bool{}
	for _, field := range []string{"key", "value", "next"} {
		if nestedFieldWrite(nn.Body, field) {
			fail("newNode: conditional write to %s", field)
		}
	}
	if rhs, ok := lastTopAssign(nn.Body, nodeVar, "key").(*ast.Ident); ok && rhs.Name == params[0] && !assigned(nn.Body, params[0]) {
		sets["key"] = true
	}
	if rhs, ok := lastTopAssign(nn.Body, nodeVar, "value").(*ast.Ident); ok && rhs.Name == params[1] && !assigned(nn.Body, params[1]) {
		sets["value"] = true
	}
	sets["next"] = lastTopAssign(nn.Body, nodeVar, "next") != nil
	// the node returned must be the pooled one
	returnsNode := false
	if n := len(nn.Body.List); n > 0 {
		if rs, ok := nn.Body.List[n-1].(*ast.ReturnStmt); ok && len(rs.Results) == 1 {
			if id, ok := rs.Results[0].(*ast.Ident); ok && id.Name == nodeVar {
				returnsNode = true
			}
		}
	}
	if !returnsNode {
		fail("newNode: does not return the node taken from the pool")
	}

	// --- Delete: every `….nodePool.Put(x)` is preceded, in its block, by `x.formatting()`
	del := findFunc(f, "Delete")
	if del == nil {
		fail("method Delete not found")
	}
	puts, formatted := 0, 0
	ast.Inspect(del.Body, func(n ast.Node) bool {
		blk, ok := n.(*ast.BlockStmt)
		if !ok {
			return true
		}
		for i, st := range blk.List {
			es, ok := st.(*ast.ExprStmt)
			if !ok {
				continue
			}
			var arg string
			if !isCall(es.X, func(fun ast.Expr, args []ast.Expr) bool {
				s, ok := fun.(*ast.SelectorExpr)
				if !ok || s.Sel.Name != "Put" || len(args) != 1 {
					return false
				}
				if _, fld, ok := fieldOf(s.X); !ok || fld != "nodePool" {
					return false
				}
				id, ok := args[0].(*ast.Ident)
				if ok {
					arg = id.Name
				}
				return ok
			}) {
				continue
			}
			puts++
			for _, prev := range blk.List[:i] {
				pes, ok := prev.(*ast.ExprStmt)
				if !ok {
					continue
				}
				if isCall(pes.X, func(fun ast.Expr, args []ast.Expr) bool {
					base, m, ok := fieldOf(fun)
					return ok && base == arg && m == "formatting" && len(args) == 0
				}) {
					formatted++
					break
				}
			}
		}
		return true
	})
	if puts == 0 {
		fail("Delete: no nodePool.Put call")
	}

	// --- the pool is touched nowhere else.  The model (and c03_pool_nodes_clean) knows exactly one way into
	// the pool (Delete, after formatting) and one way out (newNode, called by Put); a `nodePool.Put` on any
	// other path — e.g. Put handing back a node it took up front, key and value still set — would put
	// nodes into the pool that no theorem and no `freed=` observation ever looks at.
	for _, d := range f.Decls {
		fd, ok := d.(*ast.FuncDecl)
		if !ok || fd.Body == nil {
			continue
		}
		name := fd.Name.Name
		ast.Inspect(fd.Body, func(n ast.Node) bool {
			switch x := n.(type) {
			case *ast.SelectorExpr:
				if x.Sel.Name == "nodePool" && !(fd.Recv != nil && (name == "newNode" || name == "Delete")) {
					fail("%s: touches nodePool (only newNode may Get and only Delete may Put)", name)
				}
			case *ast.CallExpr:
				if s, ok := x.Fun.(*ast.SelectorExpr); ok && s.Sel.Name == "newNode" && !(fd.Recv != nil && name == "Put") {
					fail("%s: calls newNode (only Put may)", name)
				}
			}
			return true
		})
	}
	// inside the two functions: newNode only Gets, Delete only Puts (each Put counted above)
	poolCalls := func(fd *ast.FuncDecl) (gets, putsN, other int) {
		ast.Inspect(fd.Body, func(n ast.Node) bool {
			s, ok := n.(*ast.SelectorExpr)
			if !ok || s.Sel.Name != "nodePool" {
				return true
			}
			other++ // corrected below for the recognised calls
			return true
		})
		ast.Inspect(fd.Body, func(n ast.Node) bool {
			c, ok := n.(*ast.CallExpr)
			if !ok {
				return true
			}
			s, ok := c.Fun.(*ast.SelectorExpr)
			if !ok {
				return true
			}
			if _, fld, ok := fieldOf(s.X); !ok || fld != "nodePool" {
				return true
			}
			switch s.Sel.Name {
			case "Get":
				gets++
				other--
			case "Put":
				putsN++
				other--
			}
			return true
		})
		return
	}
	if g, p, o := poolCalls(nn); g != 1 || p != 0 || o != 0 {
		fail("newNode: expected exactly one nodePool.Get and nothing else on the pool (Get %d, Put %d, other %d)", g, p, o)
	}
	if g, p, o := poolCalls(del); g != 0 || p != puts || o != 0 {
		fail("Delete: expected only the recognised nodePool.Put statements on the pool (Get %d, Put %d of %d recognised, other %d)", g, p, puts, o)
	}

	fmt.Printf(`/- GENERATED by harness/hashmapfacts from /repo/mapx/hashmap.go — do not edit. -/
namespace Ekit.Gen.HashMapFacts

/-- %sfunc (n *node[T, ValType]) formatting()%s assigns the zero value to %sn.key%s -/
def formattingClearsKey : Bool := %s
/-- %sformatting()%s assigns the zero value to %sn.value%s -/
def formattingClearsValue : Bool := %s
/-- %sformatting()%s assigns nil to %sn.next%s -/
def formattingClearsNext : Bool := %s
/-- %snewNode%s assigns its %skey%s parameter to the pooled node's %skey%s field -/
def newNodeSetsKey : Bool := %s
/-- %snewNode%s assigns its %sval%s parameter to the pooled node's %svalue%s field -/
def newNodeSetsValue : Bool := %s
/-- %snewNode%s assigns something to the pooled node's %snext%s field -/
def newNodeSetsNext : Bool := %s
/-- %sDelete%s calls %sroot.formatting()%s before %sm.nodePool.Put(root)%s -/
def deleteFormatsBeforePoolPut : Bool := %s

end Ekit.Gen.HashMapFacts
`, "`", "`", "`", "`", b(clears["key"]),
		"`", "`", "`", "`", b(clears["value"]),
		"`", "`", "`", "`", b(clears["next"]),
		"`", "`", "`", "`", "`", "`", b(sets["key"]),
		"`", "`", "`", "`", "`", "`", b(sets["value"]),
		"`", "`", "`", "`", b(sets["next"]),
		"`", "`", "`", "`", "`", "`", b(puts == formatted))
}
