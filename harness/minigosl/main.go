// minigosl: Go -> Lean translator for internal/slice/{add,delete,shrink}.go (third MiniGo instance,
// lean/Ekit/MiniGo/LangSL.lean: slices with Go's aliasing semantics).
//
// Re-reads the CURRENT sources on every run and prints `Add`, `Delete` and `Shrink` as terms of the deep embedding; all
// semantics (in-place append, reallocation with a runtime-chosen capacity, index and re-slice bounds panics) lives in the Lean
// interpreter.  `calCapacity` is translated by harness/extract (Ekit.Gen.calCapacity) and used natively by the interpreter.
// Subset: parameters and locals; `x := e`, `x = e`, `a, b := e1, e2`, `n, ok := calCapacity(c, l)`, `var x T`, `s[i] = e`;
// if/else, `for cond {}`, `for init; cond; post {}` (no continue), return with 1-3 results; integer literals, nil, `len`, `cap`,
// `s[i]`, `s[:n]`, `append(s, x)`, `append(s, t...)`, `make([]T, 0, n)`, `== != < > <= >= && || ! + - /`,
// `errs.NewErrIndexOutOfRange(a, b)`.  Anything else makes the translator FAIL (exit 3) = broken obligation.
//
//	minigosl -root <repo> -out <lean file>
package main

import (
	"flag"
	"fmt"
	"go/ast"
	"go/parser"
	"go/token"
	"os"
	"path/filepath"
	"strings"
)

func fail(format string, a ...any) {
	fmt.Fprintf(os.Stderr, "minigosl: unsupported: "+format+"\n", a...)
	os.Exit(3)
}

type tr struct {
	fset     *token.FileSet
	fn       string
	vars     map[string]int
	varNames []string
	results  int
}

func (t *tr) pos(n ast.Node) string { return t.fset.Position(n.Pos()).String() }

func (t *tr) v(name string, declare bool) int {
	if i, ok := t.vars[name]; ok {
		return i
	}
	if !declare {
		fail("%s: unknown identifier %s", t.fn, name)
	}
	i := len(t.varNames)
	t.vars[name] = i
	t.varNames = append(t.varNames, name)
	return i
}

func (t *tr) expr(e ast.Expr) string {
	switch x := e.(type) {
	case *ast.ParenExpr:
		return t.expr(x.X)
	case *ast.Ident:
		switch x.Name {
		case "true":
			return "(.bool true)"
		case "false":
			return "(.bool false)"
		case "nil":
			fail("%s: nil outside a return position", t.pos(x))
		}
		return fmt.Sprintf("(.var %d)", t.v(x.Name, false))
	case *ast.BasicLit:
		if x.Kind != token.INT {
			fail("%s: literal %s", t.pos(x), x.Value)
		}
		return fmt.Sprintf("(.int %s)", x.Value)
	case *ast.IndexExpr:
		return fmt.Sprintf("(.index %s %s)", t.expr(x.X), t.expr(x.Index))
	case *ast.SliceExpr:
		if x.Low != nil || x.High == nil || x.Slice3 {
			fail("%s: only s[:n]", t.pos(x))
		}
		return fmt.Sprintf("(.sliceTo %s %s)", t.expr(x.X), t.expr(x.High))
	case *ast.CallExpr:
		if sel, ok := x.Fun.(*ast.SelectorExpr); ok {
			if id, ok := sel.X.(*ast.Ident); ok && id.Name == "errs" && sel.Sel.Name == "NewErrIndexOutOfRange" && len(x.Args) == 2 {
				return fmt.Sprintf("(.bin .errIdx %s %s)", t.expr(x.Args[0]), t.expr(x.Args[1]))
			}
			fail("%s: call of %s.%s", t.pos(x), sel.X, sel.Sel.Name)
		}
		name := ""
		switch f := x.Fun.(type) {
		case *ast.Ident:
			name = f.Name
		case *ast.IndexExpr:
			if id, ok := f.X.(*ast.Ident); ok {
				name = id.Name
			}
		}
		switch name {
		case "len":
			return fmt.Sprintf("(.len %s)", t.expr(x.Args[0]))
		case "cap":
			return fmt.Sprintf("(.cap %s)", t.expr(x.Args[0]))
		case "append":
			if len(x.Args) != 2 {
				fail("%s: append with %d arguments", t.pos(x), len(x.Args))
			}
			if x.Ellipsis.IsValid() {
				return fmt.Sprintf("(.appendAll %s %s)", t.expr(x.Args[0]), t.expr(x.Args[1]))
			}
			return fmt.Sprintf("(.append1 %s %s)", t.expr(x.Args[0]), t.expr(x.Args[1]))
		case "make":
			if len(x.Args) != 3 {
				fail("%s: make form", t.pos(x))
			}
			if bl, ok := x.Args[1].(*ast.BasicLit); !ok || bl.Value != "0" {
				fail("%s: make with a non-zero length", t.pos(x))
			}
			if _, ok := x.Args[0].(*ast.ArrayType); !ok {
				fail("%s: make of a non-slice", t.pos(x))
			}
			return fmt.Sprintf("(.make0 %s)", t.expr(x.Args[2]))
		case "calCapacity":
			if len(x.Args) != 2 {
				fail("%s: calCapacity arity", t.pos(x))
			}
			return fmt.Sprintf("(.calCap %s %s)", t.expr(x.Args[0]), t.expr(x.Args[1]))
		}
		fail("%s: call of %s", t.pos(x), name)
	case *ast.BinaryExpr:
		switch x.Op {
		case token.LAND:
			return fmt.Sprintf("(.and %s %s)", t.expr(x.X), t.expr(x.Y))
		case token.LOR:
			return fmt.Sprintf("(.or %s %s)", t.expr(x.X), t.expr(x.Y))
		}
		ops := map[token.Token]string{token.EQL: "eq", token.NEQ: "ne", token.LSS: "lt", token.GTR: "gt",
			token.LEQ: "le", token.GEQ: "ge", token.ADD: "add", token.SUB: "sub", token.QUO: "div"}
		op, ok := ops[x.Op]
		if !ok {
			fail("%s: operator %s", t.pos(x), x.Op)
		}
		return fmt.Sprintf("(.bin .%s %s %s)", op, t.expr(x.X), t.expr(x.Y))
	case *ast.UnaryExpr:
		if x.Op == token.NOT {
			return fmt.Sprintf("(.not %s)", t.expr(x.X))
		}
		if x.Op == token.SUB {
			if bl, ok := x.X.(*ast.BasicLit); ok && bl.Kind == token.INT {
				return fmt.Sprintf("(.int (-%s))", bl.Value)
			}
		}
		fail("%s: unary %s", t.pos(x), x.Op)
	}
	fail("%s: expression %T", t.pos(e), e)
	return ""
}

// result position i of n results: `nil` is the nil slice in position 0 and the nil error in the last position
func (t *tr) result(e ast.Expr, i, n int) string {
	if id, ok := e.(*ast.Ident); ok && id.Name == "nil" {
		if i == n-1 && n > 1 {
			return ".nilErr"
		}
		return ".nilSlice"
	}
	return t.expr(e)
}

func seq(ss []string) string {
	if len(ss) == 0 {
		return ".skip"
	}
	if len(ss) == 1 {
		return ss[0]
	}
	return fmt.Sprintf("(.seq %s\n    %s)", ss[0], seq(ss[1:]))
}

func (t *tr) assign(lhs ast.Expr, rhs string, define bool) string {
	switch l := lhs.(type) {
	case *ast.Ident:
		return fmt.Sprintf("(.assign %d %s)", t.v(l.Name, define), rhs)
	case *ast.IndexExpr:
		return fmt.Sprintf("(.setIndex %s %s %s)", t.expr(l.X), t.expr(l.Index), rhs)
	}
	fail("%s: assignment target", t.pos(lhs))
	return ""
}

func (t *tr) stmt(s ast.Stmt) string {
	switch x := s.(type) {
	case *ast.BlockStmt:
		var ss []string
		for _, y := range x.List {
			ss = append(ss, t.stmt(y))
		}
		return seq(ss)
	case *ast.AssignStmt:
		define := x.Tok == token.DEFINE
		if x.Tok != token.DEFINE && x.Tok != token.ASSIGN {
			fail("%s: assignment operator %s", t.pos(x), x.Tok)
		}
		if len(x.Lhs) == 2 && len(x.Rhs) == 1 {
			// n, changed := calCapacity(c, l)
			a, ok1 := x.Lhs[0].(*ast.Ident)
			b, ok2 := x.Lhs[1].(*ast.Ident)
			if !ok1 || !ok2 {
				fail("%s: tuple assignment target", t.pos(x))
			}
			r := t.expr(x.Rhs[0])
			if !strings.HasPrefix(r, "(.calCap") {
				fail("%s: tuple assignment from something other than calCapacity", t.pos(x))
			}
			return seq([]string{
				fmt.Sprintf("(.assign %d (.fst %s))", t.v(a.Name, define), r),
				fmt.Sprintf("(.assign %d (.snd %s))", t.v(b.Name, define), r)})
		}
		if len(x.Lhs) == 2 && len(x.Rhs) == 2 && define {
			// c, l := cap(src), len(src): both right-hand sides are evaluated before the (fresh) variables exist
			r0, r1 := t.expr(x.Rhs[0]), t.expr(x.Rhs[1])
			return seq([]string{t.assign(x.Lhs[0], r0, true), t.assign(x.Lhs[1], r1, true)})
		}
		if len(x.Lhs) != 1 || len(x.Rhs) != 1 {
			fail("%s: multiple assignment", t.pos(x))
		}
		return t.assign(x.Lhs[0], t.expr(x.Rhs[0]), define)
	case *ast.DeclStmt:
		gd, ok := x.Decl.(*ast.GenDecl)
		if !ok || gd.Tok != token.VAR {
			fail("%s: declaration", t.pos(x))
		}
		var ss []string
		for _, sp := range gd.Specs {
			vs := sp.(*ast.ValueSpec)
			if len(vs.Values) != 0 {
				fail("%s: var with initialiser", t.pos(vs))
			}
			id, ok := vs.Type.(*ast.Ident)
			if !ok || (id.Name != "T" && id.Name != "int") {
				fail("%s: var of this type", t.pos(vs))
			}
			for _, n := range vs.Names {
				ss = append(ss, fmt.Sprintf("(.assign %d (.int 0))", t.v(n.Name, true)))
			}
		}
		return seq(ss)
	case *ast.IncDecStmt:
		id, ok := x.X.(*ast.Ident)
		if !ok {
			fail("%s: ++/-- on a non-local", t.pos(x))
		}
		op := "add"
		if x.Tok == token.DEC {
			op = "sub"
		}
		return fmt.Sprintf("(.assign %d (.bin .%s (.var %d) (.int 1)))", t.v(id.Name, false), op, t.v(id.Name, false))
	case *ast.IfStmt:
		if x.Init != nil {
			fail("%s: if with init", t.pos(x))
		}
		el := ".skip"
		if x.Else != nil {
			el = t.stmt(x.Else)
		}
		return fmt.Sprintf("(.ite %s\n    %s\n    %s)", t.expr(x.Cond), t.stmt(x.Body), el)
	case *ast.ForStmt:
		if x.Cond == nil {
			fail("%s: loop without condition", t.pos(x))
		}
		has := false
		ast.Inspect(x.Body, func(n ast.Node) bool {
			if b, ok := n.(*ast.BranchStmt); ok {
				_ = b
				has = true
			}
			return true
		})
		if has {
			fail("%s: break/continue in a loop", t.pos(x))
		}
		var pre []string
		if x.Init != nil {
			pre = append(pre, t.stmt(x.Init))
		}
		body := t.stmt(x.Body)
		if x.Post != nil {
			body = seq([]string{body, t.stmt(x.Post)})
		}
		return seq(append(pre, fmt.Sprintf("(.loop %s\n    %s)", t.expr(x.Cond), body)))
	case *ast.ReturnStmt:
		n := len(x.Results)
		if n != t.results {
			fail("%s: return arity", t.pos(x))
		}
		var rs []string
		for i, r := range x.Results {
			rs = append(rs, t.result(r, i, n))
		}
		switch n {
		case 1:
			return fmt.Sprintf("(.ret %s)", rs[0])
		case 2:
			return fmt.Sprintf("(.ret2 %s %s)", rs[0], rs[1])
		case 3:
			return fmt.Sprintf("(.ret3 %s %s %s)", rs[0], rs[1], rs[2])
		}
		fail("%s: return arity", t.pos(x))
	}
	fail("%s: statement %T", t.pos(s), s)
	return ""
}

func main() {
	root := flag.String("root", "", "repo root")
	out := flag.String("out", "", "Lean file to write")
	flag.Parse()
	want := []struct{ file, fn string }{{"internal/slice/add.go", "Add"}, {"internal/slice/delete.go", "Delete"}, {"internal/slice/shrink.go", "Shrink"}}
	var b strings.Builder
	b.WriteString("/- GENERATED by harness/minigosl from internal/slice/{add,delete,shrink}.go of the current tree — do not edit. -/\n")
	b.WriteString("import Ekit.MiniGo.LangSL\nnamespace Ekit.Gen.SliceGo\nopen Ekit.MiniGo.SL\n\n")
	for _, w := range want {
		fset := token.NewFileSet()
		f, err := parser.ParseFile(fset, filepath.Join(*root, w.file), nil, 0)
		if err != nil {
			fail("parse %s: %v", w.file, err)
		}
		var fd *ast.FuncDecl
		nfuncs := 0
		for _, d := range f.Decls {
			if g, ok := d.(*ast.FuncDecl); ok {
				nfuncs++
				if g.Name.Name == w.fn {
					fd = g
				}
			}
		}
		if fd == nil {
			fail("%s: function %s not found", w.file, w.fn)
		}
		// shrink.go also holds calCapacity (translated by harness/extract); any other function is outside the subset
		if nfuncs != 1 && !(w.fn == "Shrink" && nfuncs == 2) {
			fail("%s: %d functions in the file (a new helper?)", w.file, nfuncs)
		}
		t := &tr{fset: fset, fn: w.fn, vars: map[string]int{}}
		for _, p := range fd.Type.Params.List {
			for _, n := range p.Names {
				t.v(n.Name, true)
			}
		}
		np := len(t.varNames)
		t.results = fd.Type.Results.NumFields()
		body := t.stmt(fd.Body)
		var names []string
		for i, n := range t.varNames {
			names = append(names, fmt.Sprintf("%d=%s", i, n))
		}
		fmt.Fprintf(&b, "/-- `%s` (%s); variables: %s -/\ndef body_%s : Stmt :=\n  %s\n\ndef proc_%s : Proc := ⟨%d, body_%s⟩\n\n",
			w.fn, w.file, strings.Join(names, " "), w.fn, body, w.fn, np, w.fn)
	}
	b.WriteString("end Ekit.Gen.SliceGo\n")
	if err := os.WriteFile(*out, []byte(b.String()), 0o644); err != nil {
		fmt.Fprintln(os.Stderr, err)
		os.Exit(1)
	}
}
