// minigoal: Go -> Lean translator for list/array_list.go (fifth MiniGo instance, lean/Ekit/MiniGo/LangAL.lean:
// aliasing slices + receiver {vals} + method calls + calls into the translated internal/slice).
//
// Re-reads the CURRENT source on every run and prints every function of the file (except Range and AsSlice: a callback and
// `copy`, neither assigns a field) as a term of the deep embedding; all semantics lives in the Lean interpreter.
// Subset: methods of the list type (receiver = implicit state: the field vals) and the two constructors; parameters, named
// results (initialised to the zero value / nil error), locals; `x := e`, `x = e`, `x, y := slice.Add(…)`,
// `x, y, z := slice.Delete(…)`, `a.vals = e`, `a.vals[i] = e`; if/else (with init); return with 0-2 results; integer literals,
// `len`, `cap`, `s[i]`, `append(s, ts...)`, `make([]T, 0, c)`, `== != < > <= >= && || ! + -`, `e == nil` / `e != nil`,
// `errs.NewErrIndexOutOfRange(l, i)`, calls of the file's methods without arguments, `slice.Add/Delete/Shrink`, and the
// constructors' `return &ArrayList[T]{vals: …}`.  Anything else (a loop, a new helper shape, …): FAIL (exit 3) = broken obligation.
//
//	minigoal -root <repo> -out <lean file>
package main

import (
	"flag"
	"fmt"
	"go/ast"
	"go/parser"
	"go/token"
	"os"
	"path/filepath"
	"sort"
	"strings"
)

func fail(format string, a ...any) {
	fmt.Fprintf(os.Stderr, "minigoal: unsupported: "+format+"\n", a...)
	os.Exit(3)
}

var skipped = map[string]bool{"Range": true, "AsSlice": true}

type tr struct {
	fset     *token.FileSet
	fn       string
	recv     string
	vars     map[string]int
	varNames []string
	results  int
	fns      map[string]*ast.FuncDecl
}

func (t *tr) pos(n ast.Node) string { return t.fset.Position(n.Pos()).String() }

func (t *tr) v(name string, declare bool) int {
	if name == "_" {
		fail("%s: blank identifier", t.fn)
	}
	if i, ok := t.vars[name]; ok {
		return i
	}
	if !declare {
		fail("%s: unknown identifier %s", t.fn, name)
	}
	i := len(t.varNames)
	t.vars[name] = i
	t.varNames = append(t.varNames, name)
	return i
}

func (t *tr) isRecv(e ast.Expr) bool {
	id, ok := e.(*ast.Ident)
	return ok && t.recv != "" && id.Name == t.recv
}

func isNil(e ast.Expr) bool {
	id, ok := e.(*ast.Ident)
	return ok && id.Name == "nil"
}

func pkgCall(x *ast.CallExpr) (pkg, name string, ok bool) {
	fun := x.Fun
	if ie, ok := fun.(*ast.IndexExpr); ok { // generic instantiation f[T](…)
		fun = ie.X
	}
	sel, ok := fun.(*ast.SelectorExpr)
	if !ok {
		return "", "", false
	}
	id, ok := sel.X.(*ast.Ident)
	if !ok {
		return "", "", false
	}
	return id.Name, sel.Sel.Name, true
}

func (t *tr) expr(e ast.Expr) string {
	switch x := e.(type) {
	case *ast.ParenExpr:
		return t.expr(x.X)
	case *ast.Ident:
		if _, ok := t.vars[x.Name]; ok {
			return fmt.Sprintf("(.var %d)", t.v(x.Name, false))
		}
		switch x.Name {
		case "true":
			return "(.bool true)"
		case "false":
			return "(.bool false)"
		case "nil":
			fail("%s: nil outside a return position or a comparison", t.pos(x))
		}
		return fmt.Sprintf("(.var %d)", t.v(x.Name, false))
	case *ast.BasicLit:
		if x.Kind != token.INT {
			fail("%s: literal %s", t.pos(x), x.Value)
		}
		return fmt.Sprintf("(.int %s)", x.Value)
	case *ast.SelectorExpr:
		if t.isRecv(x.X) && x.Sel.Name == "vals" {
			return ".vals"
		}
		fail("%s: selector %s", t.pos(x), x.Sel.Name)
	case *ast.IndexExpr:
		return fmt.Sprintf("(.index %s %s)", t.expr(x.X), t.expr(x.Index))
	case *ast.CallExpr:
		if pkg, name, ok := pkgCall(x); ok {
			if t.recv != "" && pkg == t.recv {
				if _, isVar := t.vars[pkg]; !isVar {
					fd, ok := t.fns[name]
					if !ok || fd.Recv == nil || skipped[name] {
						fail("%s: %s is not a translated method of the list type", t.pos(x), name)
					}
					if len(x.Args) != 0 {
						fail("%s: method call with %d arguments", t.pos(x), len(x.Args))
					}
					return fmt.Sprintf("(.call0 .%s)", name)
				}
			}
			if x.Ellipsis.IsValid() {
				fail("%s: variadic foreign call", t.pos(x))
			}
			switch {
			case pkg == "slice" && name == "Add" && len(x.Args) == 3:
				return fmt.Sprintf("(.sliceAdd %s %s %s)", t.expr(x.Args[0]), t.expr(x.Args[1]), t.expr(x.Args[2]))
			case pkg == "slice" && name == "Delete" && len(x.Args) == 2:
				return fmt.Sprintf("(.sliceDelete %s %s)", t.expr(x.Args[0]), t.expr(x.Args[1]))
			case pkg == "slice" && name == "Shrink" && len(x.Args) == 1:
				return fmt.Sprintf("(.sliceShrink %s)", t.expr(x.Args[0]))
			case pkg == "errs" && name == "NewErrIndexOutOfRange" && len(x.Args) == 2:
				return fmt.Sprintf("(.bin .errIdx %s %s)", t.expr(x.Args[0]), t.expr(x.Args[1]))
			}
			fail("%s: call of a foreign function %s.%s", t.pos(x), pkg, name)
		}
		name := ""
		if id, ok := x.Fun.(*ast.Ident); ok {
			name = id.Name
		}
		if _, shadowed := t.vars[name]; shadowed {
			fail("%s: call of a local %s", t.pos(x), name)
		}
		switch name {
		case "len":
			if len(x.Args) == 1 {
				return fmt.Sprintf("(.len %s)", t.expr(x.Args[0]))
			}
		case "cap":
			if len(x.Args) == 1 {
				return fmt.Sprintf("(.cap %s)", t.expr(x.Args[0]))
			}
		case "append":
			if len(x.Args) != 2 || !x.Ellipsis.IsValid() {
				fail("%s: append form (only append(s, ts...))", t.pos(x))
			}
			return fmt.Sprintf("(.appendAll %s %s)", t.expr(x.Args[0]), t.expr(x.Args[1]))
		case "make":
			if len(x.Args) != 3 {
				fail("%s: make form", t.pos(x))
			}
			if _, ok := x.Args[0].(*ast.ArrayType); !ok {
				fail("%s: make of a non-slice", t.pos(x))
			}
			if bl, ok := x.Args[1].(*ast.BasicLit); !ok || bl.Value != "0" {
				fail("%s: make with a length other than 0", t.pos(x))
			}
			return fmt.Sprintf("(.make0 %s)", t.expr(x.Args[2]))
		}
		fail("%s: call of %s", t.pos(x), name)
	case *ast.BinaryExpr:
		switch x.Op {
		case token.LAND:
			return fmt.Sprintf("(.and %s %s)", t.expr(x.X), t.expr(x.Y))
		case token.LOR:
			return fmt.Sprintf("(.or %s %s)", t.expr(x.X), t.expr(x.Y))
		case token.EQL, token.NEQ:
			a, b := x.X, x.Y
			if isNil(a) {
				a, b = b, a
			}
			if isNil(b) {
				if x.Op == token.EQL {
					return fmt.Sprintf("(.isNil %s)", t.expr(a))
				}
				return fmt.Sprintf("(.not (.isNil %s))", t.expr(a))
			}
		}
		ops := map[token.Token]string{token.EQL: "eq", token.NEQ: "ne", token.LSS: "lt", token.GTR: "gt",
			token.LEQ: "le", token.GEQ: "ge", token.ADD: "add", token.SUB: "sub"}
		op, ok := ops[x.Op]
		if !ok {
			fail("%s: operator %s", t.pos(x), x.Op)
		}
		return fmt.Sprintf("(.bin .%s %s %s)", op, t.expr(x.X), t.expr(x.Y))
	case *ast.UnaryExpr:
		if x.Op == token.NOT {
			return fmt.Sprintf("(.not %s)", t.expr(x.X))
		}
		fail("%s: unary %s", t.pos(x), x.Op)
	}
	fail("%s: expression %T", t.pos(e), e)
	return ""
}

func seq(ss []string) string {
	if len(ss) == 0 {
		return ".skip"
	}
	if len(ss) == 1 {
		return ss[0]
	}
	return fmt.Sprintf("(.seq %s\n    %s)", ss[0], seq(ss[1:]))
}

func (t *tr) assign(lhs ast.Expr, rhs string, define bool) string {
	switch l := lhs.(type) {
	case *ast.Ident:
		return fmt.Sprintf("(.assign %d %s)", t.v(l.Name, define), rhs)
	case *ast.IndexExpr:
		return fmt.Sprintf("(.setIndex %s %s %s)", t.expr(l.X), t.expr(l.Index), rhs)
	case *ast.SelectorExpr:
		if t.isRecv(l.X) && l.Sel.Name == "vals" {
			return fmt.Sprintf("(.setVals %s)", rhs)
		}
	}
	fail("%s: assignment target", t.pos(lhs))
	return ""
}

// retVal: a result expression; `nil` in a result position is the nil error
func (t *tr) retVal(e ast.Expr) string {
	if isNil(e) {
		return ".nilErr"
	}
	return t.expr(e)
}

func (t *tr) stmt(s ast.Stmt) string {
	switch x := s.(type) {
	case *ast.BlockStmt:
		var ss []string
		for _, y := range x.List {
			ss = append(ss, t.stmt(y))
		}
		return seq(ss)
	case *ast.AssignStmt:
		define := x.Tok == token.DEFINE
		if x.Tok != token.DEFINE && x.Tok != token.ASSIGN {
			fail("%s: assignment operator %s", t.pos(x), x.Tok)
		}
		if len(x.Rhs) == 1 && (len(x.Lhs) == 2 || len(x.Lhs) == 3) {
			// x, y := f(…) / x, y, z := f(…): a multi-result call into internal/slice; the targets are plain locals
			call, ok := x.Rhs[0].(*ast.CallExpr)
			if !ok {
				fail("%s: multiple assignment from a non-call", t.pos(x))
			}
			pkg, name, ok := pkgCall(call)
			want := map[string]int{"Add": 2, "Delete": 3}
			if !ok || pkg != "slice" || want[name] != len(x.Lhs) {
				fail("%s: multiple assignment from something other than slice.Add / slice.Delete", t.pos(x))
			}
			rhs := t.expr(call)
			var ids []string
			for _, l := range x.Lhs {
				id, ok := l.(*ast.Ident)
				if !ok {
					fail("%s: multiple assignment to a non-identifier", t.pos(l))
				}
				ids = append(ids, fmt.Sprint(t.v(id.Name, define)))
			}
			return fmt.Sprintf("(.assign%d %s %s)", len(ids), strings.Join(ids, " "), rhs)
		}
		if len(x.Lhs) != 1 || len(x.Rhs) != 1 {
			fail("%s: multiple assignment", t.pos(x))
		}
		rhs := t.expr(x.Rhs[0])
		return t.assign(x.Lhs[0], rhs, define)
	case *ast.ExprStmt:
		if _, ok := x.X.(*ast.CallExpr); !ok {
			fail("%s: expression statement", t.pos(x))
		}
		return fmt.Sprintf("(.expr %s)", t.expr(x.X))
	case *ast.IfStmt:
		var pre []string
		if x.Init != nil {
			pre = append(pre, t.stmt(x.Init))
		}
		el := ".skip"
		if x.Else != nil {
			el = t.stmt(x.Else)
		}
		return seq(append(pre, fmt.Sprintf("(.ite %s\n    %s\n    %s)", t.expr(x.Cond), t.stmt(x.Body), el)))
	case *ast.ReturnStmt:
		n := len(x.Results)
		if n != t.results {
			fail("%s: return arity (naked returns are not in the subset)", t.pos(x))
		}
		switch n {
		case 0:
			return "(.ret (.int 0))"
		case 1:
			// the constructors' struct literal
			if ue, ok := x.Results[0].(*ast.UnaryExpr); ok && ue.Op == token.AND {
				cl, ok := ue.X.(*ast.CompositeLit)
				if !ok {
					fail("%s: & of a non-literal", t.pos(x))
				}
				if len(cl.Elts) != 1 {
					fail("%s: literal with %d fields", t.pos(x), len(cl.Elts))
				}
				kv, ok := cl.Elts[0].(*ast.KeyValueExpr)
				if !ok {
					fail("%s: positional literal", t.pos(cl))
				}
				if k, ok := kv.Key.(*ast.Ident); !ok || k.Name != "vals" {
					fail("%s: literal key", t.pos(kv))
				}
				return seq([]string{fmt.Sprintf("(.setVals %s)", t.expr(kv.Value)), "(.ret (.int 0))"})
			}
			return fmt.Sprintf("(.ret %s)", t.retVal(x.Results[0]))
		case 2:
			return fmt.Sprintf("(.ret2 %s %s)", t.retVal(x.Results[0]), t.retVal(x.Results[1]))
		}
		fail("%s: return arity", t.pos(x))
	}
	fail("%s: statement %T", t.pos(s), s)
	return ""
}

func main() {
	root := flag.String("root", "", "repo root")
	out := flag.String("out", "", "Lean file to write")
	flag.Parse()
	file := "list/array_list.go"
	fset := token.NewFileSet()
	f, err := parser.ParseFile(fset, filepath.Join(*root, file), nil, 0)
	if err != nil {
		fail("parse: %v", err)
	}
	fns := map[string]*ast.FuncDecl{}
	var names []string
	for _, d := range f.Decls {
		if fd, ok := d.(*ast.FuncDecl); ok {
			fns[fd.Name.Name] = fd
			if !skipped[fd.Name.Name] {
				names = append(names, fd.Name.Name)
			}
		}
	}
	sort.Strings(names)
	var b strings.Builder
	fmt.Fprintf(&b, "/- GENERATED by harness/minigoal from %s of the current tree — do not edit. -/\n", file)
	b.WriteString("import Ekit.MiniGo.LangAL\nnamespace Ekit.Gen.ArrayListGo\nopen Ekit.MiniGo.AL\n\ninductive PName where\n")
	for _, n := range names {
		fmt.Fprintf(&b, "  | %s\n", n)
	}
	b.WriteString("  deriving DecidableEq, Repr\n\n")
	np := map[string]int{}
	for _, n := range names {
		fd := fns[n]
		t := &tr{fset: fset, fn: n, vars: map[string]int{}, fns: fns}
		if fd.Recv != nil {
			if len(fd.Recv.List) != 1 || len(fd.Recv.List[0].Names) != 1 {
				fail("%s: receiver form", n)
			}
			if _, ok := fd.Recv.List[0].Type.(*ast.StarExpr); !ok {
				fail("%s: value receiver", n)
			}
			t.recv = fd.Recv.List[0].Names[0].Name
		}
		for _, p := range fd.Type.Params.List {
			if len(p.Names) == 0 {
				fail("%s: unnamed parameter", n)
			}
			for _, pn := range p.Names {
				t.v(pn.Name, true)
			}
		}
		np[n] = len(t.varNames)
		t.results = 0
		var pre []string
		if fd.Type.Results != nil {
			t.results = fd.Type.Results.NumFields()
			// named results: locals initialised to the zero value (element type: 0) or the nil error
			for _, r := range fd.Type.Results.List {
				for _, rn := range r.Names {
					zero := "(.int 0)"
					if id, ok := r.Type.(*ast.Ident); ok {
						switch id.Name {
						case "error":
							zero = ".nilErr"
						case "T", "int":
						default:
							fail("%s: named result of type %s", n, id.Name)
						}
					} else {
						fail("%s: named result type", n)
					}
					pre = append(pre, fmt.Sprintf("(.assign %d %s)", t.v(rn.Name, true), zero))
				}
			}
		}
		body := seq(append(pre, t.stmt(fd.Body)))
		var vn []string
		for i, x := range t.varNames {
			vn = append(vn, fmt.Sprintf("%d=%s", i, x))
		}
		fmt.Fprintf(&b, "/-- `%s`; variables: %s -/\ndef body_%s : Stmt PName :=\n  %s\n\n", n, strings.Join(vn, " "), n, body)
	}
	b.WriteString("def procs : PName → Proc PName\n")
	for _, n := range names {
		fmt.Fprintf(&b, "  | .%s => ⟨%d, body_%s⟩\n", n, np[n], n)
	}
	b.WriteString("\nend Ekit.Gen.ArrayListGo\n")
	if err := os.WriteFile(*out, []byte(b.String()), 0o644); err != nil {
		fmt.Fprintln(os.Stderr, err)
		os.Exit(1)
	}
}
