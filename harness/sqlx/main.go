// Correspondence harness for C18 (sqlx.EncryptColumn / sqlx.JsonColumn).
//
// The harness does its own AES-GCM (crypto/aes, crypto/cipher) and its own encoding/json calls, so
// the ekit glue is compared byte for byte in both directions:
//   - `value`  : the output of Value() is split and opened here; the plaintext is handed to the Lean
//     driver, which checks that it equals the model's serialisation of the value;
//   - `scan pt:…`: arbitrary plaintexts (including wrong lengths) are sealed here and given to Scan;
//   - `scan flip:/trunc:/app:…`: genuine stored values are corrupted (every bit, every truncation
//     length, appended bytes), scanned with wrong keys / wrong key lengths / wrong src types.
//
// Values: besides the extremes of each type and uniformly drawn words, every instantiation with a notion of
// size is driven through Value()/Scan() at the INNER thresholds of that size (integers next to ±2^k for the
// narrower widths k, words of uniformly drawn bit length, float patterns with an empty half, strings and
// []byte of lengths next to block / length-prefix sizes with edges that trimming or padding would lose):
// deterministically once (boundaryCases) and mixed into every random stream (genVal). A representation that
// is wrong only in such a window (a compact form chosen by magnitude) is otherwise never exercised.
//
// Every line is  "<op> => <result> k=v …".  Oracle fields (`pt=`, `open=`, `json=`, `dec=`) are the
// harness's own stdlib results for exactly the bytes the real code saw.
//
//	sqlx -mode gen -tier quick|thorough -out ops.txt     (seed from VERIF_SEED)
//	sqlx -mode run -ops ops.txt -out trace.txt -stats stats.json
package main

import (
	"bytes"
	"crypto/aes"
	"crypto/cipher"
	"database/sql/driver"
	"encoding/hex"
	"encoding/json"
	"errors"
	"flag"
	"fmt"
	"io"
	"math"
	"os"
	"strconv"
	"strings"

	"github.com/ecodeclub/ekit/sqlx"
	"github.com/ecodeclub/ekit/zzverif/vlib"
)

// ---------------------------------------------------------------------------------------------
// tokens

func hx(b []byte) string {
	if len(b) == 0 {
		return "-"
	}
	return hex.EncodeToString(b)
}

func unhx(s string) []byte {
	if s == "-" || s == "" {
		return []byte{}
	}
	b, err := hex.DecodeString(s)
	if err != nil {
		panic("bad hex " + s)
	}
	return b
}

func b01(b bool) string {
	if b {
		return "1"
	}
	return "0"
}

// classify maps a Go error to the small enum of the Lean model. ekit's own errors are all
// "err:other" (their texts are not part of any contract).
func classify(err error) string {
	if err == nil {
		return "ok"
	}
	var (
		e1 *json.SyntaxError
		e2 *json.UnmarshalTypeError
		e3 *json.UnsupportedValueError
		e4 *json.UnsupportedTypeError
		e5 *json.MarshalerError
		e6 *json.InvalidUnmarshalError
		ks aes.KeySizeError
	)
	switch {
	case ownJSONErr != "" && err.Error() == ownJSONErr:
		return "err:json"
	case errors.As(err, &e1), errors.As(err, &e2), errors.As(err, &e3), errors.As(err, &e4), errors.As(err, &e5), errors.As(err, &e6):
		return "err:json"
	case errors.Is(err, io.EOF):
		return "err:eof"
	case errors.Is(err, io.ErrUnexpectedEOF):
		return "err:ueof"
	case errors.As(err, &ks):
		return "err:keysize"
	case err.Error() == "cipher: message authentication failed":
		return "err:auth"
	case strings.HasPrefix(err.Error(), "json:"):
		return "err:json"
	}
	return "err:other"
}

// ---------------------------------------------------------------------------------------------
// the Go types T is instantiated with

type inner struct {
	X int32    `json:"x"`
	Y []string `json:"y"`
}

type rec struct {
	A int64            `json:"a"`
	B string           `json:"b"`
	C []int32          `json:"c"`
	D map[string]int64 `json:"d"`
	E *inner           `json:"e"`
	F bool             `json:"f"`
}

// codec: how values of T are written in op lines / observations, and copied.
type codec[T any] struct {
	parse  func(string) T
	render func(T) string
	isJSON bool // takes the json arm of EncryptColumn's switches
}

func jsonCodec[T any]() codec[T] {
	parse := func(s string) T {
		var v T
		if err := json.Unmarshal(unhx(s), &v); err != nil {
			panic("bad json token " + s + ": " + err.Error())
		}
		return v
	}
	render := func(v T) string {
		b, err := json.Marshal(v)
		if err != nil {
			return "unrenderable"
		}
		return hx(b)
	}
	return codec[T]{parse: parse, render: render, isJSON: true}
}

func sintCodec[T int8 | int16 | int32 | int64 | int]() codec[T] {
	return codec[T]{
		parse: func(s string) T {
			v, err := strconv.ParseInt(s, 10, 64)
			if err != nil {
				panic(err)
			}
			return T(v)
		},
		render: func(v T) string { return strconv.FormatInt(int64(v), 10) },
	}
}

func uintCodec[T uint8 | uint16 | uint32 | uint64 | uint]() codec[T] {
	return codec[T]{
		parse: func(s string) T {
			v, err := strconv.ParseUint(s, 10, 64)
			if err != nil {
				panic(err)
			}
			return T(v)
		},
		render: func(v T) string { return strconv.FormatUint(uint64(v), 10) },
	}
}

// interferingScans: a few Value/Scan round trips of unrelated columns with the same key on this goroutine
func interferingScans(key []byte) {
	for i := 0; i < 3; i++ {
		a := sqlx.EncryptColumn[[]byte]{Key: string(key), Valid: true, Val: bytes.Repeat([]byte{byte(0x51 + i)}, 24+17*i)}
		if v, err := a.Value(); err == nil {
			var b sqlx.EncryptColumn[[]byte]
			b.Key = string(key)
			_ = b.Scan(v)
		}
		c := sqlx.EncryptColumn[string]{Key: string(key), Valid: true, Val: strings.Repeat("q", 40+i)}
		if v, err := c.Value(); err == nil {
			var d sqlx.EncryptColumn[string]
			d.Key = string(key)
			_ = d.Scan(v)
		}
	}
}

// column is the type-erased view of one EncryptColumn[T] / JsonColumn[T].
type column interface {
	Set(tok string, valid bool)
	SetKey(k []byte)
	Key() []byte
	Value() (driver.Value, error)
	Scan(src any) error
	ValTok() string
	Valid() bool
	IsJSON() bool
	JSONOf() string           // harness's own json.Marshal(Val): hex | fail
	DecInto(pt []byte) string // harness's own json.Unmarshal(pt, &shadow): "<tok>:<0|1>"
	// FreshScan: the REAL Scan of src into a fresh zero column of the same T (and key):
	// "<Val tok>,<Valid>,<result class>". This is the property's Scan(Value(x)) without any prior
	// receiver state, so the specification can judge a Value() output on its own.
	FreshScan(src []byte) string
	// SelfRT: is Val JSON-representable? the harness's own Marshal, then Unmarshal into a fresh T:
	// "<tok>,1" | fail | na (T is not serialised with encoding/json)
	SelfRT() string
}

func freshResult(tok func() string, valid func() bool, scan func() error) string {
	var err error
	if p := vlib.Catch(func() { err = scan() }); p != "" {
		return "na,0,panic"
	}
	return tok() + "," + b01(valid()) + "," + classify(err)
}

func selfRT[T any](cd codec[T], v T) string {
	b, err := json.Marshal(v)
	if err != nil {
		return "fail"
	}
	var f T
	if json.Unmarshal(b, &f) != nil {
		return "fail"
	}
	return cd.render(f) + ",1"
}

// shadow: a second value of T that only ever sees the harness's own encoding/json calls, applied in
// the same order as the real code applies them to Val. (json.Unmarshal into an existing value depends
// on state a rendering does not show — e.g. the spare capacity of a slice — so a copy made from the
// rendering would not do.)
type encCol[T any] struct {
	c      sqlx.EncryptColumn[T]
	cd     codec[T]
	shadow T
}

func (e *encCol[T]) Set(tok string, valid bool) {
	e.c.Val, e.shadow, e.c.Valid = e.cd.parse(tok), e.cd.parse(tok), valid
}
func (e *encCol[T]) SetKey(k []byte) { e.c.Key = string(k) }
func (e *encCol[T]) Key() []byte     { return []byte(e.c.Key) }
func (e *encCol[T]) Value() (driver.Value, error) {
	return e.c.Value()
}
func (e *encCol[T]) Scan(src any) error { return e.c.Scan(src) }
func (e *encCol[T]) ValTok() string     { return e.cd.render(e.c.Val) }
func (e *encCol[T]) Valid() bool        { return e.c.Valid }
func (e *encCol[T]) IsJSON() bool       { return e.cd.isJSON }
func (e *encCol[T]) JSONOf() string     { return jsonOf(e.c.Val) }
func (e *encCol[T]) DecInto(pt []byte) string {
	return decInto(e.cd, &e.shadow, pt)
}
func (e *encCol[T]) FreshScan(src []byte) string {
	c := sqlx.EncryptColumn[T]{Key: e.c.Key}
	return freshResult(func() string { return e.cd.render(c.Val) }, func() bool { return c.Valid },
		func() error { return c.Scan(append([]byte{}, src...)) })
}
func (e *encCol[T]) SelfRT() string {
	if !e.cd.isJSON {
		return "na"
	}
	return selfRT(e.cd, e.c.Val)
}

type jsonCol[T any] struct {
	c      sqlx.JsonColumn[T]
	cd     codec[T]
	shadow T
}

func (e *jsonCol[T]) Set(tok string, valid bool) {
	e.c.Val, e.shadow, e.c.Valid = e.cd.parse(tok), e.cd.parse(tok), valid
}
func (e *jsonCol[T]) SetKey(k []byte) {}
func (e *jsonCol[T]) Key() []byte     { return nil }
func (e *jsonCol[T]) Value() (driver.Value, error) {
	return e.c.Value()
}
func (e *jsonCol[T]) Scan(src any) error { return e.c.Scan(src) }
func (e *jsonCol[T]) ValTok() string     { return e.cd.render(e.c.Val) }
func (e *jsonCol[T]) Valid() bool        { return e.c.Valid }
func (e *jsonCol[T]) IsJSON() bool       { return true }
func (e *jsonCol[T]) JSONOf() string     { return jsonOf(e.c.Val) }
func (e *jsonCol[T]) DecInto(pt []byte) string {
	return decInto(e.cd, &e.shadow, pt)
}
func (e *jsonCol[T]) FreshScan(src []byte) string {
	var c sqlx.JsonColumn[T]
	return freshResult(func() string { return e.cd.render(c.Val) }, func() bool { return c.Valid },
		func() error { return c.Scan(append([]byte{}, src...)) })
}
func (e *jsonCol[T]) SelfRT() string { return selfRT(e.cd, e.c.Val) }

// ownJSONErr is the text of the error the harness's own last encoding/json call returned; an error
// of the real code with the same text is classified err:json whatever its Go type.
var ownJSONErr string

func jsonOf[T any](v T) string {
	b, err := json.Marshal(v)
	if err != nil {
		ownJSONErr = err.Error()
		return "fail"
	}
	return hx(b)
}

func decInto[T any](cd codec[T], shadow *T, pt []byte) string {
	err := json.Unmarshal(pt, shadow)
	if err != nil {
		ownJSONErr = err.Error()
	}
	return cd.render(*shadow) + ":" + b01(err == nil)
}

func mk(kind, ty string) column {
	str := codec[string]{parse: func(s string) string { return string(unhx(s)) }, render: func(v string) string { return hx([]byte(v)) }}
	byt := codec[[]byte]{parse: func(s string) []byte { return unhx(s) }, render: func(v []byte) string { return hx(v) }}
	f32 := codec[float32]{
		parse: func(s string) float32 {
			v, err := strconv.ParseUint(s, 10, 32)
			if err != nil {
				panic(err)
			}
			return math.Float32frombits(uint32(v))
		},
		render: func(v float32) string { return strconv.FormatUint(uint64(math.Float32bits(v)), 10) },
	}
	f64 := codec[float64]{
		parse: func(s string) float64 {
			v, err := strconv.ParseUint(s, 10, 64)
			if err != nil {
				panic(err)
			}
			return math.Float64frombits(v)
		},
		render: func(v float64) string { return strconv.FormatUint(math.Float64bits(v), 10) },
	}
	if kind == "enc" {
		switch ty {
		case "string":
			return &encCol[string]{cd: str}
		case "bytes":
			return &encCol[[]byte]{cd: byt}
		case "int8":
			return &encCol[int8]{cd: sintCodec[int8]()}
		case "int16":
			return &encCol[int16]{cd: sintCodec[int16]()}
		case "int32":
			return &encCol[int32]{cd: sintCodec[int32]()}
		case "int64":
			return &encCol[int64]{cd: sintCodec[int64]()}
		case "int":
			return &encCol[int]{cd: sintCodec[int]()}
		case "uint8":
			return &encCol[uint8]{cd: uintCodec[uint8]()}
		case "uint16":
			return &encCol[uint16]{cd: uintCodec[uint16]()}
		case "uint32":
			return &encCol[uint32]{cd: uintCodec[uint32]()}
		case "uint64":
			return &encCol[uint64]{cd: uintCodec[uint64]()}
		case "uint":
			return &encCol[uint]{cd: uintCodec[uint]()}
		case "float32":
			return &encCol[float32]{cd: f32}
		case "float64":
			return &encCol[float64]{cd: f64}
		case "bool":
			return &encCol[bool]{cd: jsonCodec[bool]()}
		case "struct":
			return &encCol[rec]{cd: jsonCodec[rec]()}
		case "map":
			return &encCol[map[string]int64]{cd: jsonCodec[map[string]int64]()}
		case "slice":
			return &encCol[[]string]{cd: jsonCodec[[]string]()}
		}
	} else {
		switch ty {
		case "string":
			return &jsonCol[string]{cd: str}
		case "bytes":
			return &jsonCol[[]byte]{cd: byt}
		case "int64":
			return &jsonCol[int64]{cd: sintCodec[int64]()}
		case "uint8":
			return &jsonCol[uint8]{cd: uintCodec[uint8]()}
		case "float64":
			return &jsonCol[float64]{cd: f64}
		case "bool":
			return &jsonCol[bool]{cd: jsonCodec[bool]()}
		case "struct":
			return &jsonCol[rec]{cd: jsonCodec[rec]()}
		case "map":
			return &jsonCol[map[string]int64]{cd: jsonCodec[map[string]int64]()}
		case "slice":
			return &jsonCol[[]string]{cd: jsonCodec[[]string]()}
		case "ptr":
			return &jsonCol[*inner]{cd: jsonCodec[*inner]()}
		}
	}
	panic("type " + kind + " " + ty)
}

// ---------------------------------------------------------------------------------------------
// the harness's own AES-GCM

func gcmOf(key []byte) cipher.AEAD {
	blk, err := aes.NewCipher(key)
	if err != nil {
		return nil
	}
	g, err := cipher.NewGCM(blk)
	if err != nil {
		return nil
	}
	return g
}

// ownOpen: hex of the plaintext | fail | na (key or length make the question meaningless)
func ownOpen(key, data []byte) string {
	g := gcmOf(key)
	if g == nil || len(data) < 12 {
		return "na"
	}
	pt, err := g.Open(nil, data[:12], data[12:], nil)
	if err != nil {
		return "fail"
	}
	return hx(pt)
}

func ownSeal(key, nonce, pt []byte) []byte {
	g := gcmOf(key)
	if g == nil || len(nonce) != 12 {
		return nil
	}
	return g.Seal(append([]byte{}, nonce...), nonce, pt, nil)
}

// ---------------------------------------------------------------------------------------------
// run

type stats struct {
	Ops      map[string]int `json:"ops"`
	Results  map[string]int `json:"results"`
	Types    map[string]int `json:"types"`
	SrcKinds map[string]int `json:"src_kinds"`
	PtLens   map[string]int `json:"plaintext_lengths"`
	KeyLens  map[string]int `json:"key_lengths"`
	Rescans  int            `json:"scans_repeated_on_the_same_buffer"`
	Merged   int            `json:"genuine_scans_merged_into_prior_value"` // json.Unmarshal merges into a non-empty map/struct receiver
	Flips    int            `json:"bit_flips"`
	Truncs   int            `json:"truncations"`
	Cases    int            `json:"cases"`
	Lines    int            `json:"lines"`
	Distinct int            `json:"distinct_state_op_pairs"`
}

func flip(b []byte, i int) []byte {
	c := append([]byte{}, b...)
	c[i/8] ^= 1 << (i % 8)
	return c
}

func run(ops []string, out *vlib.Out, st *stats) {
	var col column
	var kind, ty string
	var stored []byte
	var storedTok, storedKey string
	haveStored := false
	seen := map[string]struct{}{}
	state := func() string {
		if kind == "enc" {
			return fmt.Sprintf("val=%s valid=%s key=%s", col.ValTok(), b01(col.Valid()), hx(col.Key()))
		}
		return fmt.Sprintf("val=%s valid=%s", col.ValTok(), b01(col.Valid()))
	}
	for _, line := range ops {
		w := strings.Fields(line)
		st.Lines++
		st.Ops[w[0]]++
		if w[0] == "new" {
			st.Cases++
			kind, ty = w[1], w[2]
			st.Types[kind+"/"+ty]++
			col = mk(kind, ty)
			haveStored = false
			stored = nil
			if kind == "enc" {
				col.SetKey(unhx(w[3]))
			}
			out.Line("%s => ok %s", line, state())
			continue
		}
		if col == nil {
			out.Line("%s => no-column", line)
			continue
		}
		before := state()
		var res string
		ownJSONErr = ""
		switch w[0] {
		case "set":
			col.Set(w[1], w[2] == "1")
			res = "ok"
		case "setkey":
			col.SetKey(unhx(w[1]))
			st.KeyLens[strconv.Itoa(len(col.Key()))]++
			res = "ok"
		case "value":
			var dv driver.Value
			var err error
			jo := "na"
			if col.IsJSON() {
				jo = col.JSONOf()
			}
			p := vlib.Catch(func() { dv, err = col.Value() })
			switch {
			case p != "":
				res = p + " json=" + jo
			case err != nil:
				res = classify(err) + " json=" + jo
				if dv != nil {
					res += " nonnil=1"
				}
			case kind == "enc":
				ct, ok := dv.([]byte)
				if !ok {
					res = "ok:nonbytes json=" + jo
					break
				}
				stored, haveStored = append([]byte{}, ct...), true
				storedTok, storedKey = col.ValTok(), hx(col.Key())
				nonce := "na"
				if len(ct) >= 12 {
					nonce = hx(ct[:12])
				}
				res = fmt.Sprintf("ok ct=%s nonce=%s pt=%s json=%s fs=%s self=%s", hx(ct), nonce, ownOpen(col.Key(), ct), jo, col.FreshScan(ct), col.SelfRT())
			default: // json column
				switch v := dv.(type) {
				case nil:
					res = "ok:null json=" + jo
					stored, haveStored = nil, false
				case []byte:
					res = "ok:" + hx(v) + " json=" + jo + " fs=" + col.FreshScan(v) + " self=" + col.SelfRT()
					stored, haveStored = append([]byte{}, v...), true
					storedTok, storedKey = col.ValTok(), hx(col.Key())
				default:
					res = "ok:nonbytes json=" + jo
				}
			}
		case "value2":
			var d1, d2 driver.Value
			var er1, er2 error
			jo := "na"
			if col.IsJSON() {
				jo = col.JSONOf()
			}
			p := vlib.Catch(func() { d1, er1 = col.Value(); d2, er2 = col.Value() })
			c1, ok1 := d1.([]byte)
			c2, ok2 := d2.([]byte)
			switch {
			case p != "":
				res = p
			case er1 != nil || er2 != nil:
				res = classify(er1)
				if er1 == nil {
					res = classify(er2)
				}
			case !ok1 || !ok2:
				res = "ok:nonbytes"
			default:
				res = fmt.Sprintf("ok ct1=%s ct2=%s pt1=%s pt2=%s json=%s", hx(c1), hx(c2), ownOpen(col.Key(), c1), ownOpen(col.Key(), c2), jo)
			}
		case "scan":
			spec := w[1]
			as := "bytes"
			if len(w) > 2 {
				as = w[2]
			}
			sk := spec
			if i := strings.IndexByte(spec, ':'); i >= 0 {
				sk = spec[:i]
			}
			st.SrcKinds[sk]++
			var data []byte
			var src any
			srcty := as
			isBytes := true
			switch sk {
			case "stored", "flip", "trunc", "app":
				if !haveStored {
					out.Line("%s => no-stored %s", line, state())
					continue
				}
				arg := ""
				if i := strings.IndexByte(spec, ':'); i >= 0 {
					arg = spec[i+1:]
				}
				switch sk {
				case "stored":
					data = append([]byte{}, stored...)
				case "flip":
					i, _ := strconv.Atoi(strings.TrimPrefix(arg, "e"))
					if strings.HasPrefix(arg, "e") { // counted from the last bit (the generator does not know the length)
						i = 8*len(stored) - 1 - i
					}
					if i < 0 || i >= 8*len(stored) {
						out.Line("%s => no-stored %s", line, state())
						continue
					}
					data = flip(stored, i)
					st.Flips++
				case "trunc":
					n, _ := strconv.Atoi(arg)
					if n < 0 || n > len(stored) {
						out.Line("%s => no-stored %s", line, state())
						continue
					}
					data = append([]byte{}, stored[:n]...)
					st.Truncs++
				case "app":
					data = append(append([]byte{}, stored...), unhx(arg)...)
				}
			case "pt":
				parts := strings.Split(spec, ":")
				pt, nonce := unhx(parts[1]), unhx(parts[2])
				data = ownSeal(col.Key(), nonce, pt)
				if data == nil && kind == "enc" {
					out.Line("%s => no-stored %s", line, state())
					continue
				}
				st.PtLens[strconv.Itoa(len(pt))]++
			case "raw":
				data = unhx(spec[4:])
			case "nil":
				src, srcty, isBytes = nil, "nil", false
			case "int64":
				v, _ := strconv.ParseInt(spec[6:], 10, 64)
				src, srcty, isBytes = v, "int64", false
			case "float64":
				v, _ := strconv.ParseUint(spec[8:], 10, 64)
				src, srcty, isBytes = math.Float64frombits(v), "float64", false
			case "bool":
				src, srcty, isBytes = spec[5:] == "1", "bool", false
			default:
				panic("src " + spec)
			}
			open, dec, srchex := "na", "na", "na"
			if isBytes {
				srchex = hx(data)
				if kind == "enc" {
					open = ownOpen(col.Key(), data)
					if open != "na" && open != "fail" && col.IsJSON() {
						dec = col.DecInto(unhx(open))
					}
				} else {
					dec = col.DecInto(data)
				}
				if as == "string" {
					src = string(data)
				} else {
					src = append([]byte{}, data...)
				}
			}
			var err error
			p := vlib.Catch(func() { err = col.Scan(src) })
			if p != "" {
				res = p
			} else {
				res = classify(err)
			}
			if sk == "stored" && res == "ok" && hx(col.Key()) == storedKey && col.ValTok() != storedTok {
				st.Merged++
			}
			// the stored bytes are the caller's: scanning the SAME buffer a second time must give the same answer and the
			// same value (a Scan that decrypts in place destroys what it was given), and a restored value must not
			// change when the caller reuses its buffer afterwards (database/sql drivers do)
			again, alias := "na", "na"
			if b, ok := src.([]byte); ok && !strings.HasPrefix(res, "panic") {
				tok1 := col.ValTok()
				var err2 error
				if p2 := vlib.Catch(func() { err2 = col.Scan(b) }); p2 != "" {
					again = p2
				} else {
					again = classify(err2)
					if again == "ok" && res == "ok" && col.ValTok() != tok1 {
						again = "ok:othervalue"
					}
				}
				if again == "ok" {
					tok2 := col.ValTok()
					for i := range b {
						b[i] ^= 0xAA
					}
					alias = "0"
					if col.ValTok() != tok2 {
						alias = "1"
					}
				}
				st.Rescans++
			}
			// … nor when OTHER columns are scanned afterwards (a scratch buffer handed out as the value and reused)
			if res == "ok" && kind == "enc" {
				tok3 := col.ValTok()
				vlib.Catch(func() { interferingScans(col.Key()) })
				if col.ValTok() != tok3 {
					alias = "1"
				} else if alias == "na" {
					alias = "0"
				}
			}
			res += fmt.Sprintf(" src=%s srcty=%s open=%s dec=%s again=%s alias=%s", srchex, srcty, open, dec, again, alias)
		default:
			panic("op " + w[0])
		}
		after := state()
		rk := strings.Fields(res)[0]
		if strings.HasPrefix(rk, "ok:") {
			rk = "ok"
		}
		if strings.HasPrefix(rk, "panic") {
			rk = "panic"
		}
		opk := w[0]
		if w[0] == "scan" {
			opk = "scan/" + strings.SplitN(w[1], ":", 2)[0]
		}
		st.Results[opk+"/"+rk]++
		if before != after || strings.HasPrefix(rk, "err") || rk == "panic" {
			seen[kind+ty+"|"+before+"|"+line] = struct{}{}
		}
		out.Line("%s => %s %s", line, res, after)
	}
	st.Distinct = len(seen)
}

// ---------------------------------------------------------------------------------------------
// gen

var encTypes = []string{"string", "bytes", "int8", "int16", "int32", "int64", "uint8", "uint16", "uint32", "uint64",
	"int", "uint", "float32", "float64", "bool", "struct", "map", "slice"}
var jsonTypes = []string{"string", "bytes", "int64", "uint8", "float64", "bool", "struct", "map", "slice", "ptr"}

func width(ty string) int {
	switch ty {
	case "int8", "uint8":
		return 1
	case "int16", "uint16":
		return 2
	case "int32", "uint32", "float32":
		return 4
	case "int64", "uint64", "float64", "int", "uint":
		return 8
	}
	return 0
}

func randBytes(r *vlib.Rng, n int) []byte {
	b := make([]byte, n)
	for i := range b {
		b[i] = byte(r.U64())
	}
	return b
}

func jtok(s string) string { return hx([]byte(s)) }

var words = []string{"", "a", "b", "k1", "héllo", "x y", "\"q\"", "<&>", " ", "null"}

func genJSONText(r *vlib.Rng, ty string) string {
	strs := func() string {
		if r.Chance(15) {
			return "null"
		}
		n := r.Intn(4)
		xs := make([]string, n)
		for i := range xs {
			b, _ := json.Marshal(vlib.Pick(r, words))
			xs[i] = string(b)
		}
		return "[" + strings.Join(xs, ",") + "]"
	}
	i64 := func() string {
		return strconv.FormatInt(vlib.Pick(r, []int64{0, 1, -1, 42, math.MaxInt64, math.MinInt64, int64(r.U64())}), 10)
	}
	mp := func() string {
		if r.Chance(15) {
			return "null"
		}
		n := r.Intn(4)
		keys := map[string]bool{}
		var xs []string
		for i := 0; i < n; i++ {
			k := vlib.Pick(r, words)
			if keys[k] {
				continue
			}
			keys[k] = true
			kb, _ := json.Marshal(k)
			xs = append(xs, string(kb)+":"+i64())
		}
		return "{" + strings.Join(xs, ",") + "}"
	}
	inn := func() string {
		if r.Chance(30) {
			return "null"
		}
		return fmt.Sprintf(`{"x":%d,"y":%s}`, int32(r.U64()), strs())
	}
	switch ty {
	case "bool":
		return vlib.Pick(r, []string{"true", "false"})
	case "slice":
		return strs()
	case "map":
		return mp()
	case "ptr":
		return inn()
	case "struct":
		if r.Chance(6) { // the zero struct and its empty-but-not-nil relatives
			return string(unhx(vlib.Pick(r, zeroToks["struct"])))
		}
		var cs []string
		n := r.Intn(4)
		for i := 0; i < n; i++ {
			cs = append(cs, strconv.Itoa(int(int32(r.U64()))))
		}
		c := "[" + strings.Join(cs, ",") + "]"
		if r.Chance(15) {
			c = "null"
		}
		b, _ := json.Marshal(vlib.Pick(r, words))
		return fmt.Sprintf(`{"a":%s,"b":%s,"c":%s,"d":%s,"e":%s,"f":%s}`, i64(), b, c, mp(), inn(), vlib.Pick(r, []string{"true", "false"}))
	}
	panic(ty)
}

// innerBits: the widths at which a NARROWER representation of an integer (or of a bit pattern) stops
// fitting. A serialisation that is free to pick a shorter encoding for "small" values (a compact / variable
// length form) decides by such a threshold, and a decoder that tells the forms apart by length has to agree
// with it for the signed and for the unsigned reading: the values next to 2^k, of both signs, are where they
// can disagree — not the extremes of the type's own width and not a uniformly drawn word (which is almost
// surely wider than every inner threshold).
var innerBits = []int{7, 8, 15, 16, 24, 31, 32, 40, 48, 56, 63}

// sintBounds: every ±(2^k + d), d in -2..1, k an inner width, that a signed integer of `bits` bits holds,
// and the extremes of the type.
func sintBounds(bits int) []int64 {
	min := int64(-1) << (bits - 1)
	max := -(min + 1)
	out := []int64{0, 1, -1, 2, -2, min, min + 1, max, max - 1}
	seen := map[int64]bool{}
	for _, v := range out {
		seen[v] = true
	}
	for _, k := range innerBits {
		if k >= bits-1 { // ±2^(bits-1) and its neighbours are the extremes above
			break
		}
		for d := int64(-2); d <= 1; d++ {
			p := int64(1)<<k + d
			for _, v := range []int64{p, -p} {
				if !seen[v] {
					seen[v] = true
					out = append(out, v)
				}
			}
		}
	}
	return out
}

// usintBounds: every 2^k + d, d in -2..1, k an inner width, that an unsigned integer of `bits` bits holds,
// and the extremes of the type.
func usintBounds(bits int) []uint64 {
	max := ^uint64(0) >> (64 - bits)
	out := []uint64{0, 1, 2, max, max - 1, max >> 1, max>>1 + 1}
	seen := map[uint64]bool{}
	for _, v := range out {
		seen[v] = true
	}
	for _, k := range innerBits {
		if k >= bits {
			break
		}
		for d := -2; d <= 1; d++ {
			v := uint64(1)<<k + uint64(int64(d))
			if v <= max && !seen[v] {
				seen[v] = true
				out = append(out, v)
			}
		}
	}
	return out
}

// magnitude: a word whose LENGTH in bits is uniform in 0..bits (so every inner width is as likely as the
// full one), the top bit of that length set, the bits below it random, all ones or all zeros.
func magnitude(r *vlib.Rng, bits int) uint64 {
	n := r.Intn(bits + 1)
	if n == 0 {
		return 0
	}
	top := uint64(1) << (n - 1)
	switch r.Intn(4) {
	case 0:
		return top
	case 1:
		return top | (top - 1)
	}
	return top | (r.U64() & (top - 1))
}

// patternBounds: bit patterns of a float of `bits` bits that a compact encoding would single out: one half
// of the word all zero (or just not), a single bit, a run of ones of an inner width, and (64 bits) the
// doubles that are exactly a float32.
func patternBounds(bits int) []uint64 {
	max := ^uint64(0) >> (64 - bits)
	out := []uint64{}
	seen := map[uint64]bool{}
	add := func(v uint64) {
		v &= max
		if !seen[v] {
			seen[v] = true
			out = append(out, v)
		}
	}
	for _, k := range append([]int{0, 1}, innerBits...) {
		if k >= bits {
			break
		}
		add(uint64(1) << k)
		add(uint64(1)<<k - 1)
		add(^(uint64(1)<<k - 1)) // only the bits from k up
	}
	half := uint(bits / 2)
	halves := []uint64{0x3ff00000, 0xbff80000, 0x40590000, 0x7ff00000, 0xfff80000, 1, 0x80000000, 0x7fffffff} // 1, -1.5, 100, +Inf, NaN, …
	if bits == 32 {
		halves = []uint64{0x3f80, 0xbfc0, 0x42c8, 0x7f80, 0xffc0, 1, 0x8000, 0x7fff}
	}
	for _, h := range halves {
		add(h << half) // low half zero
		add(h)         // high half zero
		add(h<<half | 1)
		add(h<<half | 1<<(half-1))
	}
	if bits == 64 {
		for _, f := range []float32{1.5, 0.1, -0.1, 3.4028235e38, 1e-45, 16777216, -2.5} {
			add(math.Float64bits(float64(f)))
		}
	}
	return out
}

// lengthBounds: string / []byte lengths around the sizes a length-dependent encoding (block, length prefix)
// would single out.
var lengthBounds = []int{0, 1, 2, 3, 4, 5, 7, 8, 9, 12, 15, 16, 17, 28, 31, 32, 33, 63, 64, 65, 255, 256, 257}

// shapedBytes: n bytes with the edges a trimming / padding encoding would lose (leading and trailing
// 0x00 / 0xff / space), or random.
func shapedBytes(r *vlib.Rng, n, shape int) []byte {
	b := randBytes(r, n)
	if n == 0 {
		return b
	}
	switch shape % 6 {
	case 0:
		for i := range b {
			b[i] = 0
		}
	case 1:
		for i := range b {
			b[i] = 0xff
		}
	case 2:
		b[0], b[n-1] = 0, 0
	case 3:
		b[0], b[n-1] = ' ', ' '
	case 4:
		b[0], b[n-1] = 0x80, 0x80
	}
	return b
}

// genVal returns a value token for type ty (boundary values favoured).
func genVal(r *vlib.Rng, ty string) string {
	sint := func(bits int) string {
		var v int64
		switch p := r.Intn(100); {
		case p < 40:
			v = vlib.Pick(r, sintBounds(bits))
		case p < 70:
			v = int64(magnitude(r, bits-1))
			if r.Chance(50) {
				v = -v
				if r.Chance(30) {
					v-- // -(2^k)-1 … : the two's complement neighbour
				}
			}
		default:
			v = int64(r.U64())
		}
		// reduce into range keeping the low bits (two's complement truncation)
		if bits < 64 {
			v = (v << (64 - bits)) >> (64 - bits)
		}
		return strconv.FormatInt(v, 10)
	}
	usint := func(bits int) string {
		max := ^uint64(0) >> (64 - bits)
		var v uint64
		switch p := r.Intn(100); {
		case p < 40:
			v = vlib.Pick(r, usintBounds(bits))
		case p < 70:
			v = magnitude(r, bits)
		default:
			v = r.U64()
		}
		return strconv.FormatUint(v&max, 10)
	}
	switch ty {
	case "string", "bytes":
		switch r.Intn(6) {
		case 0:
			return "-"
		case 1:
			return hx([]byte(vlib.Pick(r, words)))
		case 2:
			return hx([]byte{0xff, 0xfe, 0x00, 0x80}) // not UTF-8
		case 3: // a length next to a block / word size, edges that trimming or padding would lose (<= 40: corruptCase's bound)
			return hx(shapedBytes(r, vlib.Pick(r, []int{1, 2, 3, 4, 5, 7, 8, 9, 12, 15, 16, 17, 28, 31, 32, 33}), r.Intn(6)))
		}
		return hx(randBytes(r, r.Range(1, 40)))
	case "int8":
		return sint(8)
	case "int16":
		return sint(16)
	case "int32":
		return sint(32)
	case "int64", "int":
		return sint(64)
	case "uint8":
		return usint(8)
	case "uint16":
		return usint(16)
	case "uint32":
		return usint(32)
	case "uint64", "uint":
		return usint(64)
	case "float32":
		c := []uint32{0, 0x80000000, 0x7f800000, 0xff800000, 0x7fc00000, 0x7fa00001, 0xffc00001, 1, 0x007fffff, 0x00800000, 0x7f7fffff, 0x3f800000, 0xbf800000}
		v := vlib.Pick(r, c)
		switch p := r.Intn(100); {
		case p < 30:
			v = uint32(r.U64())
		case p < 50:
			v = uint32(vlib.Pick(r, patternBounds(32)))
		case p < 60:
			v = uint32(magnitude(r, 32))
		}
		return strconv.FormatUint(uint64(v), 10)
	case "float64":
		c := []uint64{0, 1 << 63, 0x7ff0000000000000, 0xfff0000000000000, 0x7ff8000000000000, 0x7ff4000000000001, 0xfff8000000000001, 1,
			0x000fffffffffffff, 0x0010000000000000, 0x7fefffffffffffff, 0x3ff0000000000000, 0xbff0000000000000}
		v := vlib.Pick(r, c)
		switch p := r.Intn(100); {
		case p < 30:
			v = r.U64()
		case p < 50:
			v = vlib.Pick(r, patternBounds(64))
		case p < 60:
			v = magnitude(r, 64)
		}
		return strconv.FormatUint(v, 10)
	}
	return jtok(genJSONText(r, ty))
}

func genKey(r *vlib.Rng) []byte { return randBytes(r, vlib.Pick(r, []int{16, 24, 32})) }

var badKeyLens = []int{0, 1, 15, 17, 20, 23, 25, 31, 33, 48, 64}

var badJSON = []string{"", " ", "{", "[", "}", "nul", "tru", `"abc`, `{"a":}`, `{"a":1,}`, `[1,2`, `{"a":1}x`, "\x00", "\xff\xfe",
	`{"a":"x"}`, `{"c":[1,"z"]}`, `{"d":{"k":1.5}}`, `{"b":"ok","a":"bad"}`, `{"k":1,"j":"s"}`, `["a",1]`, `[null]`, `{"x":1,"y":3}`,
	`"str"`, `12`, `1.5`, `true`, `null`, `[]`, `{}`, `{"zz":1}`, `{"a":9223372036854775808}`, `300`, `-1`, `1e2`}

type gen struct {
	r    *vlib.Rng
	out  *vlib.Out
	tier string
}

func (g *gen) nonce() string { return hx(randBytes(g.r, 12)) }

// wrongSrc emits scans with src types the column does not support.
func (g *gen) wrongSrc(jsonCol bool) {
	r := g.r
	g.out.Line("scan int64:%d", int64(r.U64()))
	g.out.Line("scan float64:%d", r.U64())
	g.out.Line("scan bool:%d", r.Intn(2))
	if !jsonCol || r.Chance(50) {
		g.out.Line("scan nil")
	}
}

// corruptCase: one genuine Value(), then the whole corruption stream on it.
func (g *gen) corruptCase(ty string, allFlips bool) {
	r, out := g.r, g.out
	key := genKey(r)
	out.Line("new enc %s %s", ty, hx(key))
	// a prior state that the failing scans must not be able to turn into a success
	out.Line("set %s 1", genVal(r, ty))
	out.Line("value")
	out.Line("value2")
	out.Line("scan stored bytes")
	out.Line("scan stored string")
	// the plaintext length is not known to the generator; flips/truncs beyond the end are
	// answered with `no-stored` by the runner and ignored by the driver, so bound generously
	maxLen := 12 + 16 + 8
	switch ty {
	case "string", "bytes":
		maxLen = 12 + 16 + 40
	case "bool":
		maxLen = 12 + 16 + 5
	case "struct", "map", "slice":
		maxLen = 12 + 16 + 200
	}
	if w := width(ty); w > 0 {
		maxLen = 12 + 16 + w
	}
	if allFlips {
		for i := 0; i < 8*maxLen; i++ {
			out.Line("scan flip:%d %s", i, vlib.Pick(r, []string{"bytes", "bytes", "string"}))
		}
	} else {
		for _, i := range []int{0, 7, 8, 95, 96, 97, 8*maxLen - 1, 8*maxLen - 128, 8*maxLen - 129} {
			if i >= 0 {
				out.Line("scan flip:%d bytes", i)
			}
		}
		// the tag region and the end of the body, counted from the last bit (maxLen is only a bound)
		for _, k := range []int{0, 1, 7, 8, 63, 64, 120, 127, 128, 129, 135, 136} {
			out.Line("scan flip:e%d %s", k, vlib.Pick(r, []string{"bytes", "bytes", "string"}))
		}
		for k := 0; k < 16; k++ {
			out.Line("scan flip:%d %s", r.Intn(8*maxLen), vlib.Pick(r, []string{"bytes", "string"}))
		}
	}
	for n := 0; n < maxLen; n++ {
		out.Line("scan trunc:%d %s", n, vlib.Pick(r, []string{"bytes", "bytes", "string"}))
	}
	for _, n := range []int{1, 2, 16} {
		out.Line("scan app:%s bytes", hx(randBytes(r, n)))
	}
	out.Line("scan app:00 string")
	// wrong key of every legal length, then illegal lengths
	for _, n := range []int{16, 24, 32} {
		out.Line("setkey %s", hx(randBytes(r, n)))
		out.Line("scan stored %s", vlib.Pick(r, []string{"bytes", "string"}))
	}
	// a key that differs from the right one in one bit
	out.Line("setkey %s", hx(flip(key, r.Intn(8*len(key)))))
	out.Line("scan stored bytes")
	for _, n := range []int{vlib.Pick(r, badKeyLens), vlib.Pick(r, badKeyLens)} {
		out.Line("setkey %s", hx(randBytes(r, n)))
		out.Line("scan stored bytes")
		out.Line("value")
		out.Line("scan trunc:3 bytes")
	}
	out.Line("setkey %s", hx(key))
	g.wrongSrc(false)
	out.Line("scan stored bytes")
	out.Line("set %s 0", genVal(r, ty))
	out.Line("value")
	out.Line("value2")
	out.Line("scan stored bytes")
}

// glueCase: plaintexts sealed by the harness, of every length around the type's width.
func (g *gen) glueCase(ty string) {
	r, out := g.r, g.out
	out.Line("new enc %s %s", ty, hx(genKey(r)))
	if r.Chance(50) {
		out.Line("set %s %d", genVal(r, ty), r.Intn(2))
	}
	if w := width(ty); w > 0 {
		for n := 0; n <= 9; n++ {
			out.Line("scan pt:%s:%s %s", hx(randBytes(r, n)), g.nonce(), vlib.Pick(r, []string{"bytes", "string"}))
			if r.Chance(30) {
				out.Line("set %s %d", genVal(r, ty), r.Intn(2))
			}
		}
		for k := 0; k < 4; k++ {
			b := randBytes(r, w)
			switch r.Intn(3) {
			case 0:
				for i := range b {
					b[i] = 0xff
				}
			case 1:
				b[0] = 0x80
			}
			out.Line("scan pt:%s:%s bytes", hx(b), g.nonce())
			out.Line("scan pt:%s:%s bytes", hx(append(b, randBytes(r, r.Range(1, 20))...)), g.nonce())
		}
		return
	}
	switch ty {
	case "string", "bytes":
		for k := 0; k < 8; k++ {
			out.Line("scan pt:%s:%s %s", hx(randBytes(r, vlib.Pick(r, []int{0, 1, 2, 7, 16, 33}))), g.nonce(), vlib.Pick(r, []string{"bytes", "string"}))
		}
	default:
		for k := 0; k < 6; k++ {
			out.Line("scan pt:%s:%s %s", jtok(genJSONText(r, ty)), g.nonce(), vlib.Pick(r, []string{"bytes", "string"}))
			if r.Chance(50) {
				out.Line("scan pt:%s:%s bytes", jtok(vlib.Pick(r, badJSON)), g.nonce())
			}
			if r.Chance(40) {
				out.Line("set %s %d", genVal(r, ty), r.Intn(2))
			}
		}
		for k := 0; k < 6; k++ {
			out.Line("scan pt:%s:%s bytes", jtok(vlib.Pick(r, badJSON)), g.nonce())
		}
	}
	out.Line("scan raw:%s bytes", hx(randBytes(r, r.Range(0, 60))))
	out.Line("scan raw:- string")
}

func (g *gen) jsonCase(ty string) {
	r, out := g.r, g.out
	out.Line("new json %s", ty)
	out.Line("value")
	for k := 0; k < 4; k++ {
		out.Line("set %s 1", genVal(r, ty))
		out.Line("value")
		if r.Chance(50) {
			// scan into a fresh-ish receiver: reset to another value first
			out.Line("set %s %d", genVal(r, ty), r.Intn(2))
		}
		out.Line("scan stored %s", vlib.Pick(r, []string{"bytes", "string"}))
		if r.Chance(40) {
			out.Line("scan raw:%s %s", jtok(vlib.Pick(r, badJSON)), vlib.Pick(r, []string{"bytes", "string"}))
		}
		if r.Chance(30) {
			out.Line("scan nil")
		}
	}
	out.Line("set %s 0", genVal(r, ty))
	out.Line("value")
	out.Line("scan nil")
	for k := 0; k < 5; k++ {
		out.Line("scan raw:%s %s", jtok(vlib.Pick(r, badJSON)), vlib.Pick(r, []string{"bytes", "string"}))
	}
	g.wrongSrc(true)
	out.Line("scan raw:%s bytes", jtok(genRawJSON(r, ty)))
}

// genRawJSON: a JSON text that json.Unmarshal accepts for the JsonColumn instantiation ty.
func genRawJSON(r *vlib.Rng, ty string) string {
	switch ty {
	case "string":
		b, _ := json.Marshal(vlib.Pick(r, words))
		return string(b)
	case "bytes":
		return vlib.Pick(r, []string{`""`, `"AQID"`, `null`, `"/w=="`})
	case "int64":
		return vlib.Pick(r, []string{"0", "-1", "9223372036854775807", "-9223372036854775808", "12"})
	case "uint8":
		return vlib.Pick(r, []string{"0", "255", "7"})
	case "float64":
		return vlib.Pick(r, []string{"0", "-0", "1.5", "1e308", "5e-324", "-2.5e10"})
	}
	return genJSONText(r, ty)
}

func (g *gen) randomCase() {
	r, out := g.r, g.out
	ty := vlib.Pick(r, encTypes)
	key := genKey(r)
	out.Line("new enc %s %s", ty, hx(key))
	for k := r.Range(5, 25); k > 0; k-- {
		switch p := r.Intn(100); {
		case p < 20:
			out.Line("set %s %d", genVal(r, ty), vlib.Pick(r, []int{1, 1, 1, 0}))
		case p < 40:
			out.Line("value")
		case p < 45:
			out.Line("value2")
		case p < 60:
			out.Line("scan stored %s", vlib.Pick(r, []string{"bytes", "string"}))
		case p < 68:
			out.Line("scan flip:%d bytes", r.Intn(8*30))
		case p < 74:
			out.Line("scan trunc:%d bytes", r.Intn(32))
		case p < 78:
			out.Line("scan app:%s bytes", hx(randBytes(r, r.Range(1, 3))))
		case p < 88:
			n := r.Intn(10)
			if width(ty) == 0 {
				n = r.Intn(20)
			}
			out.Line("scan pt:%s:%s bytes", hx(randBytes(r, n)), g.nonce())
		case p < 92:
			if r.Chance(50) {
				out.Line("setkey %s", hx(key))
			} else if r.Chance(50) {
				out.Line("setkey %s", hx(genKey(r)))
			} else {
				out.Line("setkey %s", hx(randBytes(r, vlib.Pick(r, badKeyLens))))
			}
		case p < 96:
			out.Line("scan raw:%s %s", hx(randBytes(r, r.Intn(40))), vlib.Pick(r, []string{"bytes", "string"}))
		default:
			out.Line("scan %s", vlib.Pick(r, []string{"nil", "int64:5", "float64:0", "bool:1"}))
		}
	}
}

// zero / non-zero value tokens of every instantiation (zeroCases). The Go zero value first, then the
// "other" zeros (negative zero, empty-but-not-nil, zero elements).
var zeroToks = map[string][]string{
	"string": {"-"}, "bytes": {"-"},
	"int8": {"0"}, "int16": {"0"}, "int32": {"0"}, "int64": {"0"}, "int": {"0"},
	"uint8": {"0"}, "uint16": {"0"}, "uint32": {"0"}, "uint64": {"0"}, "uint": {"0"},
	"float32": {"0", "2147483648"}, "float64": {"0", "9223372036854775808"},
	"bool":   {jtok("false")},
	"struct": {jtok(`{"a":0,"b":"","c":null,"d":null,"e":null,"f":false}`), jtok(`{"a":0,"b":"","c":[],"d":{},"e":{"x":0,"y":null},"f":false}`), jtok(`{"a":0,"b":"","c":[0],"d":{"":0},"e":{"x":0,"y":[""]},"f":false}`)},
	"map":    {jtok("null"), jtok("{}"), jtok(`{"":0}`)},
	"slice":  {jtok("null"), jtok("[]"), jtok(`[""]`), jtok(`["",""]`)},
	"ptr":    {jtok("null"), jtok(`{"x":0,"y":null}`), jtok(`{"x":0,"y":[]}`)},
}
var nonZeroTok = map[string]string{
	"string": "61", "bytes": "01",
	"int8": "7", "int16": "7", "int32": "7", "int64": "7", "int": "7",
	"uint8": "7", "uint16": "7", "uint32": "7", "uint64": "7", "uint": "7",
	"float32": "1065353216", "float64": "4607182418800017408",
	"bool":   jtok("true"),
	"struct": jtok(`{"a":1,"b":"b","c":[1],"d":{"k":1},"e":{"x":1,"y":["y"]},"f":true}`),
	"map":    jtok(`{"k":1}`), "slice": jtok(`["a"]`), "ptr": jtok(`{"x":1,"y":["y"]}`),
}

// zeroCases: the Go zero value (and its relatives) of EVERY instantiation through Value() and Scan(), both
// ways round: a zero stored value into a non-zero (valid / invalid) receiver, a non-zero stored value into
// a zero receiver, an invalid zero column, harness-sealed all-zero plaintexts.  (The random streams draw a
// zero only now and then, and never an all-zero struct.)
func (g *gen) zeroCases() {
	out := g.out
	const key = "30313233343536373839616263646566"
	const nonce = "000000000000000000000001"
	for _, ty := range encTypes {
		nz := nonZeroTok[ty]
		for _, z := range zeroToks[ty] {
			out.Line("new enc %s %s", ty, key)
			out.Line("set %s 1", z)
			out.Line("value")
			out.Line("value2")
			out.Line("scan stored bytes")
			out.Line("set %s 1", nz)
			out.Line("scan stored string")
			out.Line("set %s 0", nz)
			out.Line("scan stored bytes")
			out.Line("value") // the column as restored by Scan (e.g. a nil []byte)
			out.Line("set %s 0", z)
			out.Line("value")
			out.Line("scan stored bytes")
			out.Line("set %s 1", nz)
			out.Line("value")
			out.Line("set %s 1", z)
			out.Line("scan stored bytes")
			out.Line("set %s 1", nz)
			switch w := width(ty); {
			case w > 0:
				out.Line("scan pt:%s:%s bytes", strings.Repeat("00", w), nonce)
				out.Line("set %s 0", nz)
				out.Line("scan pt:%s:%s string", strings.Repeat("00", w+1), nonce)
				out.Line("set %s 1", nz)
				out.Line("scan pt:%s:%s bytes", strings.Repeat("00", w-1), nonce)
			case ty == "string" || ty == "bytes":
				out.Line("scan pt:-:%s bytes", nonce)
				out.Line("set %s 0", nz)
				out.Line("scan pt:-:%s string", nonce)
				out.Line("set %s 1", nz)
				out.Line("scan pt:00:%s bytes", nonce)
			default:
				out.Line("scan pt:%s:%s bytes", z, nonce)
				out.Line("set %s 0", nz)
				out.Line("scan pt:%s:%s string", jtok("null"), nonce)
				out.Line("set %s 1", nz)
				out.Line("scan pt:-:%s bytes", nonce)
			}
		}
	}
	for _, ty := range jsonTypes {
		nz := nonZeroTok[ty]
		for _, z := range zeroToks[ty] {
			out.Line("new json %s", ty)
			out.Line("set %s 1", z)
			out.Line("value")
			out.Line("scan stored bytes")
			out.Line("set %s 1", nz)
			out.Line("scan stored string")
			out.Line("set %s 0", nz)
			out.Line("scan stored bytes")
			out.Line("set %s 0", z)
			out.Line("value")
			out.Line("scan nil")
			out.Line("set %s 1", nz)
			out.Line("value")
			out.Line("set %s 1", z)
			out.Line("scan stored bytes")
			out.Line("set %s 1", nz)
			out.Line("scan raw:%s bytes", jtok("null"))
			out.Line("value") // e.g. a nil []byte / nil map that is Valid
			out.Line("set %s 0", nz)
			out.Line("scan raw:%s string", jtok("null"))
			out.Line("scan raw:- bytes")
			out.Line("scan raw:- string")
		}
	}
}

// boundaryToks: for every instantiation whose serialisation has a notion of size, the values at the inner
// thresholds of that size (see innerBits / patternBounds / lengthBounds), as value tokens.
func boundaryToks(r *vlib.Rng, ty string) []string {
	var out []string
	sints := func(bits int) {
		for _, v := range sintBounds(bits) {
			out = append(out, strconv.FormatInt(v, 10))
		}
	}
	usints := func(bits int) {
		for _, v := range usintBounds(bits) {
			out = append(out, strconv.FormatUint(v, 10))
		}
	}
	switch ty {
	case "int8":
		sints(8)
	case "int16":
		sints(16)
	case "int32":
		sints(32)
	case "int64", "int":
		sints(64)
	case "uint8":
		usints(8)
	case "uint16":
		usints(16)
	case "uint32":
		usints(32)
	case "uint64", "uint":
		usints(64)
	case "float32":
		for _, v := range patternBounds(32) {
			out = append(out, strconv.FormatUint(v, 10))
		}
	case "float64":
		for _, v := range patternBounds(64) {
			out = append(out, strconv.FormatUint(v, 10))
		}
	case "string", "bytes":
		for _, n := range lengthBounds { // every shape at every length: which edge matters depends on the length
			for shape := 0; shape < 6 && (n > 0 || shape == 0); shape++ {
				out = append(out, hx(shapedBytes(r, n, shape)))
			}
		}
	case "struct": // the integer field of a JSON-serialised struct
		for _, v := range sintBounds(64) {
			out = append(out, jtok(fmt.Sprintf(`{"a":%d,"b":"","c":null,"d":{"k":%d},"e":null,"f":false}`, v, -v)))
		}
	case "map":
		for _, v := range sintBounds(64) {
			out = append(out, jtok(fmt.Sprintf(`{"k":%d}`, v)))
		}
	}
	return out
}

// boundaryCases: every boundary value of every sized instantiation through Value() and back through Scan(),
// from []byte and from string, into a receiver that holds another value, under keys of every legal length.
// Deterministic (but for the filler bytes of strings): the detection of a representation that is wrong only
// in a window next to an inner threshold must not depend on the seed.
func (g *gen) boundaryCases() {
	r, out := g.r, g.out
	keys := []string{"30313233343536373839616263646566", "303132333435363738396162636465663031323334353637",
		"3031323334353637383961626364656630313233343536373839616263646566"}
	const perCase = 8
	sweep := func(kind string, types []string) {
		n := 0
		for _, ty := range types {
			toks := boundaryToks(r, ty)
			prev := nonZeroTok[ty]
			for i, t := range toks {
				if i%perCase == 0 {
					if kind == "enc" {
						out.Line("new enc %s %s", ty, keys[n%3])
					} else {
						out.Line("new json %s", ty)
					}
					n++
				}
				out.Line("set %s 1", t)
				out.Line("value")
				out.Line("set %s %d", prev, i%2)
				out.Line("scan stored %s", []string{"bytes", "string"}[(i/2)%2])
				prev = t
			}
		}
	}
	sweep("enc", encTypes)
	sweep("json", jsonTypes)
}

func genAll(tier string, out *vlib.Out) {
	g := &gen{r: vlib.NewRng(vlib.Seed()), out: out, tier: tier}
	r := g.r
	// corpus: the defect of DESIGN §6 (Scan of fewer than 12 bytes used to panic) and boundary shapes
	corpus := []string{
		"new enc string 30313233343536373839616263646566\nscan raw:010203 bytes\nscan raw:- bytes\nscan raw:- string\nscan raw:0102030405060708090a0b bytes\nscan raw:0102030405060708090a0b0c bytes",
		"new enc int64 30313233343536373839616263646566\nset -1 1\nvalue\nscan trunc:3 bytes\nscan trunc:0 string\nscan trunc:11 bytes\nscan trunc:12 bytes\nscan trunc:27 bytes\nscan stored bytes",
		"new enc int 3031323334353637383961626364656630313233343536373839616263646566\nset 7 1\nscan pt:-:000000000000000000000000 bytes\nset 7 1\nscan pt:01:000000000000000000000001 bytes\nscan pt:0000000000000009ff:000000000000000000000002 bytes",
		"new enc float64 303132333435363738396162636465663031323334353637\nset 9221120237041090561 1\nvalue\nscan stored bytes\nset 9223372036854775808 1\nvalue\nscan stored string",
		"new enc bytes 30313233343536373839616263646566\nset - 1\nvalue\nscan stored bytes\nvalue2",
		"new enc map 30313233343536373839616263646566\nset 7b2261223a317d 1\nvalue\nset 7b2262223a327d 0\nscan stored bytes",
		"new enc uint8 303132333435363738396162636465\nset 255 1\nvalue\nscan raw:000102030405060708090a0b0c0d0e0f101112131415161718191a1b1c bytes",
		"new json map\nset 7b2261223a317d 1\nvalue\nset 7b2262223a327d 1\nscan stored bytes\nscan nil\nscan int64:3\nscan raw:7b string",
		"new json float64\nset 9221120237041090560 1\nvalue\nset 0 0\nvalue\nscan raw:312e35 string",
		"new json string\nset fffe 1\nvalue\nset - 0\nscan stored bytes",
	}
	for _, c := range corpus {
		for _, l := range strings.Split(c, "\n") {
			out.Line("%s", l)
		}
	}
	g.zeroCases()
	g.boundaryCases()
	thorough := tier == "thorough"
	// 1. corruption stream on a genuine ciphertext of every type: every single-bit flip for the
	// fixed-width types (thorough: for all), every truncation length for all
	reps := 1
	if thorough {
		reps = 6
	}
	for rep := 0; rep < reps; rep++ {
		for _, ty := range encTypes {
			g.corruptCase(ty, thorough || width(ty) > 0 || ty == "bool")
		}
	}
	// 2. glue: harness-sealed plaintexts
	reps = 10
	if thorough {
		reps = 80
	}
	for rep := 0; rep < reps; rep++ {
		for _, ty := range encTypes {
			g.glueCase(ty)
		}
	}
	// 3. JsonColumn
	reps = 15
	if thorough {
		reps = 120
	}
	for rep := 0; rep < reps; rep++ {
		for _, ty := range jsonTypes {
			g.jsonCase(ty)
		}
	}
	// 4. random histories
	n := 600
	if thorough {
		n = 10000
	}
	for k := 0; k < n; k++ {
		g.randomCase()
	}
	_ = r
}

func main() {
	mode := flag.String("mode", "gen", "gen|run")
	tier := flag.String("tier", "quick", "quick|thorough")
	opsF := flag.String("ops", "", "ops file (run mode)")
	outF := flag.String("out", "", "output file")
	statsF := flag.String("stats", "", "stats json (run mode)")
	flag.Parse()
	out := vlib.Create(*outF)
	defer out.Close()
	switch *mode {
	case "gen":
		genAll(*tier, out)
	case "run":
		st := &stats{Ops: map[string]int{}, Results: map[string]int{}, Types: map[string]int{}, SrcKinds: map[string]int{},
			PtLens: map[string]int{}, KeyLens: map[string]int{}}
		run(vlib.ReadLines(*opsF), out, st)
		if *statsF != "" {
			b, _ := json.MarshalIndent(st, "", " ")
			os.WriteFile(*statsF, b, 0o644)
		}
	}
}
