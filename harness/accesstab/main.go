// accesstab: access-table extractor (DESIGN §4.1d, property C15).
//
// A flow-sensitive must-lockset analysis over the type-checked AST of the anchored Go files.  For every
// *entry* (public method of a type declared in those files, constructor, option function, goroutine
// the type starts, and every function not reached from one of those) it records every read and write
// of every location reachable from the receiver:
//
//   - receiver fields `recv.f`, fields of inner structs `recv.g.f` (helper methods of types declared in
//     the same package are inlined at the call site, so `cond.signalCh` "requires l, releases l" needs
//     no hand-written summary), elements `recv.f[]` of slice/map fields (also through local aliases
//     such as `vals := a.snapshot()`), package-level variables;
//   - objects of recursive struct types (list nodes, trie nodes) are abstracted by type: `@node.next`;
//   - calls into owned sequential objects of other ekit packages (`pq`, `List`, `linkedlist`, `q`) are one
//     location, written iff the callee (for interface fields: any implementation in the interface's
//     package) assigns through its receiver — derived from the callee's source;
//   - sync/atomic functions, atomic.* / sync.Map / sync.Pool values are `atomic` accesses;
//   - every access carries the receiver locks held on all paths (Lock…defer Unlock, straight-line
//     Lock…Unlock, RLock variants, joins at if/switch/select/for with break/continue/return, deferred
//     calls), `sync.Once` is a pseudo lock: exclusive inside `Do`'s closure, shared after `Do` returns;
//   - constructor accesses and fields of fresh composite literals are `init`; an object allocated in the
//     activation stays `init` until it escapes (is stored, passed on or returned);
//   - objects reached through untracked pointers are named by their static type (`@queue.node.val`);
//   - a reference to receiver state handed to an unanalysed callee counts as a write when the callee can
//     write through it: `&recv.f`, a local struct whose field aliases a map/slice/pointer field of the
//     receiver, and slices/maps/pointers passed to functions of other ekit packages that (transitively)
//     assign through that parameter (from their source);
//   - labelled break/continue are supported; goto and fallthrough are outside the subset (loud failure).
//
// Besides the rows the tool emits a *certificate* (`disciplines`: the class it found per location) that
// the Lean kernel checks against every row, the entry list, and the interned names.
//
// Lock alias facts (`cond.l` IS the queue's mutex) are derived from the constructors and emitted, so
// that the hand-written Lean table can be compared with them.
//
//	accesstab -root <repo> -out <lean file> [-dump] file.go ...
package main

import (
	"flag"
	"fmt"
	"go/ast"
	"go/build"
	"go/importer"
	"go/parser"
	"go/token"
	"go/types"
	"os"
	"path/filepath"
	"sort"
	"strings"
)

// ---------------------------------------------------------------------------------------------
// loading

type pkgInfo struct {
	path     string
	dir      string
	pkg      *types.Package
	files    []*ast.File
	names    []string
	info     *types.Info
	anchored bool
}

type funcInfo struct {
	decl *ast.FuncDecl
	pi   *pkgInfo
	file string
}

type loader struct {
	fset    *token.FileSet
	root    string
	mod     string
	pkgs    map[string]*pkgInfo
	std     types.ImporterFrom
	funcs   map[*types.Func]*funcInfo
	loading map[string]bool
}

func (l *loader) Import(path string) (*types.Package, error) { return l.ImportFrom(path, l.root, 0) }

func (l *loader) ImportFrom(path, dir string, mode types.ImportMode) (*types.Package, error) {
	if path == l.mod || strings.HasPrefix(path, l.mod+"/") {
		pi, err := l.load(path)
		if err != nil {
			return nil, err
		}
		return pi.pkg, nil
	}
	return l.std.ImportFrom(path, dir, mode)
}

func (l *loader) load(path string) (*pkgInfo, error) {
	if pi, ok := l.pkgs[path]; ok {
		return pi, nil
	}
	if l.loading[path] {
		return nil, fmt.Errorf("import cycle through %s", path)
	}
	l.loading[path] = true
	defer delete(l.loading, path)
	rel := strings.TrimPrefix(strings.TrimPrefix(path, l.mod), "/")
	dir := filepath.Join(l.root, rel)
	ents, err := os.ReadDir(dir)
	if err != nil {
		return nil, err
	}
	pi := &pkgInfo{path: path, dir: dir}
	for _, e := range ents {
		n := e.Name()
		if e.IsDir() || !strings.HasSuffix(n, ".go") || strings.HasSuffix(n, "_test.go") {
			continue
		}
		if ok, _ := build.Default.MatchFile(dir, n); !ok {
			continue
		}
		f, err := parser.ParseFile(l.fset, filepath.Join(dir, n), nil, 0)
		if err != nil {
			return nil, err
		}
		pi.files = append(pi.files, f)
		pi.names = append(pi.names, filepath.ToSlash(filepath.Join(rel, n)))
	}
	pi.info = &types.Info{
		Types:      map[ast.Expr]types.TypeAndValue{},
		Uses:       map[*ast.Ident]types.Object{},
		Defs:       map[*ast.Ident]types.Object{},
		Selections: map[*ast.SelectorExpr]*types.Selection{},
		Implicits:  map[ast.Node]types.Object{},
	}
	var terr error
	conf := types.Config{Importer: l, Error: func(e error) {
		if terr == nil {
			terr = e
		}
	}}
	pkg, _ := conf.Check(path, l.fset, pi.files, pi.info)
	if terr != nil {
		return nil, fmt.Errorf("type-check %s: %v", path, terr)
	}
	pi.pkg = pkg
	l.pkgs[path] = pi
	for i, f := range pi.files {
		for _, d := range f.Decls {
			if fd, ok := d.(*ast.FuncDecl); ok {
				if fn, ok := pi.info.Defs[fd.Name].(*types.Func); ok {
					l.funcs[fn] = &funcInfo{decl: fd, pi: pi, file: pi.names[i]}
				}
			}
		}
	}
	return pi, nil
}

func fatal(format string, a ...any) {
	fmt.Fprintf(os.Stderr, "accesstab: "+format+"\n", a...)
	os.Exit(1)
}

// ---------------------------------------------------------------------------------------------
// abstract values and state

const (
	vNone    = iota
	vPath    // a location / object named by a root-relative path ("" = the root object itself, "@T…" = abstracted by type)
	vFresh   // a freshly allocated object (constructor alias analysis): id for sync objects, fields for structs
	vLockFn  // a method value of a lock operation (`unlock := c.mu.Unlock`): p = canonical lock path, op = the method
	vClosure // a function literal held in a local: calling it runs its body in the caller's lock state
)

type aval struct {
	k      int
	p      string
	id     int
	fields map[string]aval
	fresh  *bool        // an abstracted object allocated in this activation that has not escaped yet
	ref    bool         // the value is a map / slice / pointer read from the location p (writes through it hit p)
	op     string       // vLockFn: Lock | Unlock | RLock | RUnlock | TryLock | TryRLock
	lit    *ast.FuncLit // vClosure
	litF   *frame       // vClosure: the frame the literal was created in
}

func (v aval) isFresh() bool { return v.fresh != nil && *v.fresh }

func escape(v aval) {
	if v.fresh != nil {
		*v.fresh = false
	}
}

var none = aval{}

func pathv(p string) aval { return aval{k: vPath, p: p} }

type state struct {
	locks map[string]byte // canonical lock path -> 'X' | 'S'
	dead  bool
}

func (s state) copy() state {
	m := make(map[string]byte, len(s.locks))
	for k, v := range s.locks {
		m[k] = v
	}
	return state{locks: m, dead: s.dead}
}

func deadState() state { return state{locks: map[string]byte{}, dead: true} }

func join(ss ...state) state {
	var out *state
	for _, s := range ss {
		if s.dead {
			continue
		}
		if out == nil {
			c := s.copy()
			out = &c
			continue
		}
		for k, v := range out.locks {
			w, ok := s.locks[k]
			if !ok {
				delete(out.locks, k)
			} else if w != v {
				out.locks[k] = 'S'
			}
		}
	}
	if out == nil {
		return deadState()
	}
	return *out
}

func sameState(a, b state) bool {
	if a.dead != b.dead || len(a.locks) != len(b.locks) {
		return false
	}
	for k, v := range a.locks {
		if b.locks[k] != v {
			return false
		}
	}
	return true
}

type deferredOp struct {
	lock string
	op   string
}

type frame struct {
	parent   *frame
	pi       *pkgInfo
	env      map[types.Object]aval
	defUnl   map[string]bool
	deferred []deferredOp
	returns  []state
	retval   aval
	brk      []*[]state             // innermost last: collectors for break
	cont     []*[]state             // collectors for continue
	labels   map[string][2]*[]state // label -> (break collector, continue collector)
	pending  string                 // label of the statement being entered
}

func (f *frame) lookup(o types.Object) (aval, bool) {
	for g := f; g != nil; g = g.parent {
		if v, ok := g.env[o]; ok {
			return v, true
		}
	}
	return none, false
}

// ---------------------------------------------------------------------------------------------
// rows

type rowKey struct {
	typ, entry, loc string
	write, atomic   bool
	init            bool
	site            string
}

type rowVal struct {
	file  string
	locks map[string]byte
	set   bool
}

type analyzer struct {
	L         *loader
	rootType  string
	rootObj   *types.TypeName
	entry     string
	file      string
	ctor      bool
	rows      map[rowKey]*rowVal
	stack     []string
	site      []string
	visited   map[*types.Func]bool
	alias     map[string]map[string]string // root type -> lock path -> canonical
	fresh     map[string]map[string]int    // root type -> path -> fresh sync object id (constructor pass)
	freshN    int
	abstr     map[*types.TypeName]bool
	abstrOK   map[*types.TypeName]bool
	mutMemo   map[*types.Func]int
	pmMemo    map[string]bool
	goN       int
	entries   map[[2]string]string // (typ, entry) -> file
	collect   bool                 // constructor alias pass: do not record rows
	published bool                 // constructor entry: the object under construction has been handed to another goroutine / a stored closure
	nAccess   int                  // number of access() calls that recorded something (closure bodies: did it touch shared state?)
	rootAbs   map[string]string    // "@pkg.T" -> "T" for the thread-safe root types (types with public entries)
	lastFresh bool                 // set by place: the location lies in a fresh, unescaped object
}

func (a *analyzer) canon(lock string) string {
	if m := a.alias[a.rootType]; m != nil {
		if c, ok := m[lock]; ok {
			return c
		}
	}
	return lock
}

func (a *analyzer) locName(path string) string {
	if strings.HasPrefix(path, "global.") {
		return path
	}
	return a.rootType + "." + path
}

func (a *analyzer) access(pos token.Pos, path string, write, atomic, init bool, st state) {
	if a.collect || st.dead {
		return
	}
	if path == "" {
		return
	}
	a.nAccess++
	loc := a.locName(path)
	held := st.locks
	isInit := init || (a.ctor && !a.published)
	if strings.HasPrefix(path, "global.") {
		// a package-level variable is shared by every instance and every constructor call: never `init`
		isInit = false
	}
	if abs, t, ok := a.otherInstance(path); ok {
		// a field of ANOTHER instance of a thread-safe root type (reached through a parameter / untracked
		// pointer): the same location class as the receiver's field, protected only by locks of that
		// same other instance — the receiver's own locks do not count
		loc = t + path[len(abs):]
		held = map[string]byte{}
		for l, m := range st.locks {
			if strings.HasPrefix(l, abs+".") {
				held["="+t+l[len(abs):]] = m
			}
		}
		if !init {
			isInit = false
		}
	}
	k := rowKey{typ: a.rootType, entry: a.entry, loc: loc, write: write, atomic: atomic,
		init: isInit, site: strings.Join(a.site, "/") + "@" + a.L.fset.Position(pos).String()}
	v := a.rows[k]
	if v == nil {
		v = &rowVal{file: a.file}
		a.rows[k] = v
	}
	if !v.set {
		v.locks = map[string]byte{}
		for l, m := range held {
			v.locks[l] = m
		}
		v.set = true
		return
	}
	for l, m := range v.locks {
		w, ok := held[l]
		if !ok {
			delete(v.locks, l)
		} else if w != m {
			v.locks[l] = 'S'
		}
	}
}

// otherInstance: path = "@pkg.T.rest" where T is a thread-safe root type -> ("@pkg.T", "T", true)
func (a *analyzer) otherInstance(path string) (string, string, bool) {
	if !strings.HasPrefix(path, "@") {
		return "", "", false
	}
	for abs, t := range a.rootAbs {
		if strings.HasPrefix(path, abs+".") {
			return abs, t, true
		}
	}
	return "", "", false
}

// funcValue: an anchored function / method used as a VALUE (method value `c.m`, function value `f`): it may
// be called later, on any goroutine, with no lock held — its body is analysed with the empty lockset.
func (a *analyzer) funcValue(f *frame, fn *types.Func, recv aval) {
	fn = fn.Origin()
	fi := a.L.funcs[fn]
	if fi == nil || !fi.pi.anchored || fi.decl.Body == nil {
		return
	}
	saveCtor, before := a.ctor, a.nAccess
	if !a.isOptionEntry() {
		a.ctor = false
	}
	a.site = append(a.site, "value")
	a.inline(f, fn, fi, recv, []aval{}, nil, state{locks: map[string]byte{}})
	a.site = a.site[:len(a.site)-1]
	a.ctor = saveCtor
	if saveCtor && a.nAccess > before && !a.isOptionEntry() {
		a.published = true
	}
}

// ---------------------------------------------------------------------------------------------
// types

func deref(t types.Type) types.Type {
	for {
		p, ok := t.Underlying().(*types.Pointer)
		if !ok {
			if pp, ok2 := t.(*types.Pointer); ok2 {
				t = pp.Elem()
				continue
			}
			return t
		}
		t = p.Elem()
	}
}

func namedOf(t types.Type) *types.TypeName {
	if t == nil {
		return nil
	}
	t = deref(t)
	switch n := t.(type) {
	case *types.Named:
		return n.Origin().Obj()
	case *types.Alias:
		return namedOf(types.Unalias(n))
	}
	return nil
}

func pkgPathOf(tn *types.TypeName) string {
	if tn == nil || tn.Pkg() == nil {
		return ""
	}
	return tn.Pkg().Path()
}

func (a *analyzer) inEkit(tn *types.TypeName) bool {
	p := pkgPathOf(tn)
	return p == a.L.mod || strings.HasPrefix(p, a.L.mod+"/")
}

func (a *analyzer) anchoredPkg(p *types.Package) bool {
	if p == nil {
		return false
	}
	pi := a.L.pkgs[p.Path()]
	return pi != nil && pi.anchored
}

func isSyncPkg(p string) bool {
	return p == "sync" || p == "sync/atomic" || p == "golang.org/x/sync/semaphore"
}

// structOf returns the struct type of a named type declared in an anchored package
func (a *analyzer) structOf(tn *types.TypeName) *types.Struct {
	if tn == nil || !a.anchoredPkg(tn.Pkg()) {
		return nil
	}
	s, _ := tn.Type().Underlying().(*types.Struct)
	return s
}

// abstracted: a struct type (declared in an anchored package) that can reach itself through its fields
func (a *analyzer) abstracted(tn *types.TypeName) bool {
	if tn == nil {
		return false
	}
	if v, ok := a.abstr[tn]; ok {
		return v
	}
	res := false
	if a.structOf(tn) != nil {
		seen := map[*types.TypeName]bool{}
		var reach func(t types.Type) bool
		reach = func(t types.Type) bool {
			switch u := t.(type) {
			case *types.Pointer:
				return reach(u.Elem())
			case *types.Slice:
				return reach(u.Elem())
			case *types.Array:
				return reach(u.Elem())
			case *types.Map:
				return reach(u.Elem()) || reach(u.Key())
			case *types.Alias:
				return reach(types.Unalias(u))
			case *types.Named:
				o := u.Origin().Obj()
				if o == tn {
					return true
				}
				if seen[o] {
					return false
				}
				seen[o] = true
				if s := a.structOf(o); s != nil {
					for i := 0; i < s.NumFields(); i++ {
						if reach(s.Field(i).Type()) {
							return true
						}
					}
				}
			}
			return false
		}
		s := a.structOf(tn)
		for i := 0; i < s.NumFields(); i++ {
			if reach(s.Field(i).Type()) {
				res = true
				break
			}
		}
	}
	a.abstr[tn] = res
	return res
}

// override an abstract value by the static type of the expression
func (a *analyzer) byType(f *frame, e ast.Expr, v aval) aval {
	tv, ok := f.pi.info.Types[e]
	if !ok || tv.Type == nil {
		return v
	}
	tn := namedOf(tv.Type)
	if tn == nil {
		return v
	}
	if a.abstracted(tn) {
		if v.k == vPath && v.p == absName(tn) {
			return v // keeps the freshness cell
		}
		return pathv(absName(tn))
	}
	if a.ctor && tn == a.rootObj && v.k != vPath {
		return pathv("")
	}
	return v
}

func (a *analyzer) typeOf(f *frame, e ast.Expr) types.Type {
	if tv, ok := f.pi.info.Types[e]; ok {
		return tv.Type
	}
	return nil
}

func absName(tn *types.TypeName) string { return "@" + tn.Pkg().Name() + "." + tn.Name() }

func joinPath(base, f string) string {
	if base == "" {
		return f
	}
	return base + "." + f
}

func unparen(e ast.Expr) ast.Expr {
	for {
		p, ok := e.(*ast.ParenExpr)
		if !ok {
			return e
		}
		e = p.X
	}
}

// ---------------------------------------------------------------------------------------------
// expressions

// whole-struct access of a struct-typed location: the location itself and every field below it
func (a *analyzer) wholeAccess(pos token.Pos, path string, t types.Type, write bool, init bool, st state, depth int) {
	a.access(pos, path, write, false, init, st)
	if depth > 4 || t == nil {
		return
	}
	if _, isPtr := t.Underlying().(*types.Pointer); isPtr {
		return
	}
	tn := namedOf(t)
	if tn == nil || a.abstracted(tn) {
		return
	}
	s := a.structOf(tn)
	if s == nil {
		return
	}
	for i := 0; i < s.NumFields(); i++ {
		fd := s.Field(i)
		if ftn := namedOf(fd.Type()); ftn != nil && isSyncPkg(pkgPathOf(ftn)) {
			if _, isPtr := fd.Type().Underlying().(*types.Pointer); !isPtr {
				continue
			}
		}
		a.wholeAccess(pos, joinPath(path, fd.Name()), fd.Type(), write, init, st, depth+1)
	}
}

// place resolves an addressable expression to the path of the location it denotes (recording the reads
// needed to get there, but not an access of the location itself).
func (a *analyzer) place(f *frame, e ast.Expr, st state) (string, bool) {
	e = unparen(e)
	a.lastFresh = false
	switch x := e.(type) {
	case *ast.Ident:
		o := f.pi.info.Uses[x]
		if o == nil {
			o = f.pi.info.Defs[x]
		}
		if v, ok := o.(*types.Var); ok && v.Pkg() != nil && v.Parent() == v.Pkg().Scope() && a.anchoredPkg(v.Pkg()) {
			return "global." + v.Pkg().Name() + "." + v.Name(), true
		}
		return "", false
	case *ast.SelectorExpr:
		sel := f.pi.info.Selections[x]
		if sel == nil {
			// qualified identifier: a package-level variable of another package
			if v, ok := f.pi.info.Uses[x.Sel].(*types.Var); ok && v.Pkg() != nil && a.anchoredPkg(v.Pkg()) {
				return "global." + v.Pkg().Name() + "." + v.Name(), true
			}
			return "", false
		}
		if sel.Kind() != types.FieldVal {
			return "", false
		}
		base := a.object(f, x.X, st)
		if base.k != vPath {
			if base.k == vFresh && base.isFresh() {
				return "", false // a struct allocated here that has not escaped: thread-local
			}
			// an object reached through an untracked pointer: name it by its static type
			t := a.typeOf(f, x.X)
			if t == nil {
				return "", false
			}
			if _, isPtr := t.Underlying().(*types.Pointer); !isPtr {
				return "", false
			}
			tn := namedOf(t)
			if a.structOf(tn) == nil {
				return "", false
			}
			base = pathv(absName(tn))
		}
		defer func(fr bool) { a.lastFresh = fr }(base.isFresh())
		// promoted fields: spell the embedded path
		p := base.p
		t := sel.Recv()
		idx := sel.Index()
		for n, i := range idx {
			s, ok := deref(t).Underlying().(*types.Struct)
			if !ok {
				return "", false
			}
			fd := s.Field(i)
			if n < len(idx)-1 {
				p = joinPath(p, fd.Name())
				if tn := namedOf(fd.Type()); a.abstracted(tn) {
					p = absName(tn)
				}
			} else {
				p = joinPath(p, fd.Name())
			}
			t = fd.Type()
		}
		return p, true
	case *ast.IndexExpr:
		if tv, ok := f.pi.info.Types[x.X]; ok && !tv.IsValue() {
			return "", false
		}
		base := a.expr(f, x.X, st)
		a.expr(f, x.Index, st)
		if base.k != vPath {
			return "", false
		}
		return base.p + "[]", true
	case *ast.StarExpr:
		v := a.expr(f, x.X, st)
		if v.k == vPath {
			return v.p, true
		}
		return "", false
	}
	a.expr(f, e, st)
	return "", false
}

// object evaluates an expression that denotes a struct object (or a pointer to one) whose field is
// about to be selected.  A pointer-typed field on the way is read; a struct-valued field is not.
func (a *analyzer) object(f *frame, e ast.Expr, st state) aval {
	e = unparen(e)
	t := a.typeOf(f, e)
	isPtr := false
	if t != nil {
		_, isPtr = t.Underlying().(*types.Pointer)
	}
	if sx, ok := e.(*ast.SelectorExpr); ok && !isPtr {
		if sel := f.pi.info.Selections[sx]; sel != nil && sel.Kind() == types.FieldVal {
			if p, ok := a.place(f, e, st); ok {
				return a.byType(f, e, pathv(p))
			}
			return a.byType(f, e, none)
		}
	}
	if ix, ok := e.(*ast.IndexExpr); ok && !isPtr {
		if p, ok := a.place(f, ix, st); ok {
			// the element struct itself is not read as a whole
			a.access(ix.Pos(), strings.TrimSuffix(p, "[]"), false, false, false, st)
			return a.byType(f, e, pathv(p))
		}
		return a.byType(f, e, none)
	}
	return a.expr(f, e, st)
}

// expr evaluates e as an rvalue: records the reads it performs and returns what it denotes.
func (a *analyzer) expr(f *frame, e ast.Expr, st state) aval {
	if e == nil {
		return none
	}
	switch x := e.(type) {
	case *ast.ParenExpr:
		return a.expr(f, x.X, st)
	case *ast.BasicLit:
		return none
	case *ast.Ident:
		o := f.pi.info.Uses[x]
		if o == nil {
			return none
		}
		if p, ok := a.place(f, x, st); ok {
			a.access(x.Pos(), p, false, false, false, st)
			return none
		}
		if fn, ok := o.(*types.Func); ok {
			a.funcValue(f, fn, none)
			return none
		}
		v, _ := f.lookup(o)
		return a.byType(f, e, v)
	case *ast.SelectorExpr:
		sel := f.pi.info.Selections[x]
		if sel == nil {
			if p, ok := a.place(f, x, st); ok {
				a.access(x.Pos(), p, false, false, false, st)
			}
			if fn, ok := f.pi.info.Uses[x.Sel].(*types.Func); ok {
				a.funcValue(f, fn, none)
			}
			return none
		}
		if sel.Kind() == types.FieldVal {
			p, ok := a.place(f, x, st)
			if !ok {
				return a.byType(f, e, none)
			}
			fr := a.lastFresh
			ft := a.typeOf(f, e)
			if tn := namedOf(ft); tn != nil && a.structOf(tn) != nil && !a.abstracted(tn) {
				if _, isPtr := ft.Underlying().(*types.Pointer); !isPtr {
					a.wholeAccess(x.Pos(), p, ft, false, fr, st, 0)
					return a.byType(f, e, pathv(p))
				}
			}
			a.access(x.Pos(), p, false, false, fr, st)
			rv := a.byType(f, e, pathv(p))
			if ft != nil {
				switch ft.Underlying().(type) {
				case *types.Map, *types.Slice, *types.Pointer:
					rv.ref = true
				}
			}
			return rv
		}
		// method value (or method expression): the method may run later, anywhere, with no lock held
		recv := none
		if sel.Kind() == types.MethodVal {
			if tn := namedOf(a.typeOf(f, x.X)); tn != nil && isSyncPkg(pkgPathOf(tn)) && lockMethod(sel.Obj().Name()) &&
				(tn.Name() == "Mutex" || tn.Name() == "RWMutex" || tn.Name() == "Locker") {
				if p, ok := a.syncRecv(f, x.X, st); ok {
					return aval{k: vLockFn, p: a.canon(p), op: sel.Obj().Name()}
				}
				return none
			}
			recv = a.object(f, x.X, st)
		}
		if fn, ok := sel.Obj().(*types.Func); ok {
			a.funcValue(f, fn, recv)
		}
		return none
	case *ast.StarExpr:
		return a.byType(f, e, a.expr(f, x.X, st))
	case *ast.UnaryExpr:
		if x.Op == token.AND {
			if cl, ok := unparen(x.X).(*ast.CompositeLit); ok {
				return a.complit(f, cl, st)
			}
			if p, ok := a.place(f, x.X, st); ok {
				return a.byType(f, e, pathv(p))
			}
			if id, ok := unparen(x.X).(*ast.Ident); ok {
				if o := f.pi.info.Uses[id]; o != nil {
					if v, ok := f.lookup(o); ok && v.k == vFresh {
						return v
					}
				}
			}
			return a.byType(f, e, none)
		}
		v := a.expr(f, x.X, st)
		if x.Op == token.ARROW {
			return a.byType(f, e, none)
		}
		return v
	case *ast.BinaryExpr:
		a.expr(f, x.X, st)
		a.expr(f, x.Y, st)
		return none
	case *ast.IndexExpr:
		if tv, ok := f.pi.info.Types[x.X]; ok && !tv.IsValue() {
			return none
		}
		if tv, ok := f.pi.info.Types[x]; ok && !tv.IsValue() {
			return none
		}
		if _, isSig := a.typeOf(f, x.X).Underlying().(*types.Signature); isSig {
			return a.expr(f, x.X, st) // explicit instantiation of a generic function
		}
		p, ok := a.place(f, x, st)
		if !ok {
			return a.byType(f, e, none)
		}
		a.access(x.Pos(), p, false, false, false, st)
		return a.byType(f, e, pathv(p))
	case *ast.IndexListExpr:
		return none
	case *ast.SliceExpr:
		v := a.expr(f, x.X, st)
		a.expr(f, x.Low, st)
		a.expr(f, x.High, st)
		a.expr(f, x.Max, st)
		return v
	case *ast.TypeAssertExpr:
		return a.byType(f, e, a.expr(f, x.X, st))
	case *ast.CompositeLit:
		return a.complit(f, x, st)
	case *ast.FuncLit:
		// a closure that is stored or passed on: it may run later, on any goroutine, with no lock held
		a.closure(f, x, state{locks: map[string]byte{}}, false)
		return aval{k: vClosure, lit: x, litF: f}
	case *ast.CallExpr:
		v, _ := a.call(f, x, st)
		return v
	case *ast.KeyValueExpr:
		a.expr(f, x.Key, st)
		return a.expr(f, x.Value, st)
	case *ast.ArrayType, *ast.MapType, *ast.ChanType, *ast.FuncType, *ast.InterfaceType, *ast.StructType, *ast.Ellipsis:
		return none
	}
	fatal("unsupported expression %T at %s", e, a.L.fset.Position(e.Pos()))
	return none
}

func (a *analyzer) isOptionEntry() bool { return strings.HasPrefix(a.entry, "option:") }

// closure analyses a function literal.  keepCtor: it runs inside the constructor (option functions).
func (a *analyzer) closure(f *frame, fl *ast.FuncLit, st state, inline bool) state {
	nf := &frame{parent: f, pi: f.pi, env: map[types.Object]aval{}, defUnl: map[string]bool{}}
	saveCtor := a.ctor
	if !inline && !a.isOptionEntry() {
		a.ctor = false
	}
	a.site = append(a.site, fmt.Sprintf("func@%d", a.L.fset.Position(fl.Pos()).Line))
	before := a.nAccess
	out := a.body(nf, fl.Body, st.copy())
	a.site = a.site[:len(a.site)-1]
	a.ctor = saveCtor
	if saveCtor && !inline && !a.isOptionEntry() && a.nAccess > before {
		// a closure of the constructor that touches the object's state and is stored / passed on: whatever
		// the constructor writes after this point can be concurrent with it
		a.published = true
	}
	return out
}

// body runs a function body and returns the state at its exit (after the deferred lock operations)
func (a *analyzer) body(nf *frame, b *ast.BlockStmt, st state) state {
	end := a.block(nf, b.List, st)
	out := join(append(nf.returns, end)...)
	if !out.dead {
		for i := len(nf.deferred) - 1; i >= 0; i-- {
			a.lockOp(&out, nf.deferred[i].lock, nf.deferred[i].op)
		}
	}
	return out
}

func (a *analyzer) lockOp(st *state, lock, op string) {
	switch op {
	case "Lock":
		st.locks[lock] = 'X'
	case "RLock":
		if st.locks[lock] != 'X' {
			st.locks[lock] = 'S'
		}
	case "Unlock", "RUnlock":
		delete(st.locks, lock)
	case "TryLock", "TryRLock":
		// result-dependent: not held on all paths
	}
}

func (a *analyzer) complit(f *frame, cl *ast.CompositeLit, st state) aval {
	t := a.typeOf(f, cl)
	tn := namedOf(t)
	var s *types.Struct
	if t != nil {
		s, _ = deref(t).Underlying().(*types.Struct)
	}
	if s == nil {
		for _, el := range cl.Elts {
			a.expr(f, el, st)
		}
		return none
	}
	if tn != nil && isSyncPkg(pkgPathOf(tn)) {
		for _, el := range cl.Elts {
			a.expr(f, el, st)
		}
		a.freshN++
		return aval{k: vFresh, id: a.freshN}
	}
	freshCell := true
	res := aval{k: vFresh, fields: map[string]aval{}, fresh: &freshCell}
	isRoot := a.ctor && tn != nil && tn == a.rootObj
	isAbs := a.abstracted(tn)
	isOwn := !isRoot && !isAbs && a.structOf(tn) != nil
	for i, el := range cl.Elts {
		var name string
		var val ast.Expr
		if kv, ok := el.(*ast.KeyValueExpr); ok {
			if id, ok := kv.Key.(*ast.Ident); ok {
				name = id.Name
			}
			val = kv.Value
		} else {
			if i < s.NumFields() {
				name = s.Field(i).Name()
			}
			val = el
		}
		v := a.expr(f, val, st)
		escape(v)
		res.fields[name] = v
		switch {
		case isAbs:
			a.access(el.Pos(), absName(tn)+"."+name, true, false, true, st)
		case isRoot:
			a.access(el.Pos(), name, true, false, true, st)
			a.noteFresh(name, v)
		case isOwn:
			a.access(el.Pos(), absName(tn)+"."+name, true, false, true, st)
		}
	}
	if isAbs {
		fresh := true
		return aval{k: vPath, p: absName(tn), fresh: &fresh}
	}
	if isRoot {
		return pathv("")
	}
	return res
}

// constructor alias analysis: remember which fresh sync object a root-relative path holds
func (a *analyzer) noteFresh(path string, v aval) {
	if v.k != vFresh {
		return
	}
	if v.id != 0 {
		m := a.fresh[a.rootType]
		if m == nil {
			m = map[string]int{}
			a.fresh[a.rootType] = m
		}
		m[path] = v.id
	}
	for n, fv := range v.fields {
		a.noteFresh(joinPath(path, n), fv)
	}
}

var atomicFns = []string{"Load", "Store", "Add", "Swap", "CompareAndSwap", "And", "Or"}

func atomicKind(name string) (isAtomic, write bool) {
	for _, p := range atomicFns {
		if strings.HasPrefix(name, p) {
			return true, p != "Load"
		}
	}
	return false, false
}

func syncWrites(method string) bool {
	switch method {
	case "Load", "Range", "Get", "Len":
		return false
	}
	return true
}

// call returns the value and whether the call never returns
func (a *analyzer) call(f *frame, c *ast.CallExpr, st state) (aval, bool) {
	fun := unparen(c.Fun)
	info := f.pi.info
	// conversion
	if tv, ok := info.Types[fun]; ok && tv.IsType() {
		var v aval
		for _, arg := range c.Args {
			v = a.expr(f, arg, st)
		}
		return a.byType(f, c, v), false
	}
	// strip explicit instantiation
	if ix, ok := fun.(*ast.IndexExpr); ok {
		if tv, ok := info.Types[ix.X]; ok {
			if _, isSig := tv.Type.Underlying().(*types.Signature); isSig {
				fun = unparen(ix.X)
			}
		}
	}
	if ix, ok := fun.(*ast.IndexListExpr); ok {
		fun = unparen(ix.X)
	}
	switch fx := fun.(type) {
	case *ast.FuncLit:
		a.args(f, c.Args, st)
		return none, false // handled by the statement (needs the state); plain expression position: body with current locks
	case *ast.Ident:
		switch o := info.Uses[fx].(type) {
		case *types.Builtin:
			return a.builtin(f, o.Name(), c, st)
		case *types.Func:
			if fi := a.L.funcs[o.Origin()]; fi != nil && fi.pi.anchored {
				return a.inline(f, o.Origin(), fi, none, nil, c, st)
			}
		case *types.Var:
			if v, ok := f.lookup(o); ok {
				switch v.k {
				case vLockFn:
					a.lockOp(&st, v.p, v.op) // st.locks is shared with the statement walker
					return none, false
				case vClosure:
					a.args(f, c.Args, st)
					key := fmt.Sprintf("closure@%d", v.lit.Pos())
					for _, s := range a.stack {
						if s == key {
							return none, false
						}
					}
					a.stack = append(a.stack, key)
					out := a.closure(v.litF, v.lit, st, true)
					a.stack = a.stack[:len(a.stack)-1]
					for k := range st.locks {
						delete(st.locks, k)
					}
					for k, m := range out.locks {
						st.locks[k] = m
					}
					return none, out.dead
				}
			}
		}
		a.expr(f, fx, st)
		calleeFn, _ := info.Uses[fx].(*types.Func)
		a.argsUnknown(f, c.Args, st, calleeFn)
		return none, false
	case *ast.SelectorExpr:
		sel := info.Selections[fx]
		if sel == nil {
			// pkg.F(...)
			fn, _ := info.Uses[fx.Sel].(*types.Func)
			if fn != nil && fn.Pkg() != nil && fn.Pkg().Path() == "sync/atomic" {
				if isAt, w := atomicKind(fn.Name()); isAt && len(c.Args) > 0 {
					if u, ok := unparen(c.Args[0]).(*ast.UnaryExpr); ok && u.Op == token.AND {
						if p, ok := a.place(f, u.X, st); ok {
							a.access(c.Pos(), p, w, true, a.lastFresh, st)
						}
					} else if v := a.expr(f, c.Args[0], st); v.k == vPath {
						a.access(c.Pos(), v.p, w, true, v.isFresh(), st) // a pointer to the location held in a local
					}
					a.args(f, c.Args[1:], st)
					return none, false
				}
			}
			if fn != nil {
				if fi := a.L.funcs[fn.Origin()]; fi != nil && fi.pi.anchored {
					return a.inline(f, fn.Origin(), fi, none, nil, c, st)
				}
			}
			a.argsUnknown(f, c.Args, st, fn)
			return none, false
		}
		if sel.Kind() == types.FieldVal {
			a.expr(f, fx, st) // calling a func-typed field
			a.args(f, c.Args, st)
			return none, false
		}
		return a.methodCall(f, c, fx, sel, st)
	}
	a.expr(f, fun, st)
	a.args(f, c.Args, st)
	return none, false
}

func (a *analyzer) args(f *frame, args []ast.Expr, st state) []aval {
	out := make([]aval, len(args))
	for i, x := range args {
		out[i] = a.expr(f, x, st)
		escape(out[i])
	}
	return out
}

// argsUnknown evaluates the arguments of a call whose body is not analysed.  A reference to shared
// state handed to it (the address of a receiver field, or a local struct one of whose fields aliases a
// map / slice / pointer field of the receiver) may be written through: recorded as a write.
func (a *analyzer) argsUnknown(f *frame, args []ast.Expr, st state, callee *types.Func) {
	for i, x := range args {
		v := a.expr(f, x, st)
		escape(v)
		// a slice / map / pointer read from a receiver field and handed to a function of another ekit
		// package: written through iff that function writes through the parameter (from its source)
		if v.k == vPath && v.ref && callee != nil && a.paramMutates(callee.Origin(), i) {
			if t := a.typeOf(f, x); t != nil {
				if _, isPtr := t.Underlying().(*types.Pointer); isPtr {
					a.access(x.Pos(), v.p, true, false, false, st)
				} else {
					a.access(x.Pos(), v.p+"[]", true, false, false, st)
				}
			}
		}
		if u, ok := unparen(x).(*ast.UnaryExpr); ok && u.Op == token.AND && v.k == vPath && !strings.HasPrefix(v.p, "@") {
			if t := a.typeOf(f, u.X); t != nil {
				a.wholeAccess(x.Pos(), v.p, t, true, false, st, 0)
			}
		}
		if v.k == vFresh {
			a.escapeFields(x.Pos(), v, st, 0)
		}
	}
}

// paramMutates: does the function (of an ekit package, from its source) write through its idx-th parameter?
func (a *analyzer) paramMutates(fn *types.Func, idx int) bool {
	key := fmt.Sprintf("%s#%d", fn.FullName(), idx)
	if v, ok := a.pmMemo[key]; ok {
		return v
	}
	a.pmMemo[key] = false
	fi := a.L.funcs[fn]
	if fi == nil || fi.decl.Body == nil {
		return false
	}
	info := fi.pi.info
	var param types.Object
	n := 0
	for _, fld := range fi.decl.Type.Params.List {
		for _, nm := range fld.Names {
			if n == idx || (n < idx && fld == fi.decl.Type.Params.List[len(fi.decl.Type.Params.List)-1]) {
				param = info.Defs[nm]
			}
			n++
		}
	}
	if param == nil {
		return false
	}
	var rooted func(e ast.Expr) (bool, bool) // (rooted at the parameter, through a heap step)
	rooted = func(e ast.Expr) (bool, bool) {
		switch x := unparen(e).(type) {
		case *ast.Ident:
			return info.Uses[x] == param, false
		case *ast.SelectorExpr:
			r, _ := rooted(x.X)
			return r, true
		case *ast.IndexExpr:
			r, _ := rooted(x.X)
			return r, true
		case *ast.StarExpr:
			r, _ := rooted(x.X)
			return r, true
		case *ast.SliceExpr:
			return rooted(x.X)
		}
		return false, false
	}
	res := false
	ast.Inspect(fi.decl.Body, func(nd ast.Node) bool {
		if res {
			return false
		}
		switch x := nd.(type) {
		case *ast.AssignStmt:
			for _, l := range x.Lhs {
				if r, heap := rooted(l); r && heap {
					res = true
				}
			}
		case *ast.IncDecStmt:
			if r, heap := rooted(x.X); r && heap {
				res = true
			}
		case *ast.CallExpr:
			fun := unparen(x.Fun)
			if ix, ok := fun.(*ast.IndexExpr); ok {
				fun = unparen(ix.X)
			}
			if ix, ok := fun.(*ast.IndexListExpr); ok {
				fun = unparen(ix.X)
			}
			var g *types.Func
			switch fx := fun.(type) {
			case *ast.Ident:
				if b, ok := info.Uses[fx].(*types.Builtin); ok && len(x.Args) > 0 {
					switch b.Name() {
					case "append", "copy", "delete", "clear":
						if r, _ := rooted(x.Args[0]); r {
							res = true
						}
					}
					return true
				}
				g, _ = info.Uses[fx].(*types.Func)
			case *ast.SelectorExpr:
				if info.Selections[fx] == nil {
					g, _ = info.Uses[fx.Sel].(*types.Func)
				}
			}
			if g != nil {
				for j, arg := range x.Args {
					if r, _ := rooted(arg); r && a.paramMutates(g.Origin(), j) {
						res = true
					}
				}
			}
		}
		return true
	})
	a.pmMemo[key] = res
	return res
}

func (a *analyzer) escapeFields(pos token.Pos, v aval, st state, depth int) {
	if depth > 3 {
		return
	}
	for _, fv := range v.fields {
		switch fv.k {
		case vPath:
			if fv.ref {
				a.access(pos, fv.p, true, false, false, st)
			}
		case vFresh:
			a.escapeFields(pos, fv, st, depth+1)
		}
	}
}

func (a *analyzer) builtin(f *frame, name string, c *ast.CallExpr, st state) (aval, bool) {
	switch name {
	case "append":
		vs := a.args(f, c.Args, st)
		if len(vs) > 0 && vs[0].k == vPath {
			a.access(c.Pos(), vs[0].p+"[]", true, false, false, st)
			return vs[0], false
		}
		return none, false
	case "copy":
		vs := a.args(f, c.Args, st)
		if len(vs) == 2 {
			if vs[0].k == vPath {
				a.access(c.Pos(), vs[0].p+"[]", true, false, false, st)
			}
			if vs[1].k == vPath {
				a.access(c.Pos(), vs[1].p+"[]", false, false, false, st)
			}
		}
		return none, false
	case "delete", "clear":
		vs := a.args(f, c.Args, st)
		if len(vs) > 0 && vs[0].k == vPath {
			a.access(c.Pos(), vs[0].p+"[]", true, false, false, st)
		}
		return none, false
	case "panic":
		a.args(f, c.Args, st)
		return none, true
	}
	a.args(f, c.Args, st)
	return none, false
}

func lockMethod(n string) bool {
	switch n {
	case "Lock", "Unlock", "RLock", "RUnlock", "TryLock", "TryRLock":
		return true
	}
	return false
}

// syncRecv locates the sync object a method is called on: the path, and whether it is a value-typed
// field (then no plain read happens: the method takes its address)
func (a *analyzer) syncRecv(f *frame, recv ast.Expr, st state) (string, bool) {
	recv = unparen(recv)
	t := a.typeOf(f, recv)
	if t == nil {
		return "", false
	}
	_, isPtr := t.Underlying().(*types.Pointer)
	_, isIface := t.Underlying().(*types.Interface)
	if !isPtr && !isIface {
		if u, ok := recv.(*ast.UnaryExpr); ok && u.Op == token.AND {
			recv = u.X
		}
		p, ok := a.place(f, recv, st)
		return p, ok
	}
	v := a.expr(f, recv, st) // reads the pointer / interface field
	if v.k == vPath {
		return v.p, true
	}
	return "", false
}

func (a *analyzer) methodCall(f *frame, c *ast.CallExpr, fx *ast.SelectorExpr, sel *types.Selection, st state) (aval, bool) {
	fn := sel.Obj().(*types.Func)
	rt := a.typeOf(f, fx.X)
	tn := namedOf(rt)
	pp := pkgPathOf(tn)
	name := fn.Name()
	// a method promoted from an embedded field: look at the declaring type
	if sig, ok := fn.Type().(*types.Signature); ok && sig.Recv() != nil {
		if dn := namedOf(sig.Recv().Type()); dn != nil && dn != tn && len(sel.Index()) > 1 {
			tn, pp = dn, pkgPathOf(dn)
		}
	}
	switch {
	case tn != nil && isSyncPkg(pp):
		_ = st
		path, ok := a.syncRecv(f, fx.X, st)
		tname := tn.Name()
		isLock := (tname == "Mutex" || tname == "RWMutex" || tname == "Locker") && lockMethod(name)
		switch {
		case isLock:
			// handled by the statement walker (it owns the state); expression position: apply in place
			if ok {
				a.lockOp(&st, a.canon(path), name)
			}
			return none, false
		case tname == "Once" && name == "Do":
			if ok && len(c.Args) == 1 {
				if fl, isLit := unparen(c.Args[0]).(*ast.FuncLit); isLit {
					in := st.copy()
					in.locks["once:"+path] = 'X'
					a.closure(f, fl, in, true)
					st.locks["once:"+path] = 'S'
					return none, false
				}
			}
			a.args(f, c.Args, st)
			if ok {
				st.locks["once:"+path] = 'S'
			}
			return none, false
		default:
			a.args(f, c.Args, st)
			if ok {
				_, isPtr := rt.Underlying().(*types.Pointer)
				if !isPtr {
					a.access(c.Pos(), path, syncWrites(name), true, false, st)
				}
			}
			return none, false
		}
	case tn != nil && a.inEkit(tn):
		if fi := a.L.funcs[fn.Origin()]; fi != nil && fi.pi.anchored {
			recv := a.object(f, fx.X, st)
			return a.inline(f, fn.Origin(), fi, recv, nil, c, st)
		}
		// an owned sequential object of another ekit package (or an ekit interface): one location
		a.args(f, c.Args, st)
		var path string
		var ok bool
		if _, isPtr := rt.Underlying().(*types.Pointer); isPtr {
			// pointer field and pointee are one location
			if sx, isSel := unparen(fx.X).(*ast.SelectorExpr); isSel {
				path, ok = a.place(f, sx, st)
			} else if v := a.expr(f, fx.X, st); v.k == vPath {
				path, ok = v.p, true
			}
		} else {
			path, ok = a.place(f, fx.X, st)
			if !ok {
				if v := a.expr(f, fx.X, st); v.k == vPath {
					path, ok = v.p, true
				}
			}
		}
		if ok {
			a.access(c.Pos(), path, a.mutates(fn.Origin(), tn), false, false, st)
		}
		return none, false
	}
	// anything else (context, time, reflect, type parameters, locals): evaluate
	a.object(f, fx.X, st)
	a.argsUnknown(f, c.Args, st, nil)
	return none, false
}

// inline analyses the callee's body in the caller's lock state; the callee's lock operations remain
func (a *analyzer) inline(f *frame, fn *types.Func, fi *funcInfo, recv aval, pre []aval, c *ast.CallExpr, st state) (aval, bool) {
	args := pre
	if args == nil {
		args = a.args(f, c.Args, st)
	}
	key := fn.FullName() + "|" + recv.p
	for _, s := range a.stack {
		if s == key {
			return none, false
		}
	}
	if len(a.stack) > 16 || fi.decl.Body == nil {
		return none, false
	}
	a.visited[fn] = true
	nf := &frame{pi: fi.pi, env: map[types.Object]aval{}, defUnl: map[string]bool{}}
	if fi.decl.Recv != nil && len(fi.decl.Recv.List) == 1 && len(fi.decl.Recv.List[0].Names) == 1 {
		if o := fi.pi.info.Defs[fi.decl.Recv.List[0].Names[0]]; o != nil {
			nf.env[o] = recv
		}
	}
	i := 0
	for _, fld := range fi.decl.Type.Params.List {
		for _, nm := range fld.Names {
			if o := fi.pi.info.Defs[nm]; o != nil && i < len(args) {
				if _, variadic := fld.Type.(*ast.Ellipsis); !variadic {
					nf.env[o] = args[i]
				}
			}
			i++
		}
	}
	a.stack = append(a.stack, key)
	a.site = append(a.site, fn.Name())
	out := a.body(nf, fi.decl.Body, st.copy())
	a.site = a.site[:len(a.site)-1]
	a.stack = a.stack[:len(a.stack)-1]
	// the caller continues in the callee's exit state
	for k := range st.locks {
		delete(st.locks, k)
	}
	for k, v := range out.locks {
		st.locks[k] = v
	}
	return nf.retval, out.dead
}

// ---------------------------------------------------------------------------------------------
// does a method of another ekit package assign through its receiver?

func (a *analyzer) mutates(fn *types.Func, recvT *types.TypeName) bool {
	if v, ok := a.mutMemo[fn]; ok {
		return v == 1 // 2 = in progress (cycle): no
	}
	a.mutMemo[fn] = 2
	res := false
	fi := a.L.funcs[fn]
	if fi == nil || fi.decl.Body == nil {
		// interface method: any implementation in the interface's package
		found := false
		if fn.Pkg() != nil {
			if pi := a.L.pkgs[fn.Pkg().Path()]; pi != nil {
				for g, gi := range a.L.funcs {
					if gi.pi == pi && g.Name() == fn.Name() && gi.decl.Recv != nil {
						found = true
						if a.mutates(g, nil) {
							res = true
						}
					}
				}
			}
		}
		if !found {
			res = true // unknown callee: assume it writes
		}
	} else {
		res = a.bodyMutates(fi)
	}
	if res {
		a.mutMemo[fn] = 1
	} else {
		a.mutMemo[fn] = 0
	}
	return res
}

func (a *analyzer) bodyMutates(fi *funcInfo) bool {
	info := fi.pi.info
	freshVars := map[types.Object]bool{}
	isFreshExpr := func(e ast.Expr) bool {
		e = unparen(e)
		switch x := e.(type) {
		case *ast.CompositeLit:
			return true
		case *ast.UnaryExpr:
			if x.Op == token.AND {
				_, ok := unparen(x.X).(*ast.CompositeLit)
				return ok
			}
		case *ast.CallExpr:
			if id, ok := unparen(x.Fun).(*ast.Ident); ok {
				if b, ok := info.Uses[id].(*types.Builtin); ok && (b.Name() == "make" || b.Name() == "new") {
					return true
				}
			}
		}
		return false
	}
	ast.Inspect(fi.decl.Body, func(n ast.Node) bool {
		switch s := n.(type) {
		case *ast.AssignStmt:
			if s.Tok == token.DEFINE && len(s.Lhs) == len(s.Rhs) {
				for i, l := range s.Lhs {
					if id, ok := l.(*ast.Ident); ok && isFreshExpr(s.Rhs[i]) {
						freshVars[info.Defs[id]] = true
					}
				}
			}
		case *ast.DeclStmt:
			if gd, ok := s.Decl.(*ast.GenDecl); ok {
				for _, sp := range gd.Specs {
					if vs, ok := sp.(*ast.ValueSpec); ok && len(vs.Values) == 0 {
						for _, id := range vs.Names {
							freshVars[info.Defs[id]] = true
						}
					}
				}
			}
		}
		return true
	})
	rootOf := func(e ast.Expr) (types.Object, bool) { // (root variable, is a heap write)
		heap := false
		for {
			switch x := unparen(e).(type) {
			case *ast.SelectorExpr:
				heap = true
				e = x.X
				continue
			case *ast.IndexExpr:
				heap = true
				e = x.X
				continue
			case *ast.StarExpr:
				heap = true
				e = x.X
				continue
			case *ast.Ident:
				return info.Uses[x], heap
			}
			return nil, heap
		}
	}
	mut := false
	heapWrite := func(e ast.Expr) {
		o, heap := rootOf(e)
		if heap && !(o != nil && freshVars[o]) {
			mut = true
		}
	}
	ast.Inspect(fi.decl.Body, func(n ast.Node) bool {
		if mut {
			return false
		}
		switch s := n.(type) {
		case *ast.AssignStmt:
			for _, l := range s.Lhs {
				heapWrite(l)
			}
		case *ast.IncDecStmt:
			heapWrite(s.X)
		case *ast.CallExpr:
			if id, ok := unparen(s.Fun).(*ast.Ident); ok {
				if b, ok := info.Uses[id].(*types.Builtin); ok && len(s.Args) > 0 {
					switch b.Name() {
					case "delete", "copy", "clear":
						if o, _ := rootOf(s.Args[0]); !(o != nil && freshVars[o]) {
							mut = true
						}
					}
				}
			}
			if sx, ok := unparen(s.Fun).(*ast.SelectorExpr); ok {
				if sel := info.Selections[sx]; sel != nil && sel.Kind() == types.MethodVal {
					g := sel.Obj().(*types.Func).Origin()
					tn := namedOf(sel.Recv())
					if tn != nil && a.inEkit(tn) {
						if o, _ := rootOf(sx.X); !(o != nil && freshVars[o]) && a.mutates(g, tn) {
							mut = true
						}
					}
				}
			}
		}
		return true
	})
	return mut
}

// ---------------------------------------------------------------------------------------------
// statements

func (a *analyzer) block(f *frame, list []ast.Stmt, st state) state {
	for _, s := range list {
		if st.dead {
			break
		}
		st = a.stmt(f, s, st)
	}
	return st
}

func (a *analyzer) assign(f *frame, lhs ast.Expr, v aval, define bool, compound bool, st state) {
	lhs = unparen(lhs)
	if id, ok := lhs.(*ast.Ident); ok {
		if id.Name == "_" {
			return
		}
		o := f.pi.info.Defs[id]
		if o == nil {
			o = f.pi.info.Uses[id]
		}
		if p, ok := a.place(f, id, st); ok { // package-level variable
			a.access(id.Pos(), p, true, false, false, st)
			return
		}
		if o != nil {
			target := f
			if !define && f.pi.info.Defs[id] == nil {
				for g := f; g != nil; g = g.parent {
					if _, ok := g.env[o]; ok {
						target = g
						break
					}
				}
			}
			target.env[o] = v
		}
		return
	}
	if sx, isSel := lhs.(*ast.SelectorExpr); isSel {
		if id, isId := unparen(sx.X).(*ast.Ident); isId {
			if o := f.pi.info.Uses[id]; o != nil {
				if bv, found := f.lookup(o); found && bv.k == vFresh && bv.fields != nil {
					bv.fields[sx.Sel.Name] = v
				}
			}
		}
	}
	p, ok := a.place(f, lhs, st)
	fr := a.lastFresh
	if !ok || !fr {
		escape(v)
	}
	if !ok {
		return
	}
	if compound {
		a.access(lhs.Pos(), p, false, false, fr, st)
	}
	t := a.typeOf(f, lhs)
	if tn := namedOf(t); tn != nil && a.structOf(tn) != nil && !a.abstracted(tn) {
		if _, isPtr := t.Underlying().(*types.Pointer); !isPtr {
			a.wholeAccess(lhs.Pos(), p, t, true, fr, st, 0)
			a.noteFreshAt(p, v)
			return
		}
	}
	a.access(lhs.Pos(), p, true, false, fr, st)
	a.noteFreshAt(p, v)
}

func (a *analyzer) noteFreshAt(p string, v aval) {
	if a.ctor && !strings.HasPrefix(p, "@") && !strings.HasPrefix(p, "global.") {
		a.noteFresh(p, v)
	}
}

func (a *analyzer) stmt(f *frame, s ast.Stmt, st state) state {
	switch x := s.(type) {
	case nil:
		return st
	case *ast.EmptyStmt:
		return st
	case *ast.ExprStmt:
		return a.exprStmt(f, x.X, st)
	case *ast.SendStmt:
		a.expr(f, x.Chan, st)
		escape(a.expr(f, x.Value, st))
		return st
	case *ast.IncDecStmt:
		a.assign(f, x.X, none, false, true, st)
		return st
	case *ast.AssignStmt:
		compound := x.Tok != token.ASSIGN && x.Tok != token.DEFINE
		var vals []aval
		if len(x.Rhs) == 1 && len(x.Lhs) > 1 {
			var dead bool
			var v aval
			if c, ok := unparen(x.Rhs[0]).(*ast.CallExpr); ok {
				v, dead = a.call(f, c, st)
			} else {
				v = a.expr(f, x.Rhs[0], st)
			}
			vals = append(vals, v)
			for range x.Lhs[1:] {
				vals = append(vals, none)
			}
			if dead {
				return deadState()
			}
		} else {
			for _, r := range x.Rhs {
				if c, ok := unparen(r).(*ast.CallExpr); ok {
					v, dead := a.call(f, c, st)
					if dead {
						return deadState()
					}
					vals = append(vals, v)
				} else {
					vals = append(vals, a.expr(f, r, st))
				}
			}
		}
		for i, l := range x.Lhs {
			v := none
			if i < len(vals) {
				v = vals[i]
			}
			a.assign(f, l, v, x.Tok == token.DEFINE, compound, st)
		}
		return st
	case *ast.DeclStmt:
		if gd, ok := x.Decl.(*ast.GenDecl); ok {
			for _, sp := range gd.Specs {
				if vs, ok := sp.(*ast.ValueSpec); ok {
					for i, id := range vs.Names {
						v := none
						if i < len(vs.Values) {
							v = a.expr(f, vs.Values[i], st)
						}
						if o := f.pi.info.Defs[id]; o != nil {
							f.env[o] = v
						}
					}
				}
			}
		}
		return st
	case *ast.BlockStmt:
		return a.block(f, x.List, st)
	case *ast.ReturnStmt:
		for i, r := range x.Results {
			var v aval
			if c, ok := unparen(r).(*ast.CallExpr); ok {
				var dead bool
				v, dead = a.call(f, c, st)
				if dead {
					return deadState()
				}
			} else {
				v = a.expr(f, r, st)
			}
			escape(v)
			if i == 0 && v.k != vNone {
				f.retval = v
			}
		}
		f.returns = append(f.returns, st.copy())
		return deadState()
	case *ast.IfStmt:
		st = a.stmt(f, x.Init, st)
		st = a.condExpr(f, x.Cond, st)
		th := a.block(f, x.Body.List, st.copy())
		el := st.copy()
		if x.Else != nil {
			el = a.stmt(f, x.Else, el)
		}
		return join(th, el)
	case *ast.ForStmt:
		st = a.stmt(f, x.Init, st)
		return a.loop(f, st, x.Cond == nil, func(in state) state {
			in = a.condExpr(f, x.Cond, in)
			return in
		}, func(in state) state {
			out := a.block(f, x.Body.List, in)
			return out
		}, func(in state) state { return a.stmt(f, x.Post, in) })
	case *ast.RangeStmt:
		v := a.expr(f, x.X, st)
		elem := none
		if v.k == vPath {
			if _, isChan := a.typeOf(f, x.X).Underlying().(*types.Chan); !isChan {
				a.access(x.X.Pos(), v.p+"[]", false, false, false, st)
				elem = pathv(v.p + "[]")
			}
		}
		if x.Tok == token.DEFINE {
			if id, ok := x.Value.(*ast.Ident); ok && id.Name != "_" {
				if o := f.pi.info.Defs[id]; o != nil {
					f.env[o] = elem
				}
			}
		}
		return a.loop(f, st, false, func(in state) state { return in }, func(in state) state {
			return a.block(f, x.Body.List, in)
		}, func(in state) state { return in })
	case *ast.SwitchStmt:
		st = a.stmt(f, x.Init, st)
		st = a.condExpr(f, x.Tag, st)
		return a.clauses(f, x.Body.List, st, false)
	case *ast.TypeSwitchStmt:
		st = a.stmt(f, x.Init, st)
		st = a.stmt(f, x.Assign, st)
		return a.clauses(f, x.Body.List, st, false)
	case *ast.SelectStmt:
		return a.clauses(f, x.Body.List, st, true)
	case *ast.GoStmt:
		a.goStmt(f, x, st)
		return st
	case *ast.DeferStmt:
		return a.deferStmt(f, x, st)
	case *ast.BranchStmt:
		if x.Tok == token.GOTO || x.Tok == token.FALLTHROUGH {
			fatal("unsupported branch statement at %s", a.L.fset.Position(x.Pos()))
		}
		if x.Label != nil {
			lc, ok := f.labels[x.Label.Name]
			if !ok {
				fatal("unknown label at %s", a.L.fset.Position(x.Pos()))
			}
			if x.Tok == token.BREAK {
				*lc[0] = append(*lc[0], st.copy())
			} else if lc[1] != nil {
				*lc[1] = append(*lc[1], st.copy())
			}
			return deadState()
		}
		if x.Tok == token.BREAK {
			if n := len(f.brk); n > 0 {
				*f.brk[n-1] = append(*f.brk[n-1], st.copy())
			}
		} else {
			if n := len(f.cont); n > 0 {
				*f.cont[n-1] = append(*f.cont[n-1], st.copy())
			}
		}
		return deadState()
	case *ast.LabeledStmt:
		f.pending = x.Label.Name
		out := a.stmt(f, x.Stmt, st)
		f.pending = ""
		return out
	}
	fatal("unsupported statement %T at %s", s, a.L.fset.Position(s.Pos()))
	return st
}

// condExpr evaluates an expression that may contain lock operations / inlined calls changing the state
func (a *analyzer) condExpr(f *frame, e ast.Expr, st state) state {
	if e == nil {
		return st
	}
	a.expr(f, e, st) // st.locks is shared with inlined callees: they update it in place
	return st
}

func (a *analyzer) exprStmt(f *frame, e ast.Expr, st state) state {
	c, ok := unparen(e).(*ast.CallExpr)
	if !ok {
		a.expr(f, e, st)
		return st
	}
	if fl, ok := unparen(c.Fun).(*ast.FuncLit); ok {
		a.args(f, c.Args, st)
		return a.closure(f, fl, st, true)
	}
	_, dead := a.call(f, c, st)
	if dead {
		return deadState()
	}
	return st
}

func (a *analyzer) loop(f *frame, in state, noCond bool, cond func(state) state, body func(state) state, post func(state) state) state {
	head := in.copy()
	var breaks []state
	var condOut state
	label := f.pending
	f.pending = ""
	for iter := 0; ; iter++ {
		if iter > 8 {
			fatal("lockset fixpoint does not converge in %s.%s", a.rootType, a.entry)
		}
		var brk, cont []state
		f.brk = append(f.brk, &brk)
		f.cont = append(f.cont, &cont)
		if label != "" {
			if f.labels == nil {
				f.labels = map[string][2]*[]state{}
			}
			f.labels[label] = [2]*[]state{&brk, &cont}
		}
		condOut = cond(head.copy())
		out := body(condOut.copy())
		f.brk = f.brk[:len(f.brk)-1]
		f.cont = f.cont[:len(f.cont)-1]
		back := join(append(cont, out)...)
		if !back.dead {
			back = post(back)
		}
		breaks = brk
		merged := join(in, back)
		if sameState(merged, head) {
			break
		}
		head = merged
	}
	if noCond {
		return join(breaks...)
	}
	return join(append(breaks, condOut)...)
}

func (a *analyzer) clauses(f *frame, list []ast.Stmt, st state, isSelect bool) state {
	var brk []state
	f.brk = append(f.brk, &brk)
	if f.pending != "" {
		if f.labels == nil {
			f.labels = map[string][2]*[]state{}
		}
		f.labels[f.pending] = [2]*[]state{&brk, nil}
		f.pending = ""
	}
	var ends []state
	hasDefault := false
	for _, cl := range list {
		in := st.copy()
		var bodyStmts []ast.Stmt
		switch c := cl.(type) {
		case *ast.CaseClause:
			if c.List == nil {
				hasDefault = true
			}
			for _, e := range c.List {
				if tv, ok := f.pi.info.Types[e]; ok && tv.IsType() {
					continue
				}
				a.expr(f, e, in)
			}
			bodyStmts = c.Body
		case *ast.CommClause:
			if c.Comm == nil {
				hasDefault = true
			} else {
				in = a.stmt(f, c.Comm, in)
			}
			bodyStmts = c.Body
		}
		ends = append(ends, a.block(f, bodyStmts, in))
	}
	f.brk = f.brk[:len(f.brk)-1]
	if !hasDefault && !isSelect {
		ends = append(ends, st)
	}
	return join(append(ends, brk...)...)
}

func (a *analyzer) goStmt(f *frame, g *ast.GoStmt, st state) {
	c := g.Call
	saveEntry, saveCtor, saveSite, saveStack := a.entry, a.ctor, a.site, a.stack
	empty := state{locks: map[string]byte{}}
	switch fx := unparen(c.Fun).(type) {
	case *ast.FuncLit:
		a.args(f, c.Args, st)
		a.goN++
		name := "go:" + strings.TrimPrefix(saveEntry, "go:") + "$" + fmt.Sprint(a.L.fset.Position(fx.Pos()).Line)
		a.entry, a.ctor, a.site, a.stack = name, false, nil, nil
		a.entries[[2]string{a.rootType, name}] = a.file
		a.closure(f, fx, empty, true)
	case *ast.SelectorExpr:
		sel := f.pi.info.Selections[fx]
		if sel != nil && sel.Kind() == types.MethodVal {
			fn := sel.Obj().(*types.Func).Origin()
			if fi := a.L.funcs[fn]; fi != nil && fi.pi.anchored {
				recv := a.object(f, fx.X, st)
				pre := a.args(f, c.Args, st)
				if pre == nil {
					pre = []aval{}
				}
				a.entry, a.ctor, a.site, a.stack = "go:"+fn.Name(), false, nil, nil
				a.entries[[2]string{a.rootType, a.entry}] = a.file
				a.inline(f, fn, fi, recv, pre, c, empty)
				break
			}
		}
		if !a.goFunc(f, c, st, empty) {
			a.call(f, c, st)
		}
	default:
		if !a.goFunc(f, c, st, empty) {
			a.call(f, c, st)
		}
	}
	a.entry, a.ctor, a.site, a.stack = saveEntry, saveCtor, saveSite, saveStack
	if saveCtor && !strings.HasPrefix(saveEntry, "option:") {
		// the constructor started a goroutine: what it writes afterwards is no longer pre-publication
		a.published = true
	}
}

// goFunc: `go f(args)` / `go pkg.F(args)` / `go f[T](args)` with f a function of an anchored package: its body
// runs on the new goroutine with no lock held (not in the caller's lock state, not as constructor code)
func (a *analyzer) goFunc(f *frame, c *ast.CallExpr, st state, empty state) bool {
	fun := unparen(c.Fun)
	if ix, ok := fun.(*ast.IndexExpr); ok {
		fun = unparen(ix.X)
	}
	if ix, ok := fun.(*ast.IndexListExpr); ok {
		fun = unparen(ix.X)
	}
	var fn *types.Func
	switch fx := fun.(type) {
	case *ast.Ident:
		fn, _ = f.pi.info.Uses[fx].(*types.Func)
	case *ast.SelectorExpr:
		if f.pi.info.Selections[fx] == nil {
			fn, _ = f.pi.info.Uses[fx.Sel].(*types.Func)
		}
	}
	if fn == nil {
		return false
	}
	fn = fn.Origin()
	fi := a.L.funcs[fn]
	if fi == nil || !fi.pi.anchored {
		return false
	}
	pre := a.args(f, c.Args, st)
	if pre == nil {
		pre = []aval{}
	}
	a.entry, a.ctor, a.site, a.stack = "go:"+fn.Name(), false, nil, nil
	a.entries[[2]string{a.rootType, a.entry}] = a.file
	a.inline(f, fn, fi, none, pre, c, empty)
	return true
}

func (a *analyzer) deferStmt(f *frame, d *ast.DeferStmt, st state) state {
	c := d.Call
	if id, ok := unparen(c.Fun).(*ast.Ident); ok {
		if o, isVar := f.pi.info.Uses[id].(*types.Var); isVar {
			if v, found := f.lookup(o); found && v.k == vLockFn {
				f.deferred = append(f.deferred, deferredOp{lock: v.p, op: v.op})
				if v.op == "Unlock" || v.op == "RUnlock" {
					f.defUnl[v.p] = true
				}
				return st
			}
		}
	}
	if fx, ok := unparen(c.Fun).(*ast.SelectorExpr); ok {
		if sel := f.pi.info.Selections[fx]; sel != nil && sel.Kind() == types.MethodVal {
			tn := namedOf(a.typeOf(f, fx.X))
			name := sel.Obj().Name()
			if tn != nil && isSyncPkg(pkgPathOf(tn)) && lockMethod(name) &&
				(tn.Name() == "Mutex" || tn.Name() == "RWMutex" || tn.Name() == "Locker") {
				if p, ok := a.syncRecv(f, fx.X, st); ok {
					l := a.canon(p)
					f.deferred = append(f.deferred, deferredOp{lock: l, op: name})
					if name == "Unlock" || name == "RUnlock" {
						f.defUnl[l] = true
					}
				}
				return st
			}
		}
	}
	// any other deferred call runs at function exit: only the locks whose release was deferred earlier
	// (and which are held now) are certainly still held then
	at := state{locks: map[string]byte{}}
	for l, m := range st.locks {
		if f.defUnl[l] {
			at.locks[l] = m
		}
	}
	if fl, ok := unparen(c.Fun).(*ast.FuncLit); ok {
		a.args(f, c.Args, st)
		a.closure(f, fl, at, true)
		return st
	}
	// arguments are evaluated now, the body later
	a.call(f, c, at)
	return st
}

// lock operations in statement position must update the walker's state: `call` mutates st.locks in
// place (maps are shared), which is what makes `c.mutex.Lock()` as an ExprStmt work.

// ---------------------------------------------------------------------------------------------
// driver

type entryDesc struct {
	typ   *types.TypeName
	name  string
	fn    *types.Func
	fi    *funcInfo
	ctor  bool
	label string
}

func (a *analyzer) runEntry(e entryDesc, collect bool) {
	a.rootObj = e.typ
	if e.typ != nil {
		a.rootType = e.typ.Name()
	} else {
		a.rootType = "-"
	}
	a.entry = e.label
	a.file = e.fi.file
	a.ctor = e.ctor
	a.published = false
	a.collect = collect
	a.stack = []string{e.fn.FullName() + "|"}
	a.site = nil
	a.visited[e.fn] = true
	if !collect {
		a.entries[[2]string{a.rootType, a.entry}] = a.file
	}
	nf := &frame{pi: e.fi.pi, env: map[types.Object]aval{}, defUnl: map[string]bool{}}
	if e.fi.decl.Recv != nil && len(e.fi.decl.Recv.List) == 1 && len(e.fi.decl.Recv.List[0].Names) == 1 {
		if o := e.fi.pi.info.Defs[e.fi.decl.Recv.List[0].Names[0]]; o != nil {
			nf.env[o] = pathv("")
		}
	}
	if e.fi.decl.Body != nil {
		a.body(nf, e.fi.decl.Body, state{locks: map[string]byte{}})
	}
	a.collect = false
}

func leanStr(s string) string {
	var b strings.Builder
	b.WriteByte('"')
	for _, r := range s {
		switch r {
		case '"':
			b.WriteString("\\\"")
		case '\\':
			b.WriteString("\\\\")
		default:
			b.WriteRune(r)
		}
	}
	b.WriteByte('"')
	return b.String()
}

func natList(xs []int) string {
	ss := make([]string, len(xs))
	for i, x := range xs {
		ss[i] = fmt.Sprint(x)
	}
	return "[" + strings.Join(ss, ", ") + "]"
}

func main() {
	root := flag.String("root", "", "repository root")
	out := flag.String("out", "", "Lean file to write")
	ns := flag.String("ns", "Ekit.Gen.AccessTable", "Lean namespace")
	dump := flag.Bool("dump", false, "print the table in a readable form on stdout")
	flag.Parse()
	files := flag.Args()
	if *root == "" || len(files) == 0 {
		fatal("usage: accesstab -root <repo> -out <lean file> file.go ...")
	}
	abs, err := filepath.Abs(*root)
	if err != nil {
		fatal("%v", err)
	}
	if err := os.Chdir(abs); err != nil {
		fatal("%v", err)
	}
	gomod, err := os.ReadFile(filepath.Join(abs, "go.mod"))
	if err != nil {
		fatal("%v", err)
	}
	mod := ""
	for _, l := range strings.Split(string(gomod), "\n") {
		if strings.HasPrefix(l, "module ") {
			mod = strings.TrimSpace(strings.TrimPrefix(l, "module "))
		}
	}
	fset := token.NewFileSet()
	L := &loader{fset: fset, root: abs, mod: mod, pkgs: map[string]*pkgInfo{}, funcs: map[*types.Func]*funcInfo{}, loading: map[string]bool{}}
	L.std = importer.ForCompiler(fset, "source", nil).(types.ImporterFrom)

	anchoredFile := map[string]bool{}
	var pkgOrder []string
	for _, fpath := range files {
		fpath = filepath.ToSlash(fpath)
		anchoredFile[fpath] = true
		dir := filepath.ToSlash(filepath.Dir(fpath))
		ip := mod + "/" + dir
		pi, err := L.load(ip)
		if err != nil {
			fatal("%v", err)
		}
		if !pi.anchored {
			pi.anchored = true
			pkgOrder = append(pkgOrder, ip)
		}
		found := false
		for _, n := range pi.names {
			if n == fpath {
				found = true
			}
		}
		if !found {
			fatal("anchored file %s not found", fpath)
		}
	}

	a := &analyzer{L: L, rows: map[rowKey]*rowVal{}, visited: map[*types.Func]bool{}, alias: map[string]map[string]string{},
		fresh: map[string]map[string]int{}, abstr: map[*types.TypeName]bool{}, mutMemo: map[*types.Func]int{}, pmMemo: map[string]bool{},
		entries: map[[2]string]string{}, rootAbs: map[string]string{}}

	// enumerate entries in the anchored files
	var public, ctors, internal []entryDesc
	for _, ip := range pkgOrder {
		pi := L.pkgs[ip]
		for i, f := range pi.files {
			// a file of an anchored package that is not itself anchored (e.g. a new file): only what belongs to a
			// type declared in an anchored file is an entry — its methods and the functions returning it
			foreign := !anchoredFile[pi.names[i]]
			for _, d := range f.Decls {
				fd, ok := d.(*ast.FuncDecl)
				if !ok {
					continue
				}
				fn, _ := pi.info.Defs[fd.Name].(*types.Func)
				if fn == nil {
					continue
				}
				fi := L.funcs[fn]
				sig := fn.Type().(*types.Signature)
				if sig.Recv() != nil {
					tn := namedOf(sig.Recv().Type())
					if foreign && (tn == nil || !anchoredFile[fileOfType(L, tn)]) {
						continue
					}
					e := entryDesc{typ: tn, name: fn.Name(), fn: fn, fi: fi, label: fn.Name()}
					if tn != nil && tn.Exported() && fn.Exported() {
						public = append(public, e)
					} else {
						internal = append(internal, e)
					}
					continue
				}
				// constructor / option function?
				var rootT *types.TypeName
				isOpt := false
				for j := 0; j < sig.Results().Len(); j++ {
					rt := sig.Results().At(j).Type()
					tn := namedOf(rt)
					if tn == nil {
						continue
					}
					if a.structOf(tn) != nil && anchoredFile[fileOfType(L, tn)] {
						rootT = tn
						break
					}
					if n, ok := rt.(*types.Named); ok && tn.Name() == "Option" && n.TypeArgs() != nil && n.TypeArgs().Len() == 1 {
						if an := namedOf(n.TypeArgs().At(0)); an != nil && a.structOf(an) != nil && anchoredFile[fileOfType(L, an)] {
							rootT, isOpt = an, true
							break
						}
					}
				}
				if rootT != nil {
					lbl := "new:" + fn.Name()
					if isOpt {
						lbl = "option:" + fn.Name()
					}
					e := entryDesc{typ: rootT, name: fn.Name(), fn: fn, fi: fi, ctor: true, label: lbl}
					// a function that RECEIVES an object of an anchored struct type works on an object that already
					// exists (and may be shared): not a constructor, its accesses are not pre-publication
					takesObj := false
					for j := 0; j < sig.Params().Len(); j++ {
						if ptn := namedOf(sig.Params().At(j).Type()); ptn != nil && a.structOf(ptn) != nil && anchoredFile[fileOfType(L, ptn)] {
							if _, isPtr := sig.Params().At(j).Type().Underlying().(*types.Pointer); isPtr {
								takesObj = true
							}
						}
					}
					if fn.Exported() && !takesObj {
						ctors = append(ctors, e)
					} else {
						e.ctor = false
						e.label = fn.Name()
						internal = append(internal, e)
					}
					continue
				}
				if foreign {
					continue
				}
				internal = append(internal, entryDesc{typ: nil, name: fn.Name(), fn: fn, fi: fi, label: fn.Name()})
			}
		}
	}

	// the thread-safe root types: accesses to ANOTHER instance of one of them are rows of the same location class
	for _, e := range append(append([]entryDesc{}, public...), ctors...) {
		if e.typ != nil && a.structOf(e.typ) != nil && !a.abstracted(e.typ) {
			a.rootAbs[absName(e.typ)] = e.typ.Name()
		}
	}

	// pass 1: constructors, to learn which lock fields alias
	for _, e := range ctors {
		a.runEntry(e, true)
	}
	var aliasLines [][3]string
	for typ, m := range a.fresh {
		byID := map[int][]string{}
		for p, id := range m {
			byID[id] = append(byID[id], p)
		}
		for _, ps := range byID {
			sort.Slice(ps, func(i, j int) bool {
				if len(ps[i]) != len(ps[j]) {
					return len(ps[i]) < len(ps[j])
				}
				return ps[i] < ps[j]
			})
			for _, p := range ps[1:] {
				if a.alias[typ] == nil {
					a.alias[typ] = map[string]string{}
				}
				a.alias[typ][p] = ps[0]
				aliasLines = append(aliasLines, [3]string{typ, p, ps[0]})
			}
		}
	}
	sort.Slice(aliasLines, func(i, j int) bool {
		return aliasLines[i][0]+"|"+aliasLines[i][1] < aliasLines[j][0]+"|"+aliasLines[j][1]
	})
	a.visited = map[*types.Func]bool{}

	// pass 2: everything
	for _, e := range ctors {
		a.runEntry(e, false)
	}
	for _, e := range public {
		a.runEntry(e, false)
	}
	for _, e := range internal {
		if !a.visited[e.fn] {
			a.runEntry(e, false)
		}
	}

	// rows
	type outRow struct {
		file, typ, entry, loc string
		write, atomic, init   bool
		excl, shared          []string
	}
	seen := map[string]bool{}
	var rows []outRow
	for k, v := range a.rows {
		r := outRow{file: v.file, typ: k.typ, entry: k.entry, loc: k.loc, write: k.write, atomic: k.atomic, init: k.init}
		for l, m := range v.locks {
			name := k.typ + "." + l
			if strings.HasPrefix(l, "=") { // absolute name (lock of another instance of a root type)
				name = l[1:]
			}
			if m == 'X' {
				r.excl = append(r.excl, name)
			} else {
				r.shared = append(r.shared, name)
			}
		}
		sort.Strings(r.excl)
		sort.Strings(r.shared)
		key := fmt.Sprint(r)
		if !seen[key] {
			seen[key] = true
			rows = append(rows, r)
		}
	}
	sort.Slice(rows, func(i, j int) bool {
		x, y := rows[i], rows[j]
		if x.file != y.file {
			return x.file < y.file
		}
		if x.typ != y.typ {
			return x.typ < y.typ
		}
		if x.entry != y.entry {
			return x.entry < y.entry
		}
		if x.loc != y.loc {
			return x.loc < y.loc
		}
		return fmt.Sprint(x) < fmt.Sprint(y)
	})
	locID, lockID := map[string]int{}, map[string]int{}
	var locNames, lockNames []string
	for _, r := range rows {
		if _, ok := locID[r.loc]; !ok {
			locID[r.loc] = len(locNames)
			locNames = append(locNames, r.loc)
		}
		for _, l := range append(append([]string{}, r.excl...), r.shared...) {
			if _, ok := lockID[l]; !ok {
				lockID[l] = len(lockNames)
				lockNames = append(lockNames, l)
			}
		}
	}
	var entryList [][3]string
	for k, file := range a.entries {
		entryList = append(entryList, [3]string{k[0], k[1], file})
	}
	sort.Slice(entryList, func(i, j int) bool {
		return entryList[i][2]+"|"+entryList[i][0]+"|"+entryList[i][1] < entryList[j][2]+"|"+entryList[j][0]+"|"+entryList[j][1]
	})

	if *dump {
		for _, r := range rows {
			k := "R"
			if r.write {
				k = "W"
			}
			if r.atomic {
				k += "a"
			}
			if r.init {
				k += "i"
			}
			fmt.Printf("%-44s %-34s %-3s %-52s X%v S%v\n", r.file, r.typ+"."+r.entry, k, r.loc, r.excl, r.shared)
		}
		for _, al := range aliasLines {
			fmt.Printf("alias %s: %s = %s\n", al[0], al[1], al[2])
		}
	}
	if *out == "" {
		return
	}
	var b strings.Builder
	b.WriteString("-- GENERATED by harness/accesstab from the Go sources of the anchored files — do not edit.\n")
	b.WriteString("import Ekit.Conc.AccessTable\n")
	fmt.Fprintf(&b, "namespace %s\nopen Ekit.Conc.AccessTable\n\n", *ns)
	b.WriteString("def locNames : List String := [\n")
	for i, n := range locNames {
		fmt.Fprintf(&b, "  %s%s -- %d\n", leanStr(n), comma(i, len(locNames)), i)
	}
	b.WriteString("]\n\ndef lockNames : List String := [\n")
	for i, n := range lockNames {
		fmt.Fprintf(&b, "  %s%s -- %d\n", leanStr(n), comma(i, len(lockNames)), i)
	}
	// the discipline certificate: one class per location, computed here, checked by the Lean kernel
	b.WriteString("]\n\n/-- certificate: the discipline class claimed for each location (index = location id); it is\nchecked against every row by `DisciplinedBy` -/\ndef disciplines : List Cls := [\n")
	for i, n := range locNames {
		allAtomic, anyWrite, first := true, false, true
		var common map[string]bool
		for _, r := range rows {
			if r.loc != n || r.init {
				continue
			}
			if !r.atomic {
				allAtomic = false
			}
			if r.write {
				anyWrite = true
			}
			held := map[string]bool{}
			for _, l := range r.excl {
				held[l] = true
			}
			if !r.write {
				for _, l := range r.shared {
					held[l] = true
				}
			}
			if first {
				common, first = held, false
			} else {
				for l := range common {
					if !held[l] {
						delete(common, l)
					}
				}
			}
		}
		cls := ".readOnly"
		var cl []string
		for l := range common {
			cl = append(cl, l)
		}
		sort.Strings(cl)
		switch {
		case !anyWrite:
			cls = ".readOnly"
		case allAtomic:
			cls = ".atomicOnly"
		case len(cl) > 0:
			cls = fmt.Sprintf(".lockProtected %d", lockID[cl[0]])
		default:
			cls = ".atomicOnly" // no class fits: the kernel check will reject this location
		}
		fmt.Fprintf(&b, "  %s%s -- %d %s\n", cls, comma(i, len(locNames)), i, n)
	}
	b.WriteString("]\n\n/-- lock fields that hold the same lock object, derived from the constructors: (type, field path, canonical field path) -/\n")
	b.WriteString("def aliases : List (String × String × String) := [\n")
	for i, al := range aliasLines {
		fmt.Fprintf(&b, "  (%s, %s, %s)%s\n", leanStr(al[0]), leanStr(al[1]), leanStr(al[2]), comma(i, len(aliasLines)))
	}
	b.WriteString("]\n\n/-- analysed entries: (type, entry) -/\ndef entries : List (String × String) := [\n")
	for i, e := range entryList {
		fmt.Fprintf(&b, "  (%s, %s)%s\n", leanStr(e[0]), leanStr(e[1]), comma(i, len(entryList)))
	}
	b.WriteString("]\n\n-- columns: file type entry location locId write atomic init exclusive-locks shared-locks\n")
	b.WriteString("def accessTable : List Access := [\n")
	for i, r := range rows {
		var ex, sh []int
		for _, l := range r.excl {
			ex = append(ex, lockID[l])
		}
		for _, l := range r.shared {
			sh = append(sh, lockID[l])
		}
		fmt.Fprintf(&b, "  .mk' %s %s %s %s %d %v %v %v %s %s%s\n", leanStr(r.file), leanStr(r.typ), leanStr(r.entry),
			leanStr(r.loc), locID[r.loc], r.write, r.atomic, r.init, natList(ex), natList(sh), comma(i, len(rows)))
	}
	fmt.Fprintf(&b, "]\n\nend %s\n", *ns)
	if err := os.WriteFile(*out, []byte(b.String()), 0o644); err != nil {
		fatal("%v", err)
	}
}

func comma(i, n int) string {
	if i == n-1 {
		return ""
	}
	return ","
}

func fileOfType(L *loader, tn *types.TypeName) string {
	pos := L.fset.Position(tn.Pos())
	rel, err := filepath.Rel(L.root, pos.Filename)
	if err != nil {
		return ""
	}
	return filepath.ToSlash(rel)
}
