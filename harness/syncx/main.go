// Correspondence harness for C14 (syncx.LimitPool, syncx.SegmentKeysLock).
//
//	syncx -mode gen -tier quick|thorough -out ops.txt     (seed from VERIF_SEED)
//	syncx -mode run -ops ops.txt -out trace.txt -stats stats.json
//
// Scripted cases drive the real objects from one worker goroutine per logical thread and print one
// "op => observation" line per call (token counter / segment index read through the verif hooks);
// stress cases run many goroutines against the real objects and are summarised in one line each.
// Keys travel as hex bytes ("-" = empty) and every call receives a freshly allocated string, so
// "equal contents, distinct allocations" is exercised by every lock/unlock pair.
package main

import (
	"bufio"
	"encoding/hex"
	"encoding/json"
	"flag"
	"fmt"
	"os"
	"runtime"
	"sort"
	"strconv"
	"strings"
	"sync"
	"sync/atomic"
	"time"

	"github.com/ecodeclub/ekit/syncx"
	"github.com/ecodeclub/ekit/zzverif/vlib"
)

const nThreads = 4

// whiteBox is false when the check had to install the stub hooks (zz_verif_segment.go.stub): the
// token counter and the segment index are then not observable (sentinel -1) and only the black-box
// laws are exercised; the driver is run in spec mode only.
var whiteBox = syncx.VerifWhiteBox()

// ---------------------------------------------------------------------------------------------
// generation

func hx(b []byte) string {
	if len(b) == 0 {
		return "-"
	}
	return hex.EncodeToString(b)
}

func unhx(s string) []byte {
	if s == "-" {
		return []byte{}
	}
	b, err := hex.DecodeString(s)
	if err != nil {
		panic("bad hex key " + s)
	}
	return b
}

func keyPool(r *vlib.Rng) [][]byte {
	long := make([]byte, 300)
	for i := range long {
		long[i] = 'x'
	}
	vlong := make([]byte, 5000)
	for i := range vlong {
		vlong[i] = byte(r.Intn(256))
	}
	return [][]byte{
		{}, []byte("a"), []byte("b"), []byte("ab"), []byte("ba"), []byte("key1"), []byte("key2"),
		[]byte("héllo"), []byte("键值"), []byte("🙂🙂"), []byte("ключ"), long, vlong,
		{0}, {0xff, 0xfe}, []byte("a\x00b"), {0x80}, []byte("key1 "), []byte("Key1"),
	}
}

var sizes = []int{1, 1, 2, 2, 3, 4, 5, 7, 8, 16, 31, 64, 100, 257, 1000}

func genLimitCase(r *vlib.Rng, out *vlib.Out) {
	max := vlib.Pick(r, []int{0, 1, 1, 2, 2, 3, 3, 5, 8})
	if k := vlib.Pick(r, limKinds); k == "ptr" {
		out.Line("new limit %d", max)
	} else {
		out.Line("new limit %d kind=%s", max, k)
	}
	borrowed := 0
	get := func() {
		out.Line("get %d", r.Intn(nThreads))
		if borrowed < max {
			borrowed++
		}
	}
	put := func() {
		out.Line("put %d", r.Intn(nThreads))
		if borrowed > 0 {
			borrowed--
		}
	}
	phases := []string{"mix", "fill", "mix", "drain", "fill", "drain", "fill"}
	if r.Chance(30) {
		phases = []string{"mix"}
	}
	for _, ph := range phases {
		switch ph {
		case "fill": // take everything, then fail a few times
			for borrowed < max {
				get()
			}
			for i := r.Range(1, 3); i > 0; i-- {
				get()
			}
		case "drain": // give everything back (and once too often: the harness skips it)
			for borrowed > 0 {
				put()
			}
			if r.Chance(30) {
				put()
			}
		default:
			for i := r.Range(3, 20); i > 0; i-- {
				if r.Chance(55) || (borrowed == 0 && r.Chance(90)) {
					get()
				} else {
					put()
				}
			}
		}
	}
}

type ghold struct {
	t     int
	key   string
	write bool
}

func genSegCase(r *vlib.Rng, out *vlib.Out, pool [][]byte) {
	size := vlib.Pick(r, sizes)
	out.Line("new seg %d", size)
	nk := r.Range(2, 6)
	keys := make([]string, 0, nk)
	for i := 0; i < nk; i++ {
		if r.Chance(70) {
			keys = append(keys, hx(vlib.Pick(r, pool)))
		} else {
			b := make([]byte, r.Range(1, 40))
			for j := range b {
				b[j] = byte(r.Intn(256))
			}
			keys = append(keys, hx(b))
		}
	}
	for _, k := range keys {
		out.Line("idx %s", k)
	}
	// the generator's own guess of what is held (by key contents; with one segment everything
	// collides) keeps the script mostly valid; the harness decides for real (wouldblock / notheld)
	var holds []ghold
	segOf := func(k string) string {
		if size == 1 {
			return ""
		}
		return k
	}
	wHeld := map[string]bool{}
	rHeld := map[string]int{}
	steps := r.Range(10, 60)
	for s := 0; s < steps; s++ {
		t := r.Intn(nThreads)
		k := vlib.Pick(r, keys)
		sk := segOf(k)
		free := !wHeld[sk] && rHeld[sk] == 0
		p := r.Intn(100)
		switch {
		case p < 14:
			if !free && r.Chance(75) {
				out.Line("trylock %d %s", t, k) // a blocking Lock here would only be skipped
				continue
			}
			out.Line("lock %d %s", t, k)
			if free {
				holds = append(holds, ghold{t, k, true})
				wHeld[sk] = true
			}
		case p < 28:
			if wHeld[sk] && r.Chance(75) {
				out.Line("tryrlock %d %s", t, k)
				continue
			}
			out.Line("rlock %d %s", t, k)
			if !wHeld[sk] {
				holds = append(holds, ghold{t, k, false})
				rHeld[sk]++
			}
		case p < 46:
			out.Line("trylock %d %s", t, k)
			if free {
				holds = append(holds, ghold{t, k, true})
				wHeld[sk] = true
			}
		case p < 60:
			out.Line("tryrlock %d %s", t, k)
			if !wHeld[sk] {
				holds = append(holds, ghold{t, k, false})
				rHeld[sk]++
			}
		case p < 92 && len(holds) > 0:
			i := r.Intn(len(holds))
			h := holds[i]
			holds = append(holds[:i], holds[i+1:]...)
			if h.write {
				out.Line("unlock %d %s", h.t, h.key)
				wHeld[segOf(h.key)] = false
			} else {
				out.Line("runlock %d %s", h.t, h.key)
				rHeld[segOf(h.key)]--
			}
		case p < 96:
			out.Line("idx %s", k)
		case p < 98:
			// malformed stream: release something that is (probably) not held
			if r.Bool() {
				out.Line("unlock %d %s", t, k)
			} else {
				out.Line("runlock %d %s", t, k)
			}
		}
	}
	// release phase, then the "nothing is held" truth table
	if r.Chance(60) {
		for _, h := range holds {
			if h.write {
				out.Line("unlock %d %s", h.t, h.key)
			} else {
				out.Line("runlock %d %s", h.t, h.key)
			}
		}
		for _, k := range keys {
			t := r.Intn(nThreads)
			out.Line("trylock %d %s", t, k)
			out.Line("unlock %d %s", t, k)
		}
	}
}

func gen(tier string, out *vlib.Out) {
	r := vlib.NewRng(vlib.Seed())
	nLimit, nSeg, nLS, nSS := 300, 400, 30, 20
	if tier == "thorough" {
		nLimit, nSeg, nLS, nSS = 3000, 5000, 120, 80
	}
	corpus := []string{
		"new limit 0\nget 0\nget 1\nput 0\nget 2",
		"new limit 1\nget 0\nget 1\nput 0\nget 1\nget 0\nput 1\nget 0\nget 0",
		"new limit 3\nget 0\nget 0\nget 0\nget 0\nput 0\nput 0\nput 0\nget 1\nget 1\nget 1\nget 1\nput 2\nget 3\nget 3",
		"new limit 2\nput 0\nget 0\nput 0\nput 0\nget 1\nget 2\nget 3",
		// empty / ASCII / non-ASCII / invalid UTF-8 keys, one segment: everything collides
		"new seg 1\nidx -\nidx 61\nidx 68c3a96c6c6f\nidx fffe\nlock 0 61\ntrylock 1 61\ntryrlock 1 61\ntrylock 1 62\nlock 1 62\nrlock 2 -\nunlock 0 61\ntrylock 1 61\nunlock 1 61\ntrylock 2 -\nunlock 2 -",
		"new seg 2\nidx 61\nidx 62\nrlock 0 61\nrlock 1 61\ntryrlock 2 61\ntrylock 3 61\nlock 3 61\nrunlock 0 61\nrunlock 1 61\ntrylock 3 61\nrunlock 2 61\ntrylock 3 61\ntryrlock 0 61\ntrylock 0 61\nunlock 3 61",
		"new seg 7\nidx e994aee580bc\nidx f09f9982f09f9982\nlock 0 e994aee580bc\ntrylock 1 e994aee580bc\ntryrlock 1 e994aee580bc\ntrylock 1 f09f9982f09f9982\nunlock 1 f09f9982f09f9982\nunlock 0 e994aee580bc\nunlock 0 e994aee580bc\nrunlock 0 e994aee580bc",
		"new seg 1000\nidx -\nidx 00\nidx 6b657931\nidx 6b657932\ntrylock 0 6b657931\ntrylock 1 6b657932\ntrylock 2 6b657931\nunlock 0 6b657931\nunlock 1 6b657932",
		// maxTokens far above the random range (0..8): a counter narrower than the stated int32, or a conversion
		// that loses high bits below 2^31, shows as a wrong counter at once (white-box) and as fewer than
		// maxTokens successful Gets at quiescence (black-box); 2^31-1 is the largest value inside the quantifier
		"new limit 2147483647\nget 0\nget 1\nput 0\nget 2\nput 1\nput 2\nget 3\nput 3",
		"new limit 65536\nget 0\nget 1\nput 0\nput 1\nget 2",
		// legitimately borrowed values that ARE the zero value of T: a Put that inspects the value must still return the token
		"new limit 2 kind=int0\nget 0\nget 1\nget 2\nput 0\nput 1\nget 0\nget 1\nget 2\nput 0\nput 0\nget 3\nget 3\nget 3",
		"new limit 1 kind=unit\nget 0\nput 0\nget 1\nput 1\nget 0\nget 1",
		"new limit 3 kind=str0\nget 0\nget 0\nget 0\nput 1\nput 1\nput 1\nget 2\nget 2\nget 2\nget 2",
		"new limit 2 kind=val\nget 0\nput 0\nget 1\nget 1\nget 1\nput 0\nput 0\nget 2\nget 2\nget 2",
		// ... and that are nil (pointer / slice / func element types): "nil is not worth pooling" must not keep the token
		"new limit 2 kind=nilptr\nget 0\nget 1\nget 2\nput 0\nput 1\nget 0\nget 1\nget 2\nput 0\nput 0\nget 3\nget 3\nget 3",
		"new limit 1 kind=nilsl\nget 0\nput 0\nget 1\nput 1\nget 0\nget 1",
		"new limit 3 kind=nilfn\nget 0\nget 0\nget 0\nput 1\nput 1\nput 1\nget 2\nget 2\nget 2\nget 2",
		// GENUINE DEFECT CANDIDATE (kept commented out, see the genaudit report): with an interface element type whose
		// factory returns the nil interface, syncx.Pool.Get panics in `p.p.Get().(T)` ("interface conversion: interface is
		// nil"), and LimitPool.Get has already taken its token by then: every such Get leaks one token for good
		// (observed: new limit 2 kind=iface0 / get 0 => panic tokens=1 / get 0 => panic tokens=0 / get 0 => false).
		// "new limit 2 kind=iface0\nget 0\nget 0\nget 0",
		// segment counts beyond 2^16 (the index is computed in uint32, not in anything narrower)
		"new seg 65536\nidx -\nidx 61\nidx 6b657931\nidx fffe\nlock 0 61\ntrylock 1 61\ntrylock 1 -\nunlock 1 -\nunlock 0 61",
		"new seg 65537\nidx -\nidx 61\nidx 6b657931\nidx fffe\nrlock 0 -\ntryrlock 1 -\ntrylock 2 -\nrunlock 0 -\nrunlock 1 -\ntrylock 2 -\nunlock 2 -",
		"new limitstress max=2 g=6 iters=200 kind=int0",
		"new limitstress max=3 g=8 iters=200 kind=unit",
		"new limitstress max=2 g=6 iters=200 kind=nilptr",
		"new limitstress max=300 g=8 iters=100",
		"new limitstress max=70000 g=4 iters=100",
		"new limitstress max=1 g=8 iters=400",
		"new limitstress max=0 g=4 iters=200",
		"new segstress size=1 keys=2 g=8 iters=200",
		"new segstress size=2 keys=4 g=8 iters=200", // keys=4 includes the empty key
		"new segfirst size=1 g=4 rounds=300 variant=try",
		"new segfirst size=8 g=4 rounds=300 variant=mix",
		"new segfirst size=3 g=4 rounds=300 variant=lock",
	}
	for _, c := range corpus {
		for _, l := range strings.Split(c, "\n") {
			out.Line("%s", l)
		}
	}
	pool := keyPool(r)
	iters := 1
	if tier == "thorough" {
		iters = 4
	}
	for i := 0; i < nLimit; i++ {
		genLimitCase(r, out)
	}
	for i := 0; i < nSeg; i++ {
		genSegCase(r, out, pool)
	}
	for i := 0; i < nLS; i++ {
		max := vlib.Pick(r, []int{0, 1, 1, 1, 2, 2, 3, 3, 5, 8})
		g := vlib.Pick(r, []int{2, 3, 4, 8, 16})
		if g <= max && r.Chance(80) { // contention needs more goroutines than tokens
			g = vlib.Pick(r, []int{max + 1, 2*max + 1, 16})
		}
		if k := vlib.Pick(r, limKinds); k == "ptr" {
			out.Line("new limitstress max=%d g=%d iters=%d", max, g, iters*vlib.Pick(r, []int{300, 1000, 2000}))
		} else {
			out.Line("new limitstress max=%d g=%d iters=%d kind=%s", max, g, iters*vlib.Pick(r, []int{300, 1000, 2000}), k)
		}
	}
	// first-use races: every round starts on a FRESH instance that nothing has touched yet
	nSF := 12
	if tier == "thorough" {
		nSF = 60
	}
	for i := 0; i < nSF; i++ {
		size := vlib.Pick(r, []int{1, 3, 8, 1000})
		rounds := iters * vlib.Pick(r, []int{200, 400})
		if size == 1000 {
			rounds /= 4
		}
		out.Line("new segfirst size=%d g=%d rounds=%d variant=%s", size, vlib.Pick(r, []int{2, 3, 4, 8}), rounds,
			[]string{"try", "mix", "lock"}[i%3])
	}
	for i := 0; i < nSS; i++ {
		out.Line("new segstress size=%d keys=%d g=%d iters=%d", vlib.Pick(r, []int{1, 2, 3, 7, 64}), r.Range(1, 4),
			vlib.Pick(r, []int{2, 4, 8, 16}), iters*vlib.Pick(r, []int{200, 500, 1000}))
	}
}

// ---------------------------------------------------------------------------------------------
// execution

type stats struct {
	Ops        map[string]int `json:"ops"`
	Results    map[string]int `json:"results"`
	Kinds      map[string]int `json:"kinds"`
	Sizes      map[string]int `json:"segment_counts"`
	MaxTokens  map[string]int `json:"max_tokens"`
	KeyLens    map[string]int `json:"key_length_buckets"`
	Collisions int            `json:"distinct_keys_sharing_a_segment"`
	MaxHW      int            `json:"max_high_water"`
	StressOps  int64          `json:"stress_operations"`
	Cases      int            `json:"cases"`
	Lines      int            `json:"lines"`
	Distinct   int            `json:"distinct_state_op_pairs"`
}

// workers: one goroutine per logical thread, so that calls of different logical threads really
// come from different goroutines
type workers struct{ ch []chan func() }

func newWorkers(n int) *workers {
	w := &workers{}
	for i := 0; i < n; i++ {
		c := make(chan func())
		w.ch = append(w.ch, c)
		go func() {
			for f := range c {
				f()
			}
		}()
	}
	return w
}

// do runs f on worker t and waits for it; false if it did not finish within the deadline (hung)
func (w *workers) do(t int, f func()) (p string, finished bool) {
	done := make(chan string, 1)
	w.ch[t%len(w.ch)] <- func() { done <- vlib.Catch(f) }
	select {
	case p = <-done:
		return p, true
	case <-time.After(10 * time.Second):
		return "", false
	}
}

type obj struct{ id int64 }

// limIface hides the element type of a LimitPool: the bookkeeping of C14 must not depend on what the
// pooled values are, in particular not on whether a legitimately borrowed value happens to be T's zero
// value (kinds int0, unit, str0), nil (kinds nilptr, nilsl, nilfn) or a non-nil pointer (kind ptr).
type limIface interface {
	Get() bool // a successful Get remembers the borrowed value
	PutLast()  // hands the most recently borrowed value back
	Borrowed() int
	Tokens() int
}

type limOf[T any] struct {
	p        *syncx.LimitPool[T]
	borrowed []T
}

func (l *limOf[T]) Get() bool {
	x, ok := l.p.Get()
	if ok {
		l.borrowed = append(l.borrowed, x)
	}
	return ok
}
func (l *limOf[T]) PutLast() {
	x := l.borrowed[len(l.borrowed)-1]
	l.borrowed = l.borrowed[:len(l.borrowed)-1]
	l.p.Put(x)
}
func (l *limOf[T]) Borrowed() int { return len(l.borrowed) }
func (l *limOf[T]) Tokens() int   { return int(l.p.VerifTokens()) }

// newLim builds a LimitPool of the given element kind; `created` counts factory calls
func newLim(kind string, max int, created *atomic.Int64) limIface {
	switch kind {
	case "", "ptr":
		return &limOf[*obj]{p: syncx.NewLimitPool[*obj](max, func() *obj { return &obj{id: created.Add(1)} })}
	case "int0":
		return &limOf[int]{p: syncx.NewLimitPool[int](max, func() int { created.Add(1); return 0 })}
	case "unit":
		return &limOf[struct{}]{p: syncx.NewLimitPool[struct{}](max, func() struct{} { created.Add(1); return struct{}{} })}
	case "str0":
		return &limOf[string]{p: syncx.NewLimitPool[string](max, func() string { created.Add(1); return "" })}
	case "val":
		return &limOf[obj]{p: syncx.NewLimitPool[obj](max, func() obj { return obj{id: created.Add(1) - 1} })} // the first object is the zero obj
	case "nilptr":
		return &limOf[*obj]{p: syncx.NewLimitPool[*obj](max, func() *obj { created.Add(1); return nil })}
	case "nilsl":
		return &limOf[[]byte]{p: syncx.NewLimitPool[[]byte](max, func() []byte { created.Add(1); return nil })}
	case "nilfn":
		return &limOf[func()]{p: syncx.NewLimitPool[func()](max, func() func() { created.Add(1); return nil })}
	case "iface0": // not generated: see the commented-out corpus case
		return &limOf[any]{p: syncx.NewLimitPool[any](max, func() any { created.Add(1); return nil })}
	}
	panic("limit kind " + kind)
}

var limKinds = []string{"ptr", "ptr", "ptr", "int0", "unit", "str0", "val", "nilptr", "nilsl", "nilfn"}

func kindOf(w []string) string {
	for _, x := range w {
		if strings.HasPrefix(x, "kind=") {
			return x[len("kind="):]
		}
	}
	return "ptr"
}

type limitCase struct {
	p       limIface
	created *atomic.Int64
	max     int
}

type segState struct {
	w bool
	r int
}

type segCase struct {
	s     *syncx.SegmentKeysLock
	size  int
	segs  map[int]*segState
	holds map[string]int
	at    map[string][]int // segment index observed when each hold was acquired
	// a Try… call obtained a lock that the harness's own record says is excluded: exclusion is
	// already broken (the driver flags that line); further calls are not executed because releasing
	// in that state can hit Go's unrecoverable "unlock of unlocked RWMutex"
	corrupt bool
	byIdx   map[int]map[string]bool
}

// fresh returns a newly allocated string with the given contents (never shares storage with b
// or with any earlier key)
func fresh(b []byte) string {
	var sb strings.Builder
	for _, c := range b {
		sb.WriteByte(c)
	}
	return sb.String()
}

func lenBucket(n int) string {
	switch {
	case n == 0:
		return "0"
	case n <= 4:
		return "1-4"
	case n <= 40:
		return "5-40"
	case n <= 300:
		return "41-300"
	}
	return ">300"
}

func (sc *segCase) seg(i int) *segState {
	st := sc.segs[i]
	if st == nil {
		st = &segState{}
		sc.segs[i] = st
	}
	return st
}

// heldCounts: write/read holds recorded on exactly this key (hex), and on any key
func (sc *segCase) heldCounts(hexKey string) (kw, kr, anyW, anyR int) {
	for h, n := range sc.holds {
		if n <= 0 {
			continue
		}
		parts := strings.Split(h, "|")
		write := parts[2] == "true"
		if write {
			anyW += n
		} else {
			anyR += n
		}
		if parts[1] == hexKey {
			if write {
				kw += n
			} else {
				kr += n
			}
		}
	}
	return
}

func (sc *segCase) dump() string {
	var ks []string
	for k, n := range sc.holds {
		if n > 0 {
			ks = append(ks, fmt.Sprintf("%s*%d", k, n))
		}
	}
	sort.Strings(ks)
	return strings.Join(ks, ",")
}

// limitStress repeats the scenario (fresh pool each round) until a round shows an anomaly, at most
// `rounds` times, and reports the last round: the races it looks for are probabilistic.
func limitStress(kind string, max, g, iters int, seed uint64, st *stats) string {
	const rounds = 3
	var line string
	for r := 0; r < rounds; r++ {
		var bad bool
		switch kind {
		case "int0":
			line, bad = limitStressRound[int](max, g, iters, seed+uint64(r)*977, st, func(*atomic.Int64) int { return 0 })
		case "unit":
			line, bad = limitStressRound[struct{}](max, g, iters, seed+uint64(r)*977, st, func(*atomic.Int64) struct{} { return struct{}{} })
		case "str0":
			line, bad = limitStressRound[string](max, g, iters, seed+uint64(r)*977, st, func(*atomic.Int64) string { return "" })
		case "nilptr":
			line, bad = limitStressRound[*obj](max, g, iters, seed+uint64(r)*977, st, func(*atomic.Int64) *obj { return nil })
		case "nilsl":
			line, bad = limitStressRound[[]byte](max, g, iters, seed+uint64(r)*977, st, func(*atomic.Int64) []byte { return nil })
		case "nilfn":
			line, bad = limitStressRound[func()](max, g, iters, seed+uint64(r)*977, st, func(*atomic.Int64) func() { return nil })
		case "val":
			line, bad = limitStressRound[obj](max, g, iters, seed+uint64(r)*977, st, func(c *atomic.Int64) obj { return obj{id: c.Add(1) - 1} })
		default:
			line, bad = limitStressRound[*obj](max, g, iters, seed+uint64(r)*977, st, func(c *atomic.Int64) *obj { return &obj{id: c.Add(1)} })
		}
		if bad {
			break
		}
	}
	return line
}

func limitStressRound[T any](max, g, iters int, seed uint64, st *stats, mk func(*atomic.Int64) T) (string, bool) {
	var created atomic.Int64
	p := syncx.NewLimitPool[T](max, func() T { return mk(&created) })
	var outstanding, hw, succ, fail atomic.Int64
	var panicked atomic.Value
	var wg sync.WaitGroup
	start := make(chan struct{})
	for i := 0; i < g; i++ {
		wg.Add(1)
		go func(gid int) {
			defer wg.Done()
			defer notePanic(&panicked)
			r := vlib.NewRng(seed*1000003 + uint64(gid))
			<-start
			for it := 0; it < iters; it++ {
				x, ok := p.Get()
				if !ok {
					fail.Add(1)
					if r.Chance(20) {
						runtime.Gosched()
					}
					continue
				}
				n := outstanding.Add(1)
				for {
					h := hw.Load()
					if n <= h || hw.CompareAndSwap(h, n) {
						break
					}
				}
				succ.Add(1)
				if r.Chance(50) {
					runtime.Gosched()
				}
				outstanding.Add(-1)
				p.Put(x)
			}
		}(i)
	}
	close(start)
	wg.Wait()
	if m := panicked.Load(); m != nil {
		return "panic=" + m.(string), true
	}
	// quiescent, everything put back: exactly max further Gets must succeed, the next must fail
	finalGets := 0
	extra := "ok"
	var got []T
	for i := 0; i < max+1; i++ {
		x, ok := p.Get()
		if ok {
			finalGets++
			got = append(got, x)
		} else if i == max {
			extra = "fail"
		}
	}
	for _, x := range got {
		p.Put(x)
	}
	if int(hw.Load()) > st.MaxHW {
		st.MaxHW = int(hw.Load())
	}
	st.StressOps += succ.Load() + fail.Load()
	bad := int(hw.Load()) > max || finalGets != max || extra != "fail"
	return fmt.Sprintf("hw=%d finalgets=%d extra=%s succ=%d fail=%d tokens=%d", hw.Load(), finalGets, extra, succ.Load(), fail.Load(), p.VerifTokens()), bad
}

func segStress(size, nkeys, g, iters int, seed uint64, st *stats) string {
	const rounds = 2
	var line string
	for r := 0; r < rounds; r++ {
		var bad bool
		line, bad = segStressRound(size, nkeys, g, iters, seed+uint64(r)*977, st)
		if bad {
			break
		}
	}
	return line
}

func segStressRound(size, nkeys, g, iters int, seed uint64, st *stats) (string, bool) {
	s := syncx.NewSegmentKeysLock(uint32(size))
	keys := make([][]byte, nkeys)
	for i := range keys {
		keys[i] = []byte(fmt.Sprintf("k%d-é", i))
	}
	if nkeys >= 4 {
		keys[3] = []byte{} // the empty key is a key like any other
	}
	// equal contents in distinct allocations must select the same mutex; if they do not, a
	// Lock/Unlock pair would release a mutex that is not held (an unrecoverable Go fatal error), so
	// report that instead of running the workload
	unstable := false
	if p := vlib.Catch(func() {
		for _, kb := range keys {
			i := s.VerifIndex(fresh(kb))
			for n := 0; n < 8; n++ {
				if s.VerifIndex(fresh(kb)) != i || s.VerifIndex(("p" + string(kb))[1:]) != i {
					unstable = true
				}
			}
		}
	}); p != "" {
		return "panic=" + strings.TrimPrefix(p, "panic:"), true
	}
	if unstable {
		return "viol=0 freefail=0 unstable=1", true
	}
	// sequential sanity probe (a broken Lock would otherwise end in Go's unrecoverable
	// "Unlock of unlocked RWMutex" inside the workload): while Lock(k) is held, TryLock/TryRLock fail
	probeViol := 0
	if p := vlib.Catch(func() {
		for _, kb := range keys {
			k := fresh(kb)
			s.Lock(k)
			for n := 0; n < 8 && probeViol == 0; n++ {
				if s.TryRLock(fresh(kb)) || s.TryLock(("p" + string(kb))[1:]) {
					probeViol++
				}
			}
			if probeViol != 0 {
				return // which mutexes are held is unknown now: release nothing
			}
			s.Unlock(k) // the very string that was locked
		}
	}); p != "" {
		return "panic=" + strings.TrimPrefix(p, "panic:"), true
	}
	if probeViol != 0 {
		return fmt.Sprintf("viol=%d freefail=0 probe=1", probeViol), true
	}
	writers := make([]atomic.Int32, nkeys)
	readers := make([]atomic.Int32, nkeys)
	owner := make([]int, nkeys) // plain variable: written under Lock, read under RLock (race detector probe)
	var viol, acq, tryfail atomic.Int64
	var abort atomic.Bool
	var panicked atomic.Value
	var wg sync.WaitGroup
	start := make(chan struct{})
	for i := 0; i < g; i++ {
		wg.Add(1)
		go func(gid int) {
			defer wg.Done()
			defer notePanic(&panicked)
			r := vlib.NewRng(seed*7919 + uint64(gid))
			// the bodies return false when they found somebody else inside on entry: this goroutine
			// then does not own the lock it believes it holds, so it must not release it (Go's
			// "Unlock of unlocked RWMutex" is unrecoverable) and the round is abandoned
			writeBody := func(j int) bool {
				if writers[j].Add(1) != 1 || readers[j].Load() != 0 {
					viol.Add(1)
					abort.Store(true)
					return false
				}
				owner[j] = gid + 1
				if r.Chance(40) {
					runtime.Gosched()
				}
				if owner[j] != gid+1 || readers[j].Load() != 0 {
					viol.Add(1)
					abort.Store(true)
				}
				writers[j].Add(-1)
				return true
			}
			readBody := func(j int) bool {
				readers[j].Add(1)
				if writers[j].Load() != 0 {
					viol.Add(1)
					abort.Store(true)
					return false
				}
				_ = owner[j]
				if r.Chance(40) {
					runtime.Gosched()
				}
				if writers[j].Load() != 0 {
					viol.Add(1)
					abort.Store(true)
				}
				readers[j].Add(-1)
				return true
			}
			<-start
			for it := 0; it < iters && !abort.Load(); it++ {
				j := r.Intn(nkeys)
				switch r.Intn(4) {
				case 0:
					s.Lock(fresh(keys[j]))
					acq.Add(1)
					if !writeBody(j) {
						return
					}
					s.Unlock(fresh(keys[j]))
				case 1:
					s.RLock(fresh(keys[j]))
					acq.Add(1)
					if !readBody(j) {
						return
					}
					s.RUnlock(fresh(keys[j]))
				case 2:
					if s.TryLock(fresh(keys[j])) {
						acq.Add(1)
						if !writeBody(j) {
							return
						}
						s.Unlock(fresh(keys[j]))
					} else {
						tryfail.Add(1)
					}
				default:
					if s.TryRLock(fresh(keys[j])) {
						acq.Add(1)
						if !readBody(j) {
							return
						}
						s.RUnlock(fresh(keys[j]))
					} else {
						tryfail.Add(1)
					}
				}
			}
		}(i)
	}
	close(start)
	// wait for the workers; once a violation was seen some of them may be blocked for good on a lock
	// that is deliberately not released, so give up waiting shortly after
	done := make(chan struct{})
	go func() { wg.Wait(); close(done) }()
	for waited := 0; ; {
		select {
		case <-done:
		case <-time.After(50 * time.Millisecond):
			if abort.Load() {
				waited++
			}
			if waited < 20 {
				continue
			}
		}
		break
	}
	if m := panicked.Load(); m != nil {
		return "panic=" + m.(string), true
	}
	if abort.Load() {
		return fmt.Sprintf("viol=%d freefail=0 acq=%d tryfail=%d aborted=1", viol.Load(), acq.Load(), tryfail.Load()), true
	}
	// nothing is held now: every TryLock must succeed
	freefail := 0
	for j := range keys {
		if s.TryLock(fresh(keys[j])) {
			s.Unlock(fresh(keys[j]))
		} else {
			freefail++
		}
	}
	st.StressOps += acq.Load() + tryfail.Load()
	return fmt.Sprintf("viol=%d freefail=%d acq=%d tryfail=%d", viol.Load(), freefail, acq.Load(), tryfail.Load()), viol.Load() != 0 || freefail != 0
}

// firstUseKeys: empty / short / non-ASCII / long keys for the first-use rounds
var firstUseKeys = [][]byte{{}, []byte("a"), []byte("key1"), []byte("键值-é"), []byte(strings.Repeat("long-key/", 40))}

// spinBarrier releases its n participants as simultaneously as the machine allows
type spinBarrier struct {
	n   int32
	cnt atomic.Int32
}

func (b *spinBarrier) wait() {
	b.cnt.Add(1)
	for i := 0; b.cnt.Load() < b.n; i++ {
		if i%2000 == 1999 {
			runtime.Gosched() // more participants than processors: do not starve the late ones
		}
	}
}

// segFirstUse is the directed black-box scenario for races on the FIRST use of a segment: every round
// creates a fresh SegmentKeysLock that nothing has touched (no probe, no hook call), releases g
// goroutines from a spin barrier and lets them all go for the same key (equal contents, one
// allocation per goroutine).  Laws (all from the property, nothing white-box):
//   - while nobody has unlocked, at most one TryLock/Lock on the key has succeeded, and a successful
//     TryRLock only ever coexists with other readers (multi = 0);
//   - inside Lock(k) … Unlock(k) nobody else is inside (owner probe; viol = 0);
//   - after the winners have unlocked (each with the very string it locked), TryLock on fresh
//     allocations of the key succeeds: nothing is left locked (leftlocked = 0).
//
// Zero winners among concurrent Try-calls are not flagged.  The first round that breaks a law ends
// the scenario without any further unlock (an Unlock that resolves to another mutex is Go's
// unrecoverable "Unlock of unlocked RWMutex"); if that fatal error happens anyway the check's crash
// path reports this case.
func segFirstUse(size, g, rounds int, variant string, seed uint64, st *stats) string {
	r := vlib.NewRng(seed*104729 + 17)
	zero, done := 0, 0
	report := func(multi, viol, left int, extra string) string {
		return fmt.Sprintf("multi=%d viol=%d leftlocked=%d done=%d zero=%d%s", multi, viol, left, done, zero, extra)
	}
	for round := 0; round < rounds; round++ {
		kb := firstUseKeys[(round+int(seed))%len(firstUseKeys)]
		s := syncx.NewSegmentKeysLock(uint32(size)) // fresh: the goroutines below make the very first access
		bar := &spinBarrier{n: int32(g)}
		keys := make([]string, g)
		for i := range keys {
			keys[i] = fresh(kb)
		}
		var panicked atomic.Value
		var wg sync.WaitGroup
		switch variant {
		case "lock":
			// blocking Lock with an owner probe; a goroutine that saw company does not unlock
			var inside, viol, arrived atomic.Int32
			spin := r.Range(50, 400)
			for i := 0; i < g; i++ {
				wg.Add(1)
				go func(i int) {
					defer wg.Done()
					defer notePanic(&panicked)
					bar.wait()
					arrived.Add(1)
					s.Lock(keys[i])
					if inside.Add(1) != 1 {
						viol.Add(1)
						return
					}
					// stay inside until everybody has at least reached its Lock call (they arrive
					// before calling it, so this cannot deadlock) and a little longer: a goroutine
					// that wrongly got past Lock shows up here before anybody unlocks
					for k := 0; (arrived.Load() < int32(g) || k < spin) && viol.Load() == 0; k++ {
						if inside.Load() != 1 {
							viol.Add(1)
							return
						}
						if k%500 == 499 {
							runtime.Gosched()
						}
					}
					runtime.Gosched()
					// black-box self-check before releasing: while this goroutine holds Lock(k), TryLock
					// on equal contents fails (if it succeeds the lock taken above is not the one the
					// key resolves to, and the Unlock below would hit another mutex)
					if inside.Load() != 1 || s.TryLock(fresh(kb)) {
						viol.Add(1)
					}
					if viol.Load() != 0 {
						return
					}
					inside.Add(-1)
					s.Unlock(keys[i])
				}(i)
			}
			// a violation leaves goroutines blocked on a mutex that is deliberately not released
			fin := make(chan struct{})
			go func() { wg.Wait(); close(fin) }()
			for waited := 0; ; {
				select {
				case <-fin:
				case <-time.After(20 * time.Millisecond):
					if viol.Load() != 0 {
						waited++
					}
					if waited < 10 {
						continue
					}
				}
				break
			}
			if m := panicked.Load(); m != nil {
				return "panic=" + m.(string)
			}
			if viol.Load() != 0 {
				return report(0, int(viol.Load()), 0, fmt.Sprintf(" round=%d keylen=%d", round, len(kb)))
			}
		default:
			// try: everybody TryLocks; mix: odd goroutines TryRLock
			won := make([]bool, g)
			read := make([]bool, g)
			for i := 0; i < g; i++ {
				read[i] = variant == "mix" && i%2 == 1
				wg.Add(1)
				go func(i int) {
					defer wg.Done()
					defer notePanic(&panicked)
					bar.wait()
					if read[i] {
						won[i] = s.TryRLock(keys[i])
					} else {
						won[i] = s.TryLock(keys[i])
					}
				}(i)
			}
			wg.Wait() // everybody has tried, nobody has unlocked
			if m := panicked.Load(); m != nil {
				return "panic=" + m.(string)
			}
			writers, readers := 0, 0
			for i := range won {
				if won[i] && read[i] {
					readers++
				} else if won[i] {
					writers++
				}
			}
			if writers > 1 || (writers == 1 && readers > 0) {
				return report(1, 0, 0, fmt.Sprintf(" round=%d keylen=%d writers=%d readers=%d", round, len(kb), writers, readers))
			}
			if writers+readers == 0 {
				zero++
			}
			// unlock phase last, each winner with the very string it locked; while some winner
			// (a reader among several) still holds, TryLock on equal contents must keep failing —
			// checked after every release but the last, so that readers that do not share one mutex
			// are noticed before a release can hit a mutex nobody holds
			var winners []int
			for i := range won {
				if won[i] {
					winners = append(winners, i)
				}
			}
			early := false
			if p := vlib.Catch(func() {
				for n, i := range winners {
					if read[i] {
						s.RUnlock(keys[i])
					} else {
						s.Unlock(keys[i])
					}
					if n < len(winners)-1 && s.TryLock(fresh(kb)) {
						early = true
						return
					}
				}
			}); p != "" {
				return "panic=" + strings.TrimPrefix(p, "panic:")
			}
			if early {
				return report(1, 0, 0, fmt.Sprintf(" round=%d keylen=%d writers=%d readers=%d trylock-succeeded-while-a-reader-still-held=1",
					round, len(kb), writers, readers))
			}
		}
		// nothing is held any more: TryLock on new allocations of the key succeeds
		left := 0
		if p := vlib.Catch(func() {
			for n := 0; n < 2; n++ {
				k := fresh(kb)
				if s.TryLock(k) {
					s.Unlock(k)
				} else {
					left++
				}
			}
		}); p != "" {
			return "panic=" + strings.TrimPrefix(p, "panic:")
		}
		done++
		st.StressOps += int64(g)
		if left != 0 {
			return report(0, 0, left, fmt.Sprintf(" round=%d keylen=%d", round, len(kb)))
		}
	}
	return report(0, 0, 0, "")
}

// notePanic records a panic of a stress goroutine instead of letting it kill the process
func notePanic(v *atomic.Value) {
	if r := recover(); r != nil {
		v.Store(strings.ReplaceAll(fmt.Sprint(r), " ", "_"))
	}
}

func kv(ws []string, key string) int {
	for _, w := range ws {
		if strings.HasPrefix(w, key+"=") {
			v, _ := strconv.Atoi(w[len(key)+1:])
			return v
		}
	}
	return 0
}

// lineOut writes the trace and flushes at every case boundary and before every call that could
// take the process down (a Go fatal error such as "Unlock of unlocked RWMutex" cannot be recovered),
// so that the check can tell which case was running.
type lineOut struct {
	f *os.File
	w *bufio.Writer
}

func createOut(path string) *lineOut {
	f, err := os.Create(path)
	if err != nil {
		panic(err)
	}
	return &lineOut{f: f, w: bufio.NewWriterSize(f, 1<<16)}
}
func (o *lineOut) Line(format string, a ...any) {
	fmt.Fprintf(o.w, format, a...)
	o.w.WriteByte('\n')
}
func (o *lineOut) Flush() { o.w.Flush() }
func (o *lineOut) Close() { o.w.Flush(); o.f.Close() }

// hang: a call on the real object did not return; report and stop (the worker is lost)
func hang(out *lineOut, line string) {
	out.Line("%s => hung", line)
	out.Close()
	fmt.Println("call did not return within the deadline:", line)
	os.Exit(3)
}

func run(ops []string, out *lineOut, st *stats) {
	wk := newWorkers(nThreads)
	var lc *limitCase
	var sc *segCase
	seen := map[string]struct{}{}
	seed := vlib.Seed()
	for n, line := range ops {
		w := strings.Fields(line)
		st.Ops[w[0]]++
		st.Lines++
		if w[0] == "new" {
			out.Flush()
			st.Cases++
			st.Kinds[w[1]]++
			lc, sc = nil, nil
			switch w[1] {
			case "limit":
				max, _ := strconv.Atoi(w[2])
				c := &limitCase{max: max, created: &atomic.Int64{}}
				st.Kinds["limit/"+kindOf(w)]++
				p := vlib.Catch(func() { c.p = newLim(kindOf(w), max, c.created) })
				if p != "" {
					out.Line("%s => %s", line, p)
					continue
				}
				lc = c
				st.MaxTokens[w[2]]++
				out.Line("%s => ok tokens=%d created=%d", line, lc.p.Tokens(), lc.created.Load())
			case "limitstress":
				st.MaxTokens[strconv.Itoa(kv(w, "max"))]++
				out.Line("%s => %s", line, limitStress(kindOf(w), kv(w, "max"), kv(w, "g"), kv(w, "iters"), seed+uint64(n), st))
			case "seg":
				size, _ := strconv.Atoi(w[2])
				c := &segCase{size: size, segs: map[int]*segState{}, holds: map[string]int{}, at: map[string][]int{}, byIdx: map[int]map[string]bool{}}
				p := vlib.Catch(func() { c.s = syncx.NewSegmentKeysLock(uint32(size)) })
				if p != "" {
					out.Line("%s => %s", line, p)
					continue
				}
				sc = c
				st.Sizes[w[2]]++
				out.Line("%s => ok", line)
			case "segfirst":
				st.Sizes[strconv.Itoa(kv(w, "size"))]++
				variant := "try"
				for _, x := range w {
					if strings.HasPrefix(x, "variant=") {
						variant = x[len("variant="):]
					}
				}
				out.Line("%s => %s", line, segFirstUse(kv(w, "size"), kv(w, "g"), kv(w, "rounds"), variant, seed+uint64(n), st))
			case "segstress":
				st.Sizes[strconv.Itoa(kv(w, "size"))]++
				out.Line("%s => %s", line, segStress(kv(w, "size"), kv(w, "keys"), kv(w, "g"), kv(w, "iters"), seed+uint64(n), st))
			default:
				panic("kind " + w[1])
			}
			continue
		}
		switch {
		case lc != nil && (w[0] == "get" || w[0] == "put"):
			t, _ := strconv.Atoi(w[1])
			before := fmt.Sprintf("limit max=%d tokens=%d borrowed=%d", lc.max, lc.p.Tokens(), lc.p.Borrowed())
			var res string
			if w[0] == "get" {
				var ok bool
				p, fin := wk.do(t, func() { ok = lc.p.Get() })
				switch {
				case !fin:
					hang(out, line)
				case p != "":
					res = p
				default:
					res = strconv.FormatBool(ok)
				}
			} else if lc.p.Borrowed() == 0 {
				res = "skip"
			} else {
				p, fin := wk.do(t, func() { lc.p.PutLast() })
				switch {
				case !fin:
					hang(out, line)
				case p != "":
					res = p
				default:
					res = "ok"
				}
			}
			st.Results[w[0]+"/"+res]++
			after := fmt.Sprintf("limit max=%d tokens=%d borrowed=%d", lc.max, lc.p.Tokens(), lc.p.Borrowed())
			if before != after || res == "false" || res == "skip" {
				seen[before+"|"+w[0]] = struct{}{}
			}
			if res == "skip" {
				out.Line("%s => skip", line)
			} else {
				out.Line("%s => %s tokens=%d created=%d", line, res, lc.p.Tokens(), lc.created.Load())
			}
		case sc != nil && w[0] == "idx":
			kb := unhx(w[1])
			st.KeyLens[lenBucket(len(kb))]++
			if !whiteBox {
				// no index observable: check the law itself when nothing is held — equal contents in
				// distinct allocations exclude each other
				excl := "skip"
				_, _, anyW, anyR := sc.heldCounts(w[1])
				if anyW == 0 && anyR == 0 && !sc.corrupt {
					p := vlib.Catch(func() {
						k1 := string(kb)
						if sc.s.TryLock(k1) {
							a, b := false, false
							for n := 0; n < 8 && !a && !b; n++ {
								a = sc.s.TryLock(fresh(kb))
								b = !a && sc.s.TryRLock(("prefix-" + string(kb) + "-suffix")[7:7+len(kb)])
							}
							if a || b {
								excl = "false"
								sc.corrupt = true // do not release: which mutex is held is unknown
							} else {
								excl = "true"
								sc.s.Unlock(k1) // the very string that was locked: cannot miss the mutex
							}
						}
					})
					if p != "" {
						out.Line("%s => %s", line, p)
						continue
					}
				}
				st.Results["idx/blackbox"]++
				out.Line("%s => blackbox excl=%s", line, excl)
				continue
			}
			var i, j int
			p := vlib.Catch(func() {
				k1 := string(kb)
				k2 := fresh(kb)
				k3 := ("prefix-" + string(kb) + "-suffix")[7 : 7+len(kb)] // a substring of another allocation
				i = sc.s.VerifIndex(k1)
				j = sc.s.VerifIndex(k2)
				if x := sc.s.VerifIndex(k3); x != i {
					j = x
				}
			})
			if p != "" {
				out.Line("%s => %s", line, p)
				continue
			}
			if sc.byIdx[i] == nil {
				sc.byIdx[i] = map[string]bool{}
			}
			if !sc.byIdx[i][w[1]] {
				if len(sc.byIdx[i]) > 0 {
					st.Collisions++
				}
				sc.byIdx[i][w[1]] = true
			}
			st.Results["idx"]++
			out.Line("%s => i=%d j=%d", line, i, j)
		case sc != nil && len(w) == 3:
			t, _ := strconv.Atoi(w[1])
			kb := unhx(w[2])
			st.KeyLens[lenBucket(len(kb))]++
			before := sc.dump()
			// one fresh allocation per call: the index probe and the call itself see the same string
			key := fresh(kb)
			var idx int
			if p := vlib.Catch(func() { idx = sc.s.VerifIndex(key) }); p != "" {
				out.Line("%s => %s", line, p)
				continue
			}
			sg := sc.seg(idx)
			hk := func(write bool) string { return fmt.Sprintf("%d|%s|%v", t, w[2], write) }
			// would a blocking call block / does an obtained lock contradict the harness's record?
			// white-box: per real segment; black-box: a blocking call is only made when it cannot
			// block under any hashing (nothing conflicting held at all), contradictions per equal key
			kw, kr, anyW, anyR := sc.heldCounts(w[2])
			wBusy, rBusy := sg.w || sg.r > 0, sg.w
			wContra, rContra := wBusy, rBusy
			if !whiteBox {
				wBusy, rBusy = anyW > 0 || anyR > 0, anyW > 0
				wContra, rContra = kw > 0 || kr > 0, kw > 0
			}
			if sc.corrupt {
				out.Line("%s => notrun-exclusion-already-broken", line)
				continue
			}
			var res string
			call := func(f func()) bool { // runs f on worker t; sets res on panic / hang
				out.Flush()
				p, fin := wk.do(t, f)
				if !fin {
					hang(out, line)
				}
				if p != "" {
					res = p
					return false
				}
				return true
			}
			switch w[0] {
			case "lock":
				if wBusy {
					res = "wouldblock"
				} else if call(func() { sc.s.Lock(key) }) {
					sg.w = true
					sc.holds[hk(true)]++
					sc.at[hk(true)] = append(sc.at[hk(true)], idx)
					res = "ok"
					// white-box probe: right after Lock(k) returned, TryRLock on equal contents fails
					var shared bool
					if call(func() { shared = sc.s.TryRLock(fresh(kb)) }) {
						res = "ok probe=" + strconv.FormatBool(shared)
						sc.corrupt = shared
					}
				}
			case "rlock":
				if rBusy {
					res = "wouldblock"
				} else if call(func() { sc.s.RLock(key) }) {
					sg.r++
					sc.holds[hk(false)]++
					sc.at[hk(false)] = append(sc.at[hk(false)], idx)
					res = "ok"
				}
			case "trylock":
				var ok bool
				if call(func() { ok = sc.s.TryLock(key) }) {
					res = strconv.FormatBool(ok)
					if ok {
						sc.corrupt = wContra
						sg.w = true
						sc.holds[hk(true)]++
						sc.at[hk(true)] = append(sc.at[hk(true)], idx)
					}
				}
			case "tryrlock":
				var ok bool
				if call(func() { ok = sc.s.TryRLock(key) }) {
					res = strconv.FormatBool(ok)
					if ok {
						sc.corrupt = rContra
						sg.r++
						sc.holds[hk(false)]++
						sc.at[hk(false)] = append(sc.at[hk(false)], idx)
					}
				}
			case "unlock", "runlock":
				write := w[0] == "unlock"
				h := hk(write)
				if sc.holds[h] == 0 {
					res = "notheld"
					break
				}
				was := sc.at[h][len(sc.at[h])-1]
				if was != idx {
					// equal contents now select another mutex than at acquisition: releasing would
					// hit a mutex that is not held (an unrecoverable Go fatal error) — report instead
					res = fmt.Sprintf("moved:%d:%d", was, idx)
					break
				}
				if write {
					if call(func() { sc.s.Unlock(key) }) {
						sg.w = false
						res = "ok"
					}
				} else if call(func() { sc.s.RUnlock(key) }) {
					sg.r--
					res = "ok"
				}
				if res == "ok" {
					sc.holds[h]--
					sc.at[h] = sc.at[h][:len(sc.at[h])-1]
				}
			default:
				panic("op " + w[0])
			}
			st.Results[w[0]+"/"+strings.Fields(strings.SplitN(res, ":", 2)[0])[0]]++
			if after := sc.dump(); after != before || res == "false" || res == "wouldblock" || res == "notheld" {
				seen[fmt.Sprintf("seg%d|%s|%s %d %s", sc.size, before, w[0], t, w[2])] = struct{}{}
			}
			out.Line("%s => %s", line, res)
		default:
			out.Line("%s => no-object", line)
		}
	}
	st.Distinct = len(seen)
}

func main() {
	mode := flag.String("mode", "gen", "gen|run")
	tier := flag.String("tier", "quick", "quick|thorough")
	opsF := flag.String("ops", "", "ops file (run mode)")
	outF := flag.String("out", "", "output file")
	statsF := flag.String("stats", "", "stats json (run mode)")
	flag.Parse()
	switch *mode {
	case "gen":
		out := vlib.Create(*outF)
		defer out.Close()
		gen(*tier, out)
	case "run":
		out := createOut(*outF)
		defer out.Close()
		st := &stats{Ops: map[string]int{}, Results: map[string]int{}, Kinds: map[string]int{}, Sizes: map[string]int{},
			MaxTokens: map[string]int{}, KeyLens: map[string]int{}}
		run(vlib.ReadLines(*opsF), out, st)
		if *statsF != "" {
			b, _ := json.MarshalIndent(st, "", " ")
			os.WriteFile(*statsF, b, 0o644)
		}
	}
}
