// minigoll: Go -> Lean translator for list/linked_list.go (second MiniGo instance, lean/Ekit/MiniGo/LangLL.lean).
//
// Like harness/minigo it re-reads the CURRENT source on every run and prints the functions of the file as terms of a deep
// embedding; all semantics lives in the Lean interpreter.  Subset: methods of the list type (receiver = implicit state:
// fields head/tail/length) and plain functions; locals; `x := e`, `x = e`, `var x T`, `p.f = e`, the parallel form
// `a.f, b.g = x, y`, `l.length++/--`, `i++/i--` on locals; if/else, `for cond {}`, the three-clause `for init; cond; post {}`
// (without `continue` in its body), `for _, t := range ts` over the variadic parameter, return with 0-2 results; nil, integer
// literals (also negated), `== != < > <= >= && || ! + - /`, field reads, calls of the file's functions with up to two
// arguments (`l.Append(t)` passes the one-element slice), `&node{…}`, `errs.NewErrIndexOutOfRange(a, b)`, and the constructor's
// `return &LinkedList[T]{head: h, tail: t}`.  `Range`, `AsSlice` (closures / result slices) and `NewLinkedListOf` are skipped:
// they assign no field.  Anything else makes the translator FAIL (exit 3) = broken obligation.
//
//	minigoll -root <repo> -out <lean file>
package main

import (
	"flag"
	"fmt"
	"go/ast"
	"go/parser"
	"go/token"
	"os"
	"path/filepath"
	"sort"
	"strings"
)

func fail(format string, a ...any) {
	fmt.Fprintf(os.Stderr, "minigoll: unsupported: "+format+"\n", a...)
	os.Exit(3)
}

var skip = map[string]bool{"Range": true, "AsSlice": true, "NewLinkedListOf": true}

var fields = map[string]bool{"prev": true, "next": true, "val": true}

var recvFields = map[string]bool{"head": true, "tail": true, "length": true}

type fn struct {
	decl     *ast.FuncDecl
	name     string
	recvKind string // "tree", "node", ""
	recvName string
}

type tr struct {
	fset     *token.FileSet
	treeT    string
	nodeT    string
	consts   map[string]string // Red/Black -> ".bool false"
	errs     map[string]int
	fns      map[string]*fn
	cur      *fn
	vars     map[string]int
	varNames []string
	scopes   []map[string]bool // names declared in the blocks that are open right now
}

func (t *tr) pos(n ast.Node) string { return t.fset.Position(n.Pos()).String() }

func (t *tr) v(name string, declare bool) int {
	if i, ok := t.vars[name]; ok {
		return i
	}
	if !declare {
		fail("%s: unknown identifier %s", t.cur.name, name)
	}
	i := len(t.varNames)
	t.vars[name] = i
	t.varNames = append(t.varNames, name)
	return i
}

func baseTypeName(e ast.Expr) string {
	switch x := e.(type) {
	case *ast.StarExpr:
		return baseTypeName(x.X)
	case *ast.IndexListExpr:
		return baseTypeName(x.X)
	case *ast.IndexExpr:
		return baseTypeName(x.X)
	case *ast.Ident:
		return x.Name
	}
	return ""
}

func calleeName(e ast.Expr) (ast.Expr, string) { // (receiver expr or nil, name)
	switch x := e.(type) {
	case *ast.SelectorExpr:
		return x.X, x.Sel.Name
	case *ast.Ident:
		return nil, x.Name
	case *ast.IndexListExpr:
		return calleeName(x.X)
	case *ast.IndexExpr:
		return calleeName(x.X)
	case *ast.ParenExpr:
		return calleeName(x.X)
	}
	return nil, ""
}

func (t *tr) isTreeRecv(e ast.Expr) bool {
	id, ok := e.(*ast.Ident)
	return ok && t.cur.recvKind == "tree" && id.Name == t.cur.recvName
}

func (t *tr) call(name string, args []string, at ast.Node) string {
	f, ok := t.fns[name]
	if !ok {
		fail("%s: call of %s, which is not a translated function of the file", t.pos(at), name)
	}
	want := f.decl.Type.Params.NumFields()
	if f.recvKind == "node" {
		want++
	}
	if want != len(args) {
		fail("%s: call of %s with %d arguments (want %d)", t.pos(at), name, len(args), want)
	}
	switch len(args) {
	case 0:
		return fmt.Sprintf("(.call0 .%s)", name)
	case 1:
		return fmt.Sprintf("(.call1 .%s %s)", name, args[0])
	case 2:
		return fmt.Sprintf("(.call2 .%s %s %s)", name, args[0], args[1])
	}
	fail("%s: more than two arguments", t.pos(at))
	return ""
}

func (t *tr) expr(e ast.Expr) string {
	switch x := e.(type) {
	case *ast.ParenExpr:
		return t.expr(x.X)
	case *ast.Ident:
		switch x.Name {
		case "nil":
			return ".nil"
		case "true":
			return "(.bool true)"
		case "false":
			return "(.bool false)"
		}
		if c, ok := t.consts[x.Name]; ok {
			return c
		}
		if c, ok := t.errs[x.Name]; ok {
			return fmt.Sprintf("(.err %d)", c)
		}
		if t.isTreeRecv(x) {
			fail("%s: the tree receiver used as a value", t.pos(x))
		}
		return fmt.Sprintf("(.var %d)", t.v(x.Name, false))
	case *ast.BasicLit:
		if x.Kind != token.INT {
			fail("%s: literal %s", t.pos(x), x.Value)
		}
		return fmt.Sprintf("(.int %s)", x.Value)
	case *ast.SelectorExpr:
		if t.isTreeRecv(x.X) {
			if recvFields[x.Sel.Name] {
				return "." + x.Sel.Name
			}
			fail("%s: list field %s", t.pos(x), x.Sel.Name)
		}
		if !fields[x.Sel.Name] {
			fail("%s: selector .%s", t.pos(x), x.Sel.Name)
		}
		return fmt.Sprintf("(.field %s .%s)", t.expr(x.X), x.Sel.Name)
	case *ast.CallExpr:
		recv, name := calleeName(x.Fun)
		if name == "" {
			fail("%s: call form", t.pos(x))
		}
		if id, ok := recv.(*ast.Ident); ok && id.Name == "errs" && name == "NewErrIndexOutOfRange" && len(x.Args) == 2 {
			return fmt.Sprintf("(.errIdx %s %s)", t.expr(x.Args[0]), t.expr(x.Args[1]))
		}
		if x.Ellipsis.IsValid() {
			fail("%s: call with a spread argument", t.pos(x))
		}
		var args []string
		if recv != nil && t.isTreeRecv(recv) {
			if f, ok := t.fns[name]; !ok || f.recvKind != "tree" {
				fail("%s: %s is not a method of the tree type", t.pos(x), name)
			}
		} else if recv != nil {
			if f, ok := t.fns[name]; !ok || f.recvKind != "node" {
				fail("%s: %s is not a method of the node type", t.pos(x), name)
			}
			args = append(args, t.expr(recv))
		} else {
			if f, ok := t.fns[name]; !ok || f.recvKind != "" {
				fail("%s: %s is not a plain function of the file", t.pos(x), name)
			}
		}
		f := t.fns[name]
		for i, a := range x.Args {
			// a variadic parameter receives the one-element slice of its single argument
			if pl := f.decl.Type.Params.List; i < len(pl) {
				if _, variadic := pl[i].Type.(*ast.Ellipsis); variadic {
					if len(x.Args) != len(pl) {
						fail("%s: variadic call with other than one value", t.pos(x))
					}
					args = append(args, fmt.Sprintf("(.single %s)", t.expr(a)))
					continue
				}
			}
			args = append(args, t.expr(a))
		}
		return t.call(name, args, x)
	case *ast.BinaryExpr:
		ops := map[token.Token]string{token.EQL: "eq", token.NEQ: "ne", token.LSS: "lt", token.GTR: "gt",
			token.LEQ: "le", token.GEQ: "ge", token.LAND: "and", token.LOR: "or", token.ADD: "add", token.SUB: "sub", token.QUO: "div"}
		op, ok := ops[x.Op]
		if !ok {
			fail("%s: operator %s", t.pos(x), x.Op)
		}
		return fmt.Sprintf("(.%s %s %s)", op, t.expr(x.X), t.expr(x.Y))
	case *ast.UnaryExpr:
		switch x.Op {
		case token.SUB:
			if bl, ok := x.X.(*ast.BasicLit); ok && bl.Kind == token.INT {
				return fmt.Sprintf("(.int (-%s))", bl.Value)
			}
			fail("%s: unary minus of a non-literal", t.pos(x))
		case token.NOT:
			return fmt.Sprintf("(.not %s)", t.expr(x.X))
		case token.AND:
			cl, ok := x.X.(*ast.CompositeLit)
			if !ok || baseTypeName(cl.Type) != t.nodeT {
				fail("%s: & of something that is not a %s literal", t.pos(x), t.nodeT)
			}
			vals := map[string]string{"prev": ".nil", "next": ".nil", "val": "(.int 0)"}
			for _, el := range cl.Elts {
				kv, ok := el.(*ast.KeyValueExpr)
				if !ok {
					fail("%s: positional composite literal", t.pos(el))
				}
				k, ok := kv.Key.(*ast.Ident)
				if !ok || !fields[k.Name] {
					fail("%s: literal key", t.pos(kv))
				}
				vals[k.Name] = t.expr(kv.Value)
			}
			return fmt.Sprintf("(.alloc %s %s %s)", vals["prev"], vals["next"], vals["val"])
		}
		fail("%s: unary %s", t.pos(x), x.Op)
	}
	fail("%s: expression %T", t.pos(e), e)
	return ""
}

func seq(ss []string) string {
	if len(ss) == 0 {
		return ".skip"
	}
	if len(ss) == 1 {
		return ss[0]
	}
	return fmt.Sprintf("(.seq %s\n    %s)", ss[0], seq(ss[1:]))
}

func (t *tr) zeroOf(ty ast.Expr) string {
	if _, ok := ty.(*ast.StarExpr); ok {
		return ".nil"
	}
	if id, ok := ty.(*ast.Ident); ok {
		switch id.Name {
		case "int":
			return "(.int 0)"
		case "bool":
			return "(.bool false)"
		case "T":
			return "(.int 0)" // elements are integers in the model
		}
	}
	fail("%s: zero value of this type", t.pos(ty))
	return ""
}

func (t *tr) assignTo(lhs ast.Expr, rhs string, define bool) string {
	switch l := lhs.(type) {
	case *ast.Ident:
		if l.Name == "_" {
			fail("%s: blank assignment", t.pos(l))
		}
		if define {
			// a name may be declared again in a sibling block (the old value is dead there); declaring it while an
			// enclosing declaration is still in scope would be shadowing, which the single variable table cannot express
			for _, sc := range t.scopes {
				if sc[l.Name] {
					fail("%s: %s declared while already in scope in %s (shadowing is outside the subset)", t.pos(l), l.Name, t.cur.name)
				}
			}
			t.scopes[len(t.scopes)-1][l.Name] = true
		}
		return fmt.Sprintf("(.assign %d %s)", t.v(l.Name, define), rhs)
	case *ast.SelectorExpr:
		if t.isTreeRecv(l.X) {
			switch l.Sel.Name {
			case "head":
				return fmt.Sprintf("(.setHead %s)", rhs)
			case "tail":
				return fmt.Sprintf("(.setTail %s)", rhs)
			case "length":
				return fmt.Sprintf("(.setLength %s)", rhs)
			}
			fail("%s: list field %s", t.pos(l), l.Sel.Name)
		}
		if !fields[l.Sel.Name] {
			fail("%s: field %s", t.pos(l), l.Sel.Name)
		}
		return fmt.Sprintf("(.setField %s .%s %s)", t.expr(l.X), l.Sel.Name, rhs)
	}
	fail("%s: assignment target", t.pos(lhs))
	return ""
}

func (t *tr) stmt(s ast.Stmt) string {
	switch x := s.(type) {
	case *ast.BlockStmt:
		t.scopes = append(t.scopes, map[string]bool{})
		var ss []string
		for _, y := range x.List {
			ss = append(ss, t.stmt(y))
		}
		t.scopes = t.scopes[:len(t.scopes)-1]
		return seq(ss)
	case *ast.AssignStmt:
		if len(x.Lhs) == 2 && len(x.Rhs) == 2 && x.Tok == token.ASSIGN {
			// `a.f, b.g = x, y`: Go evaluates the pointer operands a and b and both right-hand sides first, then assigns
			// left to right — the interpreter's setField2
			l1, ok1 := x.Lhs[0].(*ast.SelectorExpr)
			l2, ok2 := x.Lhs[1].(*ast.SelectorExpr)
			if !ok1 || !ok2 || t.isTreeRecv(l1.X) || t.isTreeRecv(l2.X) || !fields[l1.Sel.Name] || !fields[l2.Sel.Name] {
				fail("%s: parallel assignment to something other than two node fields", t.pos(x))
			}
			return fmt.Sprintf("(.setField2 %s .%s %s .%s %s %s)", t.expr(l1.X), l1.Sel.Name, t.expr(l2.X), l2.Sel.Name,
				t.expr(x.Rhs[0]), t.expr(x.Rhs[1]))
		}
		if len(x.Lhs) == 2 && len(x.Rhs) == 2 && x.Tok == token.DEFINE {
			// `cur, i := a, b` (only in skipped functions today)
			fail("%s: parallel definition", t.pos(x))
		}
		if len(x.Lhs) != 1 || len(x.Rhs) != 1 {
			fail("%s: multiple assignment", t.pos(x))
		}
		if x.Tok != token.DEFINE && x.Tok != token.ASSIGN {
			fail("%s: assignment operator %s", t.pos(x), x.Tok)
		}
		// Go: operands of the left-hand side are evaluated before the right-hand side; the interpreter's
		// setField does the same
		rhs := t.expr(x.Rhs[0])
		return t.assignTo(x.Lhs[0], rhs, x.Tok == token.DEFINE)
	case *ast.DeclStmt:
		gd, ok := x.Decl.(*ast.GenDecl)
		if !ok || gd.Tok != token.VAR {
			fail("%s: declaration", t.pos(x))
		}
		var ss []string
		for _, sp := range gd.Specs {
			vs := sp.(*ast.ValueSpec)
			if len(vs.Values) != 0 || vs.Type == nil {
				fail("%s: var with initialiser", t.pos(vs))
			}
			for _, n := range vs.Names {
				ss = append(ss, t.assignTo(n, t.zeroOf(vs.Type), true))
			}
		}
		return seq(ss)
	case *ast.IncDecStmt:
		d := "1"
		if x.Tok == token.DEC {
			d = "(-1)"
		}
		if id, ok := x.X.(*ast.Ident); ok {
			return fmt.Sprintf("(.assign %d (.add (.var %d) (.int %s)))", t.v(id.Name, false), t.v(id.Name, false), d)
		}
		sel, ok := x.X.(*ast.SelectorExpr)
		if !ok || !t.isTreeRecv(sel.X) || sel.Sel.Name != "length" {
			fail("%s: ++/-- on something other than a local or the length field", t.pos(x))
		}
		return fmt.Sprintf("(.setLength (.add .length (.int %s)))", d)
	case *ast.ExprStmt:
		return fmt.Sprintf("(.expr %s)", t.expr(x.X))
	case *ast.IfStmt:
		var pre []string
		t.scopes = append(t.scopes, map[string]bool{})
		if x.Init != nil {
			pre = append(pre, t.stmt(x.Init))
		}
		c := t.expr(x.Cond)
		th := t.stmt(x.Body)
		el := ".skip"
		if x.Else != nil {
			el = t.stmt(x.Else)
		}
		t.scopes = t.scopes[:len(t.scopes)-1]
		return seq(append(pre, fmt.Sprintf("(.ite %s\n    %s\n    %s)", c, th, el)))
	case *ast.ForStmt:
		if x.Cond == nil {
			fail("%s: loop without condition", t.pos(x))
		}
		if x.Init == nil && x.Post == nil {
			return fmt.Sprintf("(.loop %s\n    %s)", t.expr(x.Cond), t.stmt(x.Body))
		}
		// `for init; cond; post { body }` = init; for cond { body; post } when the body has no `continue`
		hasContinue := false
		ast.Inspect(x.Body, func(n ast.Node) bool {
			if b, ok := n.(*ast.BranchStmt); ok && b.Tok == token.CONTINUE {
				hasContinue = true
			}
			return true
		})
		if hasContinue || x.Init == nil || x.Post == nil {
			fail("%s: three-clause loop with continue or a missing clause", t.pos(x))
		}
		t.scopes = append(t.scopes, map[string]bool{})
		init := t.stmt(x.Init)
		cond := t.expr(x.Cond)
		body := t.stmt(x.Body)
		post := t.stmt(x.Post)
		t.scopes = t.scopes[:len(t.scopes)-1]
		return fmt.Sprintf("(.seq %s\n    (.loop %s\n    (.seq %s\n    %s)))", init, cond, body, post)
	case *ast.RangeStmt:
		// `for _, t := range ts` over a slice-typed parameter
		if x.Tok != token.DEFINE || x.Value == nil {
			fail("%s: range form", t.pos(x))
		}
		if k, ok := x.Key.(*ast.Ident); !ok || k.Name != "_" {
			fail("%s: range with an index variable", t.pos(x))
		}
		v, ok := x.Value.(*ast.Ident)
		if !ok {
			fail("%s: range value", t.pos(x))
		}
		t.scopes = append(t.scopes, map[string]bool{})
		for _, sc := range t.scopes {
			if sc[v.Name] {
				fail("%s: %s shadows a declaration in scope", t.pos(x), v.Name)
			}
		}
		t.scopes[len(t.scopes)-1][v.Name] = true
		idx := t.v(v.Name, true)
		src := t.expr(x.X)
		body := t.stmt(x.Body)
		t.scopes = t.scopes[:len(t.scopes)-1]
		return fmt.Sprintf("(.range %d %s\n    %s)", idx, src, body)
	case *ast.ReturnStmt:
		switch len(x.Results) {
		case 0:
			return "(.ret .unit)"
		case 1:
			if ue, ok := x.Results[0].(*ast.UnaryExpr); ok && ue.Op == token.AND {
				if cl, ok := ue.X.(*ast.CompositeLit); ok && baseTypeName(cl.Type) == t.treeT {
					// the constructor: `return &LinkedList[T]{head: h, tail: t}` initialises the receiver state
					var ss []string
					seen := map[string]bool{}
					for _, el := range cl.Elts {
						kv, ok := el.(*ast.KeyValueExpr)
						if !ok {
							fail("%s: positional literal", t.pos(el))
						}
						k, ok := kv.Key.(*ast.Ident)
						if !ok || !recvFields[k.Name] {
							fail("%s: literal key", t.pos(kv))
						}
						seen[k.Name] = true
						switch k.Name {
						case "head":
							ss = append(ss, fmt.Sprintf("(.setHead %s)", t.expr(kv.Value)))
						case "tail":
							ss = append(ss, fmt.Sprintf("(.setTail %s)", t.expr(kv.Value)))
						case "length":
							ss = append(ss, fmt.Sprintf("(.setLength %s)", t.expr(kv.Value)))
						}
					}
					if !seen["length"] {
						ss = append(ss, "(.setLength (.int 0))")
					}
					ss = append(ss, "(.ret .unit)")
					return seq(ss)
				}
			}
			return fmt.Sprintf("(.ret %s)", t.expr(x.Results[0]))
		case 2:
			return fmt.Sprintf("(.ret2 %s %s)", t.expr(x.Results[0]), t.expr(x.Results[1]))
		}
		fail("%s: return arity", t.pos(x))
	case *ast.BranchStmt:
		if x.Label != nil {
			fail("%s: labelled branch", t.pos(x))
		}
		switch x.Tok {
		case token.CONTINUE:
			return ".continue_"
		case token.BREAK:
			return ".break_"
		}
		fail("%s: branch %s", t.pos(x), x.Tok)
	case *ast.EmptyStmt:
		return ".skip"
	}
	fail("%s: statement %T", t.pos(s), s)
	return ""
}

func main() {
	root := flag.String("root", "", "repo root")
	out := flag.String("out", "", "Lean file to write")
	ns := flag.String("ns", "Ekit.Gen.LinkedListGo", "namespace")
	file := flag.String("file", "list/linked_list.go", "source file")
	treeT := flag.String("tree", "LinkedList", "list type")
	nodeT := flag.String("node", "node", "node type")
	flag.Parse()
	t := &tr{fset: token.NewFileSet(), treeT: *treeT, nodeT: *nodeT, consts: map[string]string{}, errs: map[string]int{}, fns: map[string]*fn{}}
	f, err := parser.ParseFile(t.fset, filepath.Join(*root, *file), nil, 0)
	if err != nil {
		fail("parse: %v", err)
	}
	// constants of the colour type and the package's error variables
	for _, d := range f.Decls {
		gd, ok := d.(*ast.GenDecl)
		if !ok {
			continue
		}
		for _, sp := range gd.Specs {
			vs, ok := sp.(*ast.ValueSpec)
			if !ok {
				continue
			}
			for i, n := range vs.Names {
				if i >= len(vs.Values) {
					continue
				}
				if gd.Tok == token.CONST {
					if id, ok := vs.Values[i].(*ast.Ident); ok && (id.Name == "true" || id.Name == "false") {
						t.consts[n.Name] = "(.bool " + id.Name + ")"
					} else {
						fail("constant %s is not a boolean literal", n.Name)
					}
				}
				if gd.Tok == token.VAR && n.Name == "_" {
					continue // interface-satisfaction assertion
				}
				if gd.Tok == token.VAR {
					if ce, ok := vs.Values[i].(*ast.CallExpr); ok {
						if _, nm := calleeName(ce.Fun); nm == "New" {
							t.errs[n.Name] = len(t.errs) + 1
							continue
						}
					}
					fail("package variable %s", n.Name)
				}
			}
		}
	}
	// functions
	var names []string
	for _, d := range f.Decls {
		fd, ok := d.(*ast.FuncDecl)
		if !ok || skip[fd.Name.Name] {
			continue
		}
		g := &fn{decl: fd, name: fd.Name.Name}
		if fd.Recv != nil && len(fd.Recv.List) == 1 {
			switch baseTypeName(fd.Recv.List[0].Type) {
			case *treeT:
				g.recvKind = "tree"
			case *nodeT:
				g.recvKind = "node"
			default:
				fail("method %s of an unknown receiver type", fd.Name.Name)
			}
			if len(fd.Recv.List[0].Names) == 1 {
				g.recvName = fd.Recv.List[0].Names[0].Name
			}
		}
		if _, dup := t.fns[g.name]; dup {
			fail("two functions named %s", g.name)
		}
		t.fns[g.name] = g
		names = append(names, g.name)
	}
	sort.Strings(names)
	var b strings.Builder
	fmt.Fprintf(&b, "/- GENERATED by harness/minigoll from %s of the current tree — do not edit. -/\n", *file)
	fmt.Fprintf(&b, "import Ekit.MiniGo.LangLL\nnamespace %s\nopen Ekit.MiniGo.LL\n\n", *ns)
	fmt.Fprintf(&b, "inductive PName where\n")
	for _, n := range names {
		fmt.Fprintf(&b, "  | %s\n", n)
	}
	fmt.Fprintf(&b, "  deriving DecidableEq, Repr\n\n")
	errNames := make([]string, 0, len(t.errs))
	for n := range t.errs {
		errNames = append(errNames, n)
	}
	sort.Slice(errNames, func(i, j int) bool { return t.errs[errNames[i]] < t.errs[errNames[j]] })
	for _, n := range errNames {
		fmt.Fprintf(&b, "/-- error code of `%s` -/\ndef err_%s : Nat := %d\n", n, n, t.errs[n])
	}
	b.WriteString("\n")
	nparams := map[string]int{}
	for _, n := range names {
		g := t.fns[n]
		t.cur, t.vars, t.varNames = g, map[string]int{}, nil
		t.scopes = []map[string]bool{{}}
		if g.recvKind == "node" {
			if g.recvName == "" {
				fail("%s: unnamed node receiver", n)
			}
			t.v(g.recvName, true)
			t.scopes[0][g.recvName] = true
		}
		for _, p := range g.decl.Type.Params.List {
			if len(p.Names) == 0 {
				fail("%s: unnamed parameter", n)
			}
			for _, pn := range p.Names {
				if _, dup := t.vars[pn.Name]; dup {
					fail("%s: duplicate parameter", n)
				}
				t.v(pn.Name, true)
				t.scopes[0][pn.Name] = true
			}
		}
		nparams[n] = len(t.varNames)
		if g.decl.Type.Results != nil {
			for _, r := range g.decl.Type.Results.List {
				if len(r.Names) != 0 {
					fail("%s: named results", n)
				}
			}
		}
		body := t.stmt(g.decl.Body)
		fmt.Fprintf(&b, "/-- `%s`; variables: %s -/\ndef body_%s : Stmt PName :=\n  %s\n\n", n, strings.Join(numbered(t.varNames), " "), n, body)
	}
	fmt.Fprintf(&b, "def procs : PName → Proc PName\n")
	for _, n := range names {
		fmt.Fprintf(&b, "  | .%s => ⟨%d, body_%s⟩\n", n, nparams[n], n)
	}
	fmt.Fprintf(&b, "\nend %s\n", *ns)
	if err := os.WriteFile(*out, []byte(b.String()), 0o644); err != nil {
		fmt.Fprintln(os.Stderr, err)
		os.Exit(1)
	}
}

func numbered(v []string) []string {
	var r []string
	for i, n := range v {
		r = append(r, fmt.Sprintf("%d=%s", i, n))
	}
	return r
}
