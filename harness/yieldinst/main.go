// yieldinst: schedule-fuzzing instrumenter (used only on a scratch copy of the repository).
//
// It rewrites the given Go source files so that a call `zzverifYield()` precedes every statement of
// every function body, and drops a file zz_verif_yield.go (build tag verif) into each touched package
// that defines it: with probability VERIF_YIELD/1000 (environment, read once) the goroutine yields
// (runtime.Gosched) or, less often, sleeps a few microseconds; with VERIF_YIELD unset it is a no-op.
//
// A yield never changes what a program may do — every behaviour of the instrumented code is a
// behaviour of the original code under some schedule — so anything the harness observes on the
// instrumented copy that the specification rejects is a genuine counter-example; the instrumentation
// only makes narrow interleaving windows (a check-then-act gap, the two loads of a lock-free dequeue,
// the gap between leaving a select and re-locking) likely instead of rare.
//
//	yieldinst -root <scratch repo> file.go ...
package main

import (
	"bytes"
	"flag"
	"fmt"
	"go/ast"
	"go/format"
	"go/parser"
	"go/token"
	"os"
	"path/filepath"
)

const yieldSrc = `//go:build verif

package %s

import (
	"os"
	"runtime"
	"strconv"
	"sync/atomic"
	"time"
)

var zzverifYieldPermille = func() uint64 {
	v, _ := strconv.Atoi(os.Getenv("VERIF_YIELD"))
	if v < 0 {
		v = 0
	}
	return uint64(v)
}()

var zzverifYieldState uint64 = 0x9E3779B97F4A7C15

// zzverifYield: with probability VERIF_YIELD/1000 give other goroutines a chance to run here.
func zzverifYield() {
	p := zzverifYieldPermille
	if p == 0 {
		return
	}
	x := atomic.AddUint64(&zzverifYieldState, 0x9E3779B97F4A7C15)
	x ^= x >> 31
	x *= 0xBF58476D1CE4E5B9
	x ^= x >> 29
	if x%%1000 < p {
		if (x>>10)&7 == 0 {
			time.Sleep(time.Duration(1+(x>>14)%%30) * time.Microsecond)
		} else {
			runtime.Gosched()
		}
	}
}
`

func yieldCall() ast.Stmt {
	return &ast.ExprStmt{X: &ast.CallExpr{Fun: ast.NewIdent("zzverifYield")}}
}

func instrumentList(list []ast.Stmt) []ast.Stmt {
	out := make([]ast.Stmt, 0, 2*len(list))
	for _, s := range list {
		switch s.(type) {
		case *ast.DeclStmt, *ast.EmptyStmt:
			out = append(out, s)
			continue
		}
		out = append(out, yieldCall(), s)
	}
	return out
}

type visitor struct{}

func (visitor) Visit(n ast.Node) ast.Visitor {
	switch v := n.(type) {
	case *ast.BlockStmt:
		// a select/switch body is a list of clauses, not of statements
		ok := true
		for _, s := range v.List {
			switch s.(type) {
			case *ast.CaseClause, *ast.CommClause:
				ok = false
			}
		}
		if ok {
			v.List = instrumentList(v.List)
		}
	case *ast.CaseClause:
		v.Body = instrumentList(v.Body)
	case *ast.CommClause:
		v.Body = instrumentList(v.Body)
	}
	return visitor{}
}

func main() {
	root := flag.String("root", ".", "scratch repo root")
	flag.Parse()
	pkgs := map[string]string{} // dir -> package name
	for _, rel := range flag.Args() {
		path := filepath.Join(*root, rel)
		fset := token.NewFileSet()
		f, err := parser.ParseFile(fset, path, nil, parser.ParseComments)
		if err != nil {
			fmt.Fprintln(os.Stderr, "yieldinst:", err)
			os.Exit(1)
		}
		for _, d := range f.Decls {
			if fd, ok := d.(*ast.FuncDecl); ok && fd.Body != nil {
				ast.Walk(visitor{}, fd.Body)
			}
		}
		// comments are dropped on purpose: inserted statements carry no positions and the printer
		// would misplace comments (incl. //go: directives inside bodies, of which these files have none)
		f.Comments = nil
		var buf bytes.Buffer
		if err := format.Node(&buf, fset, f); err != nil {
			fmt.Fprintln(os.Stderr, "yieldinst: print", rel, err)
			os.Exit(1)
		}
		if err := os.WriteFile(path, buf.Bytes(), 0o644); err != nil {
			fmt.Fprintln(os.Stderr, "yieldinst:", err)
			os.Exit(1)
		}
		pkgs[filepath.Dir(path)] = f.Name.Name
	}
	for dir, name := range pkgs {
		if err := os.WriteFile(filepath.Join(dir, "zz_verif_yield.go"), []byte(fmt.Sprintf(yieldSrc, name)), 0o644); err != nil {
			fmt.Fprintln(os.Stderr, "yieldinst:", err)
			os.Exit(1)
		}
	}
}
