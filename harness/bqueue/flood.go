package main

// High-volume exactly-once monitor ("flood"): many producers and many consumers hammer a queue of
// tiny capacity with distinct non-zero values (a few hundred thousand operations in about a second).
//
//	new abq|lbq <capacity>
//	flood <producers> <consumers> <values per producer>
//
// The history is far too long for a linearizability search, so the harness keeps per-value books
// and reports ONE trace line with counters and a small witness:
//
//	flood P C N => accepted=.. delivered=.. left=.. lost=.. dup=.. invented=.. zero=.. ord=.. overcap=.. ctxenq=.. ops=.. ms=.. wedged=- w=<witness>
//
//	accepted   values whose Enqueue returned nil
//	delivered  values returned by a Dequeue with nil error
//	left       accepted values still visible in AsSlice() at quiescence
//	lost       accepted values that were neither delivered nor are still in the queue
//	dup        deliveries of a value that had already been delivered
//	invented   deliveries of a value that no Enqueue had been accepted for (zero = the zero value among them)
//	ord        a consumer received two values of one producer in the wrong order (per-producer FIFO)
//	overcap    final AsSlice()/Len() longer than the capacity
//	spur       Enqueue/Dequeue calls that answered an error although their context was still live after the call
//	flen/final Len() and len(AsSlice()) at quiescence (the driver re-checks them against the capacity and `left`)
//	w          the projection of the run onto (at most three) offending values: who enqueued / dequeued
//	           them, with global sequence numbers taken when the calls returned
//
// Every wait is bounded: a queue that stops answering is reported as wedged= and stops the run.

import (
	"context"
	"fmt"
	"os"
	"strconv"
	"strings"
	"sync"
	"sync/atomic"
	"time"

	"github.com/ecodeclub/ekit/zzverif/vlib"
)

const floodBase = 10_000_000 // value of producer p, item k (1-based): (p+1)*floodBase + k

type floodRec struct {
	v   int
	seq int64
}

func waitTimeout(wg *sync.WaitGroup, d time.Duration) bool {
	ch := make(chan struct{})
	go func() { wg.Wait(); close(ch) }()
	select {
	case <-ch:
		return true
	case <-time.After(d):
		return false
	}
}

// runFlood returns the observation and whether the queue is wedged (fatal).
func runFlood(kind string, capacity, np, nc, n int, st *stats) (string, bool) {
	bound := curBound()
	q := mkq(kind, capacity)
	t0 := time.Now()
	budget := 3 * time.Second // producers stop early when the run takes longer (slow machine, yield pass)
	if os.Getenv("VERIF_YIELD") != "" {
		budget = 2 * time.Second
	}
	var seq atomic.Int64
	var stop atomic.Bool
	var delivered atomic.Int64
	var spurious atomic.Int64 // errors answered while the call's context was still live afterwards

	// accSeq[p][k] = sequence number at which Enqueue of item k returned nil (0 = not accepted)
	accSeq := make([][]int64, np)
	ctxEnq := make([]int, np)
	for p := range accSeq {
		accSeq[p] = make([]int64, n+1)
	}
	got := make([][]floodRec, nc)

	pctx, pcancel := context.WithCancel(context.Background())
	cctx, ccancel := context.WithCancel(context.Background())
	defer pcancel()
	defer ccancel()
	var pwg, cwg sync.WaitGroup
	start := make(chan struct{})
	for p := 0; p < np; p++ {
		pwg.Add(1)
		go func(p int) {
			defer pwg.Done()
			defer func() { recover() }()
			<-start
			for k := 1; k <= n && !stop.Load(); k++ {
				err := q.Enqueue(pctx, (p+1)*floodBase+k)
				if err == nil {
					accSeq[p][k] = seq.Add(1)
				} else {
					ctxEnq[p]++
					if pctx.Err() != nil {
						return
					}
					spurious.Add(1)
				}
			}
		}(p)
	}
	for c := 0; c < nc; c++ {
		cwg.Add(1)
		got[c] = make([]floodRec, 0, np*n/nc+16)
		go func(c int) {
			defer cwg.Done()
			defer func() { recover() }()
			<-start
			for {
				v, err := q.Dequeue(cctx)
				if err != nil {
					if cctx.Err() != nil {
						return
					}
					spurious.Add(1)
					continue
				}
				got[c] = append(got[c], floodRec{v, seq.Add(1)})
				delivered.Add(1)
			}
		}(c)
	}
	close(start)

	wedged := "-"
	// producers: until done, or the time budget (then they stop after their current call), or wedged
	go func() {
		time.Sleep(budget)
		stop.Store(true)
	}()
	if !waitTimeout(&pwg, budget+bound) {
		pcancel()
		if !waitTimeout(&pwg, bound/4+time.Second) {
			wedged = "producers"
		}
	}
	stop.Store(true)
	if wedged == "-" {
		// consumers: until everything accepted has been delivered, or nothing moves any more
		var acc int64
		for p := range accSeq {
			for k := 1; k <= n; k++ {
				if accSeq[p][k] != 0 {
					acc++
				}
			}
		}
		last, lastChange := int64(-1), time.Now()
		deadline := time.Now().Add(budget + bound)
		for delivered.Load() < acc && time.Now().Before(deadline) {
			if d := delivered.Load(); d != last {
				last, lastChange = d, time.Now()
			} else if time.Since(lastChange) > 300*time.Millisecond {
				break
			}
			time.Sleep(200 * time.Microsecond)
		}
		ccancel()
		if !waitTimeout(&cwg, bound/4+time.Second) {
			wedged = "consumers"
		}
	}
	ms := time.Since(t0).Milliseconds()
	if wedged != "-" {
		detections.Add(1)
		st.Wedged++
		return fmt.Sprintf("accepted=0 delivered=%d left=0 lost=0 dup=0 invented=0 zero=0 ord=0 overcap=0 ctxenq=0 ops=%d ms=%d wedged=%s w=-",
			delivered.Load(), seq.Load(), ms, wedged), true
	}
	// quiescence (bounded like every other call into the queue)
	var final []int
	flen := 0
	fin := make(chan struct{})
	go func() {
		defer close(fin)
		defer func() { recover() }()
		final = q.AsSlice()
		flen = q.Len()
	}()
	select {
	case <-fin:
	case <-time.After(bound/4 + time.Second):
		detections.Add(1)
		st.Wedged++
		return fmt.Sprintf("accepted=0 delivered=%d left=0 lost=0 dup=0 invented=0 zero=0 ord=0 overcap=0 ctxenq=0 ops=%d ms=%d wedged=probe:asslice w=-",
			delivered.Load(), seq.Load(), ms), true
	}

	// the books
	type where struct {
		c   int
		seq int64
	}
	cnt := make([][]uint8, np)
	first := make([][]where, np)
	for p := range cnt {
		cnt[p] = make([]uint8, n+1)
		first[p] = make([]where, n+1)
	}
	var accepted, ndel, left, lost, dup, invented, zero, ord, ctxenq int
	var wit []string
	witKinds := map[string]int{}
	addWit := func(s string) { // at most two witnesses per kind of offence
		kind := s[:strings.IndexByte(s, ':')]
		if witKinds[kind] < 2 {
			witKinds[kind]++
			wit = append(wit, s)
		}
	}
	decode := func(v int) (int, int, bool) {
		p, k := v/floodBase-1, v%floodBase
		if v <= 0 || p < 0 || p >= np || k < 1 || k > n || accSeq[p][k] == 0 {
			return 0, 0, false
		}
		return p, k, true
	}
	for c := range got {
		lastK := make([]int, np)
		lastSeq := make([]int64, np)
		for _, r := range got[c] {
			ndel++
			p, k, ok := decode(r.v)
			if !ok {
				invented++
				if r.v == 0 {
					zero++
				}
				addWit(fmt.Sprintf("invented:deq.c%d=%d#%d(never-accepted)", c, r.v, r.seq))
				continue
			}
			if cnt[p][k] > 0 {
				dup++
				addWit(fmt.Sprintf("dup:enq.p%d=%d#%d,deq.c%d#%d,deq.c%d#%d", p, r.v, accSeq[p][k], first[p][k].c, first[p][k].seq, c, r.seq))
			} else {
				first[p][k] = where{c, r.seq}
			}
			if cnt[p][k] < 200 {
				cnt[p][k]++
			}
			if k < lastK[p] {
				ord++
				addWit(fmt.Sprintf("order:c%d.got.p%d.item%d#%d.before.item%d#%d", c, p, lastK[p], lastSeq[p], k, r.seq))
			}
			if k > lastK[p] {
				lastK[p], lastSeq[p] = k, r.seq
			}
		}
	}
	inFinal := map[int]bool{}
	for _, v := range final {
		inFinal[v] = true
		if _, _, ok := decode(v); !ok {
			invented++
			if v == 0 {
				zero++
			}
			addWit(fmt.Sprintf("invented:asslice=%d(never-accepted)", v))
		}
	}
	for p := range accSeq {
		ctxenq += ctxEnq[p]
		for k := 1; k <= n; k++ {
			if accSeq[p][k] == 0 {
				continue
			}
			accepted++
			v := (p+1)*floodBase + k
			if cnt[p][k] == 0 {
				if inFinal[v] {
					left++
				} else {
					lost++
					addWit(fmt.Sprintf("lost:enq.p%d=%d#%d(ok,never-delivered,not-in-queue)", p, v, accSeq[p][k]))
				}
			}
		}
	}
	overcap := 0
	if capacity > 0 && (len(final) > capacity || flen > capacity || flen < 0) {
		overcap = 1
	}
	st.Calls += int(seq.Load())
	w := "-"
	if len(wit) > 0 {
		w = strings.Join(wit, ";")
	}
	if spurious.Load() > 0 {
		detections.Add(1)
	}
	return fmt.Sprintf("accepted=%d delivered=%d left=%d lost=%d dup=%d invented=%d zero=%d ord=%d overcap=%d ctxenq=%d spur=%d flen=%d final=%d ops=%d ms=%d wedged=- w=%s",
		accepted, ndel, left, lost, dup, invented, zero, ord, overcap, ctxenq, spurious.Load(), flen, len(final), seq.Load(), ms, w), false
}

// flood scenarios of the generator: tiny capacities, several producers AND consumers at once
func (g *gen) flood(tier string) {
	r := g.r
	type fc struct {
		kind       string
		c, p, k, n int
	}
	cases := []fc{
		{"abq", 2, 8, 8, 40000},
		{"abq", 2, 4, 4, 40000},
		{"abq", 3, 8, 8, 25000},
		{"abq", 2, 2, 6, 30000},
		{"abq", 1, 4, 4, 8000},
		{"lbq", 1, 4, 4, 4000},
		{"lbq", 2, 6, 6, 4000},
	}
	if tier == "thorough" {
		for i := 0; i < 20; i++ {
			kind := vlib.Pick(r, []string{"abq", "abq", "abq", "lbq"})
			n := 20000
			if kind == "lbq" {
				n = 4000
			}
			cases = append(cases, fc{kind, vlib.Pick(r, []int{1, 2, 2, 2, 3, 4, 8}), r.Range(2, 8), r.Range(2, 8), n})
		}
	}
	for _, c := range cases {
		g.out.Line("new %s %d", c.kind, c.c)
		g.out.Line("flood %d %d %d", c.p, c.k, c.n)
	}
}

func parseFlood(w []string) (np, nc, n int, ok bool) {
	if len(w) < 4 {
		return
	}
	var e1, e2, e3 error
	np, e1 = strconv.Atoi(w[1])
	nc, e2 = strconv.Atoi(w[2])
	n, e3 = strconv.Atoi(w[3])
	ok = e1 == nil && e2 == nil && e3 == nil && np >= 1 && nc >= 1 && n >= 1 && np <= 64 && nc <= 64 && n < floodBase
	return
}
