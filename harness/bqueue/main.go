// Correspondence / search harness for C07 and the array/linked part of C09:
// stress-runs ConcurrentArrayBlockingQueue and ConcurrentLinkedBlockingQueue with random per-call
// deadlines and cancellations and records one *history* (invocation / response events in real-time
// order) per scenario, together with monitors (Len() sampled continuously, quiescent contents,
// white-box cursors and permits, a non-blocking fill/drain after the storm, stuck / hang detection).
//
//	bqueue -mode gen -tier quick|thorough -out ops.txt        (seed from VERIF_SEED)
//	bqueue -mode run -ops ops.txt -out trace.txt -stats stats.json
//
// ops file:
//
//	new abq|lbq <capacity>
//	call <tid> enq <v> <ctx> | call <tid> deq <ctx> | call <tid> len | call <tid> asslice | call <tid> pause <us>
//	call <tid> cancel <tid2>      (cancel the context of the call thread tid2 has in flight, now)
//	go <reps> lin|big|seq|snap
//	flood <producers> <consumers> <values per producer>      (high-volume exactly-once monitor, see flood.go)
//
// <ctx> = none (background; cancelled by the watchdog only when the call cannot proceed)
//
//	| pre (cancelled before the call) | to:<us> (WithTimeout) | cn:<us> (WithCancel, cancelled by another goroutine)
//
// Every execution of a `go` line starts from a fresh queue and writes ONE trace line
//
//	go <replay reps> <mode> r|b=<ms> => h=<events> cap=.. maxlen=.. minlen=.. maxslice=.. dup=.. zero=.. torn=.. spur=.. final=.. flen=.. wb=.. fill=.. over=.. drain=.. under=.. stuck=.. hang=.. recheck=.. [postpanic=..]
//
// (the op part of a trace line is what the shrinker replays: `r` = replayed line, run <replay reps>
// times; `b=<ms>` = a scenario that blocked for the bound, replayed with a shorter bound).
// Modes: lin = small history, checked for linearizability; big = storm, monitors only; seq = one
// goroutine, replayed label by label on the Lean model in `model` mode; snap = one producer, one
// consumer, readers calling AsSlice/Len (snapshots must be contiguous runs of the produced sequence).
// maxlen/minlen/maxslice/dup/zero/torn come from a sampler goroutine calling Len()/AsSlice() all the
// time; final/flen/wb are read at quiescence (wb through hooks/queue/zz_verif_bqueue.go); fill/over/
// drain/under are the non-blocking fill and drain after the scenario; stuck = a `none` call that stayed
// blocked for the bound while it could proceed; hang = a call that did not return for the bound after
// its context ended; recheck = context errors that came from the array queue's post-lock re-check;
// spur = calls (tid:op:ctxkind) that answered a context error while their context was still live after
// the call had returned (contexts are monotone: it was live during the whole call).
//
// events: i.<tid>.e.<v>.<ctxkind> i.<tid>.d.<ctxkind> i.<tid>.l i.<tid>.s   r.<tid>.ok r.<tid>.v.<x> r.<tid>.ctx r.<tid>.err
// r.<tid>.n.<k> r.<tid>.s.<a_b_c> r.<tid>.panic
package main

import (
	"context"
	"encoding/json"
	"errors"
	"flag"
	"fmt"
	"os"
	"runtime"
	"strconv"
	"strings"
	"sync"
	"sync/atomic"
	"time"

	"github.com/ecodeclub/ekit/queue"
	"github.com/ecodeclub/ekit/zzverif/vlib"
)

// generous bound (never a tight timing assertion): a call whose context ended, or whose enabling
// condition holds, and which still has not returned after this long is reported.  Once something has
// been reported in this process the verdict is already decided, so later scenarios use shorter bounds
// (keeps a failing run, and the shrinking replays, from taking forever).
var bound = 4 * time.Second
var detections atomic.Int64

func curBound() time.Duration {
	switch d := detections.Load(); {
	case d == 0:
		return bound
	case d < 3:
		return bound / 4
	default:
		return bound / 16
	}
}

const quietFor = 10 * time.Millisecond // no call completed for this long => look at blocked `none` calls
const replayReps = 20

type bq interface {
	Enqueue(ctx context.Context, t int) error
	Dequeue(ctx context.Context) (int, error)
	Len() int
	AsSlice() []int
}

// ---------------------------------------------------------------------------------------------
// generator

type gen struct {
	r        *vlib.Rng
	out      *vlib.Out
	zeroLeft bool // this scenario may still enqueue the zero value (at most once: the oracles rely on distinct values)
}

// val maps the scenario-unique positive value x into the value domain that is actually enqueued: now
// and then the zero value of T (what the array queue writes into a vacated slot, and what a `== zero`
// fast path would mistake for "nothing"), at most once per scenario, and negative values (-x, still
// distinct from every other value of the scenario).
func (g *gen) val(x int) int {
	switch {
	case g.zeroLeft && g.r.Chance(12):
		g.zeroLeft = false
		return 0
	case g.r.Chance(10):
		return -x
	}
	return x
}

func (g *gen) ctx(short bool) string {
	r := g.r
	p := r.Intn(100)
	if short {
		switch {
		case p < 70:
			return fmt.Sprintf("to:%d", r.Range(0, 100))
		case p < 85:
			return fmt.Sprintf("cn:%d", r.Range(0, 100))
		case p < 92:
			return "pre"
		default:
			return fmt.Sprintf("to:%d", r.Range(100, 1500))
		}
	}
	switch {
	case p < 25:
		return "none"
	case p < 33:
		return "pre"
	case p < 38:
		return "to:0"
	case p < 68:
		return fmt.Sprintf("to:%d", r.Range(1, 3000))
	case p < 83:
		return fmt.Sprintf("to:%d", r.Range(0, 100))
	default:
		return fmt.Sprintf("cn:%d", r.Range(0, 3000))
	}
}

var caps = []int{1, 2, 3, 8}

func (g *gen) newq() (string, int) {
	r := g.r
	kind := vlib.Pick(r, []string{"abq", "lbq"})
	c := vlib.Pick(r, caps)
	if kind == "lbq" && r.Chance(20) {
		c = vlib.Pick(r, []int{0, -1})
	}
	if r.Chance(35) {
		c = 1
	}
	g.out.Line("new %s %d", kind, c)
	g.zeroLeft = r.Chance(40)
	return kind, c
}

func (g *gen) call(tid int, val *int, short bool, enqBias int) {
	r := g.r
	p := r.Intn(100)
	switch {
	case p < enqBias:
		*val++
		g.out.Line("call %d enq %d %s", tid, g.val((tid+1)*1000+*val), g.ctx(short))
	case p < 84:
		g.out.Line("call %d deq %s", tid, g.ctx(short))
	case p < 92:
		g.out.Line("call %d len", tid)
	default:
		g.out.Line("call %d asslice", tid)
	}
	if r.Chance(30) {
		if r.Bool() {
			g.out.Line("call %d pause 0", tid)
		} else {
			g.out.Line("call %d pause %d", tid, r.Range(1, 500))
		}
	}
}

func (g *gen) lin(reps int) {
	r := g.r
	g.newq()
	nth := r.Range(2, 4)
	total := r.Range(4, 12)
	if r.Chance(12) {
		nth = r.Range(5, 8)
	}
	val := 0
	bias := vlib.Pick(r, []int{30, 42, 42, 55})
	for i := 0; i < total; i++ {
		g.call(r.Intn(nth), &val, r.Chance(15), bias)
	}
	g.out.Line("go %d lin", reps)
}

func (g *gen) big() {
	r := g.r
	g.newq()
	nth := r.Range(4, 8)
	val := 0
	per := r.Range(15, 40)
	bias := vlib.Pick(r, []int{35, 42, 50})
	for t := 0; t < nth; t++ {
		for i := 0; i < per; i++ {
			g.call(t, &val, r.Chance(85), bias)
		}
	}
	g.out.Line("go 1 big")
}

func (g *gen) seq() {
	r := g.r
	g.newq()
	val := 0
	n := r.Range(6, 30)
	bias := vlib.Pick(r, []int{40, 55, 65})
	for i := 0; i < n; i++ {
		p := r.Intn(100)
		ctx := vlib.Pick(r, []string{"pre", "to:0", "to:150", "to:400", "none", "none", "cn:200", "to:2000"})
		switch {
		case p < bias:
			val++
			g.out.Line("call 0 enq %d %s", g.val(1000+val), ctx)
		case p < 84:
			g.out.Line("call 0 deq %s", ctx)
		case p < 92:
			g.out.Line("call 0 len")
		default:
			g.out.Line("call 0 asslice")
		}
	}
	g.out.Line("go 1 seq")
}

// directed: waiters that must be woken (C09), any number of simultaneous waiters
func (g *gen) wake() {
	r := g.r
	kind := vlib.Pick(r, []string{"abq", "lbq"})
	c := vlib.Pick(r, []int{1, 1, 2, 3})
	g.out.Line("new %s %d", kind, c)
	g.zeroLeft = r.Chance(40)
	w := r.Range(1, 5)
	if r.Bool() {
		// w dequeuers blocked on empty, one or two producers feeding them after a pause
		for t := 0; t < w; t++ {
			g.out.Line("call %d deq none", t)
		}
		np := r.Range(1, 2)
		k := 0
		for p := 0; p < np; p++ {
			g.out.Line("call %d pause %d", w+p, r.Range(200, 2500))
		}
		for k < w {
			p := k % np
			g.out.Line("call %d enq %d %s", w+p, g.val((w+p+1)*1000+k), vlib.Pick(r, []string{"none", "to:2000000"}))
			if r.Chance(40) {
				g.out.Line("call %d pause %d", w+p, r.Range(0, 300))
			}
			k++
		}
	} else {
		// fill the queue, then w enqueuers blocked on full, a consumer freeing slots after a pause
		for i := 0; i < c; i++ {
			g.out.Line("call %d enq %d none", w, g.val((w+1)*1000+i))
		}
		for t := 0; t < w; t++ {
			g.out.Line("call %d pause %d", t, r.Range(300, 600))
			g.out.Line("call %d enq %d none", t, g.val((t+1)*1000))
		}
		g.out.Line("call %d pause %d", w, r.Range(700, 2500))
		for k := 0; k < w; k++ {
			g.out.Line("call %d deq %s", w, vlib.Pick(r, []string{"none", "to:2000000"}))
			if r.Chance(40) {
				g.out.Line("call %d pause %d", w, r.Range(0, 300))
			}
		}
	}
	g.out.Line("go %d lin", r.Range(1, 3))
}

// directed: a woken waiter is cancelled right after the wake-up (C09: "a cancellation injected at every
// synchronisation point a call passes through" - here between the broadcast that wakes it and its
// re-check under the re-acquired lock).  Block w waiters, perform the waking operation, cancel the
// waiter immediately; the fill/drain probe then checks that the queue still accepts and delivers.
func (g *gen) wakeCancel() {
	r := g.r
	kind := vlib.Pick(r, []string{"lbq", "lbq", "abq"})
	c := vlib.Pick(r, []int{1, 1, 2, 3})
	g.out.Line("new %s %d", kind, c)
	g.zeroLeft = r.Chance(40)
	w := r.Range(1, 4)
	waker := w
	if r.Bool() {
		for t := 0; t < w; t++ {
			g.out.Line("call %d deq %s", t, vlib.Pick(r, []string{"none", "none", "to:2000000"}))
		}
		g.out.Line("call %d pause %d", waker, r.Range(300, 2000))
		for k := 0; k < w; k++ {
			g.out.Line("call %d enq %d none", waker, g.val((waker+1)*1000+k))
			g.out.Line("call %d cancel %d", waker, k)
			if r.Chance(30) {
				g.out.Line("call %d cancel %d", waker, r.Intn(w))
			}
		}
	} else {
		for i := 0; i < c; i++ {
			g.out.Line("call %d enq %d none", waker, g.val((waker+1)*1000+i))
		}
		for t := 0; t < w; t++ {
			g.out.Line("call %d pause %d", t, r.Range(300, 600))
			g.out.Line("call %d enq %d %s", t, g.val((t+1)*1000), vlib.Pick(r, []string{"none", "none", "to:2000000"}))
		}
		g.out.Line("call %d pause %d", waker, r.Range(800, 2500))
		for k := 0; k < w; k++ {
			g.out.Line("call %d deq none", waker)
			g.out.Line("call %d cancel %d", waker, k)
			if r.Chance(30) {
				g.out.Line("call %d cancel %d", waker, r.Intn(w))
			}
		}
	}
	g.out.Line("go %d lin", r.Range(2, 4))
}

// directed: a storm of cancellations on a full / empty queue, then the fill/drain check
func (g *gen) cancelStorm() {
	r := g.r
	kind := vlib.Pick(r, []string{"abq", "lbq"})
	c := vlib.Pick(r, caps)
	g.out.Line("new %s %d", kind, c)
	g.zeroLeft = r.Chance(40)
	nth := r.Range(2, 5)
	val := 0
	for t := 0; t < nth; t++ {
		n := r.Range(1, 3)
		for i := 0; i < n; i++ {
			val++
			cx := vlib.Pick(r, []string{"pre", "to:0", fmt.Sprintf("to:%d", r.Range(0, 80)), fmt.Sprintf("cn:%d", r.Range(0, 80)), fmt.Sprintf("to:%d", r.Range(0, 800))})
			if r.Chance(55) {
				g.out.Line("call %d enq %d %s", t, g.val((t+1)*1000+val), cx)
			} else {
				g.out.Line("call %d deq %s", t, cx)
			}
		}
	}
	g.out.Line("go %d lin", r.Range(1, 3))
}

// directed: snapshots.  One producer enqueues increasing values, one consumer drains, readers call
// AsSlice/Len all the time: every snapshot must be a contiguous run of the producer's sequence.
func (g *gen) snap() {
	r := g.r
	kind := vlib.Pick(r, []string{"abq", "abq", "lbq"})
	c := vlib.Pick(r, []int{2, 3, 8})
	g.out.Line("new %s %d", kind, c)
	n := r.Range(20, 40)
	// the producer's increasing sequence: now and then it starts below zero and runs through the zero value
	base := vlib.Pick(r, []int{1001, 1001, 1001, 0, -7, -n + 1})
	for i := 0; i < n; i++ {
		g.out.Line("call 0 enq %d none", base+i)
		if r.Chance(20) {
			g.out.Line("call 0 pause %d", r.Range(0, 30))
		}
		g.out.Line("call 1 deq none")
		if r.Chance(20) {
			g.out.Line("call 1 pause %d", r.Range(0, 30))
		}
	}
	for t := 2; t < 4; t++ {
		for i := 0; i < n; i++ {
			if r.Chance(85) {
				g.out.Line("call %d asslice", t)
			} else {
				g.out.Line("call %d len", t)
			}
		}
	}
	g.out.Line("go 1 snap")
}

func corpus(out *vlib.Out) {
	cs := []string{
		// the post-lock re-check path of the array queue, deterministically: a cancelled context on a
		// non-full (non-empty) queue wins the permit, takes the lock, must give the permit back
		"new abq 1\ncall 0 enq 1001 pre\ncall 0 enq 1002 none\ncall 0 deq pre\ncall 0 deq none\ncall 0 deq to:200\ngo 1 seq",
		"new abq 2\ncall 0 enq 1001 pre\ncall 0 enq 1002 to:0\ncall 0 enq 1003 none\ncall 0 deq pre\ncall 0 deq to:0\ncall 0 asslice\ncall 0 len\ngo 1 seq",
		"new abq 3\ncall 0 enq 1001 none\ncall 0 enq 1002 none\ncall 0 enq 1003 none\ncall 0 enq 1004 to:300\ncall 0 deq none\ncall 0 enq 1005 none\ncall 0 asslice\ncall 0 deq none\ncall 0 deq none\ncall 0 deq none\ncall 0 deq to:300\ngo 1 seq",
		"new lbq 1\ncall 0 enq 1001 pre\ncall 0 enq 1002 none\ncall 0 enq 1003 to:300\ncall 0 deq pre\ncall 0 deq none\ncall 0 deq to:200\ngo 1 seq",
		"new lbq 0\ncall 0 enq 1001 none\ncall 0 enq 1002 pre\ncall 0 enq 1003 none\ncall 0 asslice\ncall 0 deq none\ncall 0 len\ngo 1 seq",
		"new lbq -1\ncall 0 enq 1001 none\ncall 1 enq 2001 none\ncall 1 enq 2002 none\ncall 0 deq none\ncall 0 deq to:500\ngo 2 lin",
		// the zero value of T (what a vacated slot of the array queue holds) and negative values are
		// elements like any other: accepted, counted, shown by AsSlice, delivered in order, also to a
		// parked consumer and by a parked producer
		"new abq 2\ncall 0 enq 0 none\ncall 0 len\ncall 0 asslice\ncall 0 enq -5 none\ncall 0 asslice\ncall 0 enq 7 to:300\ncall 0 deq none\ncall 0 enq 8 none\ncall 0 asslice\ncall 0 deq none\ncall 0 deq none\ncall 0 deq to:300\ngo 1 seq",
		"new abq 1\ncall 0 enq 0 none\ncall 0 len\ncall 0 asslice\ncall 0 deq none\ncall 0 enq -1 none\ncall 0 deq none\ncall 0 deq to:200\ngo 1 seq",
		"new lbq 2\ncall 0 enq 0 none\ncall 0 len\ncall 0 asslice\ncall 0 enq -5 none\ncall 0 asslice\ncall 0 enq 7 to:300\ncall 0 deq none\ncall 0 enq 8 none\ncall 0 asslice\ncall 0 deq none\ncall 0 deq none\ncall 0 deq to:300\ngo 1 seq",
		"new lbq 0\ncall 0 enq -3 none\ncall 0 enq 0 none\ncall 0 enq 3 none\ncall 0 asslice\ncall 0 deq none\ncall 0 deq none\ncall 0 len\ncall 0 deq none\ncall 0 deq to:200\ngo 1 seq",
		"new abq 3\ncall 0 enq 1001 none\ncall 0 enq 0 none\ncall 1 enq -2001 none\ncall 1 deq none\ncall 2 deq none\ncall 2 asslice\ngo 3 lin",
		"new abq 1\ncall 0 deq none\ncall 1 pause 2000\ncall 1 enq 0 none\ngo 3 lin",
		"new lbq 1\ncall 0 deq none\ncall 1 pause 2000\ncall 1 enq 0 none\ngo 3 lin",
		"new abq 1\ncall 1 enq -2001 none\ncall 0 pause 300\ncall 0 enq 0 none\ncall 1 pause 1500\ncall 1 deq none\ncall 1 deq none\ngo 3 lin",
		"new lbq 1\ncall 1 enq -2001 none\ncall 0 pause 300\ncall 0 enq 0 none\ncall 1 pause 1500\ncall 1 deq none\ncall 1 deq none\ngo 3 lin",
		"new abq 2\ncall 0 enq -2 none\ncall 0 enq -1 none\ncall 0 enq 0 none\ncall 0 enq 1 none\ncall 0 enq 2 none\ncall 1 deq none\ncall 1 deq none\ncall 1 deq none\ncall 1 deq none\ncall 1 deq none\ncall 2 asslice\ncall 2 asslice\ncall 2 len\ncall 2 asslice\ncall 3 asslice\ncall 3 asslice\ngo 1 snap",
		// wake-ups
		"new lbq 1\ncall 0 deq none\ncall 1 pause 2000\ncall 1 enq 2007 none\ngo 3 lin",
		"new abq 1\ncall 0 deq none\ncall 1 pause 2000\ncall 1 enq 2007 none\ngo 3 lin",
		"new lbq 1\ncall 4 enq 5001 none\ncall 0 pause 300\ncall 0 enq 1002 none\ncall 1 pause 300\ncall 1 enq 2003 none\ncall 2 pause 300\ncall 2 enq 3004 none\ncall 4 pause 1500\ncall 4 deq none\ncall 4 deq none\ncall 4 deq none\ngo 3 lin",
		"new abq 1\ncall 4 enq 5001 none\ncall 0 pause 300\ncall 0 enq 1002 none\ncall 1 pause 300\ncall 1 enq 2003 none\ncall 2 pause 300\ncall 2 enq 3004 none\ncall 4 pause 1500\ncall 4 deq none\ncall 4 deq none\ncall 4 deq none\ngo 3 lin",
		// a woken waiter cancelled right after the wake-up, then the queue must still accept / deliver
		"new lbq 1\ncall 0 deq none\ncall 1 pause 1000\ncall 1 enq 2001 none\ncall 1 cancel 0\ngo 4 lin",
		"new lbq 1\ncall 1 enq 2001 none\ncall 0 pause 300\ncall 0 enq 1001 none\ncall 1 pause 1200\ncall 1 deq none\ncall 1 cancel 0\ngo 4 lin",
		"new abq 1\ncall 0 deq none\ncall 1 pause 1000\ncall 1 enq 2001 none\ncall 1 cancel 0\ngo 4 lin",
		"new abq 1\ncall 1 enq 2001 none\ncall 0 pause 300\ncall 0 enq 1001 none\ncall 1 pause 1200\ncall 1 deq none\ncall 1 cancel 0\ngo 4 lin",
		// cancellations on a full queue, then capacity must be intact
		"new abq 2\ncall 0 enq 1001 none\ncall 0 enq 1002 none\ncall 1 pause 300\ncall 1 enq 2003 to:100\ncall 2 pause 300\ncall 2 enq 3004 cn:50\ncall 3 pause 300\ncall 3 enq 4005 to:0\ngo 3 lin",
		"new lbq 2\ncall 0 enq 1001 none\ncall 0 enq 1002 none\ncall 1 pause 300\ncall 1 enq 2003 to:100\ncall 2 pause 300\ncall 2 enq 3004 cn:50\ncall 3 pause 300\ncall 3 enq 4005 to:0\ngo 3 lin",
	}
	for _, c := range cs {
		for _, l := range strings.Split(c, "\n") {
			out.Line("%s", l)
		}
	}
}

func generate(tier string, out *vlib.Out) {
	g := &gen{r: vlib.NewRng(vlib.Seed()), out: out}
	corpus(out)
	g.flood(tier)
	nlin, nbig, nseq, nwake, nstorm, nsnap := 260, 10, 40, 30, 30, 30
	nwc := 30
	if tier == "thorough" {
		nlin, nbig, nseq, nwake, nstorm, nsnap = 4000, 120, 400, 400, 400, 400
		nwc = 400
	}
	for i := 0; i < nseq; i++ {
		g.seq()
	}
	for i := 0; i < nwake; i++ {
		g.wake()
	}
	for i := 0; i < nwc; i++ {
		g.wakeCancel()
	}
	for i := 0; i < nstorm; i++ {
		g.cancelStorm()
	}
	for i := 0; i < nsnap; i++ {
		g.snap()
	}
	for i := 0; i < nlin; i++ {
		g.lin(g.r.Range(1, 2))
	}
	for i := 0; i < nbig; i++ {
		g.big()
	}
}

// ---------------------------------------------------------------------------------------------
// runner

type callSpec struct {
	tid  int
	op   string // enq deq len asslice pause
	v    int
	ctx  string // none pre to cn ("" for len/asslice/pause)
	us   int
	line string
}

func parseCall(w []string, line string) callSpec {
	c := callSpec{line: line}
	c.tid, _ = strconv.Atoi(w[1])
	c.op = w[2]
	parseCtx := func(s string) {
		if i := strings.IndexByte(s, ':'); i > 0 {
			c.ctx = s[:i]
			c.us, _ = strconv.Atoi(s[i+1:])
		} else {
			c.ctx = s
		}
	}
	switch c.op {
	case "enq":
		c.v, _ = strconv.Atoi(w[3])
		parseCtx(w[4])
	case "deq":
		parseCtx(w[3])
	case "pause", "cancel":
		c.us, _ = strconv.Atoi(w[3]) // microseconds / target thread
	}
	return c
}

// spy counts ctx.Err() calls: the array queue calls it only in the post-lock re-check (the
// semaphore calls it once, on its own error path), so "ctx error and >= 2 Err() calls" identifies
// a context error that came from the re-check.
type spy struct {
	context.Context
	errs int32
}

func (s *spy) Err() error {
	atomic.AddInt32(&s.errs, 1)
	return s.Context.Err()
}

type flight struct {
	c          callSpec
	ctx        context.Context
	cancel     context.CancelFunc
	endedSeen  time.Time
	canSince   time.Time
	stuckNoted bool
}

type stats struct {
	Ops           map[string]int `json:"ops"`
	Results       map[string]int `json:"results"`
	Scenarios     map[string]int `json:"scenarios"`
	Kinds         map[string]int `json:"kinds"`
	Threads       map[string]int `json:"threads_histogram"`
	Calls         int            `json:"calls"`
	Samples       int64          `json:"len_samples"`
	RecheckCtx    int            `json:"ctx_errors_from_post_lock_recheck"`
	AcquireCtx    int            `json:"ctx_errors_from_acquire"`
	Hangs         int            `json:"hangs"`
	Spurious      int            `json:"ctx_errors_with_live_context"`
	Stuck         int            `json:"stuck"`
	Wedged        int            `json:"wedged"`
	Stopped       bool           `json:"stopped_early"`
	WdCancels     int            `json:"watchdog_cancels"`
	MaxLenSeen    int            `json:"max_len_seen"`
	ZeroScenarios int            `json:"scenarios_enqueueing_the_zero_value"`
	Cases         int            `json:"cases"`
	Lines         int            `json:"lines"`
	Distinct      int            `json:"distinct_state_op_pairs"`
	seen          map[string]struct{}
	goLines       int
	floodLines    int
}

type scenario struct {
	kind  string
	cap   int
	calls []callSpec
}

func mkq(kind string, c int) bq {
	if kind == "abq" {
		return queue.NewConcurrentArrayBlockingQueue[int](c)
	}
	return queue.NewConcurrentLinkedBlockingQueue[int](c)
}

func isCtx(err error) bool {
	return errors.Is(err, context.Canceled) || errors.Is(err, context.DeadlineExceeded)
}

func unders(xs []int) string {
	var b strings.Builder
	for i, x := range xs {
		if i > 0 {
			b.WriteByte('_')
		}
		b.WriteString(strconv.Itoa(x))
	}
	return b.String()
}

// freshLen calls q.Len() with a timeout (-1 if it does not return: the lock is stuck).
func freshLen(q bq, d time.Duration) int {
	ch := make(chan int, 1)
	go func() {
		defer func() { recover() }()
		ch <- q.Len()
	}()
	select {
	case n := <-ch:
		return n
	case <-time.After(d):
		return -1
	}
}

// run executes the scenario once on a fresh queue.  Returns the observation, whether the scenario
// blocked for the bound (slow), and whether the queue is wedged / a call hung (fatal: the run stops).
func (sc *scenario) run(mode string, st *stats) (string, bool, bool) {
	bound := curBound()
	q := mkq(sc.kind, sc.cap)
	bounded := sc.cap > 0
	nth := 0
	for _, c := range sc.calls {
		if c.tid+1 > nth {
			nth = c.tid + 1
		}
	}
	progs := make([][]callSpec, nth)
	for _, c := range sc.calls {
		progs[c.tid] = append(progs[c.tid], c)
	}
	st.Threads[strconv.Itoa(nth)]++
	hasZero := false // the scenario itself offers the zero value: a 0 in a snapshot proves nothing then
	for _, c := range sc.calls {
		if c.op == "enq" && c.v == 0 {
			hasZero = true
			st.ZeroScenarios++
			break
		}
	}

	var logMu sync.Mutex
	var events []string
	logClosed := false
	logEv := func(s string) {
		logMu.Lock()
		if !logClosed {
			events = append(events, s)
		}
		logMu.Unlock()
	}
	inflight := make([]atomic.Pointer[flight], nth)
	done := make([]atomic.Bool, nth)
	var progress atomic.Int64
	var recheck, acqctx atomic.Int64
	var resMu sync.Mutex
	var spur []string // calls that answered a context error although their context had not ended (under resMu)
	resKinds := map[string]int{}
	start := make(chan struct{})
	var arrived atomic.Int64

	// sampler: Len() continuously, AsSlice() now and then
	var lastLen atomic.Int64
	var maxLen, minLen, maxSlice, dup, zero, unord, samples atomic.Int64
	minLen.Store(1 << 30)
	maxLen.Store(-(1 << 30))
	var stopSampler atomic.Bool
	var beat atomic.Int64 // unix nanos of the sampler's last completed call into the queue
	beat.Store(time.Now().UnixNano())
	samplerDone := make(chan struct{})
	go func() {
		defer close(samplerDone)
		defer func() { recover() }()
		for i := 0; !stopSampler.Load(); i++ {
			n := int64(q.Len())
			beat.Store(time.Now().UnixNano())
			lastLen.Store(n)
			if n > maxLen.Load() {
				maxLen.Store(n)
			}
			if n < minLen.Load() {
				minLen.Store(n)
			}
			samples.Add(1)
			if i%8 == 0 || mode == "snap" {
				s := q.AsSlice()
				beat.Store(time.Now().UnixNano())
				if int64(len(s)) > maxSlice.Load() {
					maxSlice.Store(int64(len(s)))
				}
				seen := map[int]bool{}
				for j, x := range s {
					if seen[x] {
						dup.Store(1)
					}
					seen[x] = true
					if x == 0 && !hasZero {
						zero.Store(1) // no zero was enqueued: a zeroed (dequeued) slot leaked into a snapshot
					}
					if mode == "snap" && j > 0 && s[j-1] >= x {
						unord.Store(1) // single producer of increasing values: a snapshot is increasing
					}
				}
			}
			runtime.Gosched()
		}
	}()

	for t := 0; t < nth; t++ {
		go func(t int) {
			defer done[t].Store(true)
			<-start
			// spin barrier: all threads leave together, so that short calls really overlap
			arrived.Add(1)
			for spin := 0; arrived.Load() < int64(nth) && spin < 200000; spin++ {
				if spin%64 == 63 {
					runtime.Gosched()
				}
			}
			for _, c := range progs[t] {
				if c.op == "pause" {
					if c.us == 0 {
						runtime.Gosched()
					} else {
						time.Sleep(time.Duration(c.us) * time.Microsecond)
					}
					continue
				}
				if c.op == "cancel" {
					// cancel the call another thread has in flight, right now (e.g. immediately after
					// the operation that woke it)
					if c.us >= 0 && c.us < nth {
						if f := inflight[c.us].Load(); f != nil {
							f.cancel()
						}
					}
					continue
				}
				var ctx context.Context
				cancel := context.CancelFunc(func() {})
				switch c.ctx {
				case "none":
					ctx, cancel = context.WithCancel(context.Background())
				case "pre":
					ctx, cancel = context.WithCancel(context.Background())
					cancel()
				case "to":
					ctx, cancel = context.WithTimeout(context.Background(), time.Duration(c.us)*time.Microsecond)
				case "cn":
					ctx, cancel = context.WithCancel(context.Background())
					time.AfterFunc(time.Duration(c.us)*time.Microsecond, cancel)
				default:
					ctx = context.Background()
				}
				sp := &spy{Context: ctx}
				f := &flight{c: c, ctx: ctx, cancel: cancel}
				var inv string
				switch c.op {
				case "enq":
					inv = fmt.Sprintf("i.%d.e.%d.%s", t, c.v, c.ctx)
				case "deq":
					inv = fmt.Sprintf("i.%d.d.%s", t, c.ctx)
				case "len":
					inv = fmt.Sprintf("i.%d.l", t)
				case "asslice":
					inv = fmt.Sprintf("i.%d.s", t)
				}
				inflight[t].Store(f)
				logEv(inv)
				var res string
				p := vlib.Catch(func() {
					switch c.op {
					case "enq":
						err := q.Enqueue(sp, c.v)
						switch {
						case err == nil:
							res = "ok"
						case isCtx(err):
							res = "ctx"
						default:
							res = "err"
						}
					case "deq":
						v, err := q.Dequeue(sp)
						switch {
						case err == nil:
							res = "v." + strconv.Itoa(v)
						case isCtx(err):
							res = "ctx"
						default:
							res = "err"
						}
					case "len":
						res = "n." + strconv.Itoa(q.Len())
					case "asslice":
						res = "s." + unders(q.AsSlice())
					}
				})
				if p != "" {
					res = "panic"
				}
				// "a context error only when the context ended": contexts are monotone, so a context that
				// is still live AFTER the call returned was live during the whole call
				spurious := res == "ctx" && ctx.Err() == nil
				logEv(fmt.Sprintf("r.%d.%s", t, res))
				inflight[t].Store(nil)
				progress.Add(1)
				cancel()
				if spurious {
					resMu.Lock()
					spur = append(spur, fmt.Sprintf("%d:%s:%s", t, c.op, c.ctx))
					resMu.Unlock()
				}
				if res == "ctx" && sc.kind == "abq" {
					if atomic.LoadInt32(&sp.errs) >= 2 {
						recheck.Add(1)
					} else {
						acqctx.Add(1)
					}
				}
				rk := res
				if i := strings.IndexByte(rk, '.'); i > 0 {
					rk = rk[:i]
				}
				resMu.Lock()
				resKinds[c.op+"/"+c.ctx+"/"+rk]++
				resMu.Unlock()
			}
		}(t)
	}
	close(start)

	// watchdog
	var hang, stuck, wedged []string
	wdCancels := 0
	lastP := int64(-1)
	lastChange := time.Now()
	sleep := 200 * time.Microsecond
	for {
		all := true
		for t := 0; t < nth; t++ {
			if !done[t].Load() {
				all = false
			}
		}
		if all || len(hang) > 0 || len(wedged) > 0 {
			break
		}
		now := time.Now()
		if now.Sub(time.Unix(0, beat.Load())) > bound {
			// Len()/AsSlice() hold the read lock for microseconds: the sampler not getting an answer for
			// the whole bound means the queue's lock is never released any more
			// (confirmed by a fresh probe, in case the sampler goroutine itself was starved)
			if freshLen(q, bound/4+200*time.Millisecond) < 0 {
				wedged = append(wedged, "sampler")
				break
			}
			beat.Store(time.Now().UnixNano())
		}
		if p := progress.Load(); p != lastP {
			lastP, lastChange = p, now
			sleep = 200 * time.Microsecond
		}
		for t := 0; t < nth; t++ {
			f := inflight[t].Load()
			if f == nil {
				continue
			}
			if f.ctx.Err() != nil {
				if f.endedSeen.IsZero() {
					f.endedSeen = now
				} else if now.Sub(f.endedSeen) > bound {
					hang = append(hang, fmt.Sprintf("%d:%s", t, f.c.op))
					if freshLen(q, bound/4+200*time.Millisecond) < 0 {
						wedged = append(wedged, "len")
					}
				}
				continue
			}
			if f.c.ctx == "none" && now.Sub(lastChange) > quietFor {
				n := int(lastLen.Load())
				can := false
				switch f.c.op {
				case "enq":
					can = !bounded || n < sc.cap
				case "deq":
					can = n > 0
				}
				if !can {
					f.canSince = time.Time{}
					f.cancel()
					wdCancels++
				} else if f.canSince.IsZero() {
					f.canSince = now
				} else if now.Sub(f.canSince) > bound && !f.stuckNoted {
					// blocked although its enabling condition has held for `bound`.  Before reporting a lost
					// wake-up, confirm with a fresh Len() (the sampler's value could be stale under load) and
					// give the call one more grace period.
					fresh := freshLen(q, bound/4+200*time.Millisecond)
					if fresh < 0 {
						wedged = append(wedged, "len")
						break
					}
					still := fresh >= 0 && ((f.c.op == "enq" && (!bounded || fresh < sc.cap)) || (f.c.op == "deq" && fresh > 0))
					if still {
						time.Sleep(200 * time.Millisecond)
						fresh2 := freshLen(q, bound/4+200*time.Millisecond)
						still = inflight[t].Load() == f && f.ctx.Err() == nil &&
							((f.c.op == "enq" && (!bounded || (fresh2 >= 0 && fresh2 < sc.cap))) || (f.c.op == "deq" && fresh2 > 0))
					}
					if still {
						f.stuckNoted = true
						stuck = append(stuck, fmt.Sprintf("%d:%s", t, f.c.op))
						f.cancel()
					} else {
						f.canSince = time.Time{}
					}
				}
			}
		}
		time.Sleep(sleep)
		if sleep < 2*time.Millisecond {
			sleep += 100 * time.Microsecond
		}
	}
	logMu.Lock()
	logClosed = true
	evs := append([]string{}, events...)
	logMu.Unlock()
	stopSampler.Store(true)
	select {
	case <-samplerDone:
	case <-time.After(bound/4 + 500*time.Millisecond):
		if len(wedged) == 0 {
			wedged = append(wedged, "sampler")
		}
	}
	st.Samples += samples.Load()
	st.WdCancels += wdCancels
	st.Hangs += len(hang)
	st.Stuck += len(stuck)
	st.RecheckCtx += int(recheck.Load())
	st.AcquireCtx += int(acqctx.Load())
	resMu.Lock()
	for k, v := range resKinds {
		st.Results[k] += v
		st.seen[fmt.Sprintf("%s/%d/%s", sc.kind, sc.cap, k)] = struct{}{}
	}
	resMu.Unlock()
	if int(maxLen.Load()) > st.MaxLenSeen {
		st.MaxLenSeen = int(maxLen.Load())
	}

	var b strings.Builder
	fmt.Fprintf(&b, "h=%s cap=%d", strings.Join(evs, ","), sc.cap)
	fmt.Fprintf(&b, " maxlen=%d minlen=%d maxslice=%d dup=%d zero=%d torn=%d", maxLen.Load(), minLen.Load(), maxSlice.Load(), dup.Load(), zero.Load(), unord.Load())
	dash := func(xs []string) string {
		if len(xs) == 0 {
			return "-"
		}
		return strings.Join(xs, ",")
	}
	resMu.Lock()
	fmt.Fprintf(&b, " spur=%s", dash(spur))
	if len(spur) > 0 {
		detections.Add(1)
	}
	st.Spurious += len(spur)
	resMu.Unlock()
	if len(hang) > 0 || len(wedged) > 0 {
		fmt.Fprintf(&b, " final=skip wb=skip fill=skip over=skip drain=skip under=skip stuck=%s hang=%s wedged=%s recheck=%d", dash(stuck), dash(hang), dash(wedged), recheck.Load())
		detections.Add(1)
		st.Wedged += len(wedged)
		return b.String(), true, true
	}
	// quiescence: contents, white-box state, then the fill/drain check
	// Everything below calls into the queue again: it runs under a deadline of its own, so that a queue
	// whose lock was leaked by the scenario (calls block forever, ignoring their contexts) costs
	// seconds, not the pipeline's timeout.  At quiescence the whole phase takes milliseconds; with a
	// leaked permit at most one fill and one drain call block for `bound` before their contexts end.
	type phase struct {
		obs               string
		pp                string
		fillErr, drainErr string
	}
	var stage atomic.Value
	stage.Store("asslice")
	phaseDone := make(chan phase, 1)
	go func() {
		var pb strings.Builder
		fillErr, drainErr := "", ""
		pp := vlib.Catch(func() {
			stage.Store("asslice")
			final := q.AsSlice()
			fmt.Fprintf(&pb, " final=%s flen=%d", vlib.Ints(final), q.Len())
			switch x := q.(type) {
			case *queue.ConcurrentArrayBlockingQueue[int]:
				h, t, c, ef, df, data := x.VerifABQState()
				if h < 0 {
					fmt.Fprintf(&pb, " wb=skip") // black-box stub hooks
				} else {
					fmt.Fprintf(&pb, " wb=%d:%d:%d:%d:%d:%s", h, t, c, ef, df, vlib.Ints(data))
				}
			case *queue.ConcurrentLinkedBlockingQueue[int]:
				ms, l := x.VerifLBQState()
				if l < 0 {
					fmt.Fprintf(&pb, " wb=skip")
				} else {
					fmt.Fprintf(&pb, " wb=%d:%d", ms, l)
				}
			}
			stage.Store("fill")
			long := func() (context.Context, context.CancelFunc) { return context.WithTimeout(context.Background(), bound) }
			short := func() (context.Context, context.CancelFunc) {
				return context.WithTimeout(context.Background(), 2*time.Millisecond)
			}
			want := 3
			if bounded {
				want = sc.cap - len(final)
			}
			fill := 0
			for i := 0; i < want; i++ {
				ctx, cancel := long()
				err := q.Enqueue(ctx, 900001+i)
				cancel()
				if err != nil {
					if isCtx(err) {
						fillErr = "ctx"
					} else {
						fillErr = "err"
					}
					break
				}
				fill++
			}
			over := "-"
			if bounded && fillErr == "" {
				ctx, cancel := short()
				err := q.Enqueue(ctx, 999999)
				cancel()
				switch {
				case err == nil:
					over = "ok"
				case isCtx(err):
					over = "ctx"
				default:
					over = "err"
				}
			}
			var drained []int
			if fillErr == "" && over != "ok" {
				n := len(final) + fill
				for i := 0; i < n; i++ {
					ctx, cancel := long()
					v, err := q.Dequeue(ctx)
					cancel()
					if err != nil {
						if isCtx(err) {
							drainErr = "ctx"
						} else {
							drainErr = "err"
						}
						break
					}
					drained = append(drained, v)
				}
			}
			under := "-"
			if fillErr == "" && drainErr == "" && over != "ok" {
				ctx, cancel := short()
				v, err := q.Dequeue(ctx)
				cancel()
				switch {
				case err == nil:
					under = "v." + strconv.Itoa(v)
				case isCtx(err):
					under = "ctx"
				default:
					under = "err"
				}
			}
			fmt.Fprintf(&pb, " fill=%d%s over=%s drain=%s%s under=%s stuck=%s hang=- wedged=- recheck=%d", fill, fillErr, over, vlib.Ints(drained), drainErr, under, dash(stuck), recheck.Load())
		})
		phaseDone <- phase{pb.String(), pp, fillErr, drainErr}
	}()
	var ph phase
	select {
	case ph = <-phaseDone:
	case <-time.After(2*bound + time.Second):
		fmt.Fprintf(&b, " final=skip wb=skip fill=skip over=skip drain=skip under=skip stuck=%s hang=- wedged=probe:%s recheck=%d", dash(stuck), stage.Load().(string), recheck.Load())
		detections.Add(1)
		st.Wedged++
		return b.String(), true, true
	}
	b.WriteString(ph.obs)
	pp, fillErr, drainErr := ph.pp, ph.fillErr, ph.drainErr
	if pp != "" {
		fmt.Fprintf(&b, " postpanic=%s", pp)
		detections.Add(1)
		return b.String(), true, false
	}
	slow := len(stuck) > 0 || fillErr != "" || drainErr != ""
	if slow {
		detections.Add(1)
	}
	return b.String(), slow, false
}

// run executes the ops and closes the trace with ONE `end` line saying how many scenario lines were
// written and whether the run was stopped early (the driver compares with what it read and applies its
// floor on conclusively decided histories).
func run(ops []string, out *vlib.Out, st *stats) {
	runOps(ops, out, st)
	stopped := 0
	if st.Stopped {
		stopped = 1
	}
	out.Line("end => go=%d flood=%d stopped=%d", st.goLines, st.floodLines, stopped)
}

func runOps(ops []string, out *vlib.Out, st *stats) {
	var sc *scenario
	for _, line := range ops {
		w := strings.Fields(line)
		if len(w) == 0 || w[0] == "end" { // the closing line of a trace that is being replayed
			continue
		}
		st.Lines++
		switch w[0] {
		case "new":
			st.Cases++
			c, _ := strconv.Atoi(w[2])
			sc = &scenario{kind: w[1], cap: c}
			st.Kinds[fmt.Sprintf("%s/%d", w[1], c)]++
			out.Line("%s => ok", line)
		case "call":
			if sc == nil {
				out.Line("%s => no-queue", line)
				continue
			}
			c := parseCall(w, line)
			sc.calls = append(sc.calls, c)
			st.Ops[c.op]++
			if c.op != "pause" && c.op != "cancel" {
				st.Calls++
			}
			out.Line("%s => ok", line)
		case "flood":
			np, nc, n, ok := parseFlood(w)
			if sc == nil || !ok {
				out.Line("%s => bad-op", line)
				continue
			}
			st.Scenarios["flood"]++
			obs, fatal := runFlood(sc.kind, sc.cap, np, nc, n, st)
			out.Line("%s => %s", line, obs)
			st.floodLines++
			if fatal {
				st.Stopped = true
				st.Distinct = len(st.seen)
				return
			}
		case "go":
			if sc == nil {
				out.Line("%s => no-queue", line)
				continue
			}
			reps, _ := strconv.Atoi(w[1])
			mode := w[2]
			replay := len(w) > 3 // a line taken from a trace (shrinking / --replay)
			if replay && strings.HasPrefix(w[3], "b=") {
				if v, err := strconv.Atoi(w[3][2:]); err == nil && time.Duration(v)*time.Millisecond < bound {
					bound = time.Duration(v) * time.Millisecond
				}
			}
			rr := replayReps
			if mode == "seq" {
				rr = 1
			}
			for i := 0; i < reps; i++ {
				st.Scenarios[mode]++
				obs, slow, fatal := sc.run(mode, st)
				st.goLines++
				if fatal {
					// the queue under test is wedged / a call never returned: goroutines are stuck inside it
					// for good.  Report this scenario and stop; the pipeline evaluates the trace so far.
					out.Line("go 3 %s b=1000 => %s", mode, obs)
					st.Stopped = true
					st.Distinct = len(st.seen)
					return
				}
				if slow {
					// blocked-for-the-bound scenarios are replayed with a short bound and once
					out.Line("go 3 %s b=1000 => %s", mode, obs)
					if replay {
						break
					}
				} else {
					out.Line("go %d %s r => %s", rr, mode, obs)
				}
			}
		default:
			out.Line("%s => bad-op", line)
		}
	}
	st.Distinct = len(st.seen)
}

func main() {
	mode := flag.String("mode", "gen", "gen|run")
	tier := flag.String("tier", "quick", "quick|thorough")
	opsF := flag.String("ops", "", "ops file (run mode)")
	outF := flag.String("out", "", "output file")
	statsF := flag.String("stats", "", "stats json (run mode)")
	flag.Parse()
	if s := os.Getenv("VERIF_BQ_BOUND_MS"); s != "" {
		if v, err := strconv.Atoi(s); err == nil {
			bound = time.Duration(v) * time.Millisecond
		}
	}
	out := vlib.Create(*outF)
	defer out.Close()
	switch *mode {
	case "gen":
		generate(*tier, out)
	case "run":
		st := &stats{Ops: map[string]int{}, Results: map[string]int{}, Scenarios: map[string]int{}, Kinds: map[string]int{},
			Threads: map[string]int{}, seen: map[string]struct{}{}}
		run(vlib.ReadLines(*opsF), out, st)
		if *statsF != "" {
			b, _ := json.MarshalIndent(st, "", " ")
			os.WriteFile(*statsF, b, 0o644)
		}
	}
}
