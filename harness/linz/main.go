// Concurrency harness for C06 (linearizability of the five non-blocking thread-safe containers):
// ConcurrentLinkedQueue, ConcurrentPriorityQueue, ConcurrentList, CopyOnWriteArrayList, syncx.Map.
//
//	linz -mode gen -tier quick|thorough -out ops.txt     (seed from VERIF_SEED)
//	linz -mode run -ops ops.txt -out trace.txt -stats stats.json
//
// A case (scenario) in the ops file:
//
//	new <kind> k=v ...          kind: clq | cpq cap=N | clist base=array|linked init=.. | cow init=.. | map [k=int|any v=int|any|err|ptr]
//	pre <op>                    sequential prefix, executed by thread 0
//	call <tid> <op>             the concurrent part: thread <tid> (1..8) issues its calls in order
//	post <op>                   sequential suffix (observer, thread 0): drain / dump / asslice / range ...
//	burst p=P c=C n=N seed=S    (clq only) a long permit burst, see runBurst; observation: counters and
//	                            witness projections `w <events>` that the driver checks like histories
//	cowstack r=R n=N k=K seed=S (cow / clist) a stack burst, see runCowStack; observation: counters and witnesses
//	                            `ws init=<state> <events>` checked by the driver against the sequence specification
//	run reps=R extra=E seed=S   execute the scenario R times on fresh objects, record one history each;
//	                            then up to E more times, recording only a history in which a call panicked
//	                            (or, for the queues, an element was lost / duplicated / invented)
//
// Every line is echoed to the trace; the `run` line carries the recorded histories:
//
//	run reps=R seed=S => h I0:enq:1 R0:ok I1:deq I2:enq:2 R2:ok R1:v:1 ... | h ... | h ...
//
// I<tid>:<op> is an invocation, R<tid>:<result> the matching response; the order of the tokens is
// the order of a global atomic clock read just before the call starts and just after it returns,
// so the recorded interval of a call contains its real interval (sound for linearizability).
// A recovered panic is the result `panic`; calls that never return make the history `hang`.
package main

import (
	"encoding/json"
	"errors"
	"flag"
	"fmt"
	"os"
	"runtime"
	"sort"
	"strconv"
	"strings"
	"sync/atomic"
	"time"

	iqueue "github.com/ecodeclub/ekit/internal/queue"
	"github.com/ecodeclub/ekit/list"
	"github.com/ecodeclub/ekit/queue"
	"github.com/ecodeclub/ekit/syncx"
	"github.com/ecodeclub/ekit/zzverif/vlib"
)

// ---------------------------------------------------------------------------------------------
// objects under test

type el struct{ P, ID int }

func (e el) String() string { return fmt.Sprintf("%d.%d", e.P, e.ID) }
func parseEl(s string) el {
	a := strings.SplitN(s, ".", 2)
	p, _ := strconv.Atoi(a[0])
	id := 0
	if len(a) > 1 {
		id, _ = strconv.Atoi(a[1])
	}
	return el{p, id}
}

type object interface {
	// do executes one public call and renders its result
	do(w []string) string
}

func atoi(s string) int { v, _ := strconv.Atoi(s); return v }

// qerr classifies by the library's sentinels (internal/queue, re-exported in part by package queue),
// never by message text.
func qerr(err error) string {
	switch {
	case err == nil:
		return "ok"
	case errors.Is(err, iqueue.ErrEmptyQueue):
		return "empty"
	case errors.Is(err, iqueue.ErrOutOfCapacity):
		return "full"
	}
	return vlib.Err(err)
}

type clqObj struct {
	q *queue.ConcurrentLinkedQueue[int]
}

func (o *clqObj) do(w []string) string {
	switch w[0] {
	case "enq":
		return qerr(o.q.Enqueue(atoi(w[1])))
	case "deq":
		v, err := o.q.Dequeue()
		if err != nil {
			return qerr(err)
		}
		return "v:" + strconv.Itoa(v)
	case "dump":
		vals, tp, tn := o.q.VerifC06Chain()
		b := 0
		if tn {
			b = 1
		}
		return fmt.Sprintf("dump:%s:%d:%d", vlib.Ints(vals), tp, b)
	}
	panic("clq op " + w[0])
}

type cpqObj struct {
	q *queue.ConcurrentPriorityQueue[el]
}

func (o *cpqObj) do(w []string) string {
	switch w[0] {
	case "enq":
		return qerr(o.q.Enqueue(parseEl(w[1])))
	case "deq":
		v, err := o.q.Dequeue()
		if err != nil {
			return qerr(err)
		}
		return "v:" + v.String()
	case "peek":
		v, err := o.q.Peek()
		if err != nil {
			return qerr(err)
		}
		return "v:" + v.String()
	case "len":
		return "n:" + strconv.Itoa(o.q.Len())
	case "cap":
		return "n:" + strconv.Itoa(o.q.Cap())
	case "dump":
		d := o.q.VerifC06Data()
		if len(d) == 0 {
			return "dump:-"
		}
		ss := make([]string, len(d))
		for i, e := range d {
			ss[i] = e.String()
		}
		return "dump:" + strings.Join(ss, ",")
	}
	panic("cpq op " + w[0])
}

type listObj struct {
	l list.List[int]
}

func okv(v int, err error) string {
	if err != nil {
		return vlib.Err(err)
	}
	return "v:" + strconv.Itoa(v)
}

func (o *listObj) do(w []string) string {
	l := o.l
	switch w[0] {
	case "get":
		return okv(l.Get(atoi(w[1])))
	case "append":
		return vlib.Err(l.Append(vlib.ParseInts(w[1])...))
	case "add":
		return vlib.Err(l.Add(atoi(w[1]), atoi(w[2])))
	case "set":
		return vlib.Err(l.Set(atoi(w[1]), atoi(w[2])))
	case "delete":
		return okv(l.Delete(atoi(w[1])))
	case "len":
		return "n:" + strconv.Itoa(l.Len())
	case "asslice":
		return "s:" + vlib.Ints(l.AsSlice())
	case "range":
		var seen []int
		idxOK := true
		err := l.Range(func(i int, t int) error {
			if i != len(seen) {
				idxOK = false
			}
			seen = append(seen, t)
			if i == 0 {
				// yield inside the traversal: the window between the reader's snapshot / lock
				// acquisition and its later element reads becomes wide
				runtime.Gosched()
			}
			return nil
		})
		if err != nil || !idxOK {
			return "err:range"
		}
		return "s:" + vlib.Ints(seen)
	}
	panic("list op " + w[0])
}

// syncx.Map is generic in its key and value types and moves every value through `any` (sync.Map) and a type
// assertion back to V, so the instantiation is part of the input: `new map k=int|any v=int|any|err|ptr`
// (default int/int).  With an interface-typed V (or K) the zero value is the nil interface, which sync.Map
// hands back as an untyped nil; with a pointer-typed V it is a typed nil.  Value / key tokens:
//
//	<n>     the int n                         (k=int, v=int, and as one dynamic type of k=any / v=any)
//	nil     the zero value of an interface or pointer type (nil interface / nil *int)
//	pnil    a typed nil pointer (*int)(nil) held in an `any` (non-nil interface whose payload is nil)
//	s<n>    the string "<n>" held in an `any`  (a second dynamic type: 5 and s5 are different values / keys)
//	e<n>    the error verr(n)                  (v=err, and as a dynamic type of `any`)
//	p<n>    the pointer &cells[n], 0<=n<64     (v=ptr)
//
// A value of a dynamic type the harness never stored is rendered `other` (no specification call answers it).
type codec[T any] struct {
	parse func(string) T
	show  func(T) string
}

type verr int

func (e verr) Error() string { return "verr" }

var cells = func() (c [64]int) {
	for i := range c {
		c[i] = i
	}
	return
}()

var intCodec = codec[int]{parse: atoi, show: strconv.Itoa}

var anyCodec = codec[any]{
	parse: func(s string) any {
		switch {
		case s == "nil":
			return nil
		case s == "pnil":
			return (*int)(nil)
		case strings.HasPrefix(s, "s"):
			return s[1:]
		case strings.HasPrefix(s, "e"):
			return verr(atoi(s[1:]))
		}
		return atoi(s)
	},
	show: func(v any) string {
		switch x := v.(type) {
		case nil:
			return "nil"
		case int:
			return strconv.Itoa(x)
		case string:
			return "s" + x
		case verr:
			return "e" + strconv.Itoa(int(x))
		case *int:
			if x == nil {
				return "pnil"
			}
		}
		return "other"
	},
}

var errCodec = codec[error]{
	parse: func(s string) error {
		if s == "nil" {
			return nil
		}
		return verr(atoi(s[1:]))
	},
	show: func(v error) string {
		if v == nil {
			return "nil"
		}
		if x, ok := v.(verr); ok {
			return "e" + strconv.Itoa(int(x))
		}
		return "other"
	},
}

var ptrCodec = codec[*int]{
	parse: func(s string) *int {
		if s == "nil" {
			return nil
		}
		return &cells[atoi(s[1:])&63]
	},
	show: func(v *int) string {
		if v == nil {
			return "nil"
		}
		for i := range cells {
			if v == &cells[i] {
				return "p" + strconv.Itoa(i)
			}
		}
		return "other"
	},
}

type mapObj[K comparable, V any] struct {
	m *syncx.Map[K, V]
	k codec[K]
	v codec[V]
}

func newMapObj[K comparable, V any](k codec[K], v codec[V]) object {
	return &mapObj[K, V]{&syncx.Map[K, V]{}, k, v}
}

func mkMap(p map[string]string) object {
	switch p["k"] + "/" + p["v"] {
	case "/", "int/int", "int/", "/int":
		return newMapObj(intCodec, intCodec)
	case "int/any", "/any":
		return newMapObj(intCodec, anyCodec)
	case "int/err", "/err":
		return newMapObj(intCodec, errCodec)
	case "int/ptr", "/ptr":
		return newMapObj(intCodec, ptrCodec)
	case "any/int", "any/":
		return newMapObj(anyCodec, intCodec)
	case "any/any":
		return newMapObj(anyCodec, anyCodec)
	case "any/err":
		return newMapObj(anyCodec, errCodec)
	case "any/ptr":
		return newMapObj(anyCodec, ptrCodec)
	}
	panic("map instantiation k=" + p["k"] + " v=" + p["v"])
}

type fnErr struct{}

func (fnErr) Error() string { return "fn failed" }

func (o *mapObj[K, V]) do(w []string) string {
	m := o.m
	key := func() K { return o.k.parse(w[1]) }
	val := func() V { return o.v.parse(w[2]) }
	switch w[0] {
	case "load":
		v, ok := m.Load(key())
		if !ok {
			return "absent"
		}
		return "v:" + o.v.show(v)
	case "store":
		m.Store(key(), val())
		return "ok"
	case "los":
		v, loaded := m.LoadOrStore(key(), val())
		if loaded {
			return "l:" + o.v.show(v)
		}
		return "s:" + o.v.show(v)
	case "lad":
		v, loaded := m.LoadAndDelete(key())
		if !loaded {
			return "absent"
		}
		return "v:" + o.v.show(v)
	case "del":
		m.Delete(key())
		return "ok"
	case "losf", "losfe":
		calls := 0
		fn := func() (V, error) {
			calls++
			if w[0] == "losfe" {
				var zero V
				return zero, fnErr{}
			}
			return val(), nil
		}
		v, loaded, err := m.LoadOrStoreFunc(key(), fn)
		switch {
		case err != nil:
			if _, mine := err.(fnErr); !mine {
				return fmt.Sprintf("err:other/%d", calls)
			}
			return fmt.Sprintf("err/%d", calls)
		case loaded:
			return fmt.Sprintf("l:%s/%d", o.v.show(v), calls)
		default:
			return fmt.Sprintf("s:%s/%d", o.v.show(v), calls)
		}
	case "range":
		// canonical order: int keys numerically (as before), any other key token after them, by text
		type kv struct{ k, v string }
		var ps []kv
		m.Range(func(k K, v V) bool { ps = append(ps, kv{o.k.show(k), o.v.show(v)}); return true })
		sort.SliceStable(ps, func(i, j int) bool {
			a, ea := strconv.Atoi(ps[i].k)
			b, eb := strconv.Atoi(ps[j].k)
			switch {
			case ea == nil && eb == nil:
				return a < b
			case ea == nil || eb == nil:
				return ea == nil
			}
			return ps[i].k < ps[j].k
		})
		if len(ps) == 0 {
			return "m:-"
		}
		ss := make([]string, len(ps))
		for i, p := range ps {
			ss[i] = p.k + "=" + p.v
		}
		return "m:" + strings.Join(ss, ",")
	}
	panic("map op " + w[0])
}

func params(ws []string) map[string]string {
	m := map[string]string{}
	for _, w := range ws {
		if i := strings.IndexByte(w, '='); i > 0 {
			m[w[:i]] = w[i+1:]
		}
	}
	return m
}

func mk(kind string, p map[string]string) object {
	switch kind {
	case "clq":
		return &clqObj{queue.NewConcurrentLinkedQueue[int]()}
	case "cpq":
		return &cpqObj{queue.NewConcurrentPriorityQueue[el](atoi(p["cap"]), func(a, b el) int {
			switch {
			case a.P < b.P:
				return -1
			case a.P > b.P:
				return 1
			}
			return 0
		})}
	case "clist":
		init := vlib.ParseInts(p["init"])
		var l list.List[int]
		if p["base"] == "linked" {
			l = list.NewLinkedListOf[int](init)
		} else {
			l = list.NewArrayListOf[int](init)
		}
		return &listObj{&list.ConcurrentList[int]{List: l}}
	case "cow":
		return &listObj{list.NewCopyOnWriteArrayListOf[int](vlib.ParseInts(p["init"]))}
	case "map":
		return mkMap(p)
	}
	panic("kind " + kind)
}

// ---------------------------------------------------------------------------------------------
// scenario execution

type event struct {
	stamp int64
	tid   int
	isRes bool
	w     []string // invocation: the op
	r     string   // response: the result
}

func (e event) tok() string {
	if e.isRes {
		return fmt.Sprintf("R%d:%s", e.tid, e.r)
	}
	return fmt.Sprintf("I%d:%s", e.tid, strings.Join(e.w, ":"))
}

type scenario struct {
	kind   string
	p      map[string]string
	pre    [][]string
	post   [][]string
	tids   []int
	thr    map[int][][]string
	hasRun bool
	reps   int
	seed   uint64
}

var hangMS = 8000

// progress of the main goroutine, for the watchdog of calls it makes itself (pre / post phases)
var (
	progressAt int64 // unix nanoseconds of the last sign of life
	curLine    int32 // index of the ops line being executed
)

func alive() { atomic.StoreInt64(&progressAt, time.Now().UnixNano()) }

var sink uint64

func spin(n int) {
	x := uint64(n)
	for i := 0; i < n; i++ {
		x = x*6364136223846793005 + 1442695040888963407
	}
	atomic.AddUint64(&sink, x)
}

type recorder struct {
	clock int64
}

func safeDo(o object, w []string) (res string) {
	defer func() {
		if r := recover(); r != nil {
			res = "panic"
		}
	}()
	return o.do(w)
}

// one call: invocation stamp, the call (panics recovered), response stamp
func (rc *recorder) call(o object, tid int, w []string, evs *[]event) string {
	*evs = append(*evs, event{stamp: atomic.AddInt64(&rc.clock, 1), tid: tid, w: w})
	res := safeDo(o, w)
	*evs = append(*evs, event{stamp: atomic.AddInt64(&rc.clock, 1), tid: tid, isRes: true, r: res})
	return res
}

// runner keeps one worker goroutine per thread of the scenario alive across repetitions (starting
// goroutines per repetition costs more than the calls themselves); a repetition starts when the main
// goroutine bumps `epoch`, so all workers leave their spin loop within a few nanoseconds of each other.
type runner struct {
	sc       *scenario
	n        int
	epoch    int32
	finished int32
	stop     int32
	obj      object
	rc       *recorder
	evs      [][]event
	jit      [][]int
}

func newRunner(sc *scenario) *runner {
	r := &runner{sc: sc, n: len(sc.tids)}
	r.evs = make([][]event, r.n)
	r.jit = make([][]int, r.n)
	for i, tid := range sc.tids {
		r.jit[i] = make([]int, len(sc.thr[tid]))
		go r.worker(i, tid, sc.thr[tid])
	}
	return r
}

func (r *runner) close() { atomic.StoreInt32(&r.stop, 1) }

func (r *runner) worker(i, tid int, calls [][]string) {
	last := int32(0)
	for {
		for spins := 0; ; spins++ {
			if e := atomic.LoadInt32(&r.epoch); e != last {
				last = e
				break
			}
			if atomic.LoadInt32(&r.stop) != 0 {
				return
			}
			if spins > 100000 {
				runtime.Gosched()
			}
		}
		local := r.evs[i][:0]
		obj, rc, jit := r.obj, r.rc, r.jit[i]
		for k, w := range calls {
			if jit[k] < 0 {
				runtime.Gosched()
			} else if jit[k] > 0 {
				spin(jit[k])
			}
			rc.call(obj, tid, w, &local)
		}
		r.evs[i] = local
		atomic.AddInt32(&r.finished, 1)
	}
}

// once executes the scenario on a fresh object. It returns the events (nil if some call never returned),
// and whether some call panicked.
func (r *runner) once(rep int) (all []event, hung bool, panicked bool) {
	sc := r.sc
	alive()
	r.obj = mk(sc.kind, sc.p)
	r.rc = &recorder{}
	var ev0 []event
	for _, w := range sc.pre {
		r.rc.call(r.obj, 0, w, &ev0)
	}
	jr := vlib.NewRng(sc.seed + uint64(rep)*7919)
	for i := range r.jit {
		for k := range r.jit[i] {
			switch jr.Intn(6) {
			case 0:
				r.jit[i][k] = -1 // Gosched
			case 1:
				r.jit[i][k] = jr.Intn(40)
			case 2:
				r.jit[i][k] = jr.Intn(400)
			case 3:
				r.jit[i][k] = jr.Intn(3000)
			default:
				r.jit[i][k] = 0
			}
		}
	}
	atomic.StoreInt32(&r.finished, 0)
	atomic.AddInt32(&r.epoch, 1)
	t0 := time.Time{}
	for polls := 0; atomic.LoadInt32(&r.finished) != int32(r.n); polls++ {
		if polls > 200 {
			runtime.Gosched()
		}
		if polls%8192 == 8191 {
			if t0.IsZero() {
				t0 = time.Now()
			} else if time.Since(t0) > time.Duration(hangMS)*time.Millisecond {
				return nil, true, false
			}
		}
	}
	all = append(all, ev0...)
	for _, l := range r.evs {
		all = append(all, l...)
	}
	var ev1 []event
	for _, w := range sc.post {
		if w[0] == "drain" {
			for k := 0; k < 64; k++ {
				if !strings.HasPrefix(r.rc.call(r.obj, 0, []string{"deq"}, &ev1), "v:") {
					break
				}
			}
			continue
		}
		r.rc.call(r.obj, 0, w, &ev1)
	}
	all = append(all, ev1...)
	for _, e := range all {
		if e.isRes && e.r == "panic" {
			panicked = true
		}
	}
	return all, false, panicked
}

// suspicious is a cheap necessary-condition monitor used only to decide which of the *extra*
// repetitions are worth recording (the Lean driver remains the judge): for the two queues, every
// enqueued value must come out exactly once (the suffix drains the queue), nothing else may come out.
func suspicious(kind string, all []event) bool {
	if kind != "clq" && kind != "cpq" {
		return false
	}
	in := map[string]int{}
	outc := map[string]int{}
	var lastOp = map[int][]string{}
	drained := false
	for _, e := range all {
		if !e.isRes {
			lastOp[e.tid] = e.w
			continue
		}
		w := lastOp[e.tid]
		if len(w) == 0 {
			continue
		}
		switch {
		case w[0] == "enq" && e.r == "ok":
			in[w[1]]++
		case w[0] == "deq" && strings.HasPrefix(e.r, "v:"):
			outc[e.r[2:]]++
		case w[0] == "deq" && e.tid == 0 && e.r == "empty":
			drained = true
		}
	}
	for v, c := range outc {
		if c > 1 || in[v] == 0 {
			return true
		}
	}
	if kind == "clq" && falseEmpty(all) {
		return true
	}
	if drained {
		for v := range in {
			if outc[v] == 0 {
				return true
			}
		}
	}
	return false
}

// falseEmpty: some Dequeue answered `empty` although an element whose Enqueue had returned before
// that Dequeue was invoked was taken out only by a Dequeue invoked after it returned (or never):
// the element was in the queue during the whole call.
func falseEmpty(all []event) bool {
	type iv struct{ inv, res int64 }
	enq := map[string]iv{}
	deq := map[string]iv{}
	var empties []iv
	open := map[int]event{}
	for _, e := range all {
		if !e.isRes {
			open[e.tid] = e
			continue
		}
		i, ok := open[e.tid]
		if !ok || len(i.w) == 0 {
			continue
		}
		switch {
		case i.w[0] == "enq" && e.r == "ok":
			enq[i.w[1]] = iv{i.stamp, e.stamp}
		case i.w[0] == "deq" && strings.HasPrefix(e.r, "v:"):
			deq[e.r[2:]] = iv{i.stamp, e.stamp}
		case i.w[0] == "deq" && e.r == "empty":
			empties = append(empties, iv{i.stamp, e.stamp})
		}
	}
	for _, d := range empties {
		for v, en := range enq {
			if en.res < d.inv {
				if dq, ok := deq[v]; !ok || dq.inv > d.res {
					return true
				}
			}
		}
	}
	return false
}

// ---------------------------------------------------------------------------------------------
// bursts: long, tight producer/consumer runs on ConcurrentLinkedQueue with *permits*
//
// Producers publish a permit only after their Enqueue has returned; a consumer takes a permit before it
// calls Dequeue.  So every Dequeue runs while at least one element is in the queue, and an `empty`
// answer is suspicious (a window of a few instructions inside Dequeue is hit thousands of times more
// often here than in the short scenarios).  A burst is far too long for the linearizability search, so
// for every suspicious event the harness extracts a **witness projection**: the burst's history
// restricted to the calls on a small set V of values (Enqueue(v), the Dequeues answering v, v in V) plus
// the suspicious Dequeue.  Restricting a FIFO history to the calls on a subset of (unique) values
// preserves linearizability (the linearization of the whole history, restricted, is a linearization of
// the part: a dequeued head of the queue is the head of the V-elements, an empty queue has no
// V-elements), so a projection that is NOT linearizable proves that the burst was not.  The verdict on
// the projection is the Lean driver's (`w <events>` is checked exactly like `h <events>`).
//   false empty : V = the values possibly in the queue during the call (enqueue invoked before it
//                 returned, not dequeued before it was invoked)
//   duplicate   : V = {v} for a value answered twice;   invented: a value never enqueued
//   lost        : V = {v} for a value never dequeued, with the final Dequeue → empty of the drain
//   reordered   : V = {x, y} of one producer, taken out in the wrong order by one consumer
//   panic       : the panicking call alone

type bev struct {
	inv, res int64
	tid      int
	enq      bool
	val      int
	out      byte // 'o' ok, 'v' value, 'z' empty, 'p' panic, 'x' other error
}

func (e bev) toks() (event, event) {
	i := event{stamp: e.inv, tid: e.tid, w: []string{"deq"}}
	if e.enq {
		i.w = []string{"enq", strconv.Itoa(e.val)}
	}
	r := event{stamp: e.res, tid: e.tid, isRes: true}
	switch e.out {
	case 'o':
		r.r = "ok"
	case 'v':
		r.r = "v:" + strconv.Itoa(e.val)
	case 'z':
		r.r = "empty"
	case 'p':
		r.r = "panic"
	default:
		r.r = "err:other"
	}
	return i, r
}

func witness(calls []bev) string {
	var all []event
	for _, c := range calls {
		i, r := c.toks()
		all = append(all, i, r)
	}
	h := render(all)
	return "w" + h[1:]
}

type burstResult struct {
	ops, empties, panics, dups, lost, invented, reordered int
	hung                                                  bool
	witnesses                                             []string
}

func runBurst(p map[string]string) burstResult {
	P, C, N := atoi(p["p"]), atoi(p["c"]), atoi(p["n"])
	if P <= 0 || C <= 0 || N <= 0 {
		return burstResult{}
	}
	q := queue.NewConcurrentLinkedQueue[int]()
	var clock, permits, consumed int64
	var start, fin, stop, prodDone int32
	total := int64(P * N)
	evs := make([][]bev, P+C)
	capC := 4*P*N/C + 4096
	for i := 0; i < P; i++ {
		go func(i int) {
			local := make([]bev, 0, N)
			for atomic.LoadInt32(&start) == 0 {
			}
			for j := 0; j < N && atomic.LoadInt32(&stop) == 0; j++ {
				e := bev{tid: i + 1, enq: true, val: (i+1)*1000000 + j + 1, out: 'o'}
				e.inv = atomic.AddInt64(&clock, 1)
				func() {
					defer func() {
						if r := recover(); r != nil {
							e.out = 'p'
						}
					}()
					if err := q.Enqueue(e.val); err != nil {
						e.out = 'x'
					}
				}()
				e.res = atomic.AddInt64(&clock, 1)
				local = append(local, e)
				if e.out == 'o' {
					atomic.AddInt64(&permits, 1)
				}
			}
			evs[i] = local
			atomic.AddInt32(&prodDone, 1)
			atomic.AddInt32(&fin, 1)
		}(i)
	}
	for i := 0; i < C; i++ {
		go func(i int) {
			local := make([]bev, 0, capC)
			for atomic.LoadInt32(&start) == 0 {
			}
			idle := 0
			for atomic.LoadInt64(&consumed) < total && atomic.LoadInt32(&stop) == 0 && len(local) < capC {
				pm := atomic.LoadInt64(&permits)
				if pm <= 0 || !atomic.CompareAndSwapInt64(&permits, pm, pm-1) {
					idle++
					if idle > 200 {
						runtime.Gosched()
					}
					continue
				}
				idle = 0
				e := bev{tid: P + i + 1}
				e.inv = atomic.AddInt64(&clock, 1)
				func() {
					defer func() {
						if r := recover(); r != nil {
							e.out = 'p'
						}
					}()
					v, err := q.Dequeue()
					switch {
					case err == nil:
						e.out, e.val = 'v', v
					case qerr(err) == "empty":
						e.out = 'z'
					default:
						e.out = 'x'
					}
				}()
				e.res = atomic.AddInt64(&clock, 1)
				local = append(local, e)
				if e.out == 'v' {
					atomic.AddInt64(&consumed, 1)
				} else {
					atomic.AddInt64(&permits, 1) // the element this permit stands for is still there
				}
			}
			evs[P+i] = local
			atomic.AddInt32(&fin, 1)
		}(i)
	}
	alive()
	atomic.StoreInt32(&start, 1)
	t0 := time.Now()
	for polls := 0; atomic.LoadInt32(&fin) != int32(P+C); polls++ {
		runtime.Gosched()
		if polls%1024 == 1023 {
			el := time.Since(t0)
			// producers done but the consumers cannot finish (an element was lost): stop them
			if atomic.LoadInt32(&prodDone) == int32(P) && el > 1500*time.Millisecond {
				atomic.StoreInt32(&stop, 1)
			}
			if el > time.Duration(hangMS)*time.Millisecond {
				atomic.StoreInt32(&stop, 1)
				return burstResult{hung: true}
			}
		}
	}
	var res burstResult
	// the drain by the main goroutine (thread 0), after everybody has returned
	var drain []bev
	for k := 0; k < 1<<20; k++ {
		e := bev{tid: 0}
		e.inv = atomic.AddInt64(&clock, 1)
		func() {
			defer func() {
				if r := recover(); r != nil {
					e.out = 'p'
				}
			}()
			v, err := q.Dequeue()
			switch {
			case err == nil:
				e.out, e.val = 'v', v
			case qerr(err) == "empty":
				e.out = 'z'
			default:
				e.out = 'x'
			}
		}()
		e.res = atomic.AddInt64(&clock, 1)
		drain = append(drain, e)
		if e.out != 'v' {
			break
		}
	}
	enq := map[int]bev{}
	deqs := map[int][]bev{}
	var empties []bev
	add := func(w string) {
		if len(res.witnesses) < 3 {
			res.witnesses = append(res.witnesses, w)
		}
	}
	scan := func(l []bev, consumer bool) {
		lastOf := map[int]bev{} // per producer: the last value this consumer took
		for _, e := range l {
			res.ops++
			switch {
			case e.out == 'p' || e.out == 'x':
				res.panics++
				add(witness([]bev{e}))
			case e.enq:
				enq[e.val] = e
			case e.out == 'v':
				deqs[e.val] = append(deqs[e.val], e)
				if consumer {
					pr := e.val / 1000000
					if prev, ok := lastOf[pr]; ok && prev.val > e.val {
						res.reordered++
						if ex, ok1 := enq[prev.val]; ok1 {
							if ey, ok2 := enq[e.val]; ok2 {
								add(witness([]bev{ey, ex, prev, e}))
							}
						}
					}
					lastOf[pr] = e
				}
			case e.out == 'z' && consumer:
				empties = append(empties, e)
			}
		}
	}
	for i := 0; i < P; i++ {
		scan(evs[i], false)
	}
	for i := 0; i < C; i++ {
		scan(evs[P+i], true)
	}
	scan(drain, false)
	for v, ds := range deqs {
		if _, ok := enq[v]; !ok {
			res.invented++
			add(witness(ds[:1]))
		} else if len(ds) > 1 {
			res.dups++
			add(witness([]bev{enq[v], ds[0], ds[1]}))
		}
	}
	last := drain[len(drain)-1]
	if last.out == 'z' {
		for v, e := range enq {
			if len(deqs[v]) == 0 {
				res.lost++
				add(witness([]bev{e, last}))
			}
		}
	}
	res.empties = len(empties)
	for _, d := range empties {
		if len(res.witnesses) >= 3 {
			break
		}
		// A value v is certainly in the queue from the response of Enqueue(v) to the invocation of the
		// Dequeue that answers v.  Look for a small chain of such intervals covering the whole call d
		// (greedy interval cover): those values, with d, are the witness.
		const inf = int64(1) << 62
		endOf := func(v int) int64 {
			if ds := deqs[v]; len(ds) > 0 {
				return ds[0].inv
			}
			return inf
		}
		var calls []bev
		cur := d.inv
		covered := false
		for steps := 0; steps < 6 && !covered; steps++ {
			best, bestEnd := -1, int64(-1)
			for v, e := range enq {
				if e.res < cur {
					if en := endOf(v); en > cur && en > bestEnd {
						best, bestEnd = v, en
					}
				}
			}
			if best < 0 {
				break
			}
			calls = append(calls, enq[best])
			calls = append(calls, deqs[best]...)
			cur = bestEnd
			covered = cur > d.res
		}
		if !covered {
			// no such chain: fall back to all values possibly in the queue at some instant of d, if few
			calls = nil
			nv := 0
			for v, e := range enq {
				if e.inv > d.res {
					continue
				}
				gone := false
				for _, dq := range deqs[v] {
					if dq.res < d.inv {
						gone = true
					}
				}
				if gone {
					continue
				}
				nv++
				calls = append(calls, e)
				calls = append(calls, deqs[v]...)
			}
			if nv > 5 {
				continue
			}
		}
		calls = append(calls, d)
		add(witness(calls))
	}
	return res
}

// ---------------------------------------------------------------------------------------------
// cowstack bursts: one writer uses the list as a stack (pop j values from the tail, push j fresh
// values of a strictly increasing counter), readers traverse it (Range with a yielding callback,
// AsSlice).  The list is strictly increasing at every instant, so a traversal that is not is
// suspicious.  Witness for the Lean search (sequence specification, Range/AsSlice = the contents at
// the linearization point): all mutators are the one writer's sequential calls, so in every
// linearization the list just before the writer's (a+1)-th call is init with its first a calls applied
// (readers change nothing).  A witness is therefore the history restricted to the writer's calls that
// overlap the reader's call, plus that call, starting from that intermediate state:
//     ws init=<state before the first overlapping writer call> <events>
// If the whole history is linearizable so is the witness; the driver decides the witness.

type cwop struct {
	inv, res int64
	tid      int
	w        []string
	r        string
}

func replayStack(init []int, ops []cwop) []int {
	st := append([]int{}, init...)
	for _, o := range ops {
		switch o.w[0] {
		case "delete":
			i := atoi(o.w[1])
			if i >= 0 && i < len(st) {
				st = append(st[:i], st[i+1:]...)
			}
		case "append":
			st = append(st, vlib.ParseInts(o.w[1])...)
		}
	}
	return st
}

func increasing(xs []int) bool {
	for i := 1; i < len(xs); i++ {
		if xs[i] <= xs[i-1] {
			return false
		}
	}
	return true
}

type stackResult struct {
	wops, reads, bad, badWriter int
	hung                        bool
	witnesses                   []string
}

func runCowStack(kind string, p0, bp map[string]string) stackResult {
	R, N, K := atoi(bp["r"]), atoi(bp["n"]), atoi(bp["k"])
	if R <= 0 || N <= 0 || K <= 0 {
		return stackResult{}
	}
	seed, _ := strconv.ParseUint(bp["seed"], 10, 64)
	obj := mk(kind, p0).(*listObj)
	init := vlib.ParseInts(p0["init"])
	var clock int64
	var start, stop, fin int32
	var wops []cwop
	type rd struct {
		susp, sample []cwop
		n            int
	}
	rds := make([]rd, R)
	go func() {
		rng := vlib.NewRng(seed)
		shadowLen := len(init)
		next := 0
		for _, x := range init {
			if x > next {
				next = x
			}
		}
		call := func(w []string) {
			o := cwop{tid: 1, w: w}
			o.inv = atomic.AddInt64(&clock, 1)
			o.r = safeDo(obj, w)
			o.res = atomic.AddInt64(&clock, 1)
			wops = append(wops, o)
		}
		for atomic.LoadInt32(&start) == 0 {
		}
		for round := 0; round < N && atomic.LoadInt32(&stop) == 0; round++ {
			j := rng.Range(1, K)
			if j > shadowLen {
				j = shadowLen
			}
			for c := 0; c < j; c++ {
				shadowLen--
				call([]string{"delete", strconv.Itoa(shadowLen)})
			}
			if rng.Chance(50) {
				xs := make([]int, j)
				for c := range xs {
					next++
					xs[c] = next
				}
				if j > 0 {
					call([]string{"append", vlib.Ints(xs)})
				}
			} else {
				for c := 0; c < j; c++ {
					next++
					call([]string{"append", strconv.Itoa(next)})
				}
			}
			shadowLen += j
		}
		atomic.StoreInt32(&stop, 1)
		atomic.AddInt32(&fin, 1)
	}()
	for i := 0; i < R; i++ {
		go func(i int) {
			rng := vlib.NewRng(seed + uint64(i+1)*104729)
			me := &rds[i]
			for atomic.LoadInt32(&start) == 0 {
			}
			for atomic.LoadInt32(&stop) == 0 {
				o := cwop{tid: i + 2}
				var got []int
				panicked := false
				if rng.Chance(85) {
					o.w = []string{"range"}
					yieldAt := rng.Intn(6)
					o.inv = atomic.AddInt64(&clock, 1)
					func() {
						defer func() {
							if r := recover(); r != nil {
								panicked = true
							}
						}()
						_ = obj.l.Range(func(idx int, t int) error {
							got = append(got, t)
							if idx == yieldAt {
								runtime.Gosched()
							}
							return nil
						})
					}()
					o.res = atomic.AddInt64(&clock, 1)
				} else {
					o.w = []string{"asslice"}
					o.inv = atomic.AddInt64(&clock, 1)
					func() {
						defer func() {
							if r := recover(); r != nil {
								panicked = true
							}
						}()
						got = obj.l.AsSlice()
					}()
					o.res = atomic.AddInt64(&clock, 1)
				}
				me.n++
				if panicked {
					o.r = "panic"
				} else {
					o.r = "s:" + vlib.Ints(got)
				}
				if panicked || !increasing(got) {
					if len(me.susp) < 3 {
						me.susp = append(me.susp, o)
					}
				} else if len(me.sample) < 1 && me.n > 20 {
					me.sample = append(me.sample, o)
				}
			}
			atomic.AddInt32(&fin, 1)
		}(i)
	}
	alive()
	atomic.StoreInt32(&start, 1)
	t0 := time.Now()
	for polls := 0; atomic.LoadInt32(&fin) != int32(R+1); polls++ {
		runtime.Gosched()
		if polls%1024 == 1023 && time.Since(t0) > time.Duration(hangMS)*time.Millisecond {
			atomic.StoreInt32(&stop, 1)
			return stackResult{hung: true}
		}
	}
	res := stackResult{wops: len(wops)}
	mkWitness := func(c *cwop, ops []cwop, initState []int) string {
		var all []event
		for _, o := range ops {
			all = append(all, event{stamp: o.inv, tid: o.tid, w: o.w}, event{stamp: o.res, tid: o.tid, isRes: true, r: o.r})
		}
		if c != nil {
			all = append(all, event{stamp: c.inv, tid: c.tid, w: c.w}, event{stamp: c.res, tid: c.tid, isRes: true, r: c.r})
		}
		h := render(all)
		return "ws init=" + vlib.Ints(initState) + h[1:]
	}
	// the writer's own answers, against its sequential shadow
	st := append([]int{}, init...)
	for k, o := range wops {
		want := "ok"
		if o.w[0] == "delete" {
			i := atoi(o.w[1])
			if i >= 0 && i < len(st) {
				want = "v:" + strconv.Itoa(st[i])
			} else {
				want = fmt.Sprintf("err:idx:%d:%d", len(st), i)
			}
		}
		if o.r != want {
			res.badWriter++
			if len(res.witnesses) < 3 {
				res.witnesses = append(res.witnesses, mkWitness(nil, wops[k:k+1], st))
			}
		}
		st = replayStack(st, wops[k:k+1])
	}
	addFor := func(c cwop) {
		a := sort.Search(len(wops), func(k int) bool { return wops[k].res > c.inv })
		b := sort.Search(len(wops), func(k int) bool { return wops[k].inv > c.res })
		if b-a > 600 || len(res.witnesses) >= 4 {
			return
		}
		res.witnesses = append(res.witnesses, mkWitness(&c, wops[a:b], replayStack(init, wops[:a])))
	}
	for i := range rds {
		res.reads += rds[i].n
		res.bad += len(rds[i].susp)
		for _, c := range rds[i].susp {
			addFor(c)
		}
	}
	// one ordinary traversal too, so that the path is exercised (and checked) on a healthy tree
	for i := range rds {
		if len(rds[i].sample) > 0 && len(res.witnesses) < 2 {
			addFor(rds[i].sample[0])
		}
	}
	return res
}

func render(all []event) string {
	sort.SliceStable(all, func(i, j int) bool { return all[i].stamp < all[j].stamp })
	toks := make([]string, len(all))
	for i, e := range all {
		toks[i] = e.tok()
	}
	return "h " + strings.Join(toks, " ")
}

var pendingStats string

type stats struct {
	Cases        int            `json:"cases"`
	Lines        int            `json:"lines"`
	Distinct     int            `json:"distinct_state_op_pairs"`
	Histories    int            `json:"histories"`
	DistinctHist int            `json:"distinct_histories"`
	Overlaps     int            `json:"overlapping_call_pairs"`
	ConcHist     int            `json:"histories_with_overlap"`
	Kinds        map[string]int `json:"kinds"`
	Ops          map[string]int `json:"ops"`
	Results      map[string]int `json:"results"`
	Threads      map[string]int `json:"threads"`
	Hangs        int            `json:"hangs"`
	Stacks       int            `json:"cowstack_bursts"`
	StackOps     int            `json:"cowstack_calls"`
	Bursts       int            `json:"bursts"`
	BurstOps     int            `json:"burst_calls"`
	BurstEmpties int            `json:"burst_empty_answers_under_permit"`
	Screened     int            `json:"histories_screened_for_panics_only"`
	Panics       int            `json:"panics"`
}

// overlap statistics of one history: number of pairs of calls of different threads whose intervals intersect
func overlaps(h string) int {
	open := map[string]bool{}
	n := 0
	for _, t := range strings.Fields(h)[1:] {
		tid := t[1:strings.IndexByte(t, ':')]
		if t[0] == 'I' {
			n += len(open)
			open[tid] = true
		} else {
			delete(open, tid)
		}
	}
	return n
}

func resKind(r string) string {
	if i := strings.IndexByte(r, ':'); i > 0 {
		r = r[:i]
	}
	if i := strings.IndexByte(r, '/'); i > 0 {
		r = r[:i]
	}
	return r
}

func runAll(lines []string, out *vlib.Out, st *stats) {
	var sc *scenario
	pairs := map[string]struct{}{}
	allHist := map[string]struct{}{}
	hungOnce := false
	nCases := 0
	for _, line := range lines {
		if strings.HasPrefix(line, "new ") {
			nCases++
		}
	}
	singleCase := nCases <= 1
	if singleCase && hangMS > 2000 && os.Getenv("VERIF_HANG_MS") == "" {
		// shrinking / replay of one case: a failure has already been established with the generous
		// timeout; minimisation may use a shorter one
		hangMS = 2000
	}
	// watchdog for the calls made by the main goroutine itself (pre/post phases are sequential and have
	// no other observer): if it is stuck in one, finish the trace (`hang` for the scenario being run,
	// `skipped` for the rest) and leave with exit code 0 so that the driver judges the trace.
	alive()
	statsPath := pendingStats
	go func() {
		for {
			time.Sleep(200 * time.Millisecond)
			if time.Now().UnixNano()-atomic.LoadInt64(&progressAt) > int64(hangMS+4000)*int64(time.Millisecond) {
				k := int(atomic.LoadInt32(&curLine))
				for i := k; i < len(lines); i++ {
					switch f := strings.Fields(lines[i]); {
					case (f[0] == "run" || f[0] == "burst" || f[0] == "cowstack") && i == k:
						out.Line("%s => hang", lines[i])
					case f[0] == "run" || f[0] == "burst" || f[0] == "cowstack":
						out.Line("%s => skipped", lines[i])
					case f[0] == "new":
						out.Line("%s => ok", lines[i])
					default:
						out.Line("%s => -", lines[i])
					}
				}
				st.Hangs++
				out.Close()
				if statsPath != "" {
					b, _ := json.MarshalIndent(st, "", " ")
					_ = os.WriteFile(statsPath, b, 0o644)
				}
				os.Exit(0)
			}
		}
	}()
	for li, line := range lines {
		atomic.StoreInt32(&curLine, int32(li))
		alive()
		w := strings.Fields(line)
		st.Lines++
		switch w[0] {
		case "new":
			st.Cases++
			sc = &scenario{kind: w[1], p: params(w[2:]), thr: map[int][][]string{}}
			st.Kinds[w[1]]++
			out.Line("%s => ok", line)
		case "pre":
			if sc != nil {
				sc.pre = append(sc.pre, w[1:])
			}
			out.Line("%s => -", line)
		case "post":
			if sc != nil {
				sc.post = append(sc.post, w[1:])
			}
			out.Line("%s => -", line)
		case "call":
			if sc != nil {
				tid := atoi(w[1])
				if _, ok := sc.thr[tid]; !ok {
					sc.tids = append(sc.tids, tid)
				}
				sc.thr[tid] = append(sc.thr[tid], w[2:])
			}
			out.Line("%s => -", line)
		case "run":
			if sc == nil {
				out.Line("%s => no-container", line)
				continue
			}
			if hungOnce {
				// goroutines of an earlier hung scenario are still spinning; do not measure further
				out.Line("%s => skipped", line)
				continue
			}
			p := params(w[1:])
			sc.reps = atoi(p["reps"])
			if sc.reps <= 0 {
				sc.reps = 1
			}
			s, _ := strconv.ParseUint(p["seed"], 10, 64)
			sc.seed = s
			st.Threads[strconv.Itoa(len(sc.tids))]++
			seen := map[string]struct{}{}
			var hs []string
			// `extra` further repetitions are executed but only a history in which a call panicked (or
			// hung) is recorded: the narrowest windows (a few instructions) mostly show as a panic, and
			// running the code is much cheaper than checking every history.  When the ops file is a
			// single case (shrinking / replay) the extra budget is larger and time-bounded.
			extra := atoi(p["extra"])
			var deadline time.Time
			if singleCase {
				extra = extra*10 + 2000
				deadline = time.Now().Add(3 * time.Second)
			}
			rn := newRunner(sc)
			for rep := 0; rep < sc.reps+extra; rep++ {
				if rep >= sc.reps && singleCase && time.Now().After(deadline) {
					break
				}
				evs, hung, panicked := rn.once(rep)
				st.Histories++
				if hung {
					st.Hangs++
					hungOnce = true
					hs = append(hs, "hang")
					break
				}
				if rep >= sc.reps {
					st.Screened++
					if !panicked && !suspicious(sc.kind, evs) {
						continue
					}
				}
				h := render(evs)
				if _, dup := seen[h]; dup {
					continue
				}
				seen[h] = struct{}{}
				hs = append(hs, h)
				if rep >= sc.reps {
					extra = 0 // one panicking history is enough
				}
				key := sc.kind + " " + h
				if _, dup := allHist[key]; !dup {
					allHist[key] = struct{}{}
				}
				ov := overlaps(h)
				st.Overlaps += ov
				if ov > 0 {
					st.ConcHist++
				}
				var lastOp = map[string]string{}
				for _, t := range strings.Fields(h)[1:] {
					c := strings.IndexByte(t, ':')
					tid, rest := t[1:c], t[c+1:]
					if t[0] == 'I' {
						op := rest
						if i := strings.IndexByte(op, ':'); i > 0 {
							op = op[:i]
						}
						lastOp[tid] = op
						st.Ops[sc.kind+"."+op]++
					} else {
						rk := resKind(rest)
						st.Results[rk]++
						if rk == "panic" {
							st.Panics++
						}
						pairs[sc.kind+"|"+lastOp[tid]+"|"+rest] = struct{}{}
					}
				}
			}
			rn.close()
			out.Line("%s => %s", line, strings.Join(hs, " | "))
		default:
			if w[0] == "cowstack" {
				if sc == nil || (sc.kind != "cow" && sc.kind != "clist") || hungOnce {
					out.Line("%s => skipped", line)
					continue
				}
				bp := params(w[1:])
				if singleCase {
					bp["n"] = strconv.Itoa(atoi(bp["n"]) * 4)
				}
				var sr stackResult
				for round := 0; round < 1 || (singleCase && round < 6 && sr.bad+sr.badWriter == 0); round++ {
					sr = runCowStack(sc.kind, sc.p, bp)
					st.Stacks++
					st.StackOps += sr.wops + sr.reads
					if sr.hung {
						break
					}
				}
				if sr.hung {
					st.Hangs++
					hungOnce = true
					out.Line("%s => hang", line)
					continue
				}
				obs := fmt.Sprintf("writes=%d reads=%d suspicious=%d badwriter=%d", sr.wops, sr.reads, sr.bad, sr.badWriter)
				for _, wt := range sr.witnesses {
					obs += " | " + wt
				}
				out.Line("%s => %s", line, obs)
				continue
			}
			if w[0] == "burst" {
				if sc == nil || sc.kind != "clq" || hungOnce {
					out.Line("%s => skipped", line)
					continue
				}
				bp := params(w[1:])
				if singleCase {
					// shrinking / replay: a longer burst makes the (rare) event reproducible
					bp["n"] = strconv.Itoa(atoi(bp["n"]) * 4)
				}
				var br burstResult
				for round := 0; round < 1 || (singleCase && round < 6 && len(br.witnesses) == 0); round++ {
					br = runBurst(bp)
					st.Bursts++
					st.BurstOps += br.ops
					st.BurstEmpties += br.empties
					if br.hung {
						break
					}
				}
				if br.hung {
					st.Hangs++
					hungOnce = true
					out.Line("%s => hang", line)
					continue
				}
				obs := fmt.Sprintf("ops=%d empty=%d panic=%d dup=%d lost=%d invented=%d reordered=%d", br.ops, br.empties,
					br.panics, br.dups, br.lost, br.invented, br.reordered)
				for _, wt := range br.witnesses {
					obs += " | " + wt
				}
				out.Line("%s => %s", line, obs)
				continue
			}
			out.Line("%s => bad-op", line)
		}
	}
	st.Distinct = len(pairs)
	st.DistinctHist = len(allHist)
}

// ---------------------------------------------------------------------------------------------
// generation

type gen struct {
	r    *vlib.Rng
	out  *vlib.Out
	reps  int
	extra int
	val   int
	// value domain: the values are distinct within a scenario (the queue screens count them), now and
	// then one of them is the zero value of the element type (what a `== zero` fast path or an
	// "empty slot" test would mistake for nothing), and some are negative
	zeroLeft bool
}

func (g *gen) reset() { g.val = 0; g.zeroLeft = g.r.Chance(40) }

func (g *gen) next() int {
	g.val++
	switch {
	case g.zeroLeft && g.r.Chance(15):
		g.zeroLeft = false
		return 0
	case g.r.Chance(8):
		return -g.val
	}
	return g.val
}

func (g *gen) nthreads() int {
	switch x := g.r.Intn(100); {
	case x < 30:
		return 2
	case x < 58:
		return 3
	case x < 76:
		return 4
	default:
		return g.r.Range(5, 8)
	}
}

// split `total` calls over n threads, at least one each
func (g *gen) split(n, total int) []int {
	c := make([]int, n)
	for i := range c {
		c[i] = 1
	}
	for k := n; k < total; k++ {
		c[g.r.Intn(n)]++
	}
	return c
}

// total number of concurrent calls: the search is exponential in the number of threads only, so
// few threads may issue long sequences (more chances per history to hit a window)
func (g *gen) budget(n int) int {
	hi := 12
	switch {
	case n <= 2:
		hi = 20
	case n == 3:
		hi = 18
	case n == 4:
		hi = 14
	}
	t := g.r.Range(n, hi)
	if t < n {
		t = n
	}
	return t
}

func (g *gen) run() { g.out.Line("run reps=%d extra=%d seed=%d", g.reps, g.extra, g.r.U64()%1000000007) }

// directed scenarios get a larger panic-screening budget
func (g *gen) runRace() {
	g.out.Line("run reps=%d extra=%d seed=%d", g.reps, g.extra*8, g.r.U64()%1000000007)
}

func (g *gen) clq() {
	g.reset()
	g.out.Line("new clq")
	pre := g.r.Intn(3)
	if g.r.Chance(50) {
		pre = 0
	}
	for i := 0; i < pre; i++ {
		g.out.Line("pre enq %d", g.next())
	}
	n := g.nthreads()
	cnt := g.split(n, g.budget(n))
	for t := 1; t <= n; t++ {
		role := g.r.Intn(3) // 0 producer, 1 consumer, 2 mixed
		for k := 0; k < cnt[t-1]; k++ {
			enq := g.r.Chance(50)
			if role == 0 {
				enq = g.r.Chance(90)
			} else if role == 1 {
				enq = g.r.Chance(10)
			}
			if enq {
				g.out.Line("call %d enq %d", t, g.next())
			} else {
				g.out.Line("call %d deq", t)
			}
		}
	}
	g.out.Line("post dump")
	g.out.Line("post drain")
	g.out.Line("post dump")
	g.run()
}

func (g *gen) cpq() {
	g.reset()
	cp := vlib.Pick(g.r, []int{-1, 0, 1, 2, 3, 5})
	g.out.Line("new cpq cap=%d", cp)
	lo := vlib.Pick(g.r, []int{1, 1, 0, -1}) // priorities lo..lo+2: many ties, zero and negative priorities
	el := func() string {
		id := g.next()
		if id == 0 {
			return "0.0" // the zero value of the element type
		}
		return fmt.Sprintf("%d.%d", g.r.Range(lo, lo+2), id)
	}
	pre := g.r.Intn(4)
	for i := 0; i < pre; i++ {
		g.out.Line("pre enq %s", el())
	}
	n := g.nthreads()
	cnt := g.split(n, g.budget(n))
	for t := 1; t <= n; t++ {
		for k := 0; k < cnt[t-1]; k++ {
			switch x := g.r.Intn(100); {
			case x < 40:
				g.out.Line("call %d enq %s", t, el())
			case x < 70:
				g.out.Line("call %d deq", t)
			case x < 85:
				g.out.Line("call %d peek", t)
			case x < 96:
				g.out.Line("call %d len", t)
			default:
				g.out.Line("call %d cap", t)
			}
		}
	}
	g.out.Line("post len")
	g.out.Line("post dump")
	g.out.Line("post drain")
	g.run()
}

func (g *gen) lst(kind string) {
	g.reset()
	k := g.r.Intn(4)
	init := make([]int, k)
	for i := range init {
		init[i] = g.next()
	}
	if kind == "clist" {
		g.out.Line("new clist base=%s init=%s", vlib.Pick(g.r, []string{"array", "linked"}), vlib.Ints(init))
	} else {
		g.out.Line("new cow init=%s", vlib.Ints(init))
	}
	n := g.nthreads()
	cnt := g.split(n, g.budget(n))
	ln := k // rough length estimate, only used to aim indices at the interesting boundary
	idx := func() int {
		switch g.r.Intn(6) {
		case 0:
			return -1
		case 1:
			return ln
		case 2:
			if ln > 0 {
				return ln - 1
			}
			return 0
		case 3:
			return 0
		}
		return g.r.Range(-1, ln+1)
	}
	readerHeavy := g.r.Chance(40)
	for t := 1; t <= n; t++ {
		reader := readerHeavy && t%2 == 0
		for c := 0; c < cnt[t-1]; c++ {
			x := g.r.Intn(100)
			if reader {
				x = 60 + g.r.Intn(40)
			}
			switch {
			case x < 14:
				m := g.r.Range(0, 2)
				xs := make([]int, m)
				for i := range xs {
					xs[i] = g.next()
				}
				g.out.Line("call %d append %s", t, vlib.Ints(xs))
				ln += m
			case x < 28:
				g.out.Line("call %d add %d %d", t, idx(), g.next())
				ln++
			case x < 40:
				g.out.Line("call %d set %d %d", t, idx(), g.next())
			case x < 60:
				g.out.Line("call %d delete %d", t, idx())
				if ln > 0 {
					ln--
				}
			case x < 80:
				g.out.Line("call %d get %d", t, idx())
			case x < 87:
				g.out.Line("call %d len", t)
			case x < 94:
				g.out.Line("call %d asslice", t)
			default:
				g.out.Line("call %d range", t)
			}
		}
	}
	g.out.Line("post asslice")
	g.out.Line("post len")
	g.run()
}

// directed: writers shrink/grow the list while readers aim at the moving end (the window between a
// reader's length check and its element access; multi-element reads against in-place writers)
func (g *gen) lstRace(kind string) {
	g.reset()
	k := g.r.Range(4, 8)
	init := make([]int, k)
	for i := range init {
		init[i] = g.next()
	}
	if kind == "clist" {
		g.out.Line("new clist base=%s init=%s", vlib.Pick(g.r, []string{"array", "linked"}), vlib.Ints(init))
	} else {
		g.out.Line("new cow init=%s", vlib.Ints(init))
	}
	writers := g.r.Range(1, 2)
	readers := g.r.Range(1, 3)
	t := 0
	for w := 0; w < writers; w++ {
		t++
		n := g.r.Range(3, 6)
		mode := g.r.Intn(6)
		ln := k
		for c := 0; c < n; c++ {
			switch mode {
			case 5:
				// stack: tail deletes, then appends into the freed tail (length known with one writer)
				if c < (n+1)/2 && ln > 0 {
					ln--
					g.out.Line("call %d delete %d", t, ln)
				} else {
					g.out.Line("call %d append %d", t, g.next())
					ln++
				}
			case 4:
				// ascending overwrites: a multi-element read must not see a later one without an earlier one
				g.out.Line("call %d set %d %d", t, c%k, g.next())
			case 0:
				g.out.Line("call %d delete 0", t)
			case 1:
				g.out.Line("call %d delete %d", t, g.r.Range(0, 2))
			case 2:
				if c%2 == 0 {
					g.out.Line("call %d delete 0", t)
				} else {
					g.out.Line("call %d set %d %d", t, g.r.Range(0, 2), g.next())
				}
			default:
				if g.r.Chance(60) {
					g.out.Line("call %d delete %d", t, g.r.Range(0, 3))
				} else {
					g.out.Line("call %d add 0 %d", t, g.next())
				}
			}
		}
	}
	for rd := 0; rd < readers; rd++ {
		t++
		n := g.r.Range(3, 6)
		hi := k - 1
		for c := 0; c < n; c++ {
			switch x := g.r.Intn(10); {
			case x < 6:
				g.out.Line("call %d get %d", t, hi)
				if g.r.Chance(60) && hi > 0 {
					hi--
				}
			case x < 8:
				g.out.Line("call %d range", t)
			case x < 9:
				g.out.Line("call %d asslice", t)
			default:
				g.out.Line("call %d len", t)
			}
		}
	}
	g.out.Line("post asslice")
	g.runRace()
}

// directed: dequeuers against peekers/len on a pre-filled heap; enqueuers at the capacity boundary
func (g *gen) cpqRace() {
	g.reset()
	cp := vlib.Pick(g.r, []int{0, 0, 4, 6})
	g.out.Line("new cpq cap=%d", cp)
	k := g.r.Range(3, 6)
	if cp > 0 && k > cp {
		k = cp
	}
	for i := 0; i < k; i++ {
		g.out.Line("pre enq %d.%d", i+1, g.next())
	}
	t := 0
	for w := g.r.Range(1, 2); w > 0; w-- {
		t++
		for c := g.r.Range(3, 6); c > 0; c-- {
			if g.r.Chance(75) {
				g.out.Line("call %d deq", t)
			} else {
				g.out.Line("call %d enq %d.%d", t, g.r.Range(1, 9), g.next())
			}
		}
	}
	for rd := g.r.Range(1, 2); rd > 0; rd-- {
		t++
		for c := g.r.Range(3, 6); c > 0; c-- {
			if g.r.Chance(80) {
				g.out.Line("call %d peek", t)
			} else {
				g.out.Line("call %d len", t)
			}
		}
	}
	g.out.Line("post len")
	g.out.Line("post dump")
	g.out.Line("post drain")
	g.runRace()
}

// directed: the queue oscillates around empty (the enqueue's two pointer updates against the
// dequeuers' emptiness test and head CAS)
func (g *gen) clqRace() {
	g.reset()
	g.out.Line("new clq")
	n := g.r.Range(2, 4)
	for t := 1; t <= n; t++ {
		c := g.r.Range(3, 6)
		for k := 0; k < c; k++ {
			switch {
			case t == 1 || (t == 3 && g.r.Chance(50)):
				if k%2 == 0 || g.r.Chance(30) {
					g.out.Line("call %d enq %d", t, g.next())
				} else {
					g.out.Line("call %d deq", t)
				}
			default:
				g.out.Line("call %d deq", t)
			}
		}
	}
	g.out.Line("post dump")
	g.out.Line("post drain")
	g.runRace()
}

// the instantiation of syncx.Map[K, V] is part of the scenario: the wrapper moves every key and value through
// `any` and asserts it back, so what is "nothing" for sync.Map (an untyped nil) is an ordinary value / key of
// an interface-typed V / K, and a typed nil of a pointer-typed V.  mapInst draws the instantiation and returns
// the `new` line with generators for key and value tokens (see the codecs next to mapObj).  zeroHeavy makes the
// zero value of V the most frequent value (a present key whose value is the zero value is still present).
func (g *gen) mapInst(oneKey bool) (newLine string, keys []string, val func() string) {
	kt := vlib.Pick(g.r, []string{"int", "int", "int", "any"})
	vt := vlib.Pick(g.r, []string{"int", "int", "any", "any", "err", "ptr"})
	newLine = "new map"
	if kt != "int" || vt != "int" {
		newLine = fmt.Sprintf("new map k=%s v=%s", kt, vt)
	}
	nk := g.r.Range(1, 3)
	if oneKey {
		nk = 1
	}
	if kt == "int" {
		k0 := vlib.Pick(g.r, []int{1, 1, 0, -1}) // the key universe may contain the zero key and a negative one
		if oneKey {
			k0 = vlib.Pick(g.r, []int{1, 1, 1, 0, -1})
		}
		for i := 0; i < nk; i++ {
			keys = append(keys, strconv.Itoa(k0+i))
		}
	} else {
		// the nil interface is a legal key; 1, s1, e1 are three different keys; so are nil and pnil
		pool := []string{"nil", "1", "s1", "0", "pnil", "e1"}
		off := g.r.Intn(len(pool))
		for i := 0; i < nk; i++ {
			keys = append(keys, pool[(off+i)%len(pool)])
		}
	}
	zeroHeavy := g.r.Chance(50)
	zero := func() bool {
		if zeroHeavy {
			return g.r.Chance(45)
		}
		return g.r.Chance(12)
	}
	switch vt {
	case "int":
		val = func() string {
			if g.r.Chance(6) {
				return "0"
			}
			return strconv.Itoa(g.next())
		}
	case "any":
		val = func() string {
			if zero() {
				return "nil"
			}
			n := g.next()
			switch g.r.Intn(8) {
			case 0:
				return "pnil"
			case 1, 2:
				return fmt.Sprintf("s%d", n)
			case 3:
				if n < 0 {
					n = -n
				}
				return fmt.Sprintf("e%d", n)
			}
			return strconv.Itoa(n)
		}
	case "err":
		val = func() string {
			if zero() {
				return "nil"
			}
			n := g.next()
			if n < 0 {
				n = -n
			}
			return fmt.Sprintf("e%d", n)
		}
	default:
		val = func() string {
			if zero() {
				return "nil"
			}
			return fmt.Sprintf("p%d", g.next()&63)
		}
	}
	return
}

// directed: everybody fights for one key
func (g *gen) mpRace() {
	g.reset()
	newLine, keys, v := g.mapInst(true)
	g.out.Line("%s", newLine)
	n := g.r.Range(2, 4)
	k := keys[0]
	if g.r.Chance(35) {
		// the key is present from the start (with whatever the value generator draws, often the zero value of V)
		g.out.Line("pre store %s %s", k, v())
	}
	for t := 1; t <= n; t++ {
		for c := g.r.Range(2, 5); c > 0; c-- {
			switch x := g.r.Intn(100); {
			case x < 40:
				g.out.Line("call %d losf %s %s", t, k, v())
			case x < 53:
				g.out.Line("call %d losfe %s", t, k)
			case x < 70:
				g.out.Line("call %d lad %s", t, k)
			case x < 78:
				g.out.Line("call %d del %s", t, k)
			case x < 84:
				g.out.Line("call %d load %s", t, k)
			case x < 90:
				g.out.Line("call %d store %s %s", t, k, v())
			default:
				g.out.Line("call %d los %s %s", t, k, v())
			}
		}
	}
	g.out.Line("post range")
	g.runRace()
}

func (g *gen) mp() {
	g.reset()
	newLine, keys, v := g.mapInst(false)
	g.out.Line("%s", newLine)
	key := func() string { return vlib.Pick(g.r, keys) }
	for i := g.r.Intn(3); i > 0; i-- {
		g.out.Line("pre store %s %s", key(), v())
	}
	n := g.nthreads()
	cnt := g.split(n, g.budget(n))
	ranges := 0
	for t := 1; t <= n; t++ {
		for c := 0; c < cnt[t-1]; c++ {
			switch x := g.r.Intn(100); {
			case x < 14:
				g.out.Line("call %d load %s", t, key())
			case x < 26:
				g.out.Line("call %d store %s %s", t, key(), v())
			case x < 38:
				g.out.Line("call %d los %s %s", t, key(), v())
			case x < 50:
				g.out.Line("call %d lad %s", t, key())
			case x < 60:
				g.out.Line("call %d del %s", t, key())
			case x < 84:
				g.out.Line("call %d losf %s %s", t, key(), v())
			case x < 96:
				g.out.Line("call %d losfe %s", t, key())
			default:
				if ranges == 0 {
					ranges++
					g.out.Line("call %d range", t)
				} else {
					g.out.Line("call %d load %s", t, key())
				}
			}
		}
	}
	g.out.Line("post range")
	g.run()
}

func generate(tier string, out *vlib.Out) {
	g := &gen{r: vlib.NewRng(vlib.Seed()), out: out, reps: 40, extra: 50}
	cases := 250
	if tier == "thorough" {
		cases = 1500
		g.reps = 100
		g.extra = 300
	}
	if v := os.Getenv("VERIF_LINZ_REPS"); v != "" {
		g.reps = atoi(v)
	}
	if v := os.Getenv("VERIF_LINZ_EXTRA"); v != "" {
		g.extra = atoi(v)
	}
	if v := os.Getenv("VERIF_LINZ_CASES"); v != "" {
		cases = atoi(v)
	}
	// corpus: the windows named by the property and the defect recorded on the pinned tree (C06-F1)
	corpus := []string{
		// C06-F1: a reader's length check and element access around a concurrent Delete
		"new cow init=1,2,3\ncall 1 get 2\ncall 1 get 2\ncall 1 get 1\ncall 2 delete 0\ncall 2 delete 0\ncall 3 get 2\ncall 3 len\npost asslice\nrun reps=%d seed=11",
		"new cow init=1\ncall 1 get 0\ncall 2 delete 0\ncall 3 get 0\ncall 4 range\ncall 4 len\npost asslice\nrun reps=%d seed=12",
		"new clist base=array init=1,2\ncall 1 get 1\ncall 1 get 1\ncall 2 delete 0\ncall 2 delete 0\ncall 3 asslice\ncall 3 range\npost asslice\nrun reps=%d seed=13",
		"new clist base=linked init=1,2\ncall 1 get 1\ncall 1 len\ncall 2 delete 1\ncall 2 add 0 9\ncall 3 set 1 7\ncall 3 range\npost asslice\nrun reps=%d seed=14",
		// preemption between the two pointer updates of an enqueue; emptiness answers
		"new clq\ncall 1 enq 1\ncall 2 enq 2\ncall 3 deq\ncall 4 deq\npost dump\npost drain\npost dump\nrun reps=%d seed=15",
		"new clq\ncall 1 enq 1\ncall 1 deq\ncall 2 enq 2\ncall 2 deq\ncall 3 enq 3\ncall 3 deq\npost dump\npost drain\nrun reps=%d seed=16",
		"new clq\npre enq 1\ncall 1 deq\ncall 1 deq\ncall 2 deq\ncall 2 enq 2\ncall 3 deq\npost dump\npost drain\nrun reps=%d seed=17",
		"new clq\ncall 1 enq 1\ncall 1 enq 2\ncall 1 enq 3\ncall 2 enq 4\ncall 2 enq 5\ncall 3 deq\ncall 3 deq\ncall 3 deq\npost drain\nrun reps=%d seed=18",
		// Load / LoadOrStore halves of LoadOrStoreFunc
		"new map\ncall 1 losf 1 10\ncall 2 losf 1 20\ncall 3 losf 1 30\ncall 4 lad 1\npost range\nrun reps=%d seed=19",
		"new map\npre store 1 5\ncall 1 losf 1 10\ncall 2 del 1\ncall 3 losfe 1\ncall 4 losf 1 20\npost range\nrun reps=%d seed=20",
		"new map\ncall 1 losfe 1\ncall 2 store 1 7\ncall 2 del 1\ncall 3 losf 1 9\ncall 3 load 1\ncall 4 range\npost range\nrun reps=%d seed=21",
		// priority queue: capacity boundary and ties
		"new cpq cap=1\ncall 1 enq 2.1\ncall 2 enq 1.2\ncall 3 deq\ncall 3 len\ncall 4 peek\npost len\npost dump\npost drain\nrun reps=%d seed=22",
		"new cpq cap=0\npre enq 2.1\npre enq 2.2\ncall 1 deq\ncall 2 deq\ncall 3 enq 1.3\ncall 3 peek\ncall 4 cap\npost dump\npost drain\nrun reps=%d seed=23",
		// the zero value of the element / key / value type and negative values are data like any other:
		// stored, counted, returned with ok / loaded = true, never mistaken for "nothing there"
		"new clq\ncall 1 enq 0\ncall 2 enq -1\ncall 3 deq\ncall 4 deq\npost dump\npost drain\npost dump\nrun reps=%d seed=24",
		"new clq\npre enq 0\ncall 1 deq\ncall 1 deq\ncall 2 enq -2\ncall 2 deq\ncall 3 enq 3\npost dump\npost drain\nrun reps=%d seed=25",
		"new cpq cap=2\ncall 1 enq 0.0\ncall 2 enq -1.5\ncall 3 deq\ncall 3 len\ncall 4 peek\npost len\npost dump\npost drain\nrun reps=%d seed=26",
		"new cpq cap=0\npre enq 0.0\npre enq 0.1\ncall 1 deq\ncall 2 peek\ncall 3 enq -1.0\ncall 3 deq\ncall 4 len\npost len\npost dump\npost drain\nrun reps=%d seed=27",
		"new cow init=0,0,-1\ncall 1 get 0\ncall 1 set 1 5\ncall 2 delete 0\ncall 2 append 0\ncall 3 add 0 0\ncall 3 range\ncall 4 asslice\npost asslice\npost len\nrun reps=%d seed=28",
		"new clist base=array init=0\ncall 1 delete 0\ncall 2 get 0\ncall 2 append 0,-3\ncall 3 set 0 0\ncall 3 asslice\ncall 4 len\npost asslice\npost len\nrun reps=%d seed=29",
		"new clist base=linked init=0,-1\ncall 1 delete 0\ncall 1 get 0\ncall 2 add 0 0\ncall 2 append 0\ncall 3 set 1 0\ncall 3 range\npost asslice\npost len\nrun reps=%d seed=30",
		"new clist base=array init=5,6,7\npre set 0 0\npre add 1 0\npre append 0\ncall 1 set 3 0\ncall 2 get 0\ncall 2 get 1\ncall 3 asslice\ncall 3 delete 0\npost asslice\npost len\nrun reps=%d seed=33",
		"new clist base=linked init=5,6,7\npre set 0 0\npre add 1 0\npre append 0\ncall 1 set 3 0\ncall 2 get 0\ncall 2 get 1\ncall 3 asslice\ncall 3 delete 0\npost asslice\npost len\nrun reps=%d seed=34",
		"new cow init=5,6,7\npre set 0 0\npre add 1 0\npre append 0\ncall 1 set 3 0\ncall 2 get 0\ncall 2 get 1\ncall 3 asslice\ncall 3 delete 0\npost asslice\npost len\nrun reps=%d seed=35",
		"new map\npre store 0 0\ncall 1 load 0\ncall 2 los 0 7\ncall 3 losf 0 0\ncall 4 lad 0\ncall 4 losf 0 0\npost range\nrun reps=%d seed=31",
		"new map\ncall 1 losf 0 0\ncall 2 losf 0 5\ncall 3 load 0\ncall 3 los -1 0\ncall 4 lad 0\ncall 4 load -1\npost range\nrun reps=%d seed=32",
		// ... and so for every instantiation of the generic map: the zero value of an interface-typed V (or K) is the nil
		// interface, of a pointer-typed V a nil pointer; a typed nil pointer inside an `any` is yet another value
		"new map k=int v=any\npre store 1 nil\ncall 1 load 1\ncall 1 losf 1 5\ncall 2 store 1 nil\ncall 2 los 1 s7\ncall 3 lad 1\ncall 3 load 1\ncall 4 range\npost range\nrun reps=%d seed=36",
		"new map k=int v=err\ncall 1 losf 0 nil\ncall 2 losf 0 e5\ncall 3 load 0\ncall 3 los 0 nil\ncall 4 lad 0\ncall 4 losfe 0\npost range\nrun reps=%d seed=37",
		"new map k=int v=ptr\npre store 1 nil\ncall 1 load 1\ncall 2 store 1 p3\ncall 2 store 1 nil\ncall 3 losf 1 p4\ncall 3 lad 1\ncall 4 los 1 nil\npost range\nrun reps=%d seed=38",
		"new map k=any v=any\npre store nil nil\npre store pnil pnil\ncall 1 load nil\ncall 1 lad pnil\ncall 2 losf nil 3\ncall 2 store s1 nil\ncall 3 los 1 s1\ncall 3 del nil\ncall 4 range\npost range\nrun reps=%d seed=39",
		"new map k=any v=int\ncall 1 store nil 0\ncall 1 load nil\ncall 2 losf nil 4\ncall 2 lad nil\ncall 3 los e1 0\ncall 3 load 1\ncall 4 range\npost range\nrun reps=%d seed=40",
	}
	for _, c := range corpus {
		for _, l := range strings.Split(c, "\n") {
			if strings.HasPrefix(l, "run ") {
				out.Line(l, g.reps*5)
			} else {
				out.Line("%s", l)
			}
		}
	}
	// permit bursts on the linked queue (3 producers / 6 consumers style)
	bursts := 150
	if tier == "thorough" {
		bursts = 1000
	}
	if v := os.Getenv("VERIF_LINZ_BURSTS"); v != "" {
		bursts = atoi(v)
	}
	for b := 0; b < bursts; b++ {
		out.Line("new clq")
		pc := vlib.Pick(g.r, [][2]int{{3, 6}, {3, 6}, {2, 4}, {1, 3}, {2, 6}, {4, 4}})
		out.Line("burst p=%d c=%d n=%d seed=%d", pc[0], pc[1], vlib.Pick(g.r, []int{800, 1500, 3000}), g.r.U64()%1000000007)
	}
	// stack bursts on the copy-on-write list (and, fewer, on the RWMutex wrapper)
	stacks := 40
	if tier == "thorough" {
		stacks = 300
	}
	if v := os.Getenv("VERIF_LINZ_STACKS"); v != "" {
		stacks = atoi(v)
	}
	for b := 0; b < stacks; b++ {
		k := g.r.Range(5, 10)
		init := make([]int, k)
		for i := range init {
			init[i] = i + 1
		}
		if b%5 == 4 {
			out.Line("new clist base=%s init=%s", vlib.Pick(g.r, []string{"array", "linked"}), vlib.Ints(init))
		} else {
			out.Line("new cow init=%s", vlib.Ints(init))
		}
		out.Line("cowstack r=%d n=%d k=%d seed=%d", vlib.Pick(g.r, []int{2, 4, 4}), vlib.Pick(g.r, []int{200, 400}),
			g.r.Range(2, 4), g.r.U64()%1000000007)
	}
	for c := 0; c < cases; c++ {
		switch c % 10 {
		case 0:
			g.clq()
		case 1:
			g.cpq()
		case 2:
			g.lst("clist")
		case 3:
			g.lst("cow")
		case 4:
			g.mp()
		case 5:
			g.clqRace()
		case 6:
			g.cpqRace()
		case 7:
			g.lstRace("clist")
		case 8:
			g.lstRace("cow")
		default:
			g.mpRace()
		}
	}
}

func main() {
	mode := flag.String("mode", "", "gen|run")
	tier := flag.String("tier", "quick", "quick|thorough")
	opsPath := flag.String("ops", "", "ops file (run)")
	outPath := flag.String("out", "", "output file")
	statsPath := flag.String("stats", "", "stats json (run)")
	flag.Parse()
	if s := os.Getenv("VERIF_HANG_MS"); s != "" {
		if v, err := strconv.Atoi(s); err == nil && v > 0 {
			hangMS = v
		}
	}
	switch *mode {
	case "gen":
		out := vlib.Create(*outPath)
		generate(*tier, out)
		out.Close()
	case "run":
		out := vlib.Create(*outPath)
		st := &stats{Kinds: map[string]int{}, Ops: map[string]int{}, Results: map[string]int{}, Threads: map[string]int{}}
		pendingStats = *statsPath
		runAll(vlib.ReadLines(*opsPath), out, st)
		out.Close()
		if *statsPath != "" {
			b, _ := json.MarshalIndent(st, "", " ")
			_ = os.WriteFile(*statsPath, b, 0o644)
		}
	default:
		fmt.Fprintln(os.Stderr, "usage: linz -mode gen|run ...")
		os.Exit(2)
	}
}
