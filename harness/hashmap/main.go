// Correspondence harness for C03 (hash-backed maps and sets): drives mapx.HashMap, the hash-backed
// LinkedMap and MultiMap, the builtin-map wrappers and set.MapSet in-process with key types whose
// Code()/Equals() range from perfect to constant, and writes one "op => observation" line per call.
//
//	hashmap -mode gen -tier quick|thorough -out ops.txt     (seed from VERIF_SEED)
//	hashmap -mode run -ops ops.txt -out trace.txt -stats stats.json
//
// Case header:  new <container> <keykind> <size>
//
//	container: hash | linked | multi | multib (MultiMap over builtinMap) | builtin | set
//	keykind:   perfect | mod2 | mod3 | const | half | halfmod   (id for the comparable-key containers)
//
// Observation: <result> len=<Len()> keys=<Keys() as returned> vals=<Values() as returned>
//
//	chains=<code>:<key>/<value>,…;<code>:…   (white box, sorted by code, chain order kept)
//	freed=<key>/<value>/<has next>           (fields of the node a successful Delete handed to the pool)
//	fwd= bwd=                                (linked map: entry list walked both ways)
//
// When the white-box hook had to be replaced by its black-box stub (mapx.VerifWhiteBox() == false) the
// white-box fields are replaced by `wb=na`, the direct builtinMap cases print `na`, and — since a cyclic
// chain can then no longer be seen before it is walked — every call runs under a watchdog: a call that
// does not return is reported as `hang=1` and the run stops there.
package main

import (
	"encoding/json"
	"flag"
	"fmt"
	"math"
	"os"
	"runtime/debug"
	"sort"
	"strconv"
	"strings"
	"time"

	"github.com/ecodeclub/ekit/mapx"
	"github.com/ecodeclub/ekit/set"
	"github.com/ecodeclub/ekit/zzverif/vlib"
)

// ---------------------------------------------------------------------------------------------
// key type: identity + the user-supplied hash/equality under test

const (
	kPerfect uint8 = iota
	kMod2
	kMod3
	kConst
	kHalf
	kHalfMod
)

var keyKinds = []string{"perfect", "mod2", "mod3", "const", "half", "halfmod"}

func kindOf(s string) uint8 {
	for i, k := range keyKinds {
		if k == s {
			return uint8(i)
		}
	}
	panic("key kind " + s)
}

type Key struct {
	ID   int
	Kind uint8
}

func (k Key) Code() uint64 {
	switch k.Kind {
	case kMod2:
		return uint64(k.ID % 2)
	case kMod3:
		return uint64(k.ID % 3)
	case kConst:
		return 7
	case kHalf:
		return uint64(k.ID / 2)
	case kHalfMod:
		return uint64((k.ID / 2) % 2)
	}
	return uint64(k.ID)
}

func (k Key) Equals(o any) bool {
	ok, is := o.(Key)
	if !is {
		return false
	}
	switch k.Kind {
	case kHalf, kHalfMod:
		return k.ID/2 == ok.ID/2
	}
	return k.ID == ok.ID
}

// ---------------------------------------------------------------------------------------------
// rendering

func rList(xs []int) string { // a multi-map value
	if len(xs) == 0 {
		return "e"
	}
	parts := make([]string, len(xs))
	for i, x := range xs {
		parts[i] = strconv.Itoa(x)
	}
	return strings.Join(parts, ".")
}

func pList(s string) []int {
	if s == "e" || s == "-" || s == "" {
		return []int{}
	}
	return vlib.ParseInts(strings.ReplaceAll(s, ".", ","))
}

func join(xs []string) string {
	if len(xs) == 0 {
		return "-"
	}
	return strings.Join(xs, ",")
}

func ids(ks []Key) []string {
	out := make([]string, len(ks))
	for i, k := range ks {
		out[i] = strconv.Itoa(k.ID)
	}
	return out
}

func chainsStr[V any](cs []mapx.VerifChain[Key, V], rv func(V) string) (s string, cycle bool, maxChain int) {
	parts := make([]string, 0, len(cs))
	for _, c := range cs {
		if c.Cycle {
			cycle = true
		}
		if len(c.Nodes) > maxChain {
			maxChain = len(c.Nodes)
		}
		nodes := c.Nodes
		if c.Cycle && len(nodes) > 24 {
			nodes = nodes[:24] // enough to see the loop
		}
		es := make([]string, len(nodes))
		for i, e := range nodes {
			es[i] = strconv.Itoa(e.Key.ID) + "/" + rv(e.Val)
		}
		body := strings.Join(es, ",")
		if c.NilHead {
			body = "nilhead"
		}
		parts = append(parts, strconv.FormatUint(c.Code, 10)+":"+body)
	}
	if len(parts) == 0 {
		return "-", cycle, maxChain
	}
	return strings.Join(parts, ";"), cycle, maxChain
}

// ---------------------------------------------------------------------------------------------
// the containers behind one interface

type box interface {
	put(k int, vs []int) string
	get(k int) string
	del(k int) string
	length() int64
	keys() []string
	values() []string
	// white-box part of the observation ("" when the container offers none)
	dump(b *bookkeeping) string
}

// bookkeeping shared by the hash-backed boxes: the node about to be deleted, pool recycling
type bookkeeping struct {
	freed     string
	freedRefs map[any]bool
	liveRefs  map[any]bool
	recycled  int
	cycle     bool
	maxChain  int
}

func find[V any](cs []mapx.VerifChain[Key, V], k Key) any {
	for _, c := range cs {
		if c.Code != k.Code() {
			continue
		}
		for _, e := range c.Nodes {
			if e.Key.Equals(k) {
				return e.Ref
			}
		}
	}
	return nil
}

// locate: where the key sits in the chain of its code before a call (white box; statistics only):
// chain length (0: no bucket) and index of the node that Equals it (-1: none).
func locate[V any](cs []mapx.VerifChain[Key, V], k Key) (n, pos int) {
	for _, c := range cs {
		if c.Code != k.Code() {
			continue
		}
		n, pos = len(c.Nodes), -1
		for i, e := range c.Nodes {
			if e.Key.Equals(k) {
				return n, i
			}
		}
		return n, pos
	}
	return 0, -1
}

// chain position classes for the coverage histograms
func posClass(n, pos int) string {
	switch {
	case n == 0:
		return "no-bucket"
	case pos < 0:
		return "not-in-chain"
	case n == 1:
		return "only"
	case pos == 0:
		return "head"
	case pos == n-1:
		return "tail"
	}
	return "middle"
}

// locator is implemented by the hash-backed boxes
type locator interface{ locate(k int) (n, pos int) }

func (h *hashBox) locate(k int) (int, int) { return locate(h.m.VerifChains(), h.key(k)) }
func (h *linkedBox) locate(k int) (int, int) {
	cs, _ := mapx.VerifLinkedChains(h.m)
	return locate(cs, h.key(k))
}
func (h *multiBox[K]) locate(k int) (int, int) {
	if h.hashM == nil {
		return 0, -1
	}
	cs, _ := mapx.VerifMultiChains(h.hashM)
	return locate(cs, Key{ID: k, Kind: h.kind})
}

func (b *bookkeeping) track(refs []any) {
	live := map[any]bool{}
	for _, r := range refs {
		live[r] = true
		if b.freedRefs[r] {
			b.recycled++
			delete(b.freedRefs, r)
		}
	}
	b.liveRefs = live
}

func refsOf[V any](cs []mapx.VerifChain[Key, V]) []any {
	var out []any
	for _, c := range cs {
		for _, e := range c.Nodes {
			out = append(out, e.Ref)
		}
	}
	return out
}

// --- HashMap[Key,int]
type hashBox struct {
	kind uint8
	m    *mapx.HashMap[Key, int]
	bk   *bookkeeping
}

// okv renders a (value, found) pair.  The model's answer for an absent key is Go's (zero value, false):
// a non-zero value next to ok == false (e.g. the value of the last node the chain walk looked at) is
// a different answer and is printed as such — callers using `v, _ := m.Get(k)` would see it.
func okv(v int, ok bool) string {
	if !ok {
		if v != 0 {
			return "miss-nonzero:" + strconv.Itoa(v)
		}
		return "miss"
	}
	return "ok:" + strconv.Itoa(v)
}

func (h *hashBox) key(k int) Key { return Key{ID: k, Kind: h.kind} }
func (h *hashBox) put(k int, vs []int) string {
	return vlib.Err(h.m.Put(h.key(k), vs[0]))
}
func (h *hashBox) get(k int) string { return okv(h.m.Get(h.key(k))) }
func (h *hashBox) del(k int) string {
	ref := find(h.m.VerifChains(), h.key(k))
	v, ok := h.m.Delete(h.key(k))
	if ok && ref != nil {
		fk, fv, fn := mapx.VerifNodeFields[Key, int](ref)
		h.bk.freed = fmt.Sprintf("%d/%d/%d", fk.ID, fv, b2i(fn))
		h.bk.freedRefs[ref] = true
	}
	return okv(v, ok)
}
func (h *hashBox) length() int64  { return h.m.Len() }
func (h *hashBox) keys() []string { return ids(h.m.Keys()) }
func (h *hashBox) values() []string {
	vs := h.m.Values()
	out := make([]string, len(vs))
	for i, v := range vs {
		out[i] = strconv.Itoa(v)
	}
	return out
}
func (h *hashBox) dump(b *bookkeeping) string {
	if !whiteBox {
		return "wb=na"
	}
	cs := h.m.VerifChains()
	b.track(refsOf(cs))
	s, cyc, mc := chainsStr(cs, strconv.Itoa)
	b.cycle = b.cycle || cyc
	if mc > b.maxChain {
		b.maxChain = mc
	}
	return "chains=" + s
}

func b2i(b bool) int {
	if b {
		return 1
	}
	return 0
}

// --- LinkedMap[Key,int] over HashMap
type linkedBox struct {
	kind uint8
	m    *mapx.LinkedMap[Key, int]
	bk   *bookkeeping
}

func (h *linkedBox) key(k int) Key { return Key{ID: k, Kind: h.kind} }
func (h *linkedBox) put(k int, vs []int) string {
	return vlib.Err(h.m.Put(h.key(k), vs[0]))
}
func (h *linkedBox) get(k int) string { return okv(h.m.Get(h.key(k))) }
func (h *linkedBox) del(k int) string {
	cs, _ := mapx.VerifLinkedChains(h.m)
	ref := find(cs, h.key(k))
	v, ok := h.m.Delete(h.key(k))
	if ok && ref != nil {
		fk, fnil, fn := mapx.VerifLinkedNodeFields[Key, int](ref)
		fv := "ptr"
		if fnil {
			fv = "nil"
		}
		h.bk.freed = fmt.Sprintf("%d/%s/%d", fk.ID, fv, b2i(fn))
		h.bk.freedRefs[ref] = true
	}
	return okv(v, ok)
}
func (h *linkedBox) length() int64  { return h.m.Len() }
func (h *linkedBox) keys() []string { return ids(h.m.Keys()) }
func (h *linkedBox) values() []string {
	vs := h.m.Values()
	out := make([]string, len(vs))
	for i, v := range vs {
		out[i] = strconv.Itoa(v)
	}
	return out
}
func rKV(kv mapx.VerifKV[Key, int]) string {
	if kv.Nil {
		return "nil"
	}
	return strconv.Itoa(kv.Key.ID) + "~" + strconv.Itoa(kv.Val)
}
func (h *linkedBox) dump(b *bookkeeping) string {
	if !whiteBox {
		return "wb=na"
	}
	cs, _ := mapx.VerifLinkedChains(h.m)
	b.track(refsOf(cs))
	s, cyc, mc := chainsStr(cs, rKV)
	fwd, bwd, cyc2 := mapx.VerifLinkedWalk(h.m)
	b.cycle = b.cycle || cyc || cyc2
	if mc > b.maxChain {
		b.maxChain = mc
	}
	f := make([]string, len(fwd))
	for i, e := range fwd {
		f[i] = rKV(e)
	}
	// the backward walk is printed reversed: a sound ring prints the same list twice
	r := make([]string, len(bwd))
	for i, e := range bwd {
		r[len(bwd)-1-i] = rKV(e)
	}
	return "chains=" + s + " fwd=" + join(f) + " bwd=" + join(r)
}

// --- MultiMap[Key,int] over HashMap, MultiMap[int,int] over builtinMap
type multi[K any] interface {
	Put(K, int) error
	PutMany(K, ...int) error
	Get(K) ([]int, bool)
	Delete(K) ([]int, bool)
	Keys() []K
	Values() [][]int
	Len() int64
}

type multiBox[K any] struct {
	m     multi[K]
	key   func(int) K
	id    func(K) int
	hashM *mapx.MultiMap[Key, int] // nil for the builtin-backed one
	kind  uint8
	bk    *bookkeeping
}

func scribble(xs []int) {
	full := xs[:cap(xs)]
	for i := range full {
		full[i] = -777
	}
}

func (h *multiBox[K]) put(k int, vs []int) string {
	var err error
	if len(vs) == 1 {
		err = h.m.Put(h.key(k), vs[0])
	} else {
		err = h.m.PutMany(h.key(k), vs...)
	}
	scribble(vs) // the map must have copied the arguments
	return vlib.Err(err)
}
func (h *multiBox[K]) get(k int) string {
	v, ok := h.m.Get(h.key(k))
	if !ok {
		if v != nil {
			return "miss-nonnil"
		}
		return "miss"
	}
	res := "ok:" + rList(v)
	scribble(v) // the result must be a copy
	return res
}
func (h *multiBox[K]) del(k int) string {
	var ref any
	if h.hashM != nil {
		cs, _ := mapx.VerifMultiChains(h.hashM)
		ref = find(cs, Key{ID: k, Kind: h.kind})
	}
	v, ok := h.m.Delete(h.key(k))
	if ok && ref != nil {
		fk, fv, fn := mapx.VerifNodeFields[Key, []int](ref)
		h.bk.freed = fmt.Sprintf("%d/%s/%d", fk.ID, rList(fv), b2i(fn))
		h.bk.freedRefs[ref] = true
	}
	if !ok {
		if v != nil {
			return "miss-nonnil"
		}
		return "miss"
	}
	res := "ok:" + rList(v)
	scribble(v)
	return res
}
func (h *multiBox[K]) length() int64 { return h.m.Len() }
func (h *multiBox[K]) keys() []string {
	ks := h.m.Keys()
	out := make([]string, len(ks))
	for i, k := range ks {
		out[i] = strconv.Itoa(h.id(k))
	}
	return out
}
func (h *multiBox[K]) values() []string {
	vs := h.m.Values()
	out := make([]string, len(vs))
	for i, v := range vs {
		out[i] = rList(v)
		scribble(v) // copies
	}
	return out
}
func (h *multiBox[K]) dump(b *bookkeeping) string {
	if h.hashM == nil {
		return ""
	}
	if !whiteBox {
		return "wb=na"
	}
	cs, _ := mapx.VerifMultiChains(h.hashM)
	b.track(refsOf(cs))
	s, cyc, mc := chainsStr(cs, rList)
	b.cycle = b.cycle || cyc
	if mc > b.maxChain {
		b.maxChain = mc
	}
	return "chains=" + s
}

// --- builtinMap[int,int]
type builtinBox struct {
	m mapx.VerifBuiltinMap[int, int]
}

func (h *builtinBox) put(k int, vs []int) string { return vlib.Err(h.m.Put(k, vs[0])) }
func (h *builtinBox) get(k int) string           { return okv(h.m.Get(k)) }
func (h *builtinBox) del(k int) string           { return okv(h.m.Delete(k)) }
func (h *builtinBox) length() int64              { return h.m.Len() }
func (h *builtinBox) keys() []string {
	ks := h.m.Keys()
	out := make([]string, len(ks))
	for i, k := range ks {
		out[i] = strconv.Itoa(k)
	}
	return out
}
func (h *builtinBox) values() []string {
	vs := h.m.Values()
	out := make([]string, len(vs))
	for i, v := range vs {
		out[i] = strconv.Itoa(v)
	}
	return out
}
func (h *builtinBox) dump(*bookkeeping) string { return "" }

// --- MapSet[int]: add = put, exist = get
type setBox struct {
	m *set.MapSet[int]
}

func (h *setBox) put(k int, _ []int) string { h.m.Add(k); return "ok" }
func (h *setBox) get(k int) string {
	if h.m.Exist(k) {
		return "ok:1"
	}
	return "miss"
}
func (h *setBox) del(k int) string { h.m.Delete(k); return "ok" }
func (h *setBox) length() int64   { return int64(len(h.m.Keys())) }
func (h *setBox) keys() []string {
	ks := h.m.Keys()
	out := make([]string, len(ks))
	for i, k := range ks {
		out[i] = strconv.Itoa(k)
	}
	return out
}
func (h *setBox) values() []string         { return nil }
func (h *setBox) dump(*bookkeeping) string { return "" }

func mk(container, kk string, size int, bk *bookkeeping) box {
	switch container {
	case "hash":
		return &hashBox{kind: kindOf(kk), m: mapx.NewHashMap[Key, int](size), bk: bk}
	case "linked":
		return &linkedBox{kind: kindOf(kk), m: mapx.NewLinkedHashMap[Key, int](size), bk: bk}
	case "multi":
		kind := kindOf(kk)
		m := mapx.NewMultiHashMap[Key, int](size)
		return &multiBox[Key]{m: m, hashM: m, bk: bk, kind: kind,
			key: func(i int) Key { return Key{ID: i, Kind: kind} }, id: func(k Key) int { return k.ID }}
	case "multib":
		m := mapx.NewMultiBuiltinMap[int, int](size)
		return &multiBox[int]{m: m, bk: bk, key: func(i int) int { return i }, id: func(k int) int { return k }}
	case "builtin":
		m := mapx.VerifNewBuiltinMap[int, int](size)
		if !m.Available() {
			return nil // black-box stub: the unexported wrapper cannot be constructed
		}
		return &builtinBox{m: m}
	case "set":
		return &setBox{m: set.NewMapSet[int](size)}
	}
	panic("container " + container)
}

// ---------------------------------------------------------------------------------------------
// generator

type genState struct {
	r    *vlib.Rng
	out  *vlib.Out
	val  int
	live map[int]bool
}

// next: mostly fresh positive values (a stale value is recognisable); sometimes the zero value, a
// negative, a repeat of the latest fresh value or an extreme int
func (g *genState) next() int {
	switch p := g.r.Intn(100); {
	case p < 8:
		return 0
	case p < 11:
		return -g.r.Range(1, 9)
	case p < 14:
		return g.val
	case p < 15:
		return vlib.Pick(g.r, []int{math.MaxInt, math.MinInt})
	}
	g.val++
	return g.val
}

func (g *genState) putLine(container string, k int) {
	if container == "set" {
		g.out.Line("add %d", k)
	} else if strings.HasPrefix(container, "multi") {
		n := 1
		if g.r.Chance(35) {
			n = g.r.Range(0, 3)
		}
		xs := make([]int, n)
		for i := range xs {
			xs[i] = g.next()
		}
		g.out.Line("put %d %s", k, vlib.Ints(xs))
	} else {
		g.out.Line("put %d %d", k, g.next())
	}
	g.live[k] = true
}

func (g *genState) getLine(container string, k int) {
	if container == "set" {
		g.out.Line("exist %d", k)
	} else {
		g.out.Line("get %d", k)
	}
}

func (g *genState) delLine(k int) {
	g.out.Line("delete %d", k)
	delete(g.live, k)
}

// MapSet has no Len
func (g *genState) lenLine(container string) {
	if container == "set" {
		g.out.Line("keys")
	} else {
		g.out.Line("len")
	}
}

func (g *genState) liveKeys() []int {
	ks := make([]int, 0, len(g.live))
	for k := range g.live {
		ks = append(ks, k)
	}
	sort.Ints(ks)
	return ks
}

var containers = []string{"hash", "hash", "hash", "linked", "linked", "multi", "multi", "multib", "builtin", "set"}

func gen(tier string, out *vlib.Out) {
	r := vlib.NewRng(vlib.Seed())
	cases := 1500
	if tier == "thorough" {
		cases = 6000
	}
	corpus := []string{
		// the defect fixed in /repo: Len() returned the number of buckets (6 keys, 2 codes)
		"new hash mod2 0\nput 1 11\nput 2 12\nput 3 13\nput 4 14\nput 5 15\nput 6 16\nlen\nkeys\nvalues",
		"new multi mod2 0\nput 1 11\nput 2 12\nput 3 13\nput 4 14\nput 5 15\nput 6 16\nlen\nkeys\nvalues",
		"new linked mod2 0\nput 1 11\nput 2 12\nput 3 13\nput 4 14\nput 5 15\nput 6 16\nlen\nkeys\nvalues",
		// one chain: delete head-with-successor, middle, tail, only node; then recycle the pooled nodes
		"new hash const 8\nput 1 1\nput 2 2\nput 3 3\nput 4 4\nput 5 5\ndelete 1\nkeys\ndelete 3\ndelete 5\nlen\ndelete 2\ndelete 4\nlen\ndelete 4\nput 6 6\nput 7 7\nput 8 8\nput 9 9\nput 10 10\nput 11 11\nkeys\nvalues\nget 1\nget 6",
		// a node unlinked from the middle of one chain is recycled as the head of another
		"new hash mod3 0\nput 3 1\nput 6 2\nput 9 3\ndelete 6\nput 1 4\nkeys\nlen\nget 9\nput 4 5\ndelete 3\nput 2 6\nkeys\nvalues\nlen",
		// Equals coarser than identity: the stored key is the first one; overwriting keeps it
		"new hash half 1\nput 2 1\nput 3 2\nget 2\nget 3\nkeys\nlen\ndelete 3\nget 2\nlen\nput 3 3\nkeys\nput 5 4\nput 4 5\nkeys\nvalues",
		"new hash halfmod 1\nput 2 1\nput 3 2\nput 6 3\nput 7 4\nput 10 5\nget 11\ndelete 7\nkeys\nlen\nput 6 6\nkeys\nvalues\nget 2\nget 10",
		"new linked const 0\nput 1 1\nput 2 2\nput 3 3\nput 2 4\nkeys\nvalues\ndelete 2\nkeys\nput 2 5\nkeys\nvalues\nlen\ndelete 1\ndelete 3\ndelete 2\nlen\nkeys\nput 3 6\nkeys",
		"new linked half 0\nput 2 1\nput 4 2\nput 3 3\nkeys\nvalues\ndelete 2\nput 3 4\nkeys\nlen",
		"new multi const 0\nput 1 1\nput 1 2,3\nput 2 4\nget 1\nget 1\nvalues\nvalues\nput 1 -\nput 3 -\nget 3\nlen\ndelete 1\nget 1\nput 1 5\nget 1\nkeys\nvalues",
		"new multib id 0\nput 1 1\nput 1 2,3\nput 2 4\nget 1\nget 1\nvalues\nvalues\nput 3 -\nget 3\nlen\ndelete 1\nget 1\nput 1 5\nget 1\nkeys",
		"new builtin id 0\nput 1 1\nput 1 2\nput 2 3\nget 1\nget 3\ndelete 3\ndelete 1\nlen\nkeys\nvalues\ndelete 1",
		"new set id 0\nadd 1\nadd 1\nadd 2\nexist 1\nexist 3\ndelete 3\ndelete 1\nkeys\nexist 1\nadd 1\nkeys",
		"new hash perfect 0\nget 1\ndelete 1\nlen\nkeys\nvalues",
		// key 0 (for `perfect` the zero value of the key type, what a pooled node holds) with non-zero values
		"new hash perfect 0\nget 0\nput 0 5\nget 0\nlen\nkeys\nvalues\nput 0 6\nget 0\ndelete 0\nget 0\nlen\ndelete 0\nput 1 7\nput 0 8\nkeys\nget 0\nget 1",
		"new hash mod2 0\nput 2 1\nput 0 2\nput 4 3\nget 0\ndelete 2\nget 0\nkeys\ndelete 0\nget 0\nget 4\nput 0 4\nkeys\nvalues\nlen",
		"new hash half 0\nput 1 1\nget 0\nput 0 2\nkeys\nvalues\ndelete 0\nget 1\nlen",
		"new linked perfect 0\nput 0 5\nput 1 6\nput 0 7\nkeys\nvalues\nget 0\ndelete 0\nkeys\nput 0 8\nkeys\nlen",
		"new multi perfect 0\nput 0 1\nput 0 2\nget 0\nput 1 0\nput 1 0,0\nget 1\nkeys\nvalues\ndelete 0\nget 0\nlen",
		"new multib id 0\nput 0 1\nput 0 0\nget 0\nput -1 0\nget -1\nkeys\ndelete 0\nget 0\nlen",
		"new builtin id 0\nget 0\nput 0 5\nget 0\nput -1 6\nlen\nkeys\nvalues\ndelete 0\nget 0\nget -1\nlen",
		"new set id 0\nexist 0\nadd 0\nexist 0\nkeys\nadd 1\nadd -1\nadd 0\nkeys\ndelete 0\nexist 0\nkeys\nadd 0\nkeys",
		// zero, negative, extreme and repeated VALUES under non-zero keys: a stored zero is found, not "absent"
		"new hash perfect 0\nput 1 0\nget 1\nlen\nvalues\nput 2 0\nput 3 -4\nvalues\nput 1 9\nput 1 0\nget 1\ndelete 1\nget 1\ndelete 2\nlen\nput 4 9223372036854775807\nput 5 -9223372036854775808\nget 4\nget 5\nvalues",
		"new hash const 0\nput 1 0\nput 2 0\nput 3 7\nput 4 7\nget 2\nvalues\ndelete 2\ndelete 1\nget 3\nput 5 0\nkeys\nvalues",
		"new linked mod2 0\nput 1 0\nput 2 0\nput 3 5\nget 1\nvalues\nput 3 0\nvalues\ndelete 1\nget 1\nvalues\nlen",
		"new builtin id 0\nput 1 0\nget 1\nlen\nvalues\ndelete 1\nget 1\nput 2 -3\nput 3 -3\nvalues",
		"new hash const 0\nput -1 1\nput 0 2\nput 1 3\nget -1\ndelete 0\nkeys\nvalues\nget -1\nlen",
	}
	for _, c := range corpus {
		for _, l := range strings.Split(c, "\n") {
			out.Line("%s", l)
		}
	}
	g := &genState{r: r, out: out}
	for c := 0; c < cases; c++ {
		container := vlib.Pick(r, containers)
		kk := "id"
		if container == "hash" || container == "linked" || container == "multi" {
			kk = vlib.Pick(r, keyKinds)
		}
		universe := vlib.Pick(r, []int{1, 3, 8, 8, 14, 40})
		size := vlib.Pick(r, []int{0, 0, 1, 8, 64})
		out.Line("new %s %s %d", container, kk, size)
		g.live = map[int]bool{}
		// negative IDs only where no Code() is taken of them (uint64 wrap-around; the model's codes are Int)
		negOK := kk == "id" || kk == "const"
		key := func() int {
			switch p := r.Intn(100); {
			case p < 7:
				return 0
			case p < 11 && negOK:
				return -r.Range(1, 3)
			}
			return r.Range(1, universe)
		}
		phases := []string{"fill", "churn", "drain", "refill", "churn"}
		switch {
		case r.Chance(25):
			phases = []string{"churn"}
		case r.Chance(20):
			phases = []string{"fill", "chaindel", "refill", "chaindel", "refill"}
		case r.Chance(15):
			phases = []string{"fill", "drain", "refill", "drain", "refill", "churn"}
		}
		for _, ph := range phases {
			steps := r.Range(3, 18)
			switch ph {
			case "fill", "refill":
				for s := 0; s < steps; s++ {
					if r.Chance(85) {
						g.putLine(container, key())
					} else {
						g.getLine(container, key())
					}
				}
				if r.Chance(50) {
					out.Line("keys")
				}
			case "drain":
				ks := g.liveKeys()
				// ascending, descending or random order: head-first, tail-first, mixed unlinking
				switch r.Intn(3) {
				case 0:
					sort.Sort(sort.Reverse(sort.IntSlice(ks)))
				case 1:
					for i := range ks {
						j := r.Intn(i + 1)
						ks[i], ks[j] = ks[j], ks[i]
					}
				}
				for _, k := range ks {
					g.delLine(k)
				}
				g.lenLine(container)
				if r.Chance(50) {
					g.delLine(key())
				}
			case "chaindel":
				// delete a few live keys (colliding kinds make them head/middle/tail of chains), look at the rest
				ks := g.liveKeys()
				n := r.Range(1, 4)
				for i := 0; i < n && len(ks) > 0; i++ {
					j := r.Intn(len(ks))
					g.delLine(ks[j])
					ks = append(ks[:j], ks[j+1:]...)
					if len(ks) > 0 && r.Chance(60) {
						g.getLine(container, vlib.Pick(r, ks))
					}
				}
				g.lenLine(container)
			default: // churn
				for s := 0; s < steps; s++ {
					p := r.Intn(100)
					switch {
					case p < 34:
						g.putLine(container, key())
					case p < 52:
						g.getLine(container, key())
					case p < 80:
						g.delLine(key())
					case p < 86:
						g.lenLine(container)
					case p < 93:
						out.Line("keys")
					default:
						if container == "set" {
							out.Line("keys")
						} else {
							out.Line("values")
						}
					}
				}
			}
		}
	}
}

// ---------------------------------------------------------------------------------------------
// runner

type stats struct {
	Ops       map[string]int `json:"ops"`
	Results   map[string]int `json:"results"`
	Kinds     map[string]int `json:"kinds"`
	MaxLen    int            `json:"max_len"`
	MaxChain  int            `json:"max_chain"`
	Recycled  int            `json:"pool_nodes_recycled"`
	Freed     int            `json:"pool_nodes_freed"`
	Cases     int            `json:"cases"`
	Lines     int            `json:"lines"`
	Distinct  int            `json:"distinct_state_op_pairs"`
	LenHist   map[string]int `json:"len_hist"`
	// hash-backed containers, white box: where in its collision chain the key of a put / delete / get sat
	// before the call, and where a node taken back from the pool was linked in
	PutPos      map[string]int `json:"put_chain_pos"`
	DelPos      map[string]int `json:"delete_chain_pos"`
	GetPos      map[string]int `json:"get_chain_pos"`
	RecycledPos map[string]int `json:"recycled_node_linked_at"`
	MissNonzero int            `json:"miss_with_nonzero_value"`
}

// whiteBox: the hook really reads the internals (false: the black-box stub is installed)
var whiteBox = mapx.VerifWhiteBox()

// guard runs f, recovering a panic; black-box it also gives up on a call that does not return.
func guard(f func()) (p string, hung bool) {
	if whiteBox {
		return vlib.Catch(f), false
	}
	done := make(chan string, 1)
	go func() { done <- vlib.Catch(f) }()
	select {
	case p = <-done:
		return p, false
	case <-time.After(1000 * time.Millisecond):
		return "", true
	}
}

func observe(b box, bk *bookkeeping) (string, int) {
	wb := b.dump(bk)
	if bk.cycle {
		// Len/Keys/Values would not terminate on a cyclic chain
		return "cycle=1 " + wb, 0
	}
	n := b.length()
	s := fmt.Sprintf("len=%d keys=%s", n, join(b.keys()))
	if vs := b.values(); vs != nil {
		s += " vals=" + join(vs)
	}
	if wb != "" {
		s += " " + wb
	}
	return s, int(n)
}

func run(ops []string, out *vlib.Out, st *stats) {
	var b box
	bk := &bookkeeping{freedRefs: map[any]bool{}}
	seen := map[string]struct{}{}
	header := ""
	before := ""
	na := false
	for _, line := range ops {
		w := strings.Fields(line)
		st.Ops[w[0]]++
		st.Lines++
		if w[0] == "new" {
			st.Cases++
			st.Recycled += bk.recycled
			header = w[1] + "/" + w[2]
			st.Kinds[header]++
			bk = &bookkeeping{freedRefs: map[any]bool{}}
			size, _ := strconv.Atoi(w[3])
			na = false
			p := vlib.Catch(func() { b = mk(w[1], w[2], size, bk) })
			if p != "" {
				b = nil
				out.Line("%s => %s", line, p)
				continue
			}
			if b == nil {
				na = true
				out.Line("%s => na", line)
				continue
			}
			before, _ = observe(b, bk)
			out.Line("%s => ok %s", line, before)
			continue
		}
		if na {
			out.Line("%s => na", line)
			continue
		}
		if b == nil {
			out.Line("%s => no-container", line)
			continue
		}
		if bk.cycle {
			out.Line("%s => skipped cycle=1", line)
			continue
		}
		bk.freed = ""
		var res string
		cls := ""
		if lc, ok := b.(locator); ok && whiteBox && len(w) > 1 && (w[0] == "put" || w[0] == "delete" || w[0] == "get") {
			if _, isMultiB := b.(*multiBox[int]); !isMultiB {
				k, _ := strconv.Atoi(w[1])
				cls = posClass(lc.locate(k))
				switch w[0] {
				case "put":
					st.PutPos[cls]++
				case "delete":
					st.DelPos[cls]++
				default:
					st.GetPos[cls]++
				}
			}
		}
		recycledBefore := bk.recycled
		p, hung := guard(func() {
			switch w[0] {
			case "put":
				k, _ := strconv.Atoi(w[1])
				var vs []int
				if strings.Contains(header, "multi") {
					vs = vlib.ParseInts(w[2])
				} else {
					v, _ := strconv.Atoi(w[2])
					vs = []int{v}
				}
				res = b.put(k, vs)
			case "add":
				k, _ := strconv.Atoi(w[1])
				res = b.put(k, nil)
			case "get", "exist":
				k, _ := strconv.Atoi(w[1])
				res = b.get(k)
			case "delete":
				k, _ := strconv.Atoi(w[1])
				res = b.del(k)
			case "len":
				res = "ok:" + strconv.FormatInt(b.length(), 10)
			case "keys":
				res = "ok:" + join(b.keys())
			case "values":
				res = "ok:" + join(b.values())
			default:
				panic("op " + w[0])
			}
		})
		if hung {
			out.Line("%s => hang=1", line)
			st.Results[w[0]+"/hang"]++
			break
		}
		if p != "" {
			res = p
		}
		var after string
		var n int
		p2, hung2 := guard(func() { after, n = observe(b, bk) })
		if hung2 {
			out.Line("%s => %s hang=1", line, res)
			st.Results[w[0]+"/hang"]++
			break
		}
		if p2 != "" {
			after = "observe-" + p2
		}
		if bk.freed != "" {
			after += " freed=" + bk.freed
			st.Freed++
		}
		if bk.recycled > recycledBefore && cls != "" {
			if cls == "no-bucket" {
				st.RecycledPos["new-bucket-head"]++
			} else {
				st.RecycledPos["chain-tail"]++
			}
		}
		if strings.HasPrefix(res, "miss-non") {
			st.MissNonzero++
		}
		if n > st.MaxLen {
			st.MaxLen = n
		}
		if bk.maxChain > st.MaxChain {
			st.MaxChain = bk.maxChain
		}
		st.LenHist[bucket(n)]++
		rk := res
		if i := strings.IndexByte(rk, ':'); i > 0 {
			rk = rk[:i]
		}
		st.Results[w[0]+"/"+rk]++
		if before != after || rk != "ok" {
			seen[header+"|"+before+"|"+line] = struct{}{}
		}
		before = strings.Split(after, " freed=")[0]
		out.Line("%s => %s %s", line, res, after)
	}
	st.Recycled += bk.recycled
	st.Distinct = len(seen)
}

func bucket(n int) string {
	switch {
	case n == 0:
		return "0"
	case n <= 2:
		return "1-2"
	case n <= 5:
		return "3-5"
	case n <= 10:
		return "6-10"
	case n <= 20:
		return "11-20"
	}
	return "21+"
}

func main() {
	mode := flag.String("mode", "gen", "gen|run")
	tier := flag.String("tier", "quick", "quick|thorough")
	opsF := flag.String("ops", "", "ops file (run mode)")
	outF := flag.String("out", "", "output file")
	statsF := flag.String("stats", "", "stats json (run mode)")
	flag.Parse()
	out := vlib.Create(*outF)
	defer out.Close()
	switch *mode {
	case "gen":
		gen(*tier, out)
	case "run":
		// sync.Pool is emptied by the garbage collector; with the collector off every node handed
		// to the pool by Delete is handed out again by a later Put
		debug.SetGCPercent(-1)
		st := &stats{Ops: map[string]int{}, Results: map[string]int{}, Kinds: map[string]int{},
			LenHist: map[string]int{}, PutPos: map[string]int{}, DelPos: map[string]int{}, GetPos: map[string]int{},
			RecycledPos: map[string]int{}}
		run(vlib.ReadLines(*opsF), out, st)
		if *statsF != "" {
			b, _ := json.MarshalIndent(st, "", " ")
			os.WriteFile(*statsF, b, 0o644)
		}
	}
}
