package main

// Seeded generation and canonical rendering of values of arbitrary reflect.Types.
//
//	val := z | T | F | #<int>; | '<chars>; | &val | [val*] | (val*) | {val*} | o<id>;
//
// z = nil (pointer, slice, map, chan, func, interface, unsafe pointer); [..] a non-nil slice, or a
// non-nil map as key,value,... sorted by rendered key; (..) an array; {..} a struct, one value per
// field in declaration order (unexported ones included); o<id>; a non-nil chan / func / interface /
// unsafe pointer, identified by first appearance within one op.

import (
	"fmt"
	"math"
	"reflect"
	"sort"
	"strconv"
	"strings"
	"time"
	"unsafe"

	"github.com/ecodeclub/ekit/zzverif/vlib"
)

var someFuncs = []func(){func() {}, func() { _ = 1 }}
var someFuncs1 = []func(int) int{func(x int) int { return x }, func(x int) int { return x + 1 }}
var uptrTargets [4]int

// settable returns a settable view of v even when v was reached through an unexported field.
func settable(v reflect.Value) reflect.Value {
	if v.CanSet() {
		return v
	}
	return reflect.NewAt(v.Type(), unsafe.Pointer(v.UnsafeAddr())).Elem()
}

// fill stores a seeded value in the (addressable) v.
func fill(v reflect.Value, r *vlib.Rng, depth int) {
	v = settable(v)
	t := v.Type()
	if t == timeType {
		if r.Chance(35) {
			v.Set(reflect.ValueOf(time.Time{}))
		} else {
			v.Set(reflect.ValueOf(time.Unix(int64(r.Range(1, 50)), 0).UTC()))
		}
		return
	}
	zero := r.Chance(30)
	switch t.Kind() {
	case reflect.Bool:
		v.SetBool(!zero && r.Chance(80))
	case reflect.Int, reflect.Int8, reflect.Int16, reflect.Int32, reflect.Int64:
		if zero {
			v.SetInt(0)
		} else {
			v.SetInt(int64(vlib.Pick(r, []int{1, -1, 7, 42, -100, 2, 3, 99})))
		}
	case reflect.Uint, reflect.Uint8, reflect.Uint16, reflect.Uint32, reflect.Uint64, reflect.Uintptr:
		if zero {
			v.SetUint(0)
		} else {
			v.SetUint(uint64(vlib.Pick(r, []int{1, 7, 42, 200, 2, 3})))
		}
	case reflect.Float32, reflect.Float64:
		if zero {
			v.SetFloat(0)
		} else {
			v.SetFloat(float64(vlib.Pick(r, []int{1, -2, 5, 64})))
		}
	case reflect.Complex64, reflect.Complex128:
		if zero {
			v.SetComplex(0)
		} else {
			v.SetComplex(complex(float64(vlib.Pick(r, []int{1, -2, 5})), 0))
		}
	case reflect.String:
		if zero {
			v.SetString("")
		} else {
			v.SetString(vlib.Pick(r, []string{"a", "xy", "go1", "q_7", "Zz", "b-c"}))
		}
	case reflect.Slice:
		if zero {
			return
		}
		n := 0
		if !r.Chance(20) {
			n = r.Range(1, 3)
		}
		s := reflect.MakeSlice(t, n, n)
		for i := 0; i < n; i++ {
			fill(s.Index(i), r, depth+1)
		}
		v.Set(s)
	case reflect.Array:
		if zero {
			return
		}
		for i := 0; i < t.Len(); i++ {
			fill(v.Index(i), r, depth+1)
		}
	case reflect.Map:
		if zero {
			return
		}
		m := reflect.MakeMap(t)
		n := r.Range(0, 2)
		for i := 0; i < n; i++ {
			k := reflect.New(t.Key()).Elem()
			fillKey(k, r, i)
			e := reflect.New(t.Elem()).Elem()
			fill(e, r, depth+1)
			m.SetMapIndex(k, e)
		}
		v.Set(m)
	case reflect.Chan:
		if zero {
			return
		}
		v.Set(reflect.MakeChan(t, 1))
	case reflect.Func:
		if zero {
			return
		}
		switch t {
		case funcLib[0]:
			v.Set(reflect.ValueOf(vlib.Pick(r, someFuncs)))
		case funcLib[1]:
			v.Set(reflect.ValueOf(vlib.Pick(r, someFuncs1)))
		}
	case reflect.Interface:
		if zero {
			return
		}
		if t == ifaceLib[1] {
			v.Set(reflect.ValueOf(fmt.Errorf("e%d", r.Range(1, 3))))
		} else if t.NumMethod() == 0 {
			if r.Bool() {
				v.Set(reflect.ValueOf(r.Range(1, 9)))
			} else {
				v.Set(reflect.ValueOf(vlib.Pick(r, []string{"i", "j"})))
			}
		}
	case reflect.UnsafePointer:
		if zero {
			return
		}
		v.SetPointer(unsafe.Pointer(&uptrTargets[r.Intn(len(uptrTargets))]))
	case reflect.Pointer:
		if zero || depth > 6 {
			return
		}
		p := reflect.New(t.Elem())
		fill(p.Elem(), r, depth+1)
		v.Set(p)
	case reflect.Struct:
		for i := 0; i < t.NumField(); i++ {
			fill(v.Field(i), r, depth+1)
		}
	}
}

func fillKey(k reflect.Value, r *vlib.Rng, i int) {
	switch k.Kind() {
	case reflect.String:
		k.SetString(fmt.Sprintf("k%d", i+r.Intn(2)*2))
	case reflect.Int, reflect.Int8, reflect.Int16, reflect.Int32, reflect.Int64:
		k.SetInt(int64(i + r.Intn(2)*2))
	case reflect.Uint, reflect.Uint8, reflect.Uint16, reflect.Uint32, reflect.Uint64:
		k.SetUint(uint64(i + r.Intn(2)*2))
	default:
		fill(k, r, 5)
	}
}

// newValue returns a *T holding a seeded value ("fresh" = the zero value).
func newValue(t reflect.Type, seed string) reflect.Value {
	p := reflect.New(t)
	if seed != "fresh" {
		n, _ := strconv.ParseUint(seed, 10, 64)
		fill(p.Elem(), vlib.NewRng(n), 0)
	}
	return p
}

// renderer numbers opaque identities by first appearance.
type renderer struct {
	ids map[string]int
}

func newRenderer() *renderer { return &renderer{ids: map[string]int{}} }

func (rd *renderer) id(key string) string {
	n, ok := rd.ids[key]
	if !ok {
		n = len(rd.ids)
		rd.ids[key] = n
	}
	return "o" + strconv.Itoa(n) + ";"
}

func (rd *renderer) val(v reflect.Value) string {
	var b strings.Builder
	rd.render(&b, v)
	return b.String()
}

func (rd *renderer) render(b *strings.Builder, v reflect.Value) {
	switch v.Kind() {
	case reflect.Bool:
		if v.Bool() {
			b.WriteByte('T')
		} else {
			b.WriteByte('F')
		}
	case reflect.Int, reflect.Int8, reflect.Int16, reflect.Int32, reflect.Int64:
		fmt.Fprintf(b, "#%d;", v.Int())
	case reflect.Uint, reflect.Uint8, reflect.Uint16, reflect.Uint32, reflect.Uint64, reflect.Uintptr:
		fmt.Fprintf(b, "#%d;", v.Uint())
	case reflect.Float32, reflect.Float64:
		f := v.Float()
		if f != math.Trunc(f) || math.IsInf(f, 0) || (f == 0 && math.Signbit(f)) {
			fmt.Fprintf(b, "?float;")
		} else {
			fmt.Fprintf(b, "#%d;", int64(f))
		}
	case reflect.Complex64, reflect.Complex128:
		c := v.Complex()
		if imag(c) != 0 || real(c) != math.Trunc(real(c)) {
			fmt.Fprintf(b, "?complex;")
		} else {
			fmt.Fprintf(b, "#%d;", int64(real(c)))
		}
	case reflect.String:
		s := v.String()
		for _, c := range s {
			if !(c == '_' || c == '-' || c >= '0' && c <= '9' || c >= 'a' && c <= 'z' || c >= 'A' && c <= 'Z') {
				s = "?string"
				break
			}
		}
		b.WriteByte('\'')
		b.WriteString(s)
		b.WriteByte(';')
	case reflect.Slice:
		if v.IsNil() {
			b.WriteByte('z')
			return
		}
		b.WriteByte('[')
		for i := 0; i < v.Len(); i++ {
			rd.render(b, v.Index(i))
		}
		b.WriteByte(']')
	case reflect.Array:
		b.WriteByte('(')
		for i := 0; i < v.Len(); i++ {
			rd.render(b, v.Index(i))
		}
		b.WriteByte(')')
	case reflect.Map:
		if v.IsNil() {
			b.WriteByte('z')
			return
		}
		type kv struct{ k, v string }
		var kvs []kv
		it := v.MapRange()
		for it.Next() {
			kvs = append(kvs, kv{rd.val(it.Key()), ""})
		}
		sort.Slice(kvs, func(i, j int) bool { return kvs[i].k < kvs[j].k })
		// values are rendered in key order so that identities are numbered deterministically
		it = v.MapRange()
		byKey := map[string]reflect.Value{}
		for it.Next() {
			byKey[rd.val(it.Key())] = it.Value()
		}
		b.WriteByte('[')
		for _, e := range kvs {
			b.WriteString(e.k)
			rd.render(b, byKey[e.k])
		}
		b.WriteByte(']')
	case reflect.Chan:
		if v.IsNil() {
			b.WriteByte('z')
			return
		}
		b.WriteString(rd.id(fmt.Sprintf("chan:%x", v.Pointer())))
	case reflect.Func:
		if v.IsNil() {
			b.WriteByte('z')
			return
		}
		b.WriteString(rd.id(fmt.Sprintf("func:%x", v.Pointer())))
	case reflect.UnsafePointer:
		if v.IsNil() {
			b.WriteByte('z')
			return
		}
		b.WriteString(rd.id(fmt.Sprintf("uptr:%x", v.Pointer())))
	case reflect.Interface:
		if v.IsNil() {
			b.WriteByte('z')
			return
		}
		e := v.Elem()
		switch e.Kind() {
		case reflect.Int:
			b.WriteString(rd.id(fmt.Sprintf("iface:int:%d", e.Int())))
		case reflect.String:
			b.WriteString(rd.id("iface:string:" + e.String()))
		case reflect.Pointer:
			b.WriteString(rd.id(fmt.Sprintf("iface:ptr:%x", e.Pointer())))
		default:
			b.WriteString(rd.id("iface:other:" + e.Type().String()))
		}
	case reflect.Pointer:
		if v.IsNil() {
			b.WriteByte('z')
			return
		}
		b.WriteByte('&')
		rd.render(b, v.Elem())
	case reflect.Struct:
		b.WriteByte('{')
		for i := 0; i < v.NumField(); i++ {
			rd.render(b, v.Field(i))
		}
		b.WriteByte('}')
	default:
		b.WriteString("?kind;")
	}
}
