package main

// The library of hand-declared struct type pairs for the generic API, and the textual codec for Go
// types shared with the Lean driver (see Driver/Copier.lean):
//
//	ty := k<kind>; | n<id>;ty | s ty | a<n>;ty | m ty ty | c ty | f<id>; | i<id>; | u | p ty | T | { (name (+|-) ty)* }
//
// In op lines a field may also be written `name*ty` with ty = N<name>; or pN<name>; : an EMBEDDED (anonymous) field
// of that defined struct type (by value or by pointer). Its field name is the type's name, it is exported, and Go
// promotes the fields of the embedded struct into the selector namespace of the outer one (reflect's FieldByName /
// VisibleFields see them). The copiers match DIRECT fields only: in observations (and for the model) an embedded
// field is the ordinary field `<TypeName>+ty` it is for Type.Field(i).
//
// In op lines (reflect.StructOf cases) a defined type is written N<name>; and looked up in `namedLib`;
// in observations every defined type is written n<id>; followed by its underlying type.

import (
	"fmt"
	"reflect"
	"strconv"
	"strings"
	"time"
	"unsafe"

	"github.com/ecodeclub/ekit/bean/copier"
)

type MyInt int
type MyStr string
type IntSlice []int
type IntPtr *int

type In1 struct {
	X int
	Y string
}
type In2 struct {
	X int
	Y string
	Z bool
}
type In3 struct {
	X string
}
type in4 struct {
	X int
}
type Deep1 struct {
	A In1
	P *In1
	N int
}
type Deep2 struct {
	A In2
	P *In2
	N int
}

type Basic struct {
	A int
	B string
	C bool
	D int64
	E uint8
	F float64
}
type BasicD struct {
	A int
	B string
	C bool
	D int64
	E uint8
	F float64
}
type PartS struct {
	A int
	B string
	X int
}
type PartD struct {
	A int
	B string
	Y int
}
type OneA struct{ A int }
type ThreeABC struct {
	A int
	B string
	C bool
}
type KindS struct {
	A int
	B int
}
type KindD struct {
	A string
	B int
}
type KindD2 struct {
	B int
	A string
}
type StructVsIntS struct {
	A In1
	B int
}
type StructVsIntD struct {
	A int
	B int
}
type IntVsStructD struct {
	A In1
	B int
}
type PtrStructS struct {
	A *In1
	N int
}
type ValStructD struct {
	A In1
	N int
}
type PtrMixS struct {
	A *int
	B int
	C *string
}
type PtrMixD struct {
	A int
	B *int
	C *string
}
type PtrAll struct {
	A *int
	B *string
	C *In1
	D *[]int
}
type MultiS struct{ A **int }
type MultiD struct{ A *int }
type MultiLate struct {
	B int
	A **int
}
type Unexp struct {
	A int
	b int
	c string
}
type UnexpD struct {
	A int
	b int
	c string
}
type CaseS struct {
	A int
	b int
}
type CaseD struct {
	A int
	B int
}
type EmbS struct {
	In1
	N int
}
type EmbD struct {
	In1
	N int
}
type EmbD2 struct {
	In1 In2
	N   int
}
type EmbPtrS struct {
	*In1
	N int
}
type EmbPtrD struct {
	*In1
	N int
}
type EmbUnexpS struct {
	in4
	N int
}
type EmbUnexpD struct {
	in4
	N int
}

// promoted fields: one side embeds a struct (by value, by pointer, two levels deep) whose field names are DIRECT
// fields of the other side. The copiers match direct fields by name: a promoted X is not "a field X of the struct".
type FlatXY struct {
	X int
	Y string
	N int
}
type FlatXYQ struct {
	X int
	Y string
	N int
	Q int
}
type PromValS struct {
	In1
	N int
}
type PromPtrS struct {
	*In1
	N int
}
type Prom2S struct {
	EmbS
	Q int
}
type Prom2PtrS struct {
	*EmbPtrS
	Q int
}
type PromKindS struct {
	In3
	N int
}
type PromShadowS struct {
	In2
	X int
	N int
}
type PromBothD struct {
	X int
	In1
	Y string
}
type PromNestS struct {
	A PromValS
	P *PromPtrS
	N int
}
type PromNestD struct {
	A FlatXY
	P *FlatXY
	N int
}

// names that differ only in case are different names (no case folding when fields are matched)
type CaseVarS struct {
	Name string
	ID   int
	Ab   int
}
type CaseVarD struct {
	NAME string
	Id   int
	ID   int
	AB   int
	Name string
}
type Slices struct {
	A []int
	B []string
	C []In1
}
type SlicesD struct {
	A []int
	B []string
	C []In1
}
type SliceMisD struct {
	A []string
	B []string
	C []In2
}
type Maps struct {
	A map[string]int
	B map[int]In1
}
type MapsD struct {
	A map[string]int
	B map[int]In1
}
type Arrays struct {
	A [2]int
	B [1]In1
}
type ArraysD struct {
	A [2]int
	B [1]In1
}
type ArraysLenD struct {
	A [3]int
	B [1]In1
}
type Exotic struct {
	A chan int
	B func()
	C any
	D error
	E unsafe.Pointer
	N int
}
type ExoticD struct {
	A chan int
	B func()
	C any
	D error
	E unsafe.Pointer
	N int
}
type Times struct {
	T time.Time
	P *time.Time
	N int
}
type TimesD struct {
	T time.Time
	P *time.Time
	N int
}
type TimeStrD struct {
	T string
	P *time.Time
	N int
}
type Nest3S struct {
	A Deep1
	B *Deep1
	N int
}
type Nest3D struct {
	A Deep2
	B *Deep2
	N int
}
type NamedS struct {
	A MyInt
	B MyStr
}
type NamedD struct {
	A int
	B string
}
type NamedSame struct {
	A MyInt
	B IntSlice
	C MyStr
}
type NamedSliceD struct {
	A MyInt
	B []int
	C MyStr
}
type NamedPtrS struct {
	A IntPtr
	B IntPtr
}
type NamedPtrD struct {
	A IntPtr
	B *int
}
type IfaceS struct {
	A any
	B int
}
type IfaceD struct {
	A int
	B any
}
type StructVsIfaceD struct {
	A any
	B int
}
type FuncVsStructS struct {
	A func()
	B int
}
type Small3 struct {
	A int
	B string
	C In1
}
type Small3D struct {
	A int
	B string
	C In1
}
type AnonS struct {
	A struct{ X int }
	B struct {
		X int
		Y string
	}
}
type AnonD struct {
	A struct{ X int }
	B struct{ X int }
}
type Empty struct{}
type NestIgn struct {
	A In1
	X int
	Y string
}
type NestIgnD struct {
	A In1
	X int
	Y string
}
type ConvPtr struct {
	A *int
	B int
}
type Nums struct {
	A uintptr
	B complex128
	C float32
	D int8
	E uint64
}
type NumsD struct {
	A uintptr
	B complex128
	C float32
	D int16
	E uint64
}

// Rec is a recursive declaration: NewReflectCopier[Rec, Rec] never returns (stack overflow).
// It is outside the finite type family of the model and only reachable with VERIF_C20_RECURSIVE=1.
type Rec struct {
	V    int
	Next *Rec
}

var timeType = reflect.TypeOf(time.Time{})

// handle is a built copier behind a non-generic face.
type handle interface {
	CopyTo(src, dst reflect.Value, opts []copier.VerifOpt) error
	Copy(src reflect.Value, opts []copier.VerifOpt) (reflect.Value, error)
	Trie() string
}

type pair struct {
	name     string
	src, dst reflect.Type
	build    func(opts []copier.VerifOpt) (handle, error)
}

type genericHandle[S any, D any] struct{ c *copier.ReflectCopier[S, D] }

func (g genericHandle[S, D]) CopyTo(src, dst reflect.Value, opts []copier.VerifOpt) error {
	return g.c.CopyTo(src.Interface().(*S), dst.Interface().(*D), opts...)
}
func (g genericHandle[S, D]) Copy(src reflect.Value, opts []copier.VerifOpt) (reflect.Value, error) {
	d, err := g.c.Copy(src.Interface().(*S), opts...)
	return reflect.ValueOf(d), err
}
func (g genericHandle[S, D]) Trie() string { return copier.VerifTrie(g.c) }

func mk[S any, D any](name string) pair {
	return pair{
		name: name,
		src:  reflect.TypeOf(new(S)).Elem(),
		dst:  reflect.TypeOf(new(D)).Elem(),
		build: func(opts []copier.VerifOpt) (handle, error) {
			c, err := copier.NewReflectCopier[S, D](opts...)
			if err != nil {
				return nil, err
			}
			return genericHandle[S, D]{c}, nil
		},
	}
}

type dynHandle struct {
	d   *copier.VerifDyn
	dst reflect.Type
}

func (h dynHandle) CopyTo(src, dst reflect.Value, opts []copier.VerifOpt) error {
	return h.d.CopyTo(src, dst, opts...)
}
func (h dynHandle) Copy(src reflect.Value, opts []copier.VerifOpt) (reflect.Value, error) {
	dst := reflect.New(h.dst)
	err := h.d.CopyTo(src, dst, opts...)
	return dst, err
}
func (h dynHandle) Trie() string { return h.d.Trie() }

func mkDyn(src, dst reflect.Type) pair {
	return pair{name: "dyn", src: src, dst: dst, build: func(opts []copier.VerifOpt) (handle, error) {
		d, err := copier.VerifNewDyn(src, dst, opts...)
		if err != nil {
			return nil, err
		}
		return dynHandle{d, dst}, nil
	}}
}

var library = []pair{
	mk[Basic, BasicD]("ident"),
	mk[Basic, Basic]("same"),
	mk[PartS, PartD]("partial"),
	mk[ThreeABC, OneA]("extrasrc"),
	mk[OneA, ThreeABC]("extradst"),
	mk[KindS, KindD]("kindintstr"),
	mk[KindS, KindD2]("kindorder"),
	mk[StructVsIntS, StructVsIntD]("structvsint"), // DESIGN §6 #12: used to panic in the constructor
	mk[StructVsIntD, IntVsStructD]("intvsstruct"),
	mk[PtrStructS, ValStructD]("ptrstructvsstruct"),
	mk[ValStructD, PtrStructS]("structvsptrstruct"),
	mk[PtrMixS, PtrMixD]("ptrvsnonptr"),
	mk[PtrAll, PtrAll]("ptrall"),
	mk[MultiS, MultiD]("multiptrsrc"),
	mk[MultiD, MultiS]("multiptrdst"),
	mk[MultiLate, MultiLate]("multiptrlate"),
	mk[Unexp, UnexpD]("unexported"),
	mk[CaseS, CaseD]("unexpcase"),
	mk[EmbS, EmbD]("embedded"),
	mk[EmbS, EmbD2]("embeddeddiff"),
	mk[EmbPtrS, EmbPtrD]("embeddedptr"),
	mk[EmbPtrS, EmbD]("embeddedptrval"),
	mk[EmbUnexpS, EmbUnexpD]("embeddedunexp"),
	mk[CaseVarS, CaseVarD]("casevariant"),
	mk[PromValS, FlatXY]("promval"),
	mk[PromPtrS, FlatXY]("promptr"),
	mk[Prom2S, FlatXYQ]("prom2"),
	mk[Prom2PtrS, FlatXYQ]("prom2ptr"),
	mk[PromKindS, FlatXY]("promkind"),
	mk[PromShadowS, FlatXY]("promshadow"),
	mk[FlatXY, PromValS]("promdst"),
	mk[FlatXY, PromPtrS]("promdstptr"),
	mk[EmbS, PromBothD]("promboth"),
	mk[PromBothD, EmbPtrS]("prombothptr"),
	mk[PromNestS, PromNestD]("promnested"),
	mk[PromNestD, PromNestS]("promnesteddst"),
	mk[Slices, SlicesD]("slices"),
	mk[Slices, SliceMisD]("slicemismatch"),
	mk[Maps, MapsD]("maps"),
	mk[Arrays, ArraysD]("arrays"),
	mk[Arrays, ArraysLenD]("arraylen"),
	mk[Exotic, ExoticD]("exotic"),
	mk[Times, TimesD]("times"),
	mk[Times, TimeStrD]("timestr"),
	mk[Nest3S, Nest3D]("nested3"),
	mk[Nest3S, Nest3S]("nested3same"),
	mk[NamedS, NamedD]("namedbasic"),
	mk[NamedSame, NamedSame]("namedsame"),
	mk[NamedSame, NamedSliceD]("namedslice"),
	mk[NamedPtrS, NamedPtrD]("namedptr"),
	mk[IfaceS, IfaceD]("ifacevsint"),
	mk[StructVsIntS, StructVsIfaceD]("structvsiface"),
	mk[FuncVsStructS, StructVsIntS]("funcvsstruct"),
	mk[Small3, Small3D]("small3"),
	mk[AnonS, AnonD]("anon"),
	mk[Empty, Empty]("empty"),
	mk[Empty, Basic]("emptysrc"),
	mk[NestIgn, NestIgnD]("nestign"),
	mk[ConvPtr, ConvPtr]("convptr"),
	mk[Nums, NumsD]("nums"),
	mk[int, Basic]("nonstructsrc"),
	mk[Basic, string]("nonstructdst"),
	mk[*Basic, Basic]("ptrsrc"),
	mk[Basic, *Basic]("ptrdst"),
	mk[Deep1, Deep2]("deep"),
}

var recursivePair = mk[Rec, Rec]("recursive")

func findPair(name string) (pair, bool) {
	if name == "recursive" {
		return recursivePair, true
	}
	for _, p := range library {
		if p.name == name {
			return p, true
		}
	}
	return pair{}, false
}

// defined types that may be named in reflect.StructOf type expressions
var namedLib = map[string]reflect.Type{
	"MyInt":    reflect.TypeOf(MyInt(0)),
	"MyStr":    reflect.TypeOf(MyStr("")),
	"IntSlice": reflect.TypeOf(IntSlice(nil)),
	"IntPtr":   reflect.TypeOf(IntPtr(nil)),
	"In1":      reflect.TypeOf(In1{}),
	"In2":      reflect.TypeOf(In2{}),
	"In3":      reflect.TypeOf(In3{}),
	"Deep1":    reflect.TypeOf(Deep1{}),
	"Deep2":    reflect.TypeOf(Deep2{}),
	"Basic":    reflect.TypeOf(Basic{}),
}

var funcLib = []reflect.Type{reflect.TypeOf(func() {}), reflect.TypeOf(func(int) int { return 0 })}
var ifaceLib = []reflect.Type{reflect.TypeOf((*any)(nil)).Elem(), reflect.TypeOf((*error)(nil)).Elem()}

var basicKinds = map[string]reflect.Type{
	"bool": reflect.TypeOf(false), "int": reflect.TypeOf(int(0)), "int8": reflect.TypeOf(int8(0)),
	"int16": reflect.TypeOf(int16(0)), "int32": reflect.TypeOf(int32(0)), "int64": reflect.TypeOf(int64(0)),
	"uint": reflect.TypeOf(uint(0)), "uint8": reflect.TypeOf(uint8(0)), "uint16": reflect.TypeOf(uint16(0)),
	"uint32": reflect.TypeOf(uint32(0)), "uint64": reflect.TypeOf(uint64(0)), "uintptr": reflect.TypeOf(uintptr(0)),
	"float32": reflect.TypeOf(float32(0)), "float64": reflect.TypeOf(float64(0)),
	"complex64": reflect.TypeOf(complex64(0)), "complex128": reflect.TypeOf(complex128(0)),
	"string": reflect.TypeOf(""),
}

// ---- encoder (observations) ---------------------------------------------------------------

type tyEnc struct {
	named  map[reflect.Type]int
	funcs  map[reflect.Type]int
	ifaces map[reflect.Type]int
}

func newTyEnc() *tyEnc {
	e := &tyEnc{named: map[reflect.Type]int{}, funcs: map[reflect.Type]int{}, ifaces: map[reflect.Type]int{}}
	for i, f := range funcLib {
		e.funcs[f] = i
	}
	for i, f := range ifaceLib {
		e.ifaces[f] = i
	}
	return e
}

var enc = newTyEnc()

func (e *tyEnc) ty(t reflect.Type) string {
	var b strings.Builder
	e.enc(&b, t, nil)
	return b.String()
}

func (e *tyEnc) enc(b *strings.Builder, t reflect.Type, stack []reflect.Type) {
	if t == timeType {
		b.WriteByte('T')
		return
	}
	if t.Name() != "" && t.PkgPath() != "" {
		for _, s := range stack {
			if s == t {
				fmt.Fprintf(b, "r%d;", e.named[t])
				return
			}
		}
		id, ok := e.named[t]
		if !ok {
			id = len(e.named) + 2 // 0 and 1 are time.Time and time.Location
			e.named[t] = id
		}
		fmt.Fprintf(b, "n%d;", id)
		stack = append(stack, t)
	}
	switch t.Kind() {
	case reflect.Slice:
		b.WriteByte('s')
		e.enc(b, t.Elem(), stack)
	case reflect.Array:
		fmt.Fprintf(b, "a%d;", t.Len())
		e.enc(b, t.Elem(), stack)
	case reflect.Map:
		b.WriteByte('m')
		e.enc(b, t.Key(), stack)
		e.enc(b, t.Elem(), stack)
	case reflect.Chan:
		b.WriteByte('c')
		e.enc(b, t.Elem(), stack)
	case reflect.Func:
		id, ok := e.funcs[t]
		if !ok {
			id = len(e.funcs)
			e.funcs[t] = id
		}
		fmt.Fprintf(b, "f%d;", id)
	case reflect.Interface:
		id, ok := e.ifaces[t]
		if !ok {
			id = len(e.ifaces)
			e.ifaces[t] = id
		}
		fmt.Fprintf(b, "i%d;", id)
	case reflect.UnsafePointer:
		b.WriteByte('u')
	case reflect.Pointer:
		b.WriteByte('p')
		e.enc(b, t.Elem(), stack)
	case reflect.Struct:
		b.WriteByte('{')
		for i := 0; i < t.NumField(); i++ {
			f := t.Field(i)
			b.WriteString(f.Name)
			if f.IsExported() {
				b.WriteByte('+')
			} else {
				b.WriteByte('-')
			}
			e.enc(b, f.Type, stack)
		}
		b.WriteByte('}')
	default:
		fmt.Fprintf(b, "k%s;", t.Kind().String())
	}
}

// ---- decoder (op lines of reflect.StructOf cases) -----------------------------------------

type tyDec struct {
	s   string
	pos int
}

func (d *tyDec) fail(msg string) { panic(fmt.Sprintf("bad type expression %q at %d: %s", d.s, d.pos, msg)) }
func (d *tyDec) peek() byte {
	if d.pos >= len(d.s) {
		d.fail("unexpected end")
	}
	return d.s[d.pos]
}
func (d *tyDec) until(c byte) string {
	i := strings.IndexByte(d.s[d.pos:], c)
	if i < 0 {
		d.fail("missing terminator")
	}
	w := d.s[d.pos : d.pos+i]
	d.pos += i + 1
	return w
}

func (d *tyDec) ty() reflect.Type {
	c := d.peek()
	d.pos++
	switch c {
	case 'k':
		t, ok := basicKinds[d.until(';')]
		if !ok {
			d.fail("kind")
		}
		return t
	case 'N':
		t, ok := namedLib[d.until(';')]
		if !ok {
			d.fail("named type")
		}
		return t
	case 'T':
		return timeType
	case 's':
		return reflect.SliceOf(d.ty())
	case 'a':
		n, err := strconv.Atoi(d.until(';'))
		if err != nil {
			d.fail("array length")
		}
		return reflect.ArrayOf(n, d.ty())
	case 'm':
		k := d.ty()
		return reflect.MapOf(k, d.ty())
	case 'c':
		return reflect.ChanOf(reflect.BothDir, d.ty())
	case 'f':
		n, err := strconv.Atoi(d.until(';'))
		if err != nil || n < 0 || n >= len(funcLib) {
			d.fail("func id")
		}
		return funcLib[n]
	case 'i':
		n, err := strconv.Atoi(d.until(';'))
		if err != nil || n < 0 || n >= len(ifaceLib) {
			d.fail("interface id")
		}
		return ifaceLib[n]
	case 'u':
		return reflect.TypeOf(unsafe.Pointer(nil))
	case 'p':
		return reflect.PointerTo(d.ty())
	case '{':
		var fs []reflect.StructField
		for d.peek() != '}' {
			start := d.pos
			for d.pos < len(d.s) && d.s[d.pos] != '+' && d.s[d.pos] != '-' && d.s[d.pos] != '*' {
				d.pos++
			}
			name := d.s[start:d.pos]
			mark := d.peek()
			d.pos++
			f := reflect.StructField{Name: name, Type: d.ty()}
			switch mark {
			case '-':
				f.PkgPath = "github.com/ecodeclub/ekit/zzverif/copier"
			case '*':
				// embedded field of a defined struct type (or a pointer to one): named after the type
				base := f.Type
				if base.Kind() == reflect.Pointer {
					base = base.Elem()
				}
				if base.Kind() != reflect.Struct || base.Name() == "" {
					d.fail("embedded field: defined struct type or pointer to one")
				}
				f.Name = base.Name()
				f.Anonymous = true
			}
			fs = append(fs, f)
		}
		d.pos++
		return reflect.StructOf(fs)
	}
	d.fail("constructor")
	return nil
}

func decodeTy(s string) reflect.Type {
	d := &tyDec{s: s}
	t := d.ty()
	if d.pos != len(s) {
		d.fail("trailing input")
	}
	return t
}
