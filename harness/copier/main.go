// Correspondence harness for C20 (bean/copier): builds reflection-tree copiers for a library of
// hand-declared struct type pairs (public generic API) and for reflect.StructOf-generated pairs
// (through the VerifNewDyn hook), copies seeded values, and prints for every call the result, the
// trie, the canonically rendered source / destination before / destination after, whether the
// source changed, and what the pure recursive CopyTo does on the same input.
//
//	copier -mode gen -tier quick|thorough -out ops.txt [-family main|heldconc]     (seed from VERIF_SEED)
//	copier -mode run -ops ops.txt -out trace.txt -stats stats.json
//
// ops:
//
//	new L <pair> [ign=A,B] [conv=A:i2s,B:neg]      library pair, default options
//	new G <srcTy> <dstTy> [ign=..] [conv=..]       reflect.StructOf pair (type syntax: types.go)
//	copy s=<seed> d=<seed|fresh> api=copyto|copy [ign=..] [conv=..]
//	conc s=<seed> d=<seed|fresh> n=<goroutines> [ign=..] [conv=..]
//	nilarg which=dst|src|puresrc|puredst|pureboth s=<seed>
//	sib [ign=..] [conv=..]         a second copier for the same type pair is built (and dropped)
//	rebuild [ign=..] [conv=..]     the case goes on with a newly built copier for the same type pair
//
// Option VALUES have an identity: `ign=A,B` / `conv=A:neg` make fresh option values for this one use;
// `ign@<k>=A,B` / `conv@<k>=A:neg` name an option value that the case HOLDS (a variable of the caller):
// it is made at its first use and the very same value is passed wherever the same word occurs again in
// the case - to the constructor, to a sibling constructor, to later calls, to goroutines of a `conc`.
// An option value is an immutable description (the driver reads `ign@k=` exactly like `ign=`).
package main

import (
	"encoding/json"
	"errors"
	"flag"
	"os"
	"reflect"
	"runtime/debug"
	"strconv"
	"strings"
	"sync"
	"time"

	"github.com/ecodeclub/ekit/bean/copier"
	"github.com/ecodeclub/ekit/bean/copier/converter"
	"github.com/ecodeclub/ekit/zzverif/vlib"
)

// ---- converters (the same table is in Driver/Copier.lean) ----------------------------------

var errConvFail = errors.New("verif: converter failed")

func convOpt(field, name string) copier.VerifOpt {
	switch name {
	case "i2s":
		return copier.ConvertField[int, string](field, converter.ConverterFunc[int, string](func(x int) (string, error) {
			return strconv.Itoa(x), nil
		}))
	case "neg":
		return copier.ConvertField[int, int](field, converter.ConverterFunc[int, int](func(x int) (int, error) {
			return -x, nil
		}))
	case "fail":
		return copier.ConvertField[int, int](field, converter.ConverterFunc[int, int](func(x int) (int, error) {
			return 0, errConvFail
		}))
	case "s2i":
		return copier.ConvertField[string, int](field, converter.ConverterFunc[string, int](func(s string) (int, error) {
			return len(s), nil
		}))
	case "pinc":
		return copier.ConvertField[*int, *int](field, converter.ConverterFunc[*int, *int](func(p *int) (*int, error) {
			if p == nil {
				return nil, nil
			}
			q := *p + 1
			return &q, nil
		}))
	case "t2s":
		return copier.ConvertField[time.Time, string](field, converter.ConverterFunc[time.Time, string](func(t time.Time) (string, error) {
			return "t" + strconv.FormatInt(t.Unix(), 10), nil
		}))
	case "nil":
		return copier.ConvertField[int, int](field, nil)
	}
	panic("unknown converter " + name)
}

var convNames = []string{"i2s", "neg", "fail", "s2i", "pinc", "t2s", "nil"}

// optPool: the option values a case holds, keyed by the whole word (`ign@1=A,B`). One pool per case
// (a `new` line starts a new one), so that a shrunk case replays on its own.
type optPool struct {
	mu   sync.Mutex
	held map[string][]copier.VerifOpt
	uses map[string]int
}

func newPool() *optPool {
	return &optPool{held: map[string][]copier.VerifOpt{}, uses: map[string]int{}}
}

// heldWord splits `ign@3=A,B` into the plain word `ign=A,B`; ok=false for a plain word.
func heldWord(w string) (plain string, ok bool) {
	eq := strings.IndexByte(w, '=')
	at := strings.IndexByte(w, '@')
	if eq < 0 || at < 0 || at > eq {
		return w, false
	}
	head := w[:at]
	if head != "ign" && head != "conv" {
		return w, false
	}
	return head + w[eq:], true
}

// parseOpts reads ign=A,B and conv=A:i2s,B:neg words (fresh values) and their held forms ign@k= / conv@k=
// (the case's value of that name, made on first use).
func parseOpts(pool *optPool, words []string) []copier.VerifOpt {
	var opts []copier.VerifOpt
	for _, w := range words {
		if plain, ok := heldWord(w); ok {
			if pool == nil {
				pool = newPool()
			}
			pool.mu.Lock()
			vs, have := pool.held[w]
			if !have {
				vs = parseOpts(nil, []string{plain})
				pool.held[w] = vs
			}
			pool.uses[w]++
			if pool.uses[w] == 2 {
				sts0.HeldReuse++
			}
			pool.mu.Unlock()
			opts = append(opts, vs...)
			continue
		}
		switch {
		case strings.HasPrefix(w, "ign="):
			body := strings.TrimPrefix(w, "ign=")
			if body == "-" {
				opts = append(opts, copier.IgnoreFields())
			} else {
				opts = append(opts, copier.IgnoreFields(strings.Split(body, ",")...))
			}
		case strings.HasPrefix(w, "conv="):
			for _, fc := range strings.Split(strings.TrimPrefix(w, "conv="), ",") {
				p := strings.SplitN(fc, ":", 2)
				opts = append(opts, convOpt(p[0], p[1]))
			}
		}
	}
	return opts
}

// The slice in which the caller passes its options is the caller's: once the constructor / the call has
// returned, the caller may reuse it for anything. scribble overwrites every element with an option that
// would ignore every field of the pair, so that a copier (or an option) that kept the caller's slice
// instead of what it described copies nothing from then on.
func poisonOf(p pair) copier.VerifOpt {
	var names []string
	seen := map[string]bool{}
	typeFieldNames(p.dst, 0, seen, &names)
	typeFieldNames(p.src, 0, seen, &names)
	return copier.IgnoreFields(append(names, fieldNames...)...)
}

func scribble(opts []copier.VerifOpt, poison copier.VerifOpt) {
	for i := range opts {
		opts[i] = poison
	}
}

func kv(words []string, key string) string {
	for _, w := range words {
		if strings.HasPrefix(w, key+"=") {
			return w[len(key)+1:]
		}
	}
	return ""
}

// ---- error canonicalisation -----------------------------------------------------------------

// errTok: the copier's own errors are classified by the white-box hook (templates obtained from the
// package's own error constructors, sentinels), never by the wording of a message.
func errTok(err error) string {
	if err == nil {
		return "ok"
	}
	if err == errConvFail {
		return "err:conv"
	}
	return copier.VerifErrClass(err)
}

// ---- generation -----------------------------------------------------------------------------

var leafTys = []string{"kint;", "kint;", "kstring;", "kbool;", "kint64;", "kuint8;", "kfloat64;", "skint;", "skstring;",
	"mkstring;kint;", "a2;kint;", "ckint;", "f0;", "i0;", "i1;", "u", "NMyInt;", "NMyStr;", "NIntSlice;", "T",
	"sNIn1;", "mkint;NIn1;", "a1;NIn1;", "kuintptr;", "kcomplex128;", "NIntPtr;"}
var structTys = []string{"NIn1;", "NIn2;", "NIn3;", "NDeep1;", "NDeep2;", "NBasic;"}
var fieldNames = []string{"A", "B", "C", "X", "Y", "N", "P", "Z"}

func genLeaf(r *vlib.Rng) string { return vlib.Pick(r, leafTys) }

// genFieldPair returns the source and destination types of a field present on both sides.
func genFieldPair(r *vlib.Rng, depth int) (string, string) {
	wrap := func(t string) string {
		switch r.Intn(10) {
		case 0, 1, 2:
			return "p" + t
		case 3:
			if r.Chance(30) {
				return "pp" + t
			}
		}
		return t
	}
	switch p := r.Intn(100); {
	case p < 40: // identical leaf type, pointers chosen independently sometimes
		t := genLeaf(r)
		if r.Chance(70) {
			w := wrap(t)
			return w, w
		}
		return wrap(t), wrap(t)
	case p < 50: // unrelated leaf types
		return wrap(genLeaf(r)), wrap(genLeaf(r))
	case p < 75 && depth < 3: // nested anonymous structs, related
		s, d := genStructPair(r, depth+1)
		return wrap(s), wrap(d)
	case p < 85: // library structs
		s := vlib.Pick(r, structTys)
		d := s
		if r.Chance(40) {
			d = vlib.Pick(r, structTys)
		}
		return wrap(s), wrap(d)
	case p < 92: // struct against a non-struct, either way round
		if r.Bool() {
			return wrap(vlib.Pick(r, structTys)), wrap(genLeaf(r))
		}
		return wrap(genLeaf(r)), wrap(vlib.Pick(r, structTys))
	default:
		t := genLeaf(r)
		return t, "p" + t
	}
}

func genStructPair(r *vlib.Rng, depth int) (string, string) {
	var s, d strings.Builder
	s.WriteByte('{')
	d.WriteByte('{')
	n := r.Range(0, 5)
	if depth > 0 {
		n = r.Range(1, 3)
	}
	names := append([]string{}, fieldNames...)
	for i := len(names) - 1; i > 0; i-- {
		j := r.Intn(i + 1)
		names[i], names[j] = names[j], names[i]
	}
	var sf, df []string
	for i := 0; i < n; i++ {
		name := names[i]
		exp := "+"
		if r.Chance(12) {
			name = strings.ToLower(name)
			exp = "-"
		}
		switch p := r.Intn(100); {
		case p < 65:
			a, b := genFieldPair(r, depth)
			if exp == "+" && r.Chance(4) {
				// names that differ only in case are different names: nothing is matched
				sf = append(sf, name+"b"+exp+a)
				df = append(df, name+"B"+exp+a)
				continue
			}
			sf = append(sf, name+exp+a)
			df = append(df, name+exp+b)
		case p < 82:
			sf = append(sf, name+exp+genLeaf(r))
		default:
			df = append(df, name+exp+genLeaf(r))
		}
	}
	// embedded fields: one side (or both) embeds a defined struct type, by value or by pointer, whose own field
	// names are drawn from the same small universe as the direct fields of the other side (In1: X Y, In2: X Y Z,
	// In3: X, Deep1/Deep2: A P N, Basic: A..F). Go promotes those names into the outer struct; for the copiers
	// only the embedded field itself (named after the type) is a field of the struct.
	if r.Chance(22) {
		emb := func() string {
			e := vlib.Pick(r, structTys)
			name := strings.TrimSuffix(strings.TrimPrefix(e, "N"), ";")
			if r.Chance(40) {
				e = "p" + e
			}
			return name + "*" + e
		}
		ins := func(fs []string, f string) []string {
			i := 0
			if len(fs) > 0 && r.Chance(40) {
				i = r.Intn(len(fs) + 1)
			}
			fs = append(fs, "")
			copy(fs[i+1:], fs[i:])
			fs[i] = f
			return fs
		}
		switch p := r.Intn(100); {
		case p < 50:
			sf = ins(sf, emb())
		case p < 70:
			df = ins(df, emb())
		case p < 85: // the same embedded type on both sides, pointers chosen independently
			e := emb()
			sf = ins(sf, e)
			if r.Chance(30) {
				if strings.Contains(e, "*p") {
					e = strings.Replace(e, "*p", "*", 1)
				} else {
					e = strings.Replace(e, "*", "*p", 1)
				}
			}
			df = ins(df, e)
		default:
			sf = ins(sf, emb())
			df = ins(df, emb())
		}
	}
	// the two sides list their fields in independent orders
	if r.Chance(50) {
		for i := len(df) - 1; i > 0; i-- {
			j := r.Intn(i + 1)
			df[i], df[j] = df[j], df[i]
		}
	}
	s.WriteString(strings.Join(sf, ""))
	d.WriteString(strings.Join(df, ""))
	s.WriteByte('}')
	d.WriteByte('}')
	return s.String(), d.String()
}

func genOptWords(r *vlib.Rng, pct int) string {
	out := ""
	if r.Chance(pct) {
		k := r.Range(1, 2)
		var fs []string
		for i := 0; i < k; i++ {
			fs = append(fs, vlib.Pick(r, fieldNames))
		}
		out += " ign=" + strings.Join(fs, ",")
		if r.Chance(5) {
			out = " ign=-"
		}
	}
	if r.Chance(pct) {
		k := r.Range(1, 2)
		var fs []string
		for i := 0; i < k; i++ {
			fs = append(fs, vlib.Pick(r, fieldNames)+":"+vlib.Pick(r, convNames))
		}
		out += " conv=" + strings.Join(fs, ",")
	}
	return out
}

func genCopies(r *vlib.Rng, out *vlib.Out, n int, optPct int) {
	for i := 0; i < n; i++ {
		d := "fresh"
		if r.Chance(50) {
			d = strconv.Itoa(r.Range(1, 1<<30))
		}
		api := "copyto"
		if d == "fresh" && r.Chance(40) {
			api = "copy"
		}
		out.Line("copy s=%d d=%s api=%s%s", r.Range(1, 1<<30), d, api, genOptWords(r, optPct))
	}
}

// ---- held option values ----------------------------------------------------------------------
//
// The caller of the library may keep an option value in a variable and pass it to several constructors
// and calls, alone or together with further options, in any order. These generators make the words of
// such histories: a case declares a few held values (ign@k= / conv@k=) and every application of options
// mixes them with fresh ones.

// typeFieldNames: the field names of a struct type, through nested structs and pointers (ignore lists and
// converter tables are consulted by name at every level).
func typeFieldNames(t reflect.Type, depth int, seen map[string]bool, out *[]string) {
	for t.Kind() == reflect.Pointer {
		t = t.Elem()
	}
	if t.Kind() != reflect.Struct || depth > 2 || t == reflect.TypeOf(time.Time{}) {
		return
	}
	for i := 0; i < t.NumField(); i++ {
		f := t.Field(i)
		if !seen[f.Name] {
			seen[f.Name] = true
			*out = append(*out, f.Name)
		}
		typeFieldNames(f.Type, depth+1, seen, out)
	}
}

func pairFieldNames(p pair) []string {
	var names []string
	seen := map[string]bool{}
	typeFieldNames(p.dst, 0, seen, &names)
	typeFieldNames(p.src, 0, seen, &names)
	if len(names) > 10 {
		names = names[:10]
	}
	if len(names) == 0 {
		names = append(names, fieldNames[:3]...)
	}
	return names
}

func pickNames(r *vlib.Rng, names []string, k int) string {
	var fs []string
	for i := 0; i < k; i++ {
		fs = append(fs, vlib.Pick(r, names))
	}
	return strings.Join(fs, ",")
}

// genHeld: the option values a case holds: one to three ignore lists, sometimes a converter table.
func genHeld(r *vlib.Rng, names []string) []string {
	var held []string
	n := r.Range(1, 3)
	for k := 1; k <= n; k++ {
		if k > 1 && r.Chance(30) {
			held = append(held, "conv@"+strconv.Itoa(k)+"="+vlib.Pick(r, names)+":"+vlib.Pick(r, convNames))
		} else {
			held = append(held, "ign@"+strconv.Itoa(k)+"="+pickNames(r, names, r.Range(1, 2)))
		}
	}
	return held
}

// genMixed: the options of one application (constructor or call): with chance pct one to three option
// words in a random order, each a held value or a fresh one.
func genMixed(r *vlib.Rng, held, names []string, pct int) string {
	if !r.Chance(pct) {
		return ""
	}
	out := ""
	n := r.Range(1, 3)
	for i := 0; i < n; i++ {
		switch p := r.Intn(100); {
		case p < 55 && len(held) > 0:
			out += " " + vlib.Pick(r, held)
		case p < 85:
			out += " ign=" + pickNames(r, names, r.Range(1, 2))
		default:
			out += " conv=" + vlib.Pick(r, names) + ":" + vlib.Pick(r, convNames)
		}
	}
	return out
}

func genCopy1(r *vlib.Rng, out *vlib.Out, opts string) {
	d := "fresh"
	if r.Chance(70) {
		d = strconv.Itoa(r.Range(1, 1<<30))
	}
	api := "copyto"
	if d == "fresh" && r.Chance(40) {
		api = "copy"
	}
	out.Line("copy s=%d d=%s api=%s%s", r.Range(1, 1<<30), d, api, opts)
}

// genHeldCase: the ops after the `new` line of a case whose options are held values mixed with fresh ones:
// calls, a sibling constructor, a rebuilt copier, a shared-copier run, calls again.
func genHeldCase(r *vlib.Rng, out *vlib.Out, held, names []string, calls int) {
	for i := 0; i < calls; i++ {
		genCopy1(r, out, genMixed(r, held, names, 75))
	}
	if r.Chance(60) {
		out.Line("sib%s", genMixed(r, held, names, 100))
		genCopy1(r, out, genMixed(r, held, names, 40))
	}
	if r.Chance(50) {
		out.Line("rebuild%s", genMixed(r, held, names, 85))
		for i := 0; i < 2; i++ {
			genCopy1(r, out, genMixed(r, held, names, 50))
		}
	}
	if r.Chance(25) {
		// goroutines with fresh option values only; held values shared between goroutines: genHeldConc
		out.Line("conc s=%d d=%d n=4%s", r.Range(1, 1<<30), r.Range(1, 1<<30), genMixed(r, nil, names, 80))
		genCopy1(r, out, genMixed(r, held, names, 50))
	}
}

// genHeldConc (family heldconc, a trace of its own: a data race on a shared option value may end the process,
// and the sequential histories of the main family are then still judged one by one): goroutines that share
// one copier AND the option values the case holds.
func genHeldConc(tier string, out *vlib.Out) {
	r := vlib.NewRng(vlib.Seed() + 0x5eed)
	rounds := 1
	if tier == "thorough" {
		rounds = 6
	}
	for round := 0; round < rounds; round++ {
		for _, p := range library {
			names := pairFieldNames(p)
			held := genHeld(r, names)
			out.Line("new L %s%s", p.name, genMixed(r, held, names, 40))
			genCopy1(r, out, genMixed(r, held, names, 75))
			out.Line("conc s=%d d=%d n=8 %s%s", r.Range(1, 1<<30), r.Range(1, 1<<30), held[0], genMixed(r, held, names, 60))
			genCopy1(r, out, genMixed(r, held, names, 75))
			genCopy1(r, out, "")
		}
		for c := 0; c < 60; c++ {
			s, d := genStructPair(r, 0)
			if r.Chance(30) {
				d = s
			}
			held := genHeld(r, fieldNames)
			out.Line("new G %s %s%s", s, d, genMixed(r, held, fieldNames, 40))
			out.Line("conc s=%d d=%d n=4 %s%s", r.Range(1, 1<<30), r.Range(1, 1<<30), held[0], genMixed(r, held, fieldNames, 60))
			genCopy1(r, out, genMixed(r, held, fieldNames, 75))
		}
	}
}

func gen(tier string, out *vlib.Out) {
	r := vlib.NewRng(vlib.Seed())
	thorough := tier == "thorough"
	// first, so that a crash is attributed to it (the trace is buffered): a recursive declaration used
	// to make the constructor recurse until the stack overflowed — a fatal error, not a panic
	// (fixed in /repo by badc2e4: it now returns an error)
	out.Line("new L recursive")
	// a CYCLIC value (n.Next = n) used to make the pure CopyTo recurse until a fatal stack overflow
	// (fixed in /repo by 9a0a893: it now returns an error)
	out.Line("new L purecyclic")
	// corpus: the defect of DESIGN §6 #12 (struct-typed source field against a scalar destination field)
	out.Line("new L structvsint")
	out.Line("copy s=5 d=fresh api=copyto")
	out.Line("new G {A+NIn1;} {A+kint;}")
	out.Line("new G {A+{X+kint;}B+kint;} {B+kint;A+pkstring;}")
	// every library pair: plain, then with per-call and default options, and a shared-copier run
	for _, p := range library {
		out.Line("new L %s", p.name)
		genCopies(r, out, 5, 0)
		out.Line("conc s=%d d=fresh n=8", r.Range(1, 1<<30))
		genCopies(r, out, 4, 35)
		out.Line("conc s=%d d=%d n=8%s", r.Range(1, 1<<30), r.Range(1, 1<<30), genOptWords(r, 40))
		out.Line("new L %s%s", p.name, genOptWords(r, 70))
		genCopies(r, out, 4, 30)
	}
	// all subsets of ignored fields for the small structs, per call and as defaults
	for _, name := range []string{"small3", "nestign", "partial", "extradst"} {
		p, _ := findPair(name)
		var fs []string
		for i := 0; i < p.dst.NumField(); i++ {
			fs = append(fs, p.dst.Field(i).Name)
		}
		fs = append(fs, "X") // a nested name
		for mask := 0; mask < 1<<len(fs); mask++ {
			var sub []string
			for i, f := range fs {
				if mask&(1<<i) != 0 {
					sub = append(sub, f)
				}
			}
			ign := ""
			if len(sub) > 0 {
				ign = " ign=" + strings.Join(sub, ",")
			}
			if mask%2 == 0 {
				out.Line("new L %s", name)
				out.Line("copy s=%d d=%d api=copyto%s", r.Range(1, 1<<30), r.Range(1, 1<<30), ign)
				out.Line("copy s=%d d=%d api=copyto", r.Range(1, 1<<30), r.Range(1, 1<<30))
			} else {
				out.Line("new L %s%s", name, ign)
				out.Line("copy s=%d d=%d api=copyto", r.Range(1, 1<<30), r.Range(1, 1<<30))
			}
		}
	}
	// held option values: every library pair, options drawn from the pair's own field names
	for _, p := range library {
		names := pairFieldNames(p)
		for rep := 0; rep < 2; rep++ {
			held := genHeld(r, names)
			out.Line("new L %s%s", p.name, genMixed(r, held, names, 50*rep))
			genHeldCase(r, out, held, names, 4)
		}
	}
	// one held option value followed by one fresh option in the same application, then the held value alone:
	// all ordered pairs of field names of the small structs; in calls, in constructors (sibling and rebuilt
	// copiers), for ignore lists and for converters
	for _, name := range []string{"small3", "nestign", "partial", "extradst"} {
		p, _ := findPair(name)
		names := pairFieldNames(p)
		if len(names) > 5 {
			names = names[:5]
		}
		for _, f := range names {
			for _, g := range names {
				if f == g {
					continue
				}
				sd := func() string { return "s=" + strconv.Itoa(r.Range(1, 1<<30)) + " d=" + strconv.Itoa(r.Range(1, 1<<30)) }
				out.Line("new L %s", name)
				out.Line("copy %s api=copyto ign@1=%s ign=%s", sd(), f, g)
				out.Line("copy %s api=copyto ign@1=%s", sd(), f)
				out.Line("copy %s api=copyto conv@2=%s:neg conv=%s:neg", sd(), f, g)
				out.Line("copy %s api=copyto conv@2=%s:neg", sd(), f)
				out.Line("copy %s api=copyto", sd())
				out.Line("new L %s ign@1=%s conv@2=%s:neg", name, f, f)
				out.Line("sib ign@1=%s ign=%s", f, g)
				out.Line("copy %s api=copyto", sd())
				out.Line("sib conv@2=%s:neg conv=%s:neg", f, g)
				out.Line("copy %s api=copyto", sd())
				out.Line("rebuild ign@1=%s", f)
				out.Line("copy %s api=copyto", sd())
				out.Line("rebuild conv@2=%s:neg", f)
				out.Line("copy %s api=copyto", sd())
			}
		}
	}
	// converters on purpose
	for _, c := range []string{
		"new L ident conv=A:i2s\ncopy s=3 d=fresh api=copyto\ncopy s=4 d=9 api=copyto conv=A:neg\ncopy s=5 d=9 api=copyto",
		"new L kindintstr conv=A:i2s\ncopy s=3 d=fresh api=copyto\ncopy s=4 d=fresh api=copy\ncopy s=5 d=9 api=copyto conv=A:fail\ncopy s=6 d=9 api=copyto conv=B:neg",
		"new L timestr conv=T:t2s\ncopy s=3 d=fresh api=copyto\ncopy s=4 d=9 api=copyto\ncopy s=5 d=9 api=copyto conv=T:i2s",
		"new L convptr conv=A:pinc\ncopy s=3 d=fresh api=copyto\ncopy s=4 d=9 api=copyto\ncopy s=6 d=fresh api=copy\ncopy s=7 d=8 api=copyto conv=B:neg",
		"new L namedbasic conv=A:i2s\ncopy s=3 d=fresh api=copyto",
		"new L nestign conv=X:neg\ncopy s=3 d=fresh api=copyto\ncopy s=4 d=5 api=copyto ign=A\ncopy s=4 d=5 api=copyto conv=Y:s2i",
		"new L small3\ncopy s=3 d=4 api=copyto conv=C:neg\ncopy s=3 d=4 api=copyto conv=:neg\ncopy s=3 d=4 api=copyto conv=A:nil",
	} {
		for _, l := range strings.Split(c, "\n") {
			out.Line("%s", l)
		}
	}
	// nil arguments (outside the property's quantifier; the model predicts them)
	out.Line("new L ident")
	for _, w := range []string{"dst", "src", "puresrc", "puredst", "pureboth"} {
		out.Line("nilarg which=%s s=7", w)
	}
	out.Line("new L empty")
	for _, w := range []string{"dst", "src", "puresrc", "puredst", "pureboth"} {
		out.Line("nilarg which=%s s=7", w)
	}
	// reflect.StructOf pairs
	cases := 2500
	if thorough {
		cases = 20000
	}
	for c := 0; c < cases; c++ {
		s, d := genStructPair(r, 0)
		if r.Chance(12) {
			d = s
		}
		if c%8 == 7 {
			// held option values on generated pairs
			held := genHeld(r, fieldNames)
			out.Line("new G %s %s%s", s, d, genMixed(r, held, fieldNames, 40))
			genHeldCase(r, out, held, fieldNames, 3)
			continue
		}
		out.Line("new G %s %s%s", s, d, genOptWords(r, 12))
		genCopies(r, out, 4, 12)
		if r.Chance(10) {
			out.Line("conc s=%d d=fresh n=4", r.Range(1, 1<<30))
		}
	}
}

// ---- execution ------------------------------------------------------------------------------

type stats struct {
	Ops       map[string]int `json:"ops"`
	Results   map[string]int `json:"results"`
	Pure      map[string]int `json:"pure_results"`
	Builds    map[string]int `json:"build_results"`
	TrieNodes map[string]int `json:"trie_sizes"`
	Agree     map[string]int `json:"tree_vs_pure"`
	Cases     int            `json:"cases"`
	Lines     int            `json:"lines"`
	Distinct  int            `json:"distinct_state_op_pairs"`
	Recopies  int            `json:"second_copies_into_the_same_destination"`
	HeldReuse int            `json:"held_option_values_used_more_than_once"`
}

// sts0: the run's statistics (oneCopy is also called from goroutines of `conc` ops: counted approximately)
var sts0 = &stats{}

func class(tok string) string {
	p := strings.SplitN(tok, ":", 3)
	if len(p) >= 2 {
		return p[0] + ":" + p[1]
	}
	return tok
}

type state struct {
	p    pair
	h    handle
	line string
	pool *optPool
	// what the option slices of this case are overwritten with after use (scribble)
	poison copier.VerifOpt
}

// oneCopy runs the tree copier and the pure copier on values regenerated from the seeds.
func oneCopy(st *state, w []string) (res, src0, d0, d1, same, pres, pd1, psame string) {
	sseed, dseed, api := kv(w, "s"), kv(w, "d"), kv(w, "api")
	opts := parseOpts(st.pool, w)
	src := newValue(st.p.src, sseed)
	dst := newValue(st.p.dst, dseed)
	rd := newRenderer()
	src0 = rd.val(src.Elem())
	d0 = rd.val(dst.Elem())
	p := vlib.Catch(func() {
		if st.h == nil {
			res = "no-copier"
		} else if api == "copy" {
			got, err := st.h.Copy(src, opts)
			dst = got
			res = errTok(err)
		} else {
			res = errTok(st.h.CopyTo(src, dst, opts))
		}
	})
	if p != "" {
		res = p
	}
	scribble(opts, st.poison)
	if dst.IsNil() {
		d1 = "z"
	} else {
		d1 = rd.val(dst.Elem())
	}
	same = "0"
	if rd.val(src.Elem()) == src0 {
		same = "1"
	}
	// the destination is the caller's from now on: copying ANOTHER source into the same destination must not reach
	// back into the first source (a destination that shares a pointee with its source would)
	if same == "1" && res == "ok" && st.h != nil && !dst.IsNil() {
		n2, _ := strconv.ParseUint(sseed, 10, 64)
		src2 := newValue(st.p.src, strconv.FormatUint(n2+0x9e3779b9, 10))
		vlib.Catch(func() { _ = st.h.CopyTo(src2, dst, nil) })
		if rd.val(src.Elem()) != src0 {
			same = "0"
		}
		sts0.Recopies++
	}
	// the pure recursive CopyTo on equal inputs
	psrc := newValue(st.p.src, sseed)
	pdst := newValue(st.p.dst, dseed)
	prd := newRenderer()
	ps0 := prd.val(psrc.Elem())
	prd.val(pdst.Elem())
	p = vlib.Catch(func() { pres = errTok(copier.CopyTo(psrc.Interface(), pdst.Interface())) })
	if p != "" {
		pres = p
	}
	pd1 = prd.val(pdst.Elem())
	psame = "0"
	if prd.val(psrc.Elem()) == ps0 {
		psame = "1"
	}
	return
}

// concWords: the op words of goroutine g of a `conc` op. Goroutine 0 runs the op as written; the others
// shift the seeds and vary the per-call options (extra ignore list / extra converter / none at all).
func concWords(w []string, g int) []string {
	cw := append([]string{}, w...)
	if g > 0 {
		for i, x := range cw {
			for _, key := range []string{"s=", "d="} {
				if strings.HasPrefix(x, key) && x != "d=fresh" {
					v, _ := strconv.ParseUint(x[len(key):], 10, 64)
					cw[i] = key + strconv.FormatUint(v+uint64(g)*7919, 10)
				}
			}
		}
		switch g % 4 {
		case 1:
			cw = append(cw, "ign="+fieldNames[g%len(fieldNames)]+","+fieldNames[(g+3)%len(fieldNames)])
		case 2:
			var kept []string
			for _, x := range cw {
				if !strings.HasPrefix(x, "ign") && !strings.HasPrefix(x, "conv") {
					kept = append(kept, x)
				}
			}
			cw = kept
		case 3:
			cw = append(cw, "conv="+fieldNames[g%len(fieldNames)]+":neg")
		}
	}
	return append(cw, "api=copyto")
}

func run(ops []string, out *vlib.Out, sts *stats) {
	var st *state
	seen := map[string]struct{}{}
	for _, line := range ops {
		w := strings.Fields(line)
		sts.Ops[w[0]]++
		sts.Lines++
		switch w[0] {
		case "new":
			sts.Cases++
			st = nil
			if len(w) == 3 && w[1] == "L" && w[2] == "purecyclic" {
				n := &Rec{V: 1}
				n.Next = n
				var res string
				if pn := vlib.Catch(func() { res = errTok(copier.CopyTo(n, &Rec{})) }); pn != "" {
					res = pn
				}
				out.Line("%s => %s", line, res)
				continue
			}
			var p pair
			var optWords []string
			var res, trie string
			bad := vlib.Catch(func() {
				if w[1] == "L" {
					var ok bool
					p, ok = findPair(w[2])
					if !ok {
						panic("unknown pair " + w[2])
					}
					optWords = w[3:]
				} else {
					p = mkDyn(decodeTy(w[2]), decodeTy(w[3]))
					optWords = w[4:]
				}
			})
			if bad != "" {
				out.Line("%s => bad-op %s", line, bad)
				continue
			}
			if w[1] == "G" && copier.VerifBlackbox {
				// the white-box hook was replaced by its stub: reflect.StructOf pairs cannot be run
				out.Line("%s => blackbox", line)
				continue
			}
			var h handle
			pool := newPool()
			var poison copier.VerifOpt
			pn := vlib.Catch(func() {
				var err error
				poison = poisonOf(p)
				o := parseOpts(pool, optWords)
				h, err = p.build(o)
				res = errTok(err)
				scribble(o, poison)
			})
			if pn != "" {
				res = pn
			}
			st = &state{p: p, h: nil, line: line, pool: pool, poison: poison}
			if res == "ok" {
				st.h = h
				trie = " trie=" + h.Trie()
				sts.TrieNodes[strconv.Itoa(strings.Count(trie, "/")/3)]++
			}
			sts.Builds[class(res)]++
			if res != "ok" {
				seen[line] = struct{}{}
			}
			out.Line("%s => %s src=%s dst=%s%s", line, res, enc.ty(p.src), enc.ty(p.dst), trie)
		case "sib", "rebuild":
			// another copier for the same pair of types, built from options that may be values the case already
			// holds (and has passed to the first constructor or to earlier calls). `sib`: it is dropped, the case goes
			// on with the first copier; `rebuild`: the case goes on with the new one.
			if st == nil {
				out.Line("%s => no-case", line)
				continue
			}
			var h handle
			var res, trie string
			pn := vlib.Catch(func() {
				var err error
				o := parseOpts(st.pool, w[1:])
				h, err = st.p.build(o)
				res = errTok(err)
				scribble(o, st.poison)
			})
			if pn != "" {
				res = pn
			}
			if res == "ok" {
				trie = " trie=" + h.Trie()
			}
			sts.Builds[w[0]+":"+class(res)]++
			if w[0] == "rebuild" {
				st.h = nil
				if res == "ok" {
					st.h = h
				}
				st.line = st.line + "|" + line
			}
			out.Line("%s => %s src=%s dst=%s%s", line, res, enc.ty(st.p.src), enc.ty(st.p.dst), trie)
		case "copy":
			if st == nil {
				out.Line("%s => no-case", line)
				continue
			}
			if st.h == nil {
				// the constructor failed: only the pure CopyTo can be observed — also when an entry type is not a
				// struct (CopyTo's own argument checks: an error, never a panic)
				_, src0, d0, _, _, pres, pd1, psame := oneCopy(st, w)
				sts.Pure[class(pres)]++
				out.Line("%s => no-copier src=%s d0=%s pure=%s pd1=%s psame=%s", line, src0, d0, pres, pd1, psame)
				continue
			}
			res, src0, d0, d1, same, pres, pd1, psame := oneCopy(st, w)
			sts.Results[class(res)]++
			sts.Pure[class(pres)]++
			agree := "0"
			if d1 == pd1 {
				agree = "1"
			}
			if res == "ok" && pres == "ok" {
				sts.Agree["bothok-agree"+agree]++
			}
			if d0 != d1 || res != "ok" {
				seen[st.line+"|"+src0+"|"+d0+"|"+strings.Join(w[3:], " ")] = struct{}{}
			}
			out.Line("%s => %s src=%s d0=%s d1=%s same=%s pure=%s pd1=%s psame=%s", line, res, src0, d0, d1, same, pres, pd1, psame)
		case "conc":
			if st == nil || st.h == nil {
				out.Line("%s => no-copier", line)
				continue
			}
			n, _ := strconv.Atoi(kv(w, "n"))
			type one struct{ res, src0, d0, d1, same string }
			// "a copier shared by many goroutines gives the same results" = the same as when it is not shared:
			// every goroutine gets its OWN source / destination seeds and per-call options (goroutine 0 those of
			// the op, which the driver judges), the reference result of each is taken sequentially first, and
			// every concurrent call must reproduce its reference. Identical inputs in all goroutines would hide
			// any per-call state kept in the shared copier.
			cws := make([][]string, n)
			for g := 0; g < n; g++ {
				cws[g] = concWords(w, g)
			}
			refs := make([]one, n)
			for g := 0; g < n; g++ {
				var o one
				o.res, o.src0, o.d0, o.d1, o.same, _, _, _ = oneCopy(st, cws[g])
				refs[g] = o
			}
			// held option values (ign@k= / conv@k=) are the SAME values in every goroutine that names them, as when
			// an application keeps its options in package variables
			optsG := make([][]copier.VerifOpt, n)
			for g := 0; g < n; g++ {
				optsG[g] = parseOpts(st.pool, cws[g])
			}
			// the hot loop contains nothing but the copier calls: inputs are built before the start signal,
			// destinations are rendered after the loop
			const reps = 24
			diff := make([]bool, n)
			var wg sync.WaitGroup
			start := make(chan struct{})
			for g := 0; g < n; g++ {
				wg.Add(1)
				go func(g int) {
					defer wg.Done()
					sseed, dseed := kv(cws[g], "s"), kv(cws[g], "d")
					opts := optsG[g]
					var srcs, dsts [reps]reflect.Value
					var rds [reps]*renderer
					var outs [reps]one
					for rep := 0; rep < reps; rep++ {
						srcs[rep] = newValue(st.p.src, sseed)
						dsts[rep] = newValue(st.p.dst, dseed)
						rds[rep] = newRenderer()
						outs[rep].src0 = rds[rep].val(srcs[rep].Elem())
						outs[rep].d0 = rds[rep].val(dsts[rep].Elem())
					}
					<-start
					for rep := 0; rep < reps; rep++ {
						rep := rep
						if pn := vlib.Catch(func() { outs[rep].res = errTok(st.h.CopyTo(srcs[rep], dsts[rep], opts)) }); pn != "" {
							outs[rep].res = pn
						}
					}
					// same rendering order as oneCopy: source, destination before (above); destination after, source again
					for rep := 0; rep < reps; rep++ {
						o := &outs[rep]
						o.d1 = rds[rep].val(dsts[rep].Elem())
						o.same = "0"
						if rds[rep].val(srcs[rep].Elem()) == o.src0 {
							o.same = "1"
						}
						if *o != refs[g] {
							diff[g] = true
						}
					}
					scribble(opts, st.poison)
				}(g)
			}
			close(start)
			wg.Wait()
			all := "1"
			for g := 0; g < n; g++ {
				if diff[g] {
					all = "0"
				}
			}
			results := refs
			o := results[0]
			sts.Results["conc:"+class(o.res)]++
			out.Line("%s => %s src=%s d0=%s d1=%s same=%s allsame=%s", line, o.res, o.src0, o.d0, o.d1, o.same, all)
		case "nilarg":
			if st == nil || st.h == nil {
				out.Line("%s => no-copier", line)
				continue
			}
			which := kv(w, "which")
			src := newValue(st.p.src, kv(w, "s"))
			dst := newValue(st.p.dst, "fresh")
			nilSrc := reflect.Zero(reflect.PointerTo(st.p.src))
			nilDst := reflect.Zero(reflect.PointerTo(st.p.dst))
			var res string
			p := vlib.Catch(func() {
				switch which {
				case "dst":
					res = errTok(st.h.CopyTo(src, nilDst, nil))
				case "src":
					res = errTok(st.h.CopyTo(nilSrc, dst, nil))
				case "puresrc":
					res = errTok(copier.CopyTo(nilSrc.Interface(), dst.Interface()))
				case "puredst":
					res = errTok(copier.CopyTo(src.Interface(), nilDst.Interface()))
				case "pureboth":
					res = errTok(copier.CopyTo(nilSrc.Interface(), nilDst.Interface()))
				}
			})
			if p != "" {
				res = p
			}
			sts.Results["nilarg:"+class(res)]++
			rd := newRenderer()
			out.Line("%s => %s d1=%s", line, res, rd.val(dst.Elem()))
		default:
			out.Line("%s => bad-op", line)
		}
	}
	sts.Distinct = len(seen)
}

func main() {
	mode := flag.String("mode", "gen", "gen|run")
	tier := flag.String("tier", "quick", "quick|thorough")
	family := flag.String("family", "main", "gen mode: main | heldconc (goroutines sharing held option values)")
	opsF := flag.String("ops", "", "ops file (run mode)")
	outF := flag.String("out", "", "output file")
	statsF := flag.String("stats", "", "stats json (run mode)")
	flag.Parse()
	debug.SetMaxStack(64 << 20) // should the recursive-type probe overflow the stack again: fail fast
	out := vlib.Create(*outF)
	defer out.Close()
	switch *mode {
	case "gen":
		if *family == "heldconc" {
			genHeldConc(*tier, out)
		} else {
			gen(*tier, out)
		}
	case "run":
		st := &stats{Ops: map[string]int{}, Results: map[string]int{}, Pure: map[string]int{}, Builds: map[string]int{},
			TrieNodes: map[string]int{}, Agree: map[string]int{}}
		run(vlib.ReadLines(*opsF), out, st)
		st.Recopies = sts0.Recopies
		st.HeldReuse = sts0.HeldReuse
		if *statsF != "" {
			b, _ := json.MarshalIndent(st, "", " ")
			os.WriteFile(*statsF, b, 0o644)
		}
	}
}
