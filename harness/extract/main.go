// extract: a deliberately small Go -> Lean translator for loop-free integer/boolean functions
// (DESIGN §4.1a).  It re-reads the current source on every run; the models CALL the generated
// definitions, so the theorems are re-checked against what the code says now.
//
// Subset: parameters and results of type int/int32/int64/bool; `:=`/`=` of locals; `if`/`else`
// whose bodies either return on every path or only assign locals; `return`; integer literals;
// + - * (unbounded Int: overflow is not modelled here), / and % (Go semantics: truncation, run-time
// panic on a zero divisor => the function returns `none`), comparisons, && || ! with Go's
// short-circuit evaluation (so a division guarded by the left operand is evaluated only when Go
// evaluates it), and the idiom int(float32(x) * float32(k)) with k a local float constant that is an
// exact binary fraction (translated to truncating rational arithmetic, exact while x*num < 2^24).
// Anything else makes the extractor FAIL, which the check reports as a broken obligation.
//
//	extract -root <repo> -out <lean file> -ns <Namespace> -imports "Ekit.Go.Basic" file.go:func,func ...
package main

import (
	"flag"
	"fmt"
	"go/ast"
	"go/parser"
	"go/token"
	"math/big"
	"os"
	"path/filepath"
	"strings"
)

type val struct {
	code string
	mon  bool // code has type Option T (may panic) instead of T
}

type tr struct {
	floats map[string]*big.Rat
	fresh  int
}

func fail(format string, a ...any) {
	fmt.Fprintf(os.Stderr, "extract: unsupported: "+format+"\n", a...)
	os.Exit(3)
}

func (t *tr) tmp(p string) string { t.fresh++; return fmt.Sprintf("%s%d", p, t.fresh) }

func lift(v val) string {
	if v.mon {
		return v.code
	}
	return "(some " + v.code + ")"
}

// bind2 sequences two possibly-panicking operands left to right.
func (t *tr) bind2(a, b val, f func(x, y string) val) val {
	if !a.mon && !b.mon {
		return f(a.code, b.code)
	}
	x, y := t.tmp("x"), t.tmp("y")
	inner := f(x, y)
	return val{fmt.Sprintf("(%s.bind fun %s => %s.bind fun %s => %s)", lift(a), x, lift(b), y, lift(inner)), true}
}

func (t *tr) expr(e ast.Expr) val {
	switch v := e.(type) {
	case *ast.ParenExpr:
		return t.expr(v.X)
	case *ast.Ident:
		switch v.Name {
		case "true", "false":
			return val{v.Name, false}
		}
		return val{v.Name, false}
	case *ast.BasicLit:
		if v.Kind == token.INT {
			return val{"(" + v.Value + " : Int)", false}
		}
		fail("literal %s", v.Value)
	case *ast.UnaryExpr:
		x := t.expr(v.X)
		switch v.Op {
		case token.NOT:
			if x.mon {
				n := t.tmp("x")
				return val{fmt.Sprintf("(%s.bind fun %s => some (!%s))", x.code, n, n), true}
			}
			return val{"(!" + x.code + ")", false}
		case token.SUB:
			if x.mon {
				fail("negated partial expression")
			}
			return val{"(-" + x.code + ")", false}
		}
		fail("unary %s", v.Op)
	case *ast.BinaryExpr:
		switch v.Op {
		case token.LAND, token.LOR:
			a, b := t.expr(v.X), t.expr(v.Y)
			op, short := "&&", "false"
			if v.Op == token.LOR {
				op, short = "||", "true"
			}
			if !a.mon && !b.mon {
				return val{fmt.Sprintf("(%s %s %s)", a.code, op, b.code), false}
			}
			x := t.tmp("x")
			if v.Op == token.LAND {
				return val{fmt.Sprintf("(%s.bind fun %s => if %s then %s else some %s)", lift(a), x, x, lift(b), short), true}
			}
			return val{fmt.Sprintf("(%s.bind fun %s => if %s then some %s else %s)", lift(a), x, x, short, lift(b)), true}
		}
		a, b := t.expr(v.X), t.expr(v.Y)
		switch v.Op {
		case token.ADD, token.SUB, token.MUL:
			return t.bind2(a, b, func(x, y string) val { return val{fmt.Sprintf("(%s %s %s)", x, v.Op, y), false} })
		case token.QUO:
			return t.bind2(a, b, func(x, y string) val { return val{fmt.Sprintf("(goDiv %s %s)", x, y), true} })
		case token.REM:
			return t.bind2(a, b, func(x, y string) val { return val{fmt.Sprintf("(goMod %s %s)", x, y), true} })
		case token.LSS, token.LEQ, token.GTR, token.GEQ, token.EQL, token.NEQ:
			op := map[token.Token]string{token.LSS: "<", token.LEQ: "≤", token.GTR: ">", token.GEQ: "≥", token.EQL: "=", token.NEQ: "≠"}[v.Op]
			return t.bind2(a, b, func(x, y string) val { return val{fmt.Sprintf("(decide (%s %s %s))", x, op, y), false} })
		}
		fail("binary %s", v.Op)
	case *ast.CallExpr:
		// int(float32(x) * float32(k))
		if id, ok := v.Fun.(*ast.Ident); ok && id.Name == "int" && len(v.Args) == 1 {
			if be, ok := v.Args[0].(*ast.BinaryExpr); ok && be.Op == token.MUL {
				x, okx := floatConv(be.X)
				k, okk := floatConv(be.Y)
				if okx && okk {
					if kid, ok := k.(*ast.Ident); ok {
						if r, ok := t.floats[kid.Name]; ok {
							xv := t.expr(x)
							if xv.mon {
								fail("partial operand of float idiom")
							}
							den := r.Denom()
							if new(big.Int).And(den, new(big.Int).Sub(den, big.NewInt(1))).Sign() != 0 {
								fail("float constant %s is not an exact binary fraction", r)
							}
							return val{fmt.Sprintf("(Int.tdiv (%s * %s) %s)", xv.code, r.Num(), den), false}
						}
					}
				}
			}
		}
		fail("call expression")
	}
	fail("expression %T", e)
	return val{}
}

func floatConv(e ast.Expr) (ast.Expr, bool) {
	if c, ok := e.(*ast.CallExpr); ok && len(c.Args) == 1 {
		if id, ok := c.Fun.(*ast.Ident); ok && (id.Name == "float32" || id.Name == "float64") {
			return c.Args[0], true
		}
	}
	return nil, false
}

func terminates(stmts []ast.Stmt) bool {
	if len(stmts) == 0 {
		return false
	}
	switch v := stmts[len(stmts)-1].(type) {
	case *ast.ReturnStmt:
		return true
	case *ast.IfStmt:
		if v.Else == nil {
			return false
		}
		eb, ok := v.Else.(*ast.BlockStmt)
		if !ok {
			return terminates([]ast.Stmt{v.Else})
		}
		return terminates(v.Body.List) && terminates(eb.List)
	case *ast.BlockStmt:
		return terminates(v.List)
	}
	return false
}

// stmts translates a statement list whose value is the function's result (type Option Ret).
func (t *tr) stmts(ss []ast.Stmt, ind string) string {
	if len(ss) == 0 {
		fail("function falls off the end")
	}
	s, rest := ss[0], ss[1:]
	switch v := s.(type) {
	case *ast.ReturnStmt:
		vals := make([]val, len(v.Results))
		anyMon := false
		for i, r := range v.Results {
			vals[i] = t.expr(r)
			anyMon = anyMon || vals[i].mon
		}
		names := make([]string, len(vals))
		pre := ""
		for i, x := range vals {
			if x.mon {
				n := t.tmp("r")
				pre += fmt.Sprintf("%s.bind fun %s => ", x.code, n)
				names[i] = n
			} else {
				names[i] = x.code
			}
		}
		body := names[0]
		if len(names) > 1 {
			body = "(" + strings.Join(names, ", ") + ")"
		}
		return ind + pre + "some " + body
	case *ast.AssignStmt:
		if len(v.Lhs) != 1 || len(v.Rhs) != 1 {
			fail("multi-assignment")
		}
		id, ok := v.Lhs[0].(*ast.Ident)
		if !ok {
			fail("assignment target")
		}
		if lit, ok := v.Rhs[0].(*ast.BasicLit); ok && lit.Kind == token.FLOAT {
			r, ok := new(big.Rat).SetString(lit.Value)
			if !ok {
				fail("float literal %s", lit.Value)
			}
			t.floats[id.Name] = r
			return t.stmts(rest, ind)
		}
		x := t.expr(v.Rhs[0])
		if x.mon {
			return fmt.Sprintf("%s%s.bind fun %s =>\n%s", ind, x.code, id.Name, t.stmts(rest, ind))
		}
		return fmt.Sprintf("%slet %s := %s\n%s", ind, id.Name, x.code, t.stmts(rest, ind))
	case *ast.IfStmt:
		if v.Init != nil {
			fail("if with init")
		}
		c := t.expr(v.Cond)
		if terminates(v.Body.List) {
			var els string
			if v.Else != nil {
				switch e := v.Else.(type) {
				case *ast.BlockStmt:
					els = t.stmts(append(append([]ast.Stmt{}, e.List...), rest...), ind+"  ")
				default:
					els = t.stmts(append([]ast.Stmt{e}, rest...), ind+"  ")
				}
			} else {
				els = t.stmts(rest, ind+"  ")
			}
			th := t.stmts(v.Body.List, ind+"  ")
			if c.mon {
				n := t.tmp("c")
				return fmt.Sprintf("%s%s.bind fun %s =>\n%sif %s then\n%s\n%selse\n%s", ind, c.code, n, ind, n, th, ind, els)
			}
			return fmt.Sprintf("%sif %s then\n%s\n%selse\n%s", ind, c.code, th, ind, els)
		}
		// non-terminating body: only assignments to locals, no else
		if v.Else != nil || c.mon {
			fail("if/else that does not return")
		}
		out := ""
		for _, bs := range v.Body.List {
			as, ok := bs.(*ast.AssignStmt)
			if !ok || len(as.Lhs) != 1 || as.Tok != token.ASSIGN {
				fail("statement in non-returning if body")
			}
			id, ok := as.Lhs[0].(*ast.Ident)
			if !ok {
				fail("assignment target in if body")
			}
			x := t.expr(as.Rhs[0])
			if x.mon {
				fail("partial expression in if body")
			}
			out += fmt.Sprintf("%slet %s := if %s then %s else %s\n", ind, id.Name, c.code, x.code, id.Name)
		}
		return out + t.stmts(rest, ind)
	case *ast.BlockStmt:
		return t.stmts(append(append([]ast.Stmt{}, v.List...), rest...), ind)
	}
	fail("statement %T", s)
	return ""
}

func leanType(e ast.Expr) string {
	if id, ok := e.(*ast.Ident); ok {
		switch id.Name {
		case "int", "int32", "int64":
			return "Int"
		case "bool":
			return "Bool"
		}
	}
	fail("type %v", e)
	return ""
}

func main() {
	root := flag.String("root", ".", "repo root")
	out := flag.String("out", "", "lean output file")
	ns := flag.String("ns", "Ekit.Gen", "lean namespace")
	imports := flag.String("imports", "Ekit.Go.Basic", "comma separated imports")
	flag.Parse()
	var b strings.Builder
	b.WriteString("/- GENERATED by harness/extract from the Go sources of the current tree — do not edit. -/\n")
	for _, im := range strings.Split(*imports, ",") {
		b.WriteString("import " + im + "\n")
	}
	b.WriteString("namespace " + *ns + "\nopen Ekit.Go\n\n")
	for _, arg := range flag.Args() {
		file, fl, _ := strings.Cut(arg, ":")
		want := map[string]bool{}
		for _, f := range strings.Split(fl, ",") {
			want[f] = true
		}
		fset := token.NewFileSet()
		f, err := parser.ParseFile(fset, filepath.Join(*root, file), nil, 0)
		if err != nil {
			fmt.Fprintln(os.Stderr, "extract:", err)
			os.Exit(3)
		}
		found := map[string]bool{}
		for _, d := range f.Decls {
			fd, ok := d.(*ast.FuncDecl)
			if !ok || !want[fd.Name.Name] || fd.Recv != nil {
				continue
			}
			found[fd.Name.Name] = true
			var params []string
			for _, p := range fd.Type.Params.List {
				ty := leanType(p.Type)
				for _, n := range p.Names {
					params = append(params, fmt.Sprintf("(%s : %s)", n.Name, ty))
				}
			}
			var rts []string
			for _, r := range fd.Type.Results.List {
				k := len(r.Names)
				if k == 0 {
					k = 1
				}
				for i := 0; i < k; i++ {
					rts = append(rts, leanType(r.Type))
				}
			}
			t := &tr{floats: map[string]*big.Rat{}}
			body := t.stmts(fd.Body.List, "  ")
			fmt.Fprintf(&b, "/-- translated from `func %s` in %s -/\ndef %s %s : Option (%s) :=\n%s\n\n",
				fd.Name.Name, file, fd.Name.Name, strings.Join(params, " "), strings.Join(rts, " × "), body)
		}
		for w := range want {
			if !found[w] {
				fail("function %s not found in %s", w, file)
			}
		}
	}
	b.WriteString("end " + *ns + "\n")
	if *out == "" {
		fmt.Print(b.String())
		return
	}
	old, _ := os.ReadFile(*out)
	if string(old) != b.String() {
		os.MkdirAll(filepath.Dir(*out), 0o755)
		os.WriteFile(*out, []byte(b.String()), 0o644)
	}
}
