// valuetab regenerates lean/Ekit/Generated/ValueTable.lean from value.go: for every method of
// AnyValue it records *what the code says* (which type is asserted, whether the assertion is the
// comma-ok form, which strconv function a `case string` calls with which base and bit size, which
// conversion is applied to the result, which accessor an OrDefault form consults, the arms of
// AsString's kind switch and the expression it switches on, what JSONScan delegates to).
//
// The extractor understands a small set of statement shapes and fails *loudly*: anything else is
// recorded in the row's `unknown` list (or in `unclassified`), which the Lean theorem
// `c17_table_sound` requires to be empty.
//
//	valuetab -src /path/to/value.go -out ValueTable.lean
package main

import (
	"bytes"
	"flag"
	"fmt"
	"go/ast"
	"go/parser"
	"go/printer"
	"go/token"
	"os"
	"sort"
	"strconv"
	"strings"
)

var fset = token.NewFileSet()

func src(n ast.Node) string {
	if n == nil {
		return "<nil>"
	}
	var b bytes.Buffer
	printer.Fprint(&b, fset, n)
	s := strings.Join(strings.Fields(b.String()), " ")
	if len(s) > 120 {
		s = s[:120] + "…"
	}
	return s
}

// leanStr renders a Lean string literal (only `"` and `\` need escaping; control characters become spaces).
func leanStr(s string) string {
	var b strings.Builder
	b.WriteByte('"')
	for _, r := range s {
		switch {
		case r == '"' || r == '\\':
			b.WriteByte('\\')
			b.WriteRune(r)
		case r < 0x20 || r == 0x7f:
			b.WriteByte(' ')
		default:
			b.WriteRune(r)
		}
	}
	b.WriteByte('"')
	return b.String()
}

func leanList(xs []string) string {
	if len(xs) == 0 {
		return "[]"
	}
	return "[" + strings.Join(xs, ", ") + "]"
}

func leanStrs(xs []string) string {
	q := make([]string, len(xs))
	for i, x := range xs {
		q[i] = leanStr(x)
	}
	return leanList(q)
}

var intTs = map[string]bool{"int": true, "int8": true, "int16": true, "int32": true, "int64": true,
	"uint": true, "uint8": true, "uint16": true, "uint32": true, "uint64": true}

// goT renders a Go type expression as a Lean `GoT`.
func goT(e ast.Expr) string {
	switch t := e.(type) {
	case *ast.Ident:
		switch {
		case intTs[t.Name]:
			return "(.i ." + t.Name + ")"
		case t.Name == "byte":
			return "(.i .uint8)"
		case t.Name == "rune":
			return "(.i .int32)"
		case t.Name == "float32", t.Name == "float64", t.Name == "string", t.Name == "bool":
			return "." + t.Name
		}
	case *ast.ArrayType:
		if t.Len == nil {
			if id, ok := t.Elt.(*ast.Ident); ok && (id.Name == "byte" || id.Name == "uint8") {
				return ".bytes"
			}
		}
	}
	return "(.unknown " + leanStr(src(e)) + ")"
}

func isIdent(e ast.Expr, name string) bool {
	id, ok := e.(*ast.Ident)
	return ok && id.Name == name
}

func isSel(e ast.Expr, x, sel string) bool {
	s, ok := e.(*ast.SelectorExpr)
	return ok && isIdent(s.X, x) && s.Sel.Name == sel
}

func intLit(e ast.Expr) (int64, bool) {
	neg := false
	if u, ok := e.(*ast.UnaryExpr); ok && u.Op == token.SUB {
		neg = true
		e = u.X
	}
	l, ok := e.(*ast.BasicLit)
	if !ok || l.Kind != token.INT {
		return 0, false
	}
	v, err := strconv.ParseInt(l.Value, 0, 64)
	if err != nil {
		return 0, false
	}
	if neg {
		v = -v
	}
	return v, true
}

type ctx struct {
	recv    string
	unknown []string
}

func (c *ctx) unk(format string, a ...any) { c.unknown = append(c.unknown, fmt.Sprintf(format, a...)) }

// isErrGuard: `if recv.Err != nil { return ..., recv.Err }`
func (c *ctx) isErrGuard(s ast.Stmt) bool {
	is, ok := s.(*ast.IfStmt)
	if !ok || is.Init != nil || is.Else != nil {
		return false
	}
	be, ok := is.Cond.(*ast.BinaryExpr)
	if !ok || be.Op != token.NEQ || !isSel(be.X, c.recv, "Err") || !isIdent(be.Y, "nil") {
		return false
	}
	if len(is.Body.List) != 1 {
		return false
	}
	r, ok := is.Body.List[0].(*ast.ReturnStmt)
	if !ok || len(r.Results) == 0 {
		return false
	}
	return isSel(r.Results[len(r.Results)-1], c.recv, "Err")
}

// isTypeErrReturn: `return <zero>, errs.NewErrInvalidType(...)` (any constructor of package errs / errors counts as "an error")
func isErrReturn(s ast.Stmt) bool {
	r, ok := s.(*ast.ReturnStmt)
	if !ok || len(r.Results) != 2 {
		return false
	}
	call, ok := r.Results[1].(*ast.CallExpr)
	if !ok {
		return false
	}
	sel, ok := call.Fun.(*ast.SelectorExpr)
	if !ok {
		return false
	}
	return (isIdent(sel.X, "errs") && strings.HasPrefix(sel.Sel.Name, "NewErr")) ||
		(isIdent(sel.X, "errors") && sel.Sel.Name == "New") || (isIdent(sel.X, "fmt") && sel.Sel.Name == "Errorf")
}

// `return x, nil`
func isReturnVarNil(s ast.Stmt, name string) bool {
	r, ok := s.(*ast.ReturnStmt)
	return ok && len(r.Results) == 2 && isIdent(r.Results[0], name) && isIdent(r.Results[1], "nil")
}

// `if err != nil { return <anything>, err }`  (an early return of the same error: same outcome as `return T(res), err`)
func isErrCheck(s ast.Stmt, errName string) bool {
	is, ok := s.(*ast.IfStmt)
	if !ok || is.Init != nil || is.Else != nil || len(is.Body.List) != 1 {
		return false
	}
	be, ok := is.Cond.(*ast.BinaryExpr)
	if !ok || be.Op != token.NEQ || !isIdent(be.X, errName) || !isIdent(be.Y, "nil") {
		return false
	}
	r, ok := is.Body.List[0].(*ast.ReturnStmt)
	return ok && len(r.Results) == 2 && isIdent(r.Results[1], errName)
}

// strconv call on the switch variable: returns the Lean `Conv`
func (c *ctx) conv(e ast.Expr, v string) (string, bool) {
	call, ok := e.(*ast.CallExpr)
	if !ok {
		return "", false
	}
	sel, ok := call.Fun.(*ast.SelectorExpr)
	if !ok || !isIdent(sel.X, "strconv") {
		return "", false
	}
	if len(call.Args) == 0 || !isIdent(call.Args[0], v) {
		return "", false
	}
	switch sel.Sel.Name {
	case "ParseInt", "ParseUint":
		if len(call.Args) != 3 {
			return "", false
		}
		base, ok1 := intLit(call.Args[1])
		bits, ok2 := intLit(call.Args[2])
		if !ok1 || !ok2 || base < 0 || bits < 0 {
			return "", false
		}
		fn := "parseInt"
		if sel.Sel.Name == "ParseUint" {
			fn = "parseUint"
		}
		if bits == 0 {
			// strconv: bitSize 0 means the size of int/uint; the model fixes int/uint at 64 bits
			// (the only platform the harness runs on), so the table records the width it denotes
			bits = 64
		}
		return fmt.Sprintf("(.%s %d %d)", fn, base, bits), true
	case "ParseFloat":
		if len(call.Args) != 2 {
			return "", false
		}
		bits, ok := intLit(call.Args[1])
		if !ok || bits < 0 {
			return "", false
		}
		return fmt.Sprintf("(.parseFloat %d)", bits), true
	}
	return "", false
}

// the body of `case string:` → Lean `StrCase`
func (c *ctx) strCase(body []ast.Stmt, v string) (string, bool) {
	// return []byte(v), nil
	if len(body) == 1 {
		if r, ok := body[0].(*ast.ReturnStmt); ok && len(r.Results) == 2 && isIdent(r.Results[1], "nil") {
			if call, ok := r.Results[0].(*ast.CallExpr); ok && len(call.Args) == 1 && isIdent(call.Args[0], v) {
				if goT(call.Fun) == ".bytes" {
					return "{ conv := .toBytes, cast := none }", true
				}
			}
		}
		// return strconv.F(v, ...)
		if r, ok := body[0].(*ast.ReturnStmt); ok && len(r.Results) == 1 {
			if cv, ok := c.conv(r.Results[0], v); ok {
				return "{ conv := " + cv + ", cast := none }", true
			}
		}
		return "", false
	}
	// res, err := strconv.F(v, ...) ; [if err != nil { return _, err }] ; return T(res), err|nil
	as, ok := body[0].(*ast.AssignStmt)
	if !ok || as.Tok != token.DEFINE || len(as.Lhs) != 2 || len(as.Rhs) != 1 {
		return "", false
	}
	resN, ok1 := as.Lhs[0].(*ast.Ident)
	errN, ok2 := as.Lhs[1].(*ast.Ident)
	if !ok1 || !ok2 {
		return "", false
	}
	cv, ok := c.conv(as.Rhs[0], v)
	if !ok {
		return "", false
	}
	rest := body[1:]
	checked := false
	if len(rest) == 2 && isErrCheck(rest[0], errN.Name) {
		checked = true
		rest = rest[1:]
	}
	if len(rest) != 1 {
		return "", false
	}
	r, ok := rest[0].(*ast.ReturnStmt)
	if !ok || len(r.Results) != 2 {
		return "", false
	}
	if !(isIdent(r.Results[1], errN.Name) || (checked && isIdent(r.Results[1], "nil"))) {
		return "", false
	}
	if isIdent(r.Results[0], resN.Name) {
		return "{ conv := " + cv + ", cast := none }", true
	}
	call, ok := r.Results[0].(*ast.CallExpr)
	if !ok || len(call.Args) != 1 || !isIdent(call.Args[0], resN.Name) {
		return "", false
	}
	return "{ conv := " + cv + ", cast := some " + goT(call.Fun) + " }", true
}

type row struct {
	name, ret, exact, str string
	errGuard, commaOk     bool
	unknown               []string
}

func (r row) lean() string {
	return fmt.Sprintf("  { name := %s, ret := %s, errGuard := %v, exact := %s, commaOk := %v,\n    str := %s, unknown := %s }",
		leanStr(r.name), r.ret, r.errGuard, r.exact, r.commaOk, r.str, leanStrs(r.unknown))
}

// strict accessor:  val, ok := recv.Val.(T); if !ok { return _, err }; return val, nil      (or the bare form)
func (c *ctx) strict(name, ret string, guard bool, body []ast.Stmt) (row, bool) {
	// equivalent spellings of the comma-ok form are brought to the one matched below:
	//   if v, ok := recv.Val.(T); ok { return v, nil }; return zero, err
	//   v, ok := recv.Val.(T); if ok { return v, nil }; return zero, err
	if len(body) == 2 {
		if is, ok := body[0].(*ast.IfStmt); ok && is.Init != nil && is.Else == nil {
			body = []ast.Stmt{is.Init, &ast.IfStmt{Cond: is.Cond, Body: is.Body}, body[1]}
		}
	}
	if len(body) == 3 {
		if is, ok := body[1].(*ast.IfStmt); ok && is.Init == nil && is.Else == nil && len(is.Body.List) == 1 && isErrReturn(body[2]) {
			if id, ok := is.Cond.(*ast.Ident); ok {
				if rs, ok := is.Body.List[0].(*ast.ReturnStmt); ok && len(rs.Results) == 2 && isIdent(rs.Results[1], "nil") {
					body = []ast.Stmt{body[0],
						&ast.IfStmt{Cond: &ast.UnaryExpr{Op: token.NOT, X: id}, Body: &ast.BlockStmt{List: []ast.Stmt{body[2]}}},
						rs}
				}
			}
		}
	}
	if len(body) < 2 {
		return row{}, false
	}
	as, ok := body[0].(*ast.AssignStmt)
	if !ok || as.Tok != token.DEFINE || len(as.Rhs) != 1 {
		return row{}, false
	}
	ta, ok := as.Rhs[0].(*ast.TypeAssertExpr)
	if !ok || ta.Type == nil || !isSel(ta.X, c.recv, "Val") {
		return row{}, false
	}
	valN, ok := as.Lhs[0].(*ast.Ident)
	if !ok {
		return row{}, false
	}
	r := row{name: name, ret: ret, errGuard: guard, exact: goT(ta.Type), str: "none"}
	switch {
	case len(as.Lhs) == 2 && len(body) == 3:
		okN, ok := as.Lhs[1].(*ast.Ident)
		if !ok {
			return row{}, false
		}
		is, ok := body[1].(*ast.IfStmt)
		if !ok || is.Init != nil || is.Else != nil || len(is.Body.List) != 1 || !isErrReturn(is.Body.List[0]) {
			return row{}, false
		}
		u, ok := is.Cond.(*ast.UnaryExpr)
		if !ok || u.Op != token.NOT || !isIdent(u.X, okN.Name) {
			return row{}, false
		}
		if !isReturnVarNil(body[2], valN.Name) {
			return row{}, false
		}
		r.commaOk = true
	case len(as.Lhs) == 1 && len(body) == 2:
		if !isReturnVarNil(body[1], valN.Name) {
			return row{}, false
		}
		r.commaOk = false
	default:
		return row{}, false
	}
	return r, true
}

// As accessor: switch v := recv.Val.(type) { case T: return v, nil; case string: ... }; return _, err
func (c *ctx) asRow(name, ret string, guard bool, body []ast.Stmt) (row, bool) {
	if len(body) != 2 || !isErrReturn(body[1]) {
		return row{}, false
	}
	ts, ok := body[0].(*ast.TypeSwitchStmt)
	if !ok || ts.Init != nil {
		return row{}, false
	}
	as, ok := ts.Assign.(*ast.AssignStmt)
	if !ok || len(as.Lhs) != 1 || len(as.Rhs) != 1 {
		return row{}, false
	}
	vN, ok := as.Lhs[0].(*ast.Ident)
	if !ok {
		return row{}, false
	}
	ta, ok := as.Rhs[0].(*ast.TypeAssertExpr)
	if !ok || ta.Type != nil || !isSel(ta.X, c.recv, "Val") {
		return row{}, false
	}
	r := row{name: name, ret: ret, errGuard: guard, commaOk: true, str: "none"}
	haveExact := false
	for _, cl := range ts.Body.List {
		cc := cl.(*ast.CaseClause)
		if cc.List == nil {
			r.unknown = append(r.unknown, "default arm: "+src(cc))
			continue
		}
		if len(cc.List) != 1 {
			r.unknown = append(r.unknown, "multi-type case: "+src(cc))
			continue
		}
		t := goT(cc.List[0])
		if len(cc.Body) == 1 && isReturnVarNil(cc.Body[0], vN.Name) && !haveExact {
			r.exact = t
			haveExact = true
			continue
		}
		if t == ".string" && r.str == "none" {
			if sc, ok := c.strCase(cc.Body, vN.Name); ok {
				r.str = "(some " + sc + ")"
				continue
			}
		}
		r.unknown = append(r.unknown, "case not understood: "+src(cc))
	}
	if !haveExact {
		r.exact = "(.unknown \"<no identity case>\")"
		r.unknown = append(r.unknown, "no case returns the held value as is")
	}
	return r, true
}

// OrDefault: val, err := recv.M(); if err != nil { return def }; return val
func (c *ctx) defRow(fn *ast.FuncDecl, body []ast.Stmt) (string, bool) {
	if len(fn.Type.Params.List) != 1 || len(fn.Type.Params.List[0].Names) != 1 || fn.Type.Results == nil || len(fn.Type.Results.List) != 1 || len(body) != 3 {
		return "", false
	}
	defN := fn.Type.Params.List[0].Names[0].Name
	as, ok := body[0].(*ast.AssignStmt)
	if !ok || as.Tok != token.DEFINE || len(as.Lhs) != 2 || len(as.Rhs) != 1 {
		return "", false
	}
	valN, ok1 := as.Lhs[0].(*ast.Ident)
	errN, ok2 := as.Lhs[1].(*ast.Ident)
	call, ok3 := as.Rhs[0].(*ast.CallExpr)
	if !ok1 || !ok2 || !ok3 || len(call.Args) != 0 {
		return "", false
	}
	sel, ok := call.Fun.(*ast.SelectorExpr)
	if !ok || !isIdent(sel.X, c.recv) {
		return "", false
	}
	is, ok := body[1].(*ast.IfStmt)
	if !ok || is.Init != nil || is.Else != nil || len(is.Body.List) != 1 {
		return "", false
	}
	be, ok := is.Cond.(*ast.BinaryExpr)
	if !ok || be.Op != token.NEQ || !isIdent(be.X, errN.Name) || !isIdent(be.Y, "nil") {
		return "", false
	}
	r1, ok := is.Body.List[0].(*ast.ReturnStmt)
	if !ok || len(r1.Results) != 1 || !isIdent(r1.Results[0], defN) {
		return "", false
	}
	r2, ok := body[2].(*ast.ReturnStmt)
	if !ok || len(r2.Results) != 1 || !isIdent(r2.Results[0], valN.Name) {
		return "", false
	}
	return fmt.Sprintf("  { name := %s, ret := %s, via := %s, unknown := [] }", leanStr(fn.Name.Name),
		goT(fn.Type.Results.List[0].Type), leanStr(sel.Sel.Name)), true
}

var kindNames = map[string]string{
	"Invalid": ".invalid", "Bool": ".bool", "Uintptr": ".uintptr", "Float32": ".float32", "Float64": ".float64",
	"String": ".string", "Slice": ".slice",
	"Int": "(.int .int)", "Int8": "(.int .int8)", "Int16": "(.int .int16)", "Int32": "(.int .int32)", "Int64": "(.int .int64)",
	"Uint": "(.int .uint)", "Uint8": "(.int .uint8)", "Uint16": "(.int .uint16)", "Uint32": "(.int .uint32)", "Uint64": "(.int .uint64)",
}

// call `x.M()` with no arguments on identifier x
func isMethodCall(e ast.Expr, x, m string) bool {
	call, ok := e.(*ast.CallExpr)
	if !ok || len(call.Args) != 0 {
		return false
	}
	return isSel(call.Fun, x, m)
}

func (c *ctx) asString(guard bool, body []ast.Stmt) (string, bool) {
	// var val string; valueOf := reflect.ValueOf(recv.Val); switch TAG { arms }; return val, nil
	if len(body) != 4 {
		return "", false
	}
	ds, ok := body[0].(*ast.DeclStmt)
	if !ok {
		return "", false
	}
	gd, ok := ds.Decl.(*ast.GenDecl)
	if !ok || gd.Tok != token.VAR || len(gd.Specs) != 1 {
		return "", false
	}
	vs := gd.Specs[0].(*ast.ValueSpec)
	if len(vs.Names) != 1 || len(vs.Values) != 0 || !isIdent(vs.Type, "string") {
		return "", false
	}
	valN := vs.Names[0].Name
	as, ok := body[1].(*ast.AssignStmt)
	if !ok || as.Tok != token.DEFINE || len(as.Lhs) != 1 || len(as.Rhs) != 1 {
		return "", false
	}
	voN, ok := as.Lhs[0].(*ast.Ident)
	if !ok {
		return "", false
	}
	call, ok := as.Rhs[0].(*ast.CallExpr)
	if !ok || !isSel(call.Fun, "reflect", "ValueOf") || len(call.Args) != 1 || !isSel(call.Args[0], c.recv, "Val") {
		return "", false
	}
	sw, ok := body[2].(*ast.SwitchStmt)
	if !ok || sw.Init != nil || sw.Tag == nil {
		return "", false
	}
	if !isReturnVarNil(body[3], valN) {
		return "", false
	}
	vo := voN.Name
	var unknown []string
	tag := ""
	switch {
	case isMethodCall(sw.Tag, vo, "Kind"):
		tag = ".valueKind"
	default:
		// valueOf.Type().Kind()
		if call, ok := sw.Tag.(*ast.CallExpr); ok && len(call.Args) == 0 {
			if sel, ok := call.Fun.(*ast.SelectorExpr); ok && sel.Sel.Name == "Kind" && isMethodCall(sel.X, vo, "Type") {
				tag = ".typeKind"
			}
		}
		if tag == "" {
			tag = "(.unknown " + leanStr(src(sw.Tag)) + ")"
			unknown = append(unknown, "switch tag: "+src(sw.Tag))
		}
	}
	assignOf := func(s ast.Stmt) ast.Expr { // `val = e`
		a, ok := s.(*ast.AssignStmt)
		if !ok || a.Tok != token.ASSIGN || len(a.Lhs) != 1 || len(a.Rhs) != 1 || !isIdent(a.Lhs[0], valN) {
			return nil
		}
		return a.Rhs[0]
	}
	armOf := func(b []ast.Stmt) string {
		if len(b) == 1 {
			if r, ok := b[0].(*ast.ReturnStmt); ok && len(r.Results) == 2 && isErrReturn(r) {
				return ".err"
			}
			if e := assignOf(b[0]); e != nil {
				if isMethodCall(e, vo, "String") {
					return ".str"
				}
				if call, ok := e.(*ast.CallExpr); ok {
					if sel, ok := call.Fun.(*ast.SelectorExpr); ok && isIdent(sel.X, "strconv") {
						switch {
						case sel.Sel.Name == "FormatUint" && len(call.Args) == 2 && isMethodCall(call.Args[0], vo, "Uint"):
							if b, ok := intLit(call.Args[1]); ok && b >= 0 {
								return fmt.Sprintf("(.fmtUint %d)", b)
							}
						case sel.Sel.Name == "FormatInt" && len(call.Args) == 2 && isMethodCall(call.Args[0], vo, "Int"):
							if b, ok := intLit(call.Args[1]); ok && b >= 0 {
								return fmt.Sprintf("(.fmtInt %d)", b)
							}
						case sel.Sel.Name == "FormatFloat" && len(call.Args) == 4 && isMethodCall(call.Args[0], vo, "Float"):
							ch, ok0 := call.Args[1].(*ast.BasicLit)
							prec, ok1 := intLit(call.Args[2])
							bits, ok2 := intLit(call.Args[3])
							if ok0 && ch.Kind == token.CHAR && ok1 && ok2 && bits >= 0 {
								if r, _, _, err := strconv.UnquoteChar(ch.Value[1:len(ch.Value)-1], '\''); err == nil {
									return fmt.Sprintf("(.fmtFloat %d (%d) %d)", r, prec, bits)
								}
							}
						}
					}
				}
			}
		}
		if len(b) == 2 {
			// if valueOf.Type().Elem().Kind() != reflect.Uint8 { return "", err } ; val = string(valueOf.Bytes())
			is, ok := b[0].(*ast.IfStmt)
			if ok && is.Init == nil && is.Else == nil && len(is.Body.List) == 1 && isErrReturn(is.Body.List[0]) {
				be, ok := is.Cond.(*ast.BinaryExpr)
				if ok && be.Op == token.NEQ && isSel(be.Y, "reflect", "Uint8") &&
					src(be.X) == vo+".Type().Elem().Kind()" {
					if e := assignOf(b[1]); e != nil {
						if call, ok := e.(*ast.CallExpr); ok && isIdent(call.Fun, "string") && len(call.Args) == 1 && isMethodCall(call.Args[0], vo, "Bytes") {
							return ".bytesIfU8"
						}
					}
				}
			}
		}
		var parts []string
		for _, s := range b {
			parts = append(parts, src(s))
		}
		u := strings.Join(parts, "; ")
		unknown = append(unknown, "arm: "+u)
		return "(.unknown " + leanStr(u) + ")"
	}
	var arms []string
	dflt := ""
	for _, cl := range sw.Body.List {
		cc := cl.(*ast.CaseClause)
		arm := armOf(cc.Body)
		if cc.List == nil {
			dflt = arm
			continue
		}
		for _, k := range cc.List {
			sel, ok := k.(*ast.SelectorExpr)
			kn := ""
			if ok && isIdent(sel.X, "reflect") {
				kn = kindNames[sel.Sel.Name]
			}
			if kn == "" {
				kn = ".other"
				unknown = append(unknown, "kind: "+src(k))
			}
			arms = append(arms, "("+kn+", "+arm+")")
		}
	}
	if dflt == "" {
		// no default arm: falls through to `return val, nil` with val == ""
		dflt = "(.unknown \"<no default arm>\")"
		unknown = append(unknown, "no default arm")
	}
	return fmt.Sprintf("{ errGuard := %v, tag := %s,\n    arms := [%s],\n    dflt := %s, unknown := %s }",
		guard, tag, strings.Join(arms, ",\n      "), dflt, leanStrs(unknown)), true
}

// JSONScan: data, err := recv.M(); if err != nil { return err }; return json.Unmarshal(data, val)
func (c *ctx) jsonScan(fn *ast.FuncDecl, body []ast.Stmt) (string, bool) {
	if len(body) != 3 || len(fn.Type.Params.List) != 1 || len(fn.Type.Params.List[0].Names) != 1 {
		return "", false
	}
	argN := fn.Type.Params.List[0].Names[0].Name
	as, ok := body[0].(*ast.AssignStmt)
	if !ok || as.Tok != token.DEFINE || len(as.Lhs) != 2 || len(as.Rhs) != 1 {
		return "", false
	}
	dataN, ok1 := as.Lhs[0].(*ast.Ident)
	errN, ok2 := as.Lhs[1].(*ast.Ident)
	call, ok3 := as.Rhs[0].(*ast.CallExpr)
	if !ok1 || !ok2 || !ok3 || len(call.Args) != 0 {
		return "", false
	}
	sel, ok := call.Fun.(*ast.SelectorExpr)
	if !ok || !isIdent(sel.X, c.recv) {
		return "", false
	}
	prop := false
	if is, ok := body[1].(*ast.IfStmt); ok && is.Init == nil && is.Else == nil && len(is.Body.List) == 1 {
		if be, ok := is.Cond.(*ast.BinaryExpr); ok && be.Op == token.NEQ && isIdent(be.X, errN.Name) && isIdent(be.Y, "nil") {
			if r, ok := is.Body.List[0].(*ast.ReturnStmt); ok && len(r.Results) == 1 && isIdent(r.Results[0], errN.Name) {
				prop = true
			}
		}
	}
	if !prop {
		return "", false
	}
	r, ok := body[2].(*ast.ReturnStmt)
	if !ok || len(r.Results) != 1 {
		return "", false
	}
	uc, ok := r.Results[0].(*ast.CallExpr)
	if !ok || !isSel(uc.Fun, "json", "Unmarshal") || len(uc.Args) != 2 || !isIdent(uc.Args[0], dataN.Name) || !isIdent(uc.Args[1], argN) {
		return "", false
	}
	return fmt.Sprintf("{ via := %s, propagatesErr := %v, unknown := [] }", leanStr(sel.Sel.Name), prop), true
}

func main() {
	srcF := flag.String("src", "value.go", "path of value.go")
	outF := flag.String("out", "", "output .lean file (stdout if empty)")
	flag.Parse()
	f, err := parser.ParseFile(fset, *srcF, nil, 0)
	if err != nil {
		fmt.Fprintln(os.Stderr, "valuetab:", err)
		os.Exit(1)
	}
	var rows, defs, unclassified []string
	asString := ""
	jsonScan := ""
	var fns []*ast.FuncDecl
	for _, d := range f.Decls {
		fn, ok := d.(*ast.FuncDecl)
		if !ok || fn.Recv == nil || len(fn.Recv.List) != 1 || fn.Body == nil {
			continue
		}
		rt := fn.Recv.List[0].Type
		if st, ok := rt.(*ast.StarExpr); ok {
			rt = st.X
		}
		if !isIdent(rt, "AnyValue") {
			continue
		}
		fns = append(fns, fn)
	}
	sort.SliceStable(fns, func(i, j int) bool { return fns[i].Pos() < fns[j].Pos() })
	for _, fn := range fns {
		name := fn.Name.Name
		c := &ctx{recv: "_"}
		if len(fn.Recv.List[0].Names) == 1 {
			c.recv = fn.Recv.List[0].Names[0].Name
		}
		body := fn.Body.List
		guard := false
		if len(body) > 0 && c.isErrGuard(body[0]) {
			guard = true
			body = body[1:]
		}
		nres := 0
		if fn.Type.Results != nil {
			for _, r := range fn.Type.Results.List {
				if len(r.Names) == 0 {
					nres++
				} else {
					nres += len(r.Names)
				}
			}
		}
		done := false
		switch {
		case name == "AsString":
			if s, ok := c.asString(guard, body); ok {
				asString = s
				done = true
			}
		case name == "JSONScan":
			if s, ok := c.jsonScan(fn, body); ok && !guard {
				jsonScan = s
				done = true
			}
		case strings.HasSuffix(name, "OrDefault"):
			if s, ok := c.defRow(fn, body); ok && !guard {
				defs = append(defs, s)
				done = true
			}
		case nres == 2 && fn.Type.Params.NumFields() == 0:
			ret := goT(fn.Type.Results.List[0].Type)
			if r, ok := c.strict(name, ret, guard, body); ok {
				rows = append(rows, r.lean())
				done = true
			} else if r, ok := c.asRow(name, ret, guard, body); ok {
				rows = append(rows, r.lean())
				done = true
			}
		}
		if !done {
			unclassified = append(unclassified, name)
		}
	}
	if asString == "" {
		asString = "{ errGuard := false, tag := .unknown \"<AsString not understood>\", arms := [], dflt := .unknown \"\", unknown := [\"AsString not understood\"] }"
	}
	if jsonScan == "" {
		jsonScan = "{ via := \"\", propagatesErr := false, unknown := [\"JSONScan not understood\"] }"
	}
	var b strings.Builder
	b.WriteString("/- GENERATED by harness/valuetab from value.go — do not edit (rewritten by every `./check C17`). -/\n")
	b.WriteString("import Ekit.Model.ValueBase\nnamespace Ekit.Gen\nopen Ekit.Value\n\n")
	b.WriteString("def valueRows : List Row := [\n" + strings.Join(rows, ",\n") + "\n]\n\n")
	b.WriteString("def valueDefs : List DefRow := [\n" + strings.Join(defs, ",\n") + "\n]\n\n")
	b.WriteString("def valueAsString : AsStringInfo :=\n  " + asString + "\n\n")
	b.WriteString("def valueJSONScan : JSONScanInfo :=\n  " + jsonScan + "\n\n")
	b.WriteString("def valueTable : Table :=\n  { rows := valueRows, defs := valueDefs, asString := valueAsString, jsonScan := valueJSONScan,\n    unclassified := " + leanStrs(unclassified) + " }\n\nend Ekit.Gen\n")
	if *outF == "" {
		fmt.Print(b.String())
		return
	}
	if err := os.WriteFile(*outF, []byte(b.String()), 0o644); err != nil {
		fmt.Fprintln(os.Stderr, "valuetab:", err)
		os.Exit(1)
	}
}
