// Correspondence harness for C16 (slice, mapx and pair helpers): calls every anchored function on
// the real code and writes one "op => observation" line per call.
//
//	slices -mode gen -tier quick|thorough -out ops.txt     (seed from VERIF_SEED)
//	slices -mode run -ops ops.txt -out trace.txt -stats stats.json
//
// A case is "new <i|s> <src> <dst>" (element type int or string; a slice is "nil", "-" (empty,
// non-nil) or "x,y,z"); every following line calls one function on FRESH copies of src/dst.  The
// copies carry two spare capacity slots filled with a sentinel, and the whole capacity window of
// both arguments is compared with its state before the call ("mut=").  Results that came out of a
// Go map are sorted.  Add (not a documented in-place function, but sharing the argument's array when there
// is spare capacity) reports the argument afterwards, its capacity window and the sharing on success too, and
// "add2" derives two results from ONE base slice.  The function families (predicates, equality functions, transformations) are
// mirrored by lean/Driver/Slices.lean.
package main

import (
	"encoding/json"
	"flag"
	"fmt"
	"os"
	"sort"
	"strconv"
	"strings"
	"unsafe"

	"github.com/ecodeclub/ekit/mapx"
	"github.com/ecodeclub/ekit/slice"
	"github.com/ecodeclub/ekit/tuple/pair"
	"github.com/ecodeclub/ekit/zzverif/vlib"
)

// ---------------------------------------------------------------------------------------------
// element types and their function families

type fam[T comparable] struct {
	ty       string
	parse    func(string) T
	render   func(T) string
	less     func(a, b T) bool
	sentinel T
	pred     func(w []string) func(T) bool
	eqv      func(w []string) func(a, b T) bool
	tf       func(w []string) func(int, T) T
	kf       func(w []string) func(T) T
}

func atoi(s string) int {
	v, err := strconv.Atoi(s)
	if err != nil {
		panic("bad int " + s)
	}
	return v
}

var intFam = &fam[int]{
	ty:       "i",
	parse:    atoi,
	render:   strconv.Itoa,
	less:     func(a, b int) bool { return a < b },
	sentinel: -9999,
	pred: func(w []string) func(int) bool {
		switch w[0] {
		case "eq":
			k := atoi(w[1])
			return func(x int) bool { return x == k }
		case "ne":
			k := atoi(w[1])
			return func(x int) bool { return x != k }
		case "lt":
			k := atoi(w[1])
			return func(x int) bool { return x < k }
		case "mod":
			m, r := atoi(w[1]), atoi(w[2])
			return func(x int) bool { return x%m == r }
		case "t":
			return func(int) bool { return true }
		case "f":
			return func(int) bool { return false }
		}
		return nil
	},
	eqv: func(w []string) func(a, b int) bool {
		switch w[0] {
		case "eq":
			return func(a, b int) bool { return a == b }
		case "mod":
			k := atoi(w[1])
			return func(a, b int) bool { return a%k == b%k }
		case "abs":
			return func(a, b int) bool { return a == b || a == -b }
		case "le":
			return func(a, b int) bool { return a <= b }
		case "t":
			return func(a, b int) bool { return true }
		case "f":
			return func(a, b int) bool { return false }
		}
		return nil
	},
	tf: func(w []string) func(int, int) int {
		switch w[0] {
		case "id":
			return func(_ int, x int) int { return x }
		case "addidx":
			return func(i int, x int) int { return x + i }
		case "dbl":
			return func(_ int, x int) int { return 2 * x }
		}
		return nil
	},
	kf: func(w []string) func(int) int {
		switch w[0] {
		case "id":
			return func(x int) int { return x }
		case "mod":
			k := atoi(w[1])
			return func(x int) int { return x % k }
		case "abs":
			return func(x int) int {
				if x < 0 {
					return -x
				}
				return x
			}
		case "const":
			return func(int) int { return 0 }
		case "dbl":
			return func(x int) int { return 2 * x }
		}
		return nil
	},
}

var strFam = &fam[string]{
	ty:       "s",
	parse:    func(s string) string { return s },
	render:   func(s string) string { return s },
	less:     func(a, b string) bool { return a < b },
	sentinel: "~",
	pred: func(w []string) func(string) bool {
		switch w[0] {
		case "eq":
			k := w[1]
			return func(x string) bool { return x == k }
		case "ne":
			k := w[1]
			return func(x string) bool { return x != k }
		case "lt":
			k := w[1]
			return func(x string) bool { return x < k }
		case "t":
			return func(string) bool { return true }
		case "f":
			return func(string) bool { return false }
		}
		return nil
	},
	eqv: func(w []string) func(a, b string) bool {
		switch w[0] {
		case "eq":
			return func(a, b string) bool { return a == b }
		case "grp":
			return func(a, b string) bool { return (a < "b") == (b < "b") }
		case "le":
			return func(a, b string) bool { return a <= b }
		case "t":
			return func(a, b string) bool { return true }
		case "f":
			return func(a, b string) bool { return false }
		}
		return nil
	},
	tf: func(w []string) func(int, string) string {
		switch w[0] {
		case "id":
			return func(_ int, x string) string { return x }
		case "addidx":
			return func(i int, x string) string { return x + strconv.Itoa(i) }
		case "dbl":
			return func(_ int, x string) string { return x + x }
		}
		return nil
	},
	kf: func(w []string) func(string) string {
		switch w[0] {
		case "id":
			return func(x string) string { return x }
		case "grp":
			return func(x string) string {
				if x < "b" {
					return "a"
				}
				return "b"
			}
		case "const":
			return func(string) string { return "k" }
		case "dbl":
			return func(x string) string { return x + x }
		}
		return nil
	},
}

func (f *fam[T]) ipred(w []string) func(int, T) bool {
	switch w[0] {
	case "ieven":
		return func(i int, _ T) bool { return i%2 == 0 }
	case "ilt":
		k := atoi(w[1])
		return func(i int, _ T) bool { return i < k }
	}
	p := f.pred(w)
	if p == nil {
		return nil
	}
	return func(_ int, x T) bool { return p(x) }
}

func (f *fam[T]) parseSlice(s string) []T {
	if s == "nil" {
		return nil
	}
	if s == "-" {
		return []T{}
	}
	parts := strings.Split(s, ",")
	out := make([]T, 0, len(parts))
	for _, p := range parts {
		out = append(out, f.parse(p))
	}
	return out
}

func (f *fam[T]) list(xs []T) string {
	if len(xs) == 0 {
		return "-"
	}
	var b strings.Builder
	for i, x := range xs {
		if i > 0 {
			b.WriteByte(',')
		}
		b.WriteString(f.render(x))
	}
	return b.String()
}

func (f *fam[T]) listNil(xs []T) string {
	if xs == nil {
		return "nil"
	}
	return f.list(xs)
}

func (f *fam[T]) sorted(xs []T) []T {
	out := append([]T{}, xs...)
	sort.SliceStable(out, func(i, j int) bool { return f.less(out[i], out[j]) })
	return out
}

func (f *fam[T]) pairs(ps []pair.Pair[T, T]) string {
	if len(ps) == 0 {
		return "-"
	}
	var b strings.Builder
	for i, p := range ps {
		if i > 0 {
			b.WriteByte(',')
		}
		b.WriteString(f.render(p.Key) + ":" + f.render(p.Value))
	}
	return b.String()
}

func (f *fam[T]) mapStr(m map[T]T) string {
	ps := make([]pair.Pair[T, T], 0, len(m))
	for k, v := range m {
		ps = append(ps, pair.Pair[T, T]{Key: k, Value: v})
	}
	sort.Slice(ps, func(i, j int) bool { return f.less(ps[i].Key, ps[j].Key) })
	return f.pairs(ps)
}

const spare = 2

// fresh copy with `extra` spare capacity slots holding the sentinel
func (f *fam[T]) fresh(orig []T, extra int) []T {
	if orig == nil {
		return nil
	}
	s := make([]T, len(orig), len(orig)+extra)
	copy(s, orig)
	full := s[:cap(s)]
	for i := len(orig); i < len(full); i++ {
		full[i] = f.sentinel
	}
	return s
}

// was the capacity window of a fresh(orig, extra) copy modified?
func (f *fam[T]) modified(s, orig []T, extra int) bool {
	if orig == nil {
		return s != nil
	}
	full := s[:cap(s)]
	if len(full) != len(orig)+extra {
		return true
	}
	for i, x := range full {
		if i < len(orig) {
			if x != orig[i] {
				return true
			}
		} else if x != f.sentinel {
			return true
		}
	}
	return false
}

// were the spare slots beyond len(s) of a fresh(orig, extra) copy written to?
func (f *fam[T]) tailTouched(s []T, extra int) bool {
	if s == nil {
		return false
	}
	full := s[:cap(s)]
	if len(full) != len(s)+extra {
		return true
	}
	for _, x := range full[len(s):] {
		if x != f.sentinel {
			return true
		}
	}
	return false
}

// do the backing arrays (whole capacity windows) of a and b share a slot?
func overlap[T any](a, b []T) bool {
	if cap(a) == 0 || cap(b) == 0 {
		return false
	}
	var z T
	sz := unsafe.Sizeof(z)
	if sz == 0 {
		return false
	}
	pa := uintptr(unsafe.Pointer(unsafe.SliceData(a)))
	pb := uintptr(unsafe.Pointer(unsafe.SliceData(b)))
	return pa < pb+uintptr(cap(b))*sz && pb < pa+uintptr(cap(a))*sz
}

func nn(isNil bool) string {
	if isNil {
		return "nn=0"
	}
	return "nn=1"
}

func b01(b bool) string {
	if b {
		return "1"
	}
	return "0"
}

func canonErr(err error) string { return vlib.Err(err) }

// kvProbe provokes, on the library itself, the error of one keys/values function: for nil arguments
// (nilArgs) or for non-nil arguments of lengths nk != nv.
type kvProbe func(nilArgs bool, nk, nv int) error

func probeToMap(nilArgs bool, nk, nv int) error {
	if nilArgs {
		_, err := mapx.ToMap[int, int](nil, nil)
		return err
	}
	_, err := mapx.ToMap(make([]int, nk), make([]int, nv))
	return err
}

func probeNewPairs(nilArgs bool, nk, nv int) error {
	if nilArgs {
		_, err := pair.NewPairs[int, int](nil, nil)
		return err
	}
	_, err := pair.NewPairs(make([]int, nk), make([]int, nv))
	return err
}

// canonKV classifies the error of mapx.ToMap / pair.NewPairs. Both build their two errors in place
// (no sentinel, no constructor), so the references come from the function itself: "err:nil" reads like
// the error it returns for nil arguments, "err:len" like the one it returns for two lengths that occur
// as integers in the message. The wording of the messages plays no role.
var kvCache = map[string]string{}

func canonKV(err error, name string, probe kvProbe) string {
	if err == nil {
		return "ok"
	}
	key := name + "\x00" + err.Error()
	if tok, ok := kvCache[key]; ok {
		return tok
	}
	tok := canonKV1(err, probe)
	kvCache[key] = tok
	return tok
}

func canonKV1(err error, probe kvProbe) string {
	if s := vlib.Err(err); s != "err:other" {
		return s
	}
	msg := err.Error()
	same := func(nilArgs bool, nk, nv int) (eq bool) {
		if p := vlib.Catch(func() {
			ref := probe(nilArgs, nk, nv)
			eq = ref != nil && ref.Error() == msg
		}); p != "" {
			return false
		}
		return eq
	}
	if same(true, 0, 0) {
		return "err:nil"
	}
	const maxProbeLen = 1 << 16
	if _, _, ok := vlib.MatchInts2(msg, func(a, b int64) string {
		if a < 0 || b < 0 || a == b || a > maxProbeLen || b > maxProbeLen || !same(false, int(a), int(b)) {
			return ""
		}
		return msg
	}); ok {
		return "err:len"
	}
	return "err:other"
}

func canonPanic(p string) string {
	switch {
	case strings.Contains(p, "index_out_of_range"):
		return "panic:index"
	case strings.Contains(p, "interface_conversion"):
		return "panic:type"
	case strings.Contains(p, "slice_bounds_out_of_range"):
		return "panic:bounds"
	}
	return "panic:other"
}

// ---------------------------------------------------------------------------------------------
// one call

func (f *fam[T]) call(w []string, osrc, odst []T) string {
	src, dst := f.fresh(osrc, spare), f.fresh(odst, spare)
	mut := func() string {
		return "mut=" + b01(f.modified(src, osrc, spare) || f.modified(dst, odst, spare))
	}
	sub := func(i int) []string { return strings.Split(w[i], ":") }
	// does the capacity window of a result overlap the capacity window of an argument?
	alias := func(r []T) string { return "alias=" + b01(overlap(r, src) || overlap(r, dst)) }
	set := func(r []T) string {
		return "ok:" + f.list(f.sorted(r)) + " " + nn(r == nil) + " " + mut() + " " + alias(r)
	}
	seq := func(r []T) string { return "ok:" + f.list(r) + " " + nn(r == nil) + " " + mut() + " " + alias(r) }
	boolean := func(b bool) string { return fmt.Sprintf("ok:%v %s", b, mut()) }
	integer := func(n int) string { return fmt.Sprintf("ok:%d %s", n, mut()) }
	switch w[0] {
	case "union":
		return set(slice.UnionSet(src, dst))
	case "unionf":
		return seq(slice.UnionSetFunc(src, dst, f.eqv(sub(1))))
	case "intersect":
		return set(slice.IntersectSet(src, dst))
	case "intersectf":
		return seq(slice.IntersectSetFunc(src, dst, f.eqv(sub(1))))
	case "diff":
		return set(slice.DiffSet(src, dst))
	case "difff":
		return seq(slice.DiffSetFunc(src, dst, f.eqv(sub(1))))
	case "symdiff":
		return set(slice.SymmetricDiffSet(src, dst))
	case "symdifff":
		return seq(slice.SymmetricDiffSetFunc(src, dst, f.eqv(sub(1))))
	case "containsany":
		return boolean(slice.ContainsAny(src, dst))
	case "containsanyf":
		return boolean(slice.ContainsAnyFunc(src, dst, f.eqv(sub(1))))
	case "containsall":
		return boolean(slice.ContainsAll(src, dst))
	case "containsallf":
		return boolean(slice.ContainsAllFunc(src, dst, f.eqv(sub(1))))
	case "contains":
		return boolean(slice.Contains(src, f.parse(w[1])))
	case "containsf":
		return boolean(slice.ContainsFunc(src, f.pred(sub(1))))
	case "index":
		return integer(slice.Index(src, f.parse(w[1])))
	case "indexf":
		return integer(slice.IndexFunc(src, f.pred(sub(1))))
	case "lastindex":
		return integer(slice.LastIndex(src, f.parse(w[1])))
	case "lastindexf":
		return integer(slice.LastIndexFunc(src, f.pred(sub(1))))
	case "indexall":
		r := slice.IndexAll(src, f.parse(w[1]))
		return "ok:" + vlib.Ints(r) + " " + nn(r == nil) + " " + mut()
	case "indexallf":
		r := slice.IndexAllFunc(src, f.pred(sub(1)))
		return "ok:" + vlib.Ints(r) + " " + nn(r == nil) + " " + mut()
	case "find":
		v, ok := slice.Find(src, f.pred(sub(1)))
		if !ok {
			return "none " + mut()
		}
		return "ok:" + f.render(v) + " " + mut()
	case "findall":
		return seq(slice.FindAll(src, f.pred(sub(1))))
	case "filtermap":
		t, p := f.tf(sub(1)), f.ipred(sub(2))
		return seq(slice.FilterMap(src, func(i int, x T) (T, bool) { return t(i, x), p(i, x) }))
	case "map":
		t := f.tf(sub(1))
		return seq(slice.Map(src, func(i int, x T) T { return t(i, x) }))
	case "reverse":
		return seq(slice.Reverse(src))
	case "reverseself":
		slice.ReverseSelf(src)
		return "ok arg=" + f.list(src) + " mutdst=" + b01(f.modified(dst, odst, spare)) + " tail=" + b01(f.tailTouched(src, spare))
	case "filterdelete":
		r := slice.FilterDelete(src, f.ipred(sub(1)))
		return "ok:" + f.list(r) + " arg=" + f.list(src) + " tail=" + b01(f.tailTouched(src, spare))
	case "add":
		extra := atoi(w[3])
		s := f.fresh(osrc, extra)
		r, err := slice.Add(s, f.parse(w[1]), atoi(w[2]))
		if err != nil {
			// a failing call must leave the whole capacity window (incl. the spare slots beyond len) alone
			return canonErr(err) + " " + nn(r == nil) + " arg=" + f.list(s) + " mut=" + b01(f.modified(s, osrc, extra))
		}
		// Add is not a documented in-place function: what is visible through the argument afterwards (arg=), whether
		// the whole capacity window of the argument is as it was (mut=) and whether the result lives in the argument's
		// backing array (alias=; only possible with spare capacity) are all part of the observation
		return "ok:" + f.list(r) + fmt.Sprintf(" cap=%d", cap(r)) + " arg=" + f.list(s) + " alias=" + b01(overlap(r, s)) +
			" mut=" + b01(f.modified(s, osrc, extra))
	case "add2":
		// two results derived from ONE base slice (the caller keeps using its slice after Add): the second call and a
		// re-read of the first result see whatever the first call left behind in the base
		extra := atoi(w[5])
		s := f.fresh(osrc, extra)
		r1, err := slice.Add(s, f.parse(w[1]), atoi(w[2]))
		if err != nil {
			return canonErr(err) + " " + nn(r1 == nil) + " arg=" + f.list(s) + " mut=" + b01(f.modified(s, osrc, extra))
		}
		first := "ok:" + f.list(r1) + fmt.Sprintf(" cap=%d", cap(r1)) + " alias=" + b01(overlap(r1, s)) + " arg1=" + f.list(s)
		r2, err := slice.Add(s, f.parse(w[3]), atoi(w[4]))
		second := ""
		if err != nil {
			second = " r2=" + canonErr(err) + " nn2=" + b01(r2 != nil)
		} else {
			second = " r2=ok:" + f.list(r2) + fmt.Sprintf(" cap2=%d", cap(r2)) + " alias2=" + b01(overlap(r2, s)) + " alias12=" + b01(overlap(r1, r2))
		}
		return first + second + " r1after=" + f.list(r1) + " arg=" + f.list(s)
	case "delete":
		s := f.fresh(osrc, spare)
		r, err := slice.Delete(s, atoi(w[1]))
		if err != nil {
			return canonErr(err) + " " + nn(r == nil) + " arg=" + f.list(s) + " mut=" + b01(f.modified(s, osrc, spare))
		}
		return "ok:" + f.list(r) + " arg=" + f.list(s) + " tail=" + b01(f.tailTouched(s, spare))
	case "tomap":
		m := slice.ToMap(src, f.kf(sub(1)))
		return "ok:" + f.mapStr(m) + " " + nn(m == nil) + " " + mut()
	case "tomapv":
		k, v := f.kf(sub(1)), f.kf(sub(2))
		m := slice.ToMapV(src, func(e T) (T, T) { return k(e), v(e) })
		return "ok:" + f.mapStr(m) + " " + nn(m == nil) + " " + mut()
	case "mx.tomap":
		m, err := mapx.ToMap(src, dst)
		if err != nil {
			return canonKV(err, "mapx.ToMap", probeToMap) + " " + mut()
		}
		return "ok:" + f.mapStr(m) + " " + nn(m == nil) + " " + mut()
	case "mx.keys", "mx.values", "mx.keysvalues", "mx.roundtrip":
		// the argument map is built here, not by the code under test
		var m map[T]T // nil map when both slices are nil
		if src != nil || dst != nil {
			m = make(map[T]T, len(src))
		}
		for i := range src {
			m[src[i]] = dst[i]
		}
		before := f.mapStr(m)
		var res string
		switch w[0] {
		case "mx.keys":
			r := mapx.Keys(m)
			res = "ok:" + f.list(f.sorted(r)) + " " + nn(r == nil)
		case "mx.values":
			r := mapx.Values(m)
			res = "ok:" + f.list(f.sorted(r)) + " " + nn(r == nil)
		case "mx.keysvalues":
			// the iteration order is random per call: call it several times and report the first
			// run whose index-aligned pairs are not the map's entries (otherwise the last run)
			for try := 0; try < 16; try++ {
				ks, vs := mapx.KeysValues(m)
				n := len(ks)
				if len(vs) < n {
					n = len(vs)
				}
				ps := make([]pair.Pair[T, T], n)
				for i := 0; i < n; i++ {
					ps[i] = pair.Pair[T, T]{Key: ks[i], Value: vs[i]}
				}
				sort.SliceStable(ps, func(i, j int) bool { return f.less(ps[i].Key, ps[j].Key) })
				res = "ok:" + f.pairs(ps) + fmt.Sprintf(" lk=%d lv=%d", len(ks), len(vs))
				if f.pairs(ps) != before || len(ks) != len(vs) {
					break
				}
			}
		case "mx.roundtrip":
			ks, vs := mapx.KeysValues(m)
			m2, err := mapx.ToMap(ks, vs)
			if err != nil {
				res = canonKV(err, "mapx.ToMap", probeToMap)
			} else {
				res = "ok:" + f.mapStr(m2)
			}
		}
		return res + " mut=" + b01(f.mapStr(m) != before)
	case "pr.new":
		ps, err := pair.NewPairs(src, dst)
		if err != nil {
			return canonKV(err, "pair.NewPairs", probeNewPairs) + " " + mut()
		}
		return "ok:" + f.pairs(ps) + " " + nn(ps == nil) + " " + mut()
	case "pr.split", "pr.flatten":
		var ps []pair.Pair[T, T]
		if src != nil {
			n := len(src)
			if len(dst) < n {
				n = len(dst)
			}
			ps = make([]pair.Pair[T, T], n, n+spare)
			for i := 0; i < n; i++ {
				ps[i] = pair.Pair[T, T]{Key: src[i], Value: dst[i]}
			}
		}
		before := append([]pair.Pair[T, T]{}, ps[:cap(ps)]...)
		same := func() string {
			after := ps[:cap(ps)]
			for i := range before {
				if before[i] != after[i] {
					return "mutp=1"
				}
			}
			return "mutp=0"
		}
		if w[0] == "pr.split" {
			ks, vs := pair.SplitPairs(ps)
			// NewPairs and SplitPairs are mutually inverse on every non-nil slice of pairs, the empty one included
			rt := "na"
			if ps != nil {
				rt = "err"
				if p := vlib.Catch(func() {
					if back, err := pair.NewPairs(ks, vs); err == nil && len(back) == len(ps) {
						rt = "ok"
						for i := range back {
							if back[i] != ps[i] {
								rt = "diff"
							}
						}
					}
				}); p != "" {
					rt = p
				}
			}
			return "ok k=" + f.listNil(ks) + " v=" + f.listNil(vs) + " " + same() + " rt=" + rt
		}
		flat := pair.FlattenPairs(ps)
		if flat == nil {
			return "ok:nil " + same()
		}
		if len(flat) == 0 {
			return "ok:- " + same()
		}
		toks := make([]string, len(flat))
		for i, x := range flat {
			toks[i] = dynTok(x)
		}
		return "ok:" + strings.Join(toks, ",") + " " + same()
	}
	panic("op " + w[0])
}

func dynTok(x any) string {
	switch v := x.(type) {
	case int:
		return "i:" + strconv.Itoa(v)
	case string:
		return "s:" + v
	case nil:
		return "n"
	}
	return "?"
}

func parseDyn(s string) []any {
	if s == "nil" {
		return nil
	}
	if s == "-" {
		return []any{}
	}
	parts := strings.Split(s, ",")
	out := make([]any, len(parts), len(parts)+spare)
	for i, p := range parts {
		switch {
		case strings.HasPrefix(p, "i:"):
			out[i] = atoi(p[2:])
		case strings.HasPrefix(p, "s:"):
			out[i] = p[2:]
		default:
			out[i] = nil
		}
	}
	full := out[:cap(out)]
	for i := len(out); i < len(full); i++ {
		full[i] = "~spare"
	}
	return out
}

func packStr[K any, V any](flat []any, rk func(K) string, rv func(V) string) string {
	before := append([]any{}, flat[:cap(flat)]...)
	ps := pair.PackPairs[K, V](flat)
	mut := "mut=0"
	after := flat[:cap(flat)]
	for i := range before {
		if before[i] != after[i] {
			mut = "mut=1"
		}
	}
	if ps == nil {
		return "ok:nil " + mut
	}
	if len(ps) == 0 {
		return "ok:- " + mut
	}
	toks := make([]string, len(ps))
	for i, p := range ps {
		toks[i] = rk(p.Key) + ":" + rv(p.Value)
	}
	return "ok:" + strings.Join(toks, ",") + " " + mut
}

func callPack(kt, vt, flatS string) string {
	flat := parseDyn(flatS)
	ri := strconv.Itoa
	rs := func(s string) string { return s }
	switch kt + vt {
	case "ii":
		return packStr[int, int](flat, ri, ri)
	case "is":
		return packStr[int, string](flat, ri, rs)
	case "si":
		return packStr[string, int](flat, rs, ri)
	case "ss":
		return packStr[string, string](flat, rs, rs)
	}
	panic("pack types")
}

func callInts(w []string, osrc []int) string {
	f := intFam
	src := f.fresh(osrc, spare)
	var r int
	switch w[0] {
	case "max":
		r = slice.Max(src)
	case "min":
		r = slice.Min(src)
	case "sum":
		r = slice.Sum(src)
	}
	return fmt.Sprintf("ok:%d mut=%s", r, b01(f.modified(src, osrc, spare)))
}

// ---------------------------------------------------------------------------------------------
// run mode

type stats struct {
	Ops      map[string]int `json:"ops"`
	Results  map[string]int `json:"results"`
	Types    map[string]int `json:"types"`
	SrcLen   map[string]int `json:"src_len"`
	NilArgs  int            `json:"nil_args"`
	Cases    int            `json:"cases"`
	Lines    int            `json:"lines"`
	Distinct int            `json:"distinct_state_op_pairs"`
}

func run(ops []string, out *vlib.Out, st *stats) {
	ty, srcS, dstS := "", "", ""
	seen := map[string]struct{}{}
	for _, line := range ops {
		w := strings.Fields(line)
		st.Lines++
		st.Ops[w[0]]++
		if w[0] == "new" {
			st.Cases++
			ty, srcS, dstS = w[1], w[2], w[3]
			st.Types[ty]++
			if srcS == "nil" || dstS == "nil" {
				st.NilArgs++
			}
			n := 0
			if srcS != "nil" && srcS != "-" {
				n = strings.Count(srcS, ",") + 1
			}
			st.SrcLen[strconv.Itoa(n)]++
			out.Line("%s => ok", line)
			continue
		}
		var res string
		p := vlib.Catch(func() {
			switch {
			case w[0] == "pr.pack":
				res = callPack(w[1], w[2], w[3])
			case ty == "":
				res = "no-case"
			case ty == "i" && (w[0] == "max" || w[0] == "min" || w[0] == "sum"):
				res = callInts(w, intFam.parseSlice(srcS))
			case ty == "i":
				res = intFam.call(w, intFam.parseSlice(srcS), intFam.parseSlice(dstS))
			default:
				res = strFam.call(w, strFam.parseSlice(srcS), strFam.parseSlice(dstS))
			}
		})
		if p != "" {
			res = canonPanic(p)
		}
		rk := strings.Fields(res)[0]
		if i := strings.IndexByte(rk, ':'); i > 0 {
			if strings.HasPrefix(rk, "ok:") {
				rk = "ok"
			} else if strings.HasPrefix(rk, "err:idx") {
				rk = "err:idx"
			}
		}
		st.Results[w[0]+"/"+rk]++
		// distinct (arguments, call) pairs that produced something other than an empty/false/-1 result
		if !(strings.HasPrefix(res, "ok:- ") || strings.HasPrefix(res, "ok:false") || strings.HasPrefix(res, "ok:-1 ") || strings.HasPrefix(res, "none")) {
			seen[ty+"|"+srcS+"|"+dstS+"|"+line] = struct{}{}
		}
		out.Line("%s => %s", line, res)
	}
	st.Distinct = len(seen)
}

// ---------------------------------------------------------------------------------------------
// gen mode

// all slices over the alphabet up to length n, shortest first
func allSlices(alpha []string, n int) []string {
	out := []string{"-"}
	level := []string{""}
	for l := 1; l <= n; l++ {
		var next []string
		for _, p := range level {
			for _, a := range alpha {
				s := a
				if p != "" {
					s = p + "," + a
				}
				next = append(next, s)
			}
		}
		out = append(out, next...)
		level = next
	}
	return out
}

func lenOf(s string) int {
	if s == "nil" || s == "-" {
		return 0
	}
	return strings.Count(s, ",") + 1
}

var binOps = []string{"union", "intersect", "diff", "symdiff", "containsany", "containsall"}
var binFuncOps = []string{"unionf", "intersectf", "difff", "symdifff", "containsanyf", "containsallf"}

func genBinary(out *vlib.Out, eqvs []string) {
	for _, o := range binOps {
		out.Line("%s", o)
	}
	for _, o := range binFuncOps {
		for _, e := range eqvs {
			out.Line("%s %s", o, e)
		}
	}
}

func genKV(out *vlib.Out, src, dst string) {
	out.Line("mx.tomap")
	out.Line("pr.new")
	if lenOf(src) == lenOf(dst) && (src == "nil") == (dst == "nil") {
		out.Line("mx.keys")
		out.Line("mx.values")
		out.Line("mx.keysvalues")
		out.Line("mx.roundtrip")
	}
	if src == "nil" || (dst != "nil" && lenOf(src) == lenOf(dst)) {
		out.Line("pr.split")
		out.Line("pr.flatten")
	}
}

// every unary function on src: all probes, all indices in [-1, len+1], the predicate family
func genUnary(out *vlib.Out, src string, probes, preds, ipreds, tfs, kfs []string, newElem string) {
	n := lenOf(src)
	for _, x := range probes {
		out.Line("contains %s", x)
		out.Line("index %s", x)
		out.Line("lastindex %s", x)
		out.Line("indexall %s", x)
	}
	for _, p := range preds {
		out.Line("containsf %s", p)
		out.Line("indexf %s", p)
		out.Line("lastindexf %s", p)
		out.Line("indexallf %s", p)
		out.Line("find %s", p)
		out.Line("findall %s", p)
	}
	for _, t := range tfs {
		out.Line("map %s", t)
		for _, p := range ipreds {
			out.Line("filtermap %s %s", t, p)
		}
	}
	for _, p := range ipreds {
		out.Line("filterdelete %s", p)
	}
	out.Line("reverse")
	out.Line("reverseself")
	for i := -1; i <= n+1; i++ {
		out.Line("delete %d", i)
		for _, extra := range []int{0, 1, 2} {
			out.Line("add %s %d %d", newElem, i, extra)
		}
	}
	// two Adds from the same base: every pair of indices (and every amount of spare capacity) for the short slices,
	// the boundary and middle indices otherwise
	is, js, extras := []int{0, n / 2, n}, []int{-1, 0, n / 2, n, n + 1}, []int{0, 1}
	if n <= 3 {
		is, js, extras = nil, nil, []int{0, 1, 2}
		for i := 0; i <= n; i++ {
			is = append(is, i)
		}
		for j := -1; j <= n+1; j++ {
			js = append(js, j)
		}
	}
	for _, i := range is {
		for _, j := range js {
			for _, extra := range extras {
				out.Line("add2 %s %d %s %d %d", newElem, i, probes[0], j, extra)
			}
		}
	}
	for _, k := range kfs {
		out.Line("tomap %s", k)
		for _, v := range kfs {
			out.Line("tomapv %s %s", k, v)
		}
	}
}

func gen(tier string, out *vlib.Out) {
	r := vlib.NewRng(vlib.Seed())
	maxLen, randCases := 3, 800
	if tier == "thorough" {
		maxLen, randCases = 4, 8000
	}
	sEqv := []string{"eq", "grp"}
	sPreds := []string{"eq:b", "ne:a", "lt:b", "lt:c", "t", "f"}
	sIpreds := []string{"ieven", "ilt:1", "ilt:2", "eq:a", "ne:b", "t", "f"}
	tfs := []string{"id", "addidx", "dbl"}
	sKfs := []string{"id", "grp", "const"}
	iEqv := []string{"eq", "mod:2", "mod:3", "abs", "t", "le", "f"}
	iPreds := []string{"eq:1", "eq:0", "ne:2", "lt:1", "lt:0", "mod:2:0", "mod:3:1", "mod:2:-1", "t", "f"}
	iIpreds := []string{"ieven", "ilt:1", "ilt:3", "eq:1", "lt:0", "mod:2:0", "t", "f"}
	iKfs := []string{"id", "mod:2", "mod:3", "abs", "const", "dbl"}

	// ---- corpus: nil / empty / duplicate shapes on every function ----------------------------
	corpus := [][2]string{
		{"nil", "nil"}, {"nil", "-"}, {"-", "nil"}, {"-", "-"}, {"nil", "a"}, {"a", "nil"}, {"a,a", "nil"},
		{"nil", "a,b,a"}, {"a,b,a", "b,b"}, {"a,a,a", "a"}, {"c,b,a", "a,b,c"}, {"a,b", "c"},
	}
	for _, c := range corpus {
		out.Line("new s %s %s", c[0], c[1])
		genBinary(out, []string{"eq", "grp", "le", "t", "f"})
		genKV(out, c[0], c[1])
		genUnary(out, c[0], []string{"a", "b", "d"}, sPreds, sIpreds, tfs, sKfs, "d")
	}
	icorpus := [][2]string{
		{"nil", "nil"}, {"-", "-"}, {"nil", "1"}, {"1", "nil"}, {"1,2,1", "2,2"}, {"0,0,0", "0"}, {"-1,1,-1", "1"},
		{"3,-2,2,-3,3", "2,5"}, {"1,2,3,4,5,6,7,8,9", "9,8,7"},
	}
	for _, c := range icorpus {
		out.Line("new i %s %s", c[0], c[1])
		genBinary(out, iEqv)
		genKV(out, c[0], c[1])
		genUnary(out, c[0], []string{"1", "0", "-1", "7"}, iPreds, iIpreds, tfs, iKfs, "7")
		out.Line("max")
		out.Line("min")
		out.Line("sum")
	}

	// ---- corpus: zero keys bound to zero / non-zero values (mapx.ToMap, pairs: equal lengths), and the
	// extreme ints. Only overflow-free calls on the extremes (the models of Sum / dbl / addidx are over
	// unbounded integers): every partial sum below stays inside int64, the transformations are `id`.
	for _, c := range [][2]string{{"0,1,0", "0,0,1"}, {"0", "0"}, {"0,0", "1,0"}, {"1,0,-1", "0,0,0"}} {
		out.Line("new i %s %s", c[0], c[1])
		genBinary(out, iEqv)
		genKV(out, c[0], c[1])
		genUnary(out, c[0], []string{"0", "1"}, iPreds, iIpreds, tfs, iKfs, "0")
		out.Line("max")
		out.Line("min")
		out.Line("sum")
	}
	const maxI, minI = "9223372036854775807", "-9223372036854775808"
	for _, c := range [][2]string{{maxI + "," + minI + ",0", minI + ",0"}, {minI + "," + maxI, maxI + "," + maxI}, {minI, "0"}, {maxI, minI},
		{maxI + ",-1,1", "1,0," + minI}, {"-1," + maxI, minI + ",1"}, {"0," + minI, "0," + maxI}, {minI + ",1", "1," + minI}} {
		out.Line("new i %s %s", c[0], c[1])
		genBinary(out, []string{"eq", "le", "t", "f"})
		genKV(out, c[0], c[1])
		genUnary(out, c[0], []string{maxI, minI, "0"}, []string{"eq:" + maxI, "eq:" + minI, "ne:" + minI, "lt:" + minI, "lt:" + maxI, "lt:0", "t", "f"},
			[]string{"ieven", "ilt:1", "eq:" + minI, "lt:0", "t", "f"}, []string{"id"}, []string{"id", "const"}, minI)
		out.Line("max")
		out.Line("min")
		out.Line("sum")
	}

	// ---- exhaustive: all pairs of slices over {a,b,c} up to maxLen, the binary functions -------
	all := allSlices([]string{"a", "b", "c"}, maxLen)
	for _, s := range all {
		for _, d := range all {
			out.Line("new s %s %s", s, d)
			genBinary(out, sEqv)
			genKV(out, s, d)
		}
	}
	// ---- exhaustive: every slice, every unary function, every index in [-1, len+1] ------------
	for _, s := range all {
		out.Line("new s %s -", s)
		genUnary(out, s, []string{"a", "b", "c", "d"}, sPreds, sIpreds, tfs, sKfs, "d")
	}
	// the same shapes over ints {0,1,2} for the numeric families and the aggregates
	alli := allSlices([]string{"0", "1", "-1"}, maxLen)
	for _, s := range alli {
		out.Line("new i %s -", s)
		genUnary(out, s, []string{"0", "1", "-1", "2"}, iPreds, iIpreds, tfs, iKfs, "5")
		out.Line("max")
		out.Line("min")
		out.Line("sum")
	}
	// ---- PackPairs: every flat list over {int, string, untyped nil} up to length 4 ------------
	dyn := append([]string{"nil"}, allSlices([]string{"i:1", "s:a", "n"}, 4)...)
	out.Line("new i - -")
	for _, fl := range dyn {
		for _, kv := range []string{"i s", "i i", "s i", "s s"} {
			out.Line("pr.pack %s %s", kv, fl)
		}
	}
	out.Line("pr.pack i s i:1,s:a,i:2,s:b,i:3,s:c,i:4")
	out.Line("pr.pack s i s:x,i:-5,s:y,i:0")
	// well-typed flat lists of every length 1..9 (odd lengths: the trailing element is ignored)
	for _, kv := range []string{"i s", "i i", "s i", "s s"} {
		for n := 1; n <= 9; n++ {
			toks := make([]string, n)
			for i := range toks {
				t := kv[0]
				if i%2 == 1 {
					t = kv[2]
				}
				if t == 'i' {
					toks[i] = fmt.Sprintf("i:%d", r.Range(-9, 9))
				} else {
					toks[i] = "s:" + string("abcde"[r.Intn(5)])
				}
			}
			out.Line("pr.pack %s %s", kv, strings.Join(toks, ","))
		}
	}

	// ---- random int and string slices ---------------------------------------------------------
	for c := 0; c < randCases; c++ {
		isInt := r.Chance(60)
		uni := vlib.Pick(r, []int{2, 4, 9, 60})
		maxN := vlib.Pick(r, []int{3, 6, 12, 12, 30})
		mkTok := func() string {
			if isInt {
				return strconv.Itoa(r.Range(-uni/2, uni-uni/2))
			}
			letters := "abcde"
			if uni > 5 {
				n := r.Range(1, 2)
				b := make([]byte, n)
				for i := range b {
					b[i] = letters[r.Intn(5)]
				}
				return string(b)
			}
			return string(letters[r.Intn(uni)])
		}
		mkSlice := func(n int) string {
			if r.Chance(4) {
				return "nil"
			}
			if n == 0 {
				return "-"
			}
			toks := make([]string, n)
			for i := range toks {
				toks[i] = mkTok()
			}
			return strings.Join(toks, ",")
		}
		n := r.Range(0, maxN)
		m := r.Range(0, maxN)
		if r.Chance(40) {
			m = n
		}
		src, dst := mkSlice(n), mkSlice(m)
		if isInt {
			out.Line("new i %s %s", src, dst)
			genBinary(out, []string{vlib.Pick(r, iEqv), vlib.Pick(r, iEqv), "eq"})
			genKV(out, src, dst)
			probes := []string{mkTok(), mkTok()}
			preds := []string{vlib.Pick(r, iPreds), fmt.Sprintf("eq:%s", mkTok()), fmt.Sprintf("lt:%s", mkTok()),
				fmt.Sprintf("mod:%d:%d", vlib.Pick(r, []int{2, 3, -2, 5}), r.Range(-1, 2))}
			ipreds := []string{vlib.Pick(r, iIpreds), fmt.Sprintf("ilt:%d", r.Range(0, n+1)), preds[3]}
			genUnary(out, src, probes, preds, ipreds, []string{vlib.Pick(r, tfs)}, []string{vlib.Pick(r, iKfs), vlib.Pick(r, iKfs)}, mkTok())
			out.Line("max")
			out.Line("min")
			out.Line("sum")
		} else {
			out.Line("new s %s %s", src, dst)
			genBinary(out, []string{vlib.Pick(r, []string{"eq", "grp", "le", "t", "f"}), "eq"})
			genKV(out, src, dst)
			probes := []string{mkTok(), mkTok()}
			preds := []string{vlib.Pick(r, sPreds), "eq:" + mkTok(), "lt:" + mkTok(), "ne:" + mkTok()}
			ipreds := []string{vlib.Pick(r, sIpreds), fmt.Sprintf("ilt:%d", r.Range(0, n+1)), preds[2]}
			genUnary(out, src, probes, preds, ipreds, []string{vlib.Pick(r, tfs)}, []string{vlib.Pick(r, sKfs), vlib.Pick(r, sKfs)}, mkTok())
		}
	}
}

func main() {
	mode := flag.String("mode", "gen", "gen|run")
	tier := flag.String("tier", "quick", "quick|thorough")
	opsF := flag.String("ops", "", "ops file (run mode)")
	outF := flag.String("out", "", "output file")
	statsF := flag.String("stats", "", "stats json (run mode)")
	flag.Parse()
	out := vlib.Create(*outF)
	defer out.Close()
	switch *mode {
	case "gen":
		gen(*tier, out)
	case "run":
		st := &stats{Ops: map[string]int{}, Results: map[string]int{}, Types: map[string]int{}, SrcLen: map[string]int{}}
		run(vlib.ReadLines(*opsF), out, st)
		if *statsF != "" {
			b, _ := json.MarshalIndent(st, "", " ")
			os.WriteFile(*statsF, b, 0o644)
		}
	}
}
